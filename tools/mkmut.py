#!/usr/bin/env python3
"""usage: mkmut.py <name> <repo-relative-file> <old> <new>   (old must occur exactly once)
Writes /verif/mutants/<name>.diff (patch -p1 format) without touching /repo."""
import sys, subprocess, os, tempfile
name, rel, old, new = sys.argv[1:5]
src = open(os.path.join('/repo', rel)).read()
if src.count(old) != 1:
    sys.exit(f"old text occurs {src.count(old)} times in {rel}")
out = src.replace(old, new)
with tempfile.NamedTemporaryFile('w', suffix='.go', delete=False) as f:
    f.write(out); tmp = f.name
d = subprocess.run(['diff', '-u', '--label', 'a/'+rel, '--label', 'b/'+rel, os.path.join('/repo', rel), tmp], capture_output=True, text=True).stdout
os.unlink(tmp)
p = f'/verif/mutants/{name}.diff'
mode = 'a' if os.path.exists(p) and os.environ.get('APPEND') else 'w'
open(p, mode).write(d)
print(p)

#!/usr/bin/env python3
"""Regenerates the generated parts of DESIGN.md: the list of fixes (from known_findings.json)
and the seeded-change table (from seeded/*/meta.json)."""
import json, os, glob, re
ROOT = os.path.dirname(os.path.dirname(os.path.abspath(__file__)))
s = open(os.path.join(ROOT, "DESIGN.md")).read()
k = json.load(open(os.path.join(ROOT, "known_findings.json")))
fixes = "\n".join("* " + f[len("fixed: "):] if f.startswith("fixed: ") else "* " + f for f in k["fixed"])
rows = ["| seeded change | confirmed | reported by | first report / why not |", "|---|---|---|---|"]
def sk(p):
    m = re.match(r".*/(C\d+)_(\d+)$", p)
    return (m.group(1), int(m.group(2)))
for d in sorted(glob.glob(os.path.join(ROOT, "seeded", "C*_*")), key=sk):
    mp = os.path.join(d, "meta.json")
    if not os.path.exists(mp):
        continue
    m = json.load(open(mp))
    caught = m.get("caught_by") or []
    first = ""
    if caught:
        own = m["property"] if m["property"] in caught else caught[0]
        v = (m.get("checks", {}).get(own, {}).get("violations") or [""])[0]
        mm = re.match(r"violated (R[\d.b]+) (.*?) @", v)
        first = (own + " " + mm.group(1) + ": " + v.split(": ", 1)[1][:160]) if mm and ": " in v else v[:180]
    else:
        first = m.get("verdict_note", "not reported")
    conf = "yes" if m.get("confirmed") else ("yes*" if m.get("confirmed_note") else "no")
    rows.append("| %s | %s | %s | %s |" % (os.path.basename(d), conf, ", ".join(caught) or "-", first.replace("|", "/").replace("\n", " ")))
def put(s, tag, body):
    a = s.index("<!-- BEGIN %s -->" % tag) + len("<!-- BEGIN %s -->" % tag)
    b = s.index("<!-- END %s -->" % tag)
    return s[:a] + "\n" + body + "\n" + s[b:]
s = put(s, "fixes", fixes)
s = put(s, "seeded", "\n".join(rows))
open(os.path.join(ROOT, "DESIGN.md"), "w").write(s)
print("fixes:", len(k["fixed"]), "seeded rows:", len(rows) - 2)

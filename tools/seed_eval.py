#!/usr/bin/env python3
"""Evaluate independently seeded changes (written by sub-agents that saw only the property text).

usage: seed_eval.py <seed_out_dir> <PROP> [k ...]

For each change<k>.diff in <seed_out_dir>:
 1. confirm it in a scratch git worktree of /repo (outside /repo and /verif): applies at HEAD,
    builds, the existing suite still passes (except the 5 always-failing network tests), the
    demonstration FAILS with the change and PASSES without it;
 2. run every registered property check (static, on a scratch copy with the change applied) and
    record which ones report a VIOLATION;
 3. store it under /verif/seeded/<PROP>_<k>/ (patch.diff, demo file, demo.txt, meta.json).
Scratch worktrees/copies are removed afterwards.
"""
import sys, os, re, json, subprocess, tempfile, shutil, glob
from concurrent.futures import ThreadPoolExecutor

ROOT = "/verif"
ENV = dict(os.environ)
ENV.update({"PATH": "/opt/veriftools/go1.26.8/bin:" + ENV.get("PATH", ""), "GOTOOLCHAIN": "local",
            "GOFLAGS": "-mod=mod", "GOPROXY": "off", "GOSUMDB": "off"})
ENV.pop("GOWORK", None)
NETWORK = {"TestDownloadMagnet", "TestDownloadTorrent", "TestDownloadWebseed", "TestTorrentDir", "TestTorrentFiles"}


def sh(cmd, cwd=None, timeout=900, env=ENV):
    try:
        p = subprocess.run(cmd, cwd=cwd, env=env, capture_output=True, text=True, timeout=timeout, shell=isinstance(cmd, str))
        return p.returncode, p.stdout + p.stderr
    except subprocess.TimeoutExpired as e:
        return 124, "TIMEOUT\n" + (e.stdout or "") if isinstance(e.stdout, str) else "TIMEOUT"


def demo_info(txt, k, out_dir):
    """returns (place_path, run_pattern, pkg)"""
    m = re.search(r"([\w./-]+_test\.go)", re.sub(r"demo%s_test\.go" % k, "", txt, count=0))
    place = None
    txt = re.sub(r"<repo>/|<worktree>/|\$REPO/", "", txt)
    for cand in re.findall(r"([\w./-]+/[\w.-]+_test\.go)", txt):
        if not cand.startswith("/"):
            place = cand
            break
    run = re.search(r"-run\s+'?\"?([^'\"\s]+)", txt)
    pkg = re.search(r"go test[^\n]*?(\./[\w./-]+/?)\s*(?:2>&1|$|\n|\|)", txt)
    return place, (run.group(1) if run else None), (pkg.group(1) if pkg else None)


def suite_ok(wt):
    rc, out = sh(["go", "test", "-json", "-vet=off", "-count=1", "-timeout", "20m", "./..."], cwd=wt, timeout=1500)
    failed = set()
    for l in out.splitlines():
        try:
            e = json.loads(l)
        except Exception:
            continue
        if e.get("Action") == "fail" and e.get("Test"):
            failed.add(e["Test"].split("/")[0])
    failed -= NETWORK
    # timing-sensitive tests (e.g. piececache TestTTL) flake when the machine is loaded:
    # a failure counts only if it repeats when the test is run alone
    real = set()
    for t in sorted(failed):
        fails = 0
        for _ in range(3):
            rc2, out2 = sh(["go", "test", "-vet=off", "-count=1", "-run", "^" + t + "$", "./..."], cwd=wt, timeout=900)
            if rc2 != 0 and "--- FAIL: " + t in out2:
                fails += 1
            else:
                break
        if fails == 3:
            real.add(t)
    return real


def run_checks(patch, props):
    tmp = tempfile.mkdtemp(prefix="rainseed.")
    try:
        subprocess.check_call(["rsync", "-a", "--exclude", ".git", "/repo/", tmp + "/"])
        rc, o = sh(["patch", "-p1", "-s", "--no-backup-if-mismatch", "-i", patch], cwd=tmp)
        base = None
        if rc != 0:
            # the change was written against an earlier commit (a later fix: commit touched the same
            # lines): evaluate it on the newest commit it applies to
            _, log = sh(["git", "-C", "/repo", "log", "--format=%h", "-60"])
            for h in log.split():
                shutil.rmtree(tmp, ignore_errors=True)
                os.makedirs(tmp)
                subprocess.check_call("git -C /repo archive %s | tar -x -C %s" % (h, tmp), shell=True)
                rc, o = sh(["patch", "-p1", "-s", "--no-backup-if-mismatch", "-i", patch], cwd=tmp)
                if rc == 0:
                    base = h
                    break
            if rc != 0:
                return {"error": "patch does not apply: " + o[:200]}

        rc, out = sh([ROOT + "/bin/rainlint", "-prop", ",".join(props), "-repo", tmp, "-verif", ROOT, "-no-evidence"], timeout=1200)
        res = {}
        cur = None
        for l in out.splitlines():
            m = re.match(r"PROP (C\d+) exit=(\d+)", l)
            if m:
                cur = m.group(1)
                res[cur] = {"exit": int(m.group(2)), "violations": []}
            elif cur and l.startswith("  violated") and len(res[cur]["violations"]) < 4:
                res[cur]["violations"].append(re.sub(r"/tmp/rainseed\.[^/]+/", "", l.strip())[:400])
        if not res:
            return {"error": out[-400:]}
        if base:
            res["_evaluated_on_commit"] = base
        return res
    finally:
        shutil.rmtree(tmp, ignore_errors=True)


def main():
    out_dir, prop = sys.argv[1], sys.argv[2]
    ks = sys.argv[3:] or sorted(re.findall(r"change(\d+)\.diff", " ".join(os.listdir(out_dir))))
    props = sorted(json.load(open(ROOT + "/tools/manifest_src.json"))["checks"].keys())
    for k in ks:
        patch = os.path.join(out_dir, "change%s.diff" % k)
        demo_txt = open(os.path.join(out_dir, "demo%s.txt" % k)).read() if os.path.exists(os.path.join(out_dir, "demo%s.txt" % k)) else ""
        demo_file = os.path.join(out_dir, "demo%s_test.go" % k)
        place, runpat, pkg = demo_info(demo_txt, k, out_dir)
        meta = {"property": prop, "change": os.path.basename(patch), "demo_placed_at": place, "demo_run": runpat, "demo_pkg": pkg}
        wt = tempfile.mkdtemp(prefix="rainconfirm.")
        os.rmdir(wt)
        try:
            subprocess.check_call(["git", "-C", "/repo", "worktree", "add", "--detach", "-q", wt, "HEAD"])
            # a change written against an earlier commit (a later fix: commit touched the same lines)
            # is confirmed on the newest commit it applies to
            rc_chk, _ = sh(["git", "apply", "--check", patch], cwd=wt)
            if rc_chk != 0:
                _, log = sh(["git", "-C", "/repo", "log", "--format=%h", "-60"])
                for h in log.split()[1:]:
                    sh(["git", "checkout", "-q", "--detach", h], cwd=wt)
                    rc_chk, _ = sh(["git", "apply", "--check", patch], cwd=wt)
                    if rc_chk == 0:
                        meta["confirmed_on_commit"] = h
                        break
            # demonstration without the change
            if place and os.path.exists(demo_file):
                os.makedirs(os.path.dirname(os.path.join(wt, place)), exist_ok=True)
                shutil.copy(demo_file, os.path.join(wt, place))
            race = ["-race"] if re.search(r"go test[^\n]*\s-race\b", demo_txt) else []
            demo_cmd = ["go", "test"] + race + ["-vet=off", "-count=1", "-timeout", "180s"] + (["-run", runpat] if runpat else []) + [pkg or "./" + os.path.dirname(place or "torrent/x") + "/"]
            rc0, o0 = sh(demo_cmd, cwd=wt, timeout=400)
            meta["demo_without_change"] = "PASS" if rc0 == 0 else "FAIL(rc=%d)" % rc0
            rc, o = sh(["git", "apply", patch], cwd=wt)
            meta["applies"] = rc == 0
            if rc != 0:
                meta["apply_error"] = o[:300]
            rcb, ob = sh(["go", "build", "./..."], cwd=wt)
            meta["builds"] = rcb == 0
            rc1, o1 = sh(demo_cmd, cwd=wt, timeout=400)
            meta["demo_with_change"] = "PASS" if rc1 == 0 else "FAIL(rc=%d)" % rc1
            meta["demo_fail_excerpt"] = "\n".join([l for l in o1.splitlines() if re.search(r"VIOLAT|--- FAIL|panic|Error Trace|Error:", l)][:6])[:800]
            # existing suite with the change, demo removed
            if place:
                try:
                    os.remove(os.path.join(wt, place))
                except OSError:
                    pass
            bad = suite_ok(wt)
            meta["existing_tests_failing_with_change"] = sorted(bad)
        finally:
            subprocess.call(["git", "-C", "/repo", "worktree", "remove", "--force", wt])
            shutil.rmtree(wt, ignore_errors=True)
        meta["confirmed"] = bool(meta.get("applies") and meta.get("builds") and meta["demo_without_change"] == "PASS"
                                 and meta["demo_with_change"].startswith("FAIL") and not meta["existing_tests_failing_with_change"])
        checks = run_checks(patch, props)
        meta["checks"] = checks
        caught = sorted(p for p, r in checks.items() if isinstance(r, dict) and r.get("exit") == 1)
        meta["caught_by"] = caught
        meta["broken_checks"] = sorted(p for p, r in checks.items() if isinstance(r, dict) and r.get("exit") not in (0, 1))
        d = os.path.join(ROOT, "seeded", "%s_%d" % (prop, int(k) + int(os.environ.get("SEED_OFFSET", "0"))))
        os.makedirs(d, exist_ok=True)
        shutil.copy(patch, os.path.join(d, "patch.diff"))
        if os.path.exists(demo_file):
            shutil.copy(demo_file, os.path.join(d, os.path.basename(demo_file)))
        if demo_txt:
            open(os.path.join(d, "demo.txt"), "w").write(demo_txt)
        notes = os.path.join(out_dir, "notes.md")
        if os.path.exists(notes):
            shutil.copy(notes, os.path.join(d, "notes_from_author.md"))
        meta["what_i_ran"] = "tools/seed_eval.py: git worktree of /repo HEAD; demo without/with change; go build; full go test suite with change; all rainlint property checks on a scratch copy with the change applied"
        json.dump(meta, open(os.path.join(d, "meta.json"), "w"), indent=1)
        print("%s_%s(+off) confirmed=%s demo(without/with)=%s/%s suite_bad=%s caught_by=%s broken=%s" % (
            prop, k, meta["confirmed"], meta["demo_without_change"], meta["demo_with_change"],
            meta["existing_tests_failing_with_change"], caught, meta["broken_checks"]))
        for p in caught:
            print("    %s: %s" % (p, checks[p]["violations"][0][:220] if checks[p]["violations"] else ""))


if __name__ == "__main__":
    main()

#!/bin/sh
# usage: tools/all.sh [quick|thorough] [jobs]   -- runs every registered check, prints one summary line each
cd "$(dirname "$0")/.." || exit 2
tier="${1:-quick}"; jobs="${2:-4}"
export PATH=/opt/veriftools/go1.26.8/bin:$PATH GOTOOLCHAIN=local GOFLAGS=-mod=mod GOPROXY=off GOSUMDB=off CGO_ENABLED=0
(cd checker && go build -o ../bin/.rainlint.all ./cmd/rainlint && mv -f ../bin/.rainlint.all ../bin/rainlint) || exit 2
python3 -c "import json;print('\n'.join(sorted(json.load(open('tools/manifest_src.json'))['checks'])))" | \
  xargs -P "$jobs" -I{} sh -c 'out=$(bin/rainlint -prop {} -tier '"$tier"' 2>&1); rc=$?; echo "{} exit=$rc $(echo "$out" | grep -c KNOWN-FINDING) known | $(echo "$out" | grep "^rainlint" | sed "s/.*obligations=/obligations=/" | cut -c1-110)"; echo "$out" | grep -E "^  (violated|undecided|instance)|BROKEN" | cut -c1-260' | sort

#!/usr/bin/env python3
"""Re-runs every property check against every kept seeded change (seeded/*/patch.diff) and
updates meta.json (caught_by, checks); prints the table used in DESIGN.md section 11.5."""
import sys, os, json, glob
sys.path.insert(0, os.path.dirname(os.path.abspath(__file__)))
import seed_eval
props = sorted(json.load(open('/verif/tools/manifest_src.json'))['checks'].keys())
only = sys.argv[1:]
rows = []
for d in sorted(glob.glob('/verif/seeded/*/')):
    name = os.path.basename(d.rstrip('/'))
    if only and not any(name.startswith(o) for o in only):
        m = json.load(open(d + 'meta.json'))
    else:
        m = json.load(open(d + 'meta.json'))
        r = seed_eval.run_checks(d + 'patch.diff', props)
        m['checks'] = r
        m['caught_by'] = sorted(p for p, x in r.items() if isinstance(x, dict) and x.get('exit') == 1)
        m['broken_checks'] = sorted(p for p, x in r.items() if isinstance(x, dict) and x.get('exit') not in (0, 1))
        json.dump(m, open(d + 'meta.json', 'w'), indent=1)
        print(name, 'caught_by=', m['caught_by'], 'broken=', m['broken_checks'], flush=True)
    first = ''
    for p in m.get('caught_by', []):
        v = m['checks'][p].get('violations') or ['']
        first = v[0].split(' @')[0].replace('violated ', '')
        break
    rows.append((name, m.get('confirmed'), ','.join(m.get('caught_by', [])) or '-', first, m.get('verdict_note', '')))
print('\n| seeded change | confirmed | caught by | first violated obligation | note |\n|---|---|---|---|---|')
for r in rows:
    print('| %s | %s | %s | %s | %s |' % r)

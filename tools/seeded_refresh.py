#!/usr/bin/env python3
"""Re-runs every property check against every kept seeded change (seeded/*/patch.diff) and
updates meta.json (caught_by, checks, evaluated_on_commit). usage: seeded_refresh.py [prefix ...]"""
import sys, os, json, glob
from concurrent.futures import ThreadPoolExecutor
sys.path.insert(0, os.path.dirname(os.path.abspath(__file__)))
import seed_eval
props = sorted(json.load(open('/verif/tools/manifest_src.json'))['checks'].keys())
only = sys.argv[1:]
dirs = [d for d in sorted(glob.glob('/verif/seeded/*/')) if not only or any(os.path.basename(d.rstrip('/')).startswith(o) for o in only)]

def one(d):
    name = os.path.basename(d.rstrip('/'))
    m = json.load(open(d + 'meta.json'))
    r = seed_eval.run_checks(d + 'patch.diff', props)
    base = r.pop('_evaluated_on_commit', None) if isinstance(r, dict) else None
    m['checks'] = r
    if base:
        m['evaluated_on_commit'] = base
    else:
        m.pop('evaluated_on_commit', None)
    m['caught_by'] = sorted(p for p, x in r.items() if isinstance(x, dict) and x.get('exit') == 1)
    m['broken_checks'] = sorted(p for p, x in r.items() if isinstance(x, dict) and x.get('exit') not in (0, 1))
    json.dump(m, open(d + 'meta.json', 'w'), indent=1)
    return name, m['caught_by'], m['broken_checks'], base

with ThreadPoolExecutor(max_workers=5) as ex:
    for name, caught, broken, base in ex.map(one, dirs):
        print(name, 'caught_by=', caught, 'broken=', broken, ('on ' + base) if base else '', flush=True)

#!/bin/sh
# runs every property on every behaviour-preserving refactoring (mutants/benign_ALL_*.diff); prints non-quiet ones
cd "$(dirname "$0")/.." && python3 - "$@" <<'PY'
import sys,os,glob,re,subprocess
sys.path.insert(0,'tools')
import mutants
only=sys.argv[1:]
fs=sorted(glob.glob('mutants/benign_ALL_*.diff'))
from concurrent.futures import ThreadPoolExecutor
def one(f):
    return mutants.run_one(os.path.abspath(f),'all',True)
with ThreadPoolExecutor(max_workers=4) as ex:
    res=list(ex.map(one,fs))
bad=0
for r in res:
    if r['result']!='quiet':
        bad+=1
        print(r['mutant'],r['result'])
        for v in r.get('violations',[]): print('    ',v[:260])
print('benign refactorings: %d, not quiet: %d'%(len(res),bad))
PY

#!/usr/bin/env python3
"""Checker self-validation: applies each mutant diff of a property to a scratch copy of
/repo (under a mkdtemp dir outside /repo and /verif), runs the property's static check on
the copy and records whether the expected verdict was produced.

  mutants/<ID>_<name>.diff          must yield exit 1 (VIOLATION)
  mutants/benign_<ID>_<name>.diff   behaviour-preserving edit, must yield exit 0

usage: mutants.py <ID>|all [--jobs N] [--update-evidence]
Output of the child runs is captured, never echoed (no VIOLATION line of a mutant
reaches stdout). Patches that no longer apply to the current tree are counted as skipped.
Never changes the exit status of a check: survivors are reported, not raised.
"""
import sys, os, subprocess, tempfile, shutil, json, glob, re
from concurrent.futures import ThreadPoolExecutor

ROOT = os.path.dirname(os.path.dirname(os.path.abspath(__file__)))
ENV = dict(os.environ)
ENV.update({"PATH": "/opt/veriftools/go1.26.8/bin:" + ENV.get("PATH", ""), "GOTOOLCHAIN": "local",
            "GOFLAGS": "-mod=mod", "GOPROXY": "off", "GOSUMDB": "off", "CGO_ENABLED": "0"})
ENV.pop("GOWORK", None)


CACHE = os.path.join(ROOT, "mutants", ".compiled.json")
try:
    COMPILED = json.load(open(CACHE))
except Exception:
    COMPILED = {}
try:
    HEAD = subprocess.run(["git", "-C", "/repo", "rev-parse", "HEAD"], capture_output=True, text=True).stdout.strip() + \
        subprocess.run(["git", "-C", "/repo", "status", "--porcelain"], capture_output=True, text=True).stdout
except Exception:
    HEAD = ""


def diff_key(path):
    import hashlib
    return hashlib.sha1((HEAD + open(path, "rb").read().decode("utf-8", "replace")).encode()).hexdigest()


def run_one(path, prop, benign):
    name = os.path.basename(path)[:-5]
    tmp = tempfile.mkdtemp(prefix="rainmut.")
    try:
        subprocess.check_call(["rsync", "-a", "--exclude", ".git", "/repo/", tmp + "/"])
        p = subprocess.run(["patch", "-p1", "-s", "--no-backup-if-mismatch", "-i", path], cwd=tmp, capture_output=True, text=True)
        if p.returncode != 0:
            return {"mutant": name, "result": "skipped", "why": "patch does not apply to the current tree"}
        # compile check (skipped when this diff was already seen to compile on this /repo HEAD;
        # the analyser's own type check would report a broken tree as exit 2 anyway)
        ck = diff_key(path)
        if not COMPILED.get(ck):
            b = subprocess.run(["go", "build", "./..."], cwd=tmp, env=ENV, capture_output=True, text=True)
            if b.returncode != 0 and not name.find("_prefix_") >= 0:
                return {"mutant": name, "result": "skipped", "why": "does not compile"}
            if b.returncode == 0:
                COMPILED[ck] = True
        r = subprocess.run([os.path.join(ROOT, "bin", "rainlint"), "-prop", prop, "-repo", tmp, "-verif", ROOT, "-no-evidence"],
                           env=ENV, capture_output=True, text=True)
        viol = [l.strip() for l in r.stdout.splitlines() if l.startswith("  violated")]
        if benign:
            ok = r.returncode == 0
            bad = [l.strip() for l in r.stdout.splitlines() if l.startswith("PROP") and " exit=0" not in l]
            return {"mutant": name, "result": "quiet" if ok else ("FALSE-ALARM" if r.returncode == 1 else "BROKEN"), "exit": r.returncode,
                    "violations": [re.sub(r"/tmp/rainmut\.[^/]+/", "", v)[:300] for v in (bad + viol)[:6]]}
        ok = r.returncode == 1
        return {"mutant": name, "result": "killed" if ok else "SURVIVED", "exit": r.returncode,
                "violations": [re.sub(r"/tmp/rainmut\.[^/]+/", "", v)[:300] for v in viol[:3]]}
    finally:
        shutil.rmtree(tmp, ignore_errors=True)


def main():
    args = [a for a in sys.argv[1:] if not a.startswith("--")]
    jobs = 6
    for i, a in enumerate(sys.argv):
        if a == "--jobs":
            jobs = int(sys.argv[i + 1])
    args = [a for a in args if not a.isdigit()]
    prop = args[0] if args else "all"
    files = sorted(glob.glob(os.path.join(ROOT, "mutants", "*.diff")))
    work = []
    for f in files:
        n = os.path.basename(f)
        benign = n.startswith("benign_")
        m = re.match(r"(?:benign_)?(C\d+|ALL)_", n)
        if not m:
            continue
        target = m.group(1)
        if target == "ALL":
            # behaviour-preserving refactoring: every property (or the requested one) must stay quiet
            work.append((f, "all" if prop == "all" else prop, True))
            continue
        if prop != "all" and target != prop:
            continue
        work.append((f, target, benign))
    with ThreadPoolExecutor(max_workers=jobs) as ex:
        res = list(ex.map(lambda w: run_one(*w), work))
    summ = {"applied": sum(1 for r in res if r["result"] != "skipped"),
            "killed": sum(1 for r in res if r["result"] == "killed"),
            "benign_quiet": sum(1 for r in res if r["result"] == "quiet"),
            "survived": [r["mutant"] for r in res if r["result"] == "SURVIVED"],
            "false_alarms": [r["mutant"] for r in res if r["result"] in ("FALSE-ALARM", "BROKEN")],
            "skipped": [r["mutant"] for r in res if r["result"] == "skipped"],
            "details": res}
    for r in res:
        print("mutant %-55s %s %s" % (r["mutant"], r["result"], (r.get("violations") or [r.get("why", "")])[0][:150] if (r.get("violations") or r.get("why")) else ""))
    print("mutants: applied=%d killed=%d benign_quiet=%d survived=%d false_alarms=%d skipped=%d" % (
        summ["applied"], summ["killed"], summ["benign_quiet"], len(summ["survived"]), len(summ["false_alarms"]), len(summ["skipped"])))
    try:
        json.dump(COMPILED, open(CACHE, "w"))
    except Exception:
        pass
    if "--update-evidence" in sys.argv and prop == "all":
        # distribute: each property gets its own mutants plus the whole-repository refactorings
        props = sorted(json.load(open(os.path.join(ROOT, "tools", "manifest_src.json")))["checks"].keys())
        for p in props:
            mine = []
            for r in res:
                n = r["mutant"]
                if n.startswith("benign_ALL_"):
                    bad = [v for v in r.get("violations", []) if v.startswith("PROP " + p + " ")]
                    rr = dict(r)
                    rr["result"] = "quiet" if not bad else ("FALSE-ALARM" if " exit=1" in bad[0] else "BROKEN")
                    rr["violations"] = bad
                    mine.append(rr)
                elif re.match(r"(?:benign_)?" + p + "_", n):
                    mine.append(r)
            ps = {"applied": sum(1 for r in mine if r["result"] != "skipped"),
                  "killed": sum(1 for r in mine if r["result"] == "killed"),
                  "benign_quiet": sum(1 for r in mine if r["result"] == "quiet"),
                  "survived": [r["mutant"] for r in mine if r["result"] == "SURVIVED"],
                  "false_alarms": [r["mutant"] for r in mine if r["result"] in ("FALSE-ALARM", "BROKEN")],
                  "skipped": [r["mutant"] for r in mine if r["result"] == "skipped"],
                  "details": mine}
            ev = os.path.join(ROOT, "evidence", p + ".json")
            if os.path.exists(ev):
                d = json.load(open(ev))
                d["coverage"]["mutants"] = ps
                json.dump(d, open(ev, "w"), indent=1)
    if "--update-evidence" in sys.argv and prop != "all":
        ev = os.path.join(ROOT, "evidence", prop + ".json")
        if os.path.exists(ev):
            d = json.load(open(ev))
            d["coverage"]["mutants"] = summ
            json.dump(d, open(ev, "w"), indent=1)
    return 0


if __name__ == "__main__":
    sys.exit(main())

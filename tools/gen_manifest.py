#!/usr/bin/env python3
"""Generates /verif/MANIFEST.json from tools/manifest_src.json (claimed checks) and
properties.jsonl (everything not claimed goes to not_applicable with the reason given
in manifest_src.json)."""
import json, os, sys
root = os.path.dirname(os.path.dirname(os.path.abspath(__file__)))
src = json.load(open(os.path.join(root, "tools", "manifest_src.json")))
props = [json.loads(l)["id"] for l in open(os.path.join(root, "properties.jsonl")) if l.strip()]
checks = []
na = []
for pid in props:
    c = src["checks"].get(pid)
    if c:
        checks.append({
            "property_id": pid,
            "quick_cmd": f"./check {pid} quick",
            "thorough_cmd": f"./check {pid} thorough",
            "evidence_file": f"/verif/evidence/{pid}.json",
            "replay_cmd_template": f"./check {pid} quick  # deterministic; violations listed in {{path}}",
            "engine": "rainlint",
            "level_claimed": {"category": "other", "text": c["text"], "design_ref": f"DESIGN.md section 6, {pid}"},
            "level_note": c.get("note", src["default_note"]),
            "technique": c["technique"],
        })
    else:
        na.append({"property_id": pid, "reason": src["not_applicable"].get(pid, "no sound static rule built for this property (see DESIGN.md section 7)")})
m = {
    "version": 1,
    "setup_cmd": src["setup_cmd"],
    "hooks": src["hooks"],
    "engines": [{"name": "rainlint", "path": "/verif/checker", "serves_properties": [c["property_id"] for c in checks],
                 "kind_free_text": "custom static analyser (go/packages + go/types + go/ssa + CHA/VTA call graph, x/tools v0.50.0): must-fact data-flow over SSA CFGs, who-may-call/write inventories, table extraction, goroutine-context and lock-set analysis, affine-relation abstract interpretation (Karr) with closure inlining"}],
    "checks": checks,
    "notes": src["notes"],
    "not_applicable": na,
}
json.dump(m, open(os.path.join(root, "MANIFEST.json"), "w"), indent=1)
print("checks:", len(checks), "not_applicable:", len(na))

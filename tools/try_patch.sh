#!/bin/sh
# usage: tools/try_patch.sh <patch-file|-> <prop> [more props...]
# Applies a patch to a scratch copy of /repo (outside /repo and /verif), runs the
# given property checks on the copy WITHOUT touching evidence files, removes the copy.
# With patch "-" the copy is unpatched (sanity).
patch="$1"; shift
export PATH=/opt/veriftools/go1.26.8/bin:$PATH GOTOOLCHAIN=local GOFLAGS=-mod=mod GOPROXY=off GOSUMDB=off CGO_ENABLED=0
unset GOWORK
tmp=$(mktemp -d /tmp/rainmut.XXXXXX)
trap 'rm -rf "$tmp"' EXIT
rsync -a --exclude .git /repo/ "$tmp/"
if [ "$patch" != "-" ]; then
  (cd "$tmp" && patch -p1 -s < "$patch") || { echo "patch failed"; exit 3; }
  if [ -z "$NOBUILD" ]; then (cd "$tmp" && go build ./... ) || { echo "mutant does not compile"; exit 4; }; fi
fi
rc=0
for p in "$@"; do
  out=$(/verif/bin/rainlint -prop "$p" -repo "$tmp" -no-evidence 2>&1); r=$?; echo "$out" | grep -E "^(rainlint|  violated|  undecided|  instance|VIOLATION|KNOWN)" | sed "s#$tmp/##g"
  echo "exit=$r"
done

#!/usr/bin/env python3
"""usage: seed_quick.py <diff>...   -- which property checks report a violation for each diff (no confirmation step)"""
import sys, os
sys.path.insert(0, os.path.dirname(os.path.abspath(__file__)))
import seed_eval, json
props = sorted(json.load(open('/verif/tools/manifest_src.json'))['checks'].keys())
for d in sys.argv[1:]:
    r = seed_eval.run_checks(d, props)
    caught = sorted(p for p, x in r.items() if isinstance(x, dict) and x.get('exit') == 1)
    broken = sorted(p for p, x in r.items() if isinstance(x, dict) and x.get('exit') not in (0, 1))
    print(d, 'caught_by=', caught, 'broken=', broken)
    for p in caught:
        for v in r[p]['violations'][:2]:
            print('    ', p, v[:230])

package piece

// Demonstration for the defect repaired in /repo commit 11fa898 (found by C02 R02.6).
// Place at internal/piece/stale_begin_demo_test.go; `go test -run TestDemoStale ./internal/piece/`
// FAILS on the parent of 11fa898 (second block Begin=16384 instead of 16484), PASSES from 11fa898 on.

import (
	"testing"

	"github.com/cenkalti/rain/v2/internal/filesection"
)

func TestDemoStaleBlockBeginAfterPadding(t *testing.T) {
	p := Piece{
		Length: 16384 + 100 + 200,
		Data: filesection.Piece{
			{Length: 16384},
			{Length: 100, Padding: true},
			{Length: 200},
		},
	}
	blocks := p.calculateBlocks(16384)
	want := []Block{{Begin: 0, Length: 16384}, {Begin: 16484, Length: 200}}
	if len(blocks) != len(want) {
		t.Fatalf("got %v want %v", blocks, want)
	}
	for i := range want {
		if blocks[i] != want[i] {
			t.Fatalf("block %d: got %+v want %+v (all: %v)", i, blocks[i], want[i], blocks)
		}
	}
	p2 := Piece{Length: 300, Data: filesection.Piece{{Length: 100, Padding: true}, {Length: 200}}}
	b2 := p2.calculateBlocks(16384)
	if len(b2) != 1 || b2[0] != (Block{Begin: 100, Length: 200}) {
		t.Fatalf("leading padding: got %v", b2)
	}
}

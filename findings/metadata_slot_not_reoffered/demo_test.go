package torrent

import (
	"bytes"
	"crypto/sha1"
	"encoding/binary"
	"encoding/hex"
	"fmt"
	"io"
	"net"
	"path/filepath"
	"sync"
	"testing"
	"time"

	"github.com/cenkalti/rain/v2/internal/peerprotocol"
	"github.com/zeebo/bencode"
)

// slotDemoPeer is a minimal scripted BitTorrent peer that speaks the plain
// handshake, BEP 10 and BEP 9. It never unchokes the client.
type slotDemoPeer struct {
	ln       net.Listener
	infoHash [20]byte
	info     []byte

	// Silent peers never answer metadata requests and hang up when hangup is closed.
	silent bool
	hangup chan struct{}

	// Honest peers wait for this before sending the extension handshake.
	waitFor chan struct{}

	gotReq     chan struct{} // closed when the first metadata request arrives
	gotReqOnce sync.Once
	ready      chan struct{} // closed when the client has processed our extension handshake
	readyOnce  sync.Once
}

func (p *slotDemoPeer) addr() string { return p.ln.Addr().String() }

func (p *slotDemoPeer) serve(wg *sync.WaitGroup, doneC chan struct{}) {
	defer wg.Done()
	for {
		conn, err := p.ln.Accept()
		if err != nil {
			return
		}
		wg.Add(1)
		go p.handle(conn, wg, doneC)
	}
}

func slotDemoWriteExtension(w io.Writer, em peerprotocol.ExtensionMessage) error {
	var body bytes.Buffer
	if _, err := em.WriteTo(&body); err != nil {
		return err
	}
	var hdr [5]byte
	binary.BigEndian.PutUint32(hdr[:4], uint32(1+body.Len()))
	hdr[4] = byte(peerprotocol.Extension)
	_, err := w.Write(append(hdr[:], body.Bytes()...))
	return err
}

func (p *slotDemoPeer) handle(conn net.Conn, wg *sync.WaitGroup, doneC chan struct{}) {
	defer wg.Done()
	defer conn.Close()
	go func() {
		if p.hangup == nil {
			<-doneC
		} else {
			select {
			case <-doneC:
			case <-p.hangup:
				// Do not accept a re-dial after hanging up.
				p.ln.Close()
			}
		}
		conn.Close()
	}()

	// BitTorrent handshake
	var hs [68]byte
	if _, err := io.ReadFull(conn, hs[:]); err != nil {
		return
	}
	var out bytes.Buffer
	out.WriteByte(19)
	out.WriteString("BitTorrent protocol")
	var reserved [8]byte
	reserved[5] |= 0x10 // extension protocol
	out.Write(reserved[:])
	out.Write(p.infoHash[:])
	var id [20]byte
	copy(id[:], "-XX0001-"+p.addr())
	out.Write(id[:])
	if _, err := conn.Write(out.Bytes()); err != nil {
		return
	}

	// Extension handshake, possibly delayed.
	if p.waitFor != nil {
		select {
		case <-p.waitFor:
		case <-doneC:
			return
		}
	}
	err := slotDemoWriteExtension(conn, peerprotocol.ExtensionMessage{
		ExtendedMessageID: peerprotocol.ExtensionIDHandshake,
		Payload: peerprotocol.ExtensionHandshakeMessage{
			M:            map[string]uint8{peerprotocol.ExtensionKeyMetadata: peerprotocol.ExtensionIDMetadata},
			V:            "scripted",
			MetadataSize: len(p.info),
		},
	})
	if err != nil {
		return
	}
	if !p.silent {
		// Ask the client for the metadata. It does not have it and rejects the request.
		// Messages of a peer are handled in order, so the reject proves that the client
		// has already processed the extension handshake above.
		err = slotDemoWriteExtension(conn, peerprotocol.ExtensionMessage{
			ExtendedMessageID: peerprotocol.ExtensionIDMetadata,
			Payload: peerprotocol.ExtensionMetadataMessage{
				Type:  peerprotocol.ExtensionMetadataMessageTypeRequest,
				Piece: 0,
			},
		})
		if err != nil {
			return
		}
	}

	for {
		var length uint32
		if err := binary.Read(conn, binary.BigEndian, &length); err != nil {
			return
		}
		if length == 0 {
			continue
		}
		buf := make([]byte, length)
		if _, err := io.ReadFull(conn, buf); err != nil {
			return
		}
		if peerprotocol.MessageID(buf[0]) != peerprotocol.Extension {
			continue
		}
		var em peerprotocol.ExtensionMessage
		if err := em.UnmarshalBinary(buf[1:]); err != nil {
			continue
		}
		mm, ok := em.Payload.(peerprotocol.ExtensionMetadataMessage)
		if !ok {
			continue
		}
		switch mm.Type {
		case peerprotocol.ExtensionMetadataMessageTypeReject:
			p.readyOnce.Do(func() { close(p.ready) })
		case peerprotocol.ExtensionMetadataMessageTypeRequest:
			p.gotReqOnce.Do(func() { close(p.gotReq) })
			if p.silent {
				continue // stay connected, never answer
			}
			begin := int(mm.Piece) * 16 * 1024
			end := min(begin+16*1024, len(p.info))
			err := slotDemoWriteExtension(conn, peerprotocol.ExtensionMessage{
				ExtendedMessageID: peerprotocol.ExtensionIDMetadata, // id announced by the client
				Payload: peerprotocol.ExtensionMetadataMessage{
					Type:      peerprotocol.ExtensionMetadataMessageTypeData,
					Piece:     mm.Piece,
					TotalSize: len(p.info),
					Data:      p.info[begin:end],
				},
			})
			if err != nil {
				return
			}
		}
	}
}

// Two peers advertise the metadata, get the two parallel metadata download
// slots and never answer. A third, honest peer completes its extension
// handshake while the slots are full, so it is not asked. Then the two silent
// peers disconnect. Both slots are free now and the client must ask the idle
// honest peer for the metadata right away, without waiting for an unrelated
// event (a new extension handshake, a snub timeout...).
func TestDemoMetadataSlotFreedByDisconnect(t *testing.T) {
	info, err := bencode.EncodeBytes(map[string]any{
		"length":       int64(1000),
		"name":         "slotdemo",
		"piece length": 16 * 1024,
		"pieces":       string(make([]byte, 20)),
	})
	if err != nil {
		t.Fatal(err)
	}
	infoHash := sha1.Sum(info)

	tmp := t.TempDir()
	cfg := DefaultConfig
	cfg.Database = filepath.Join(tmp, "session.db")
	cfg.DataDir = tmp
	cfg.DHTEnabled = false
	cfg.PEXEnabled = false
	cfg.RPCEnabled = false
	cfg.Host = "127.0.0.1"
	cfg.DisableOutgoingEncryption = true
	cfg.TrackerStopTimeout = 100 * time.Millisecond
	cfg.ParallelMetadataDownloads = 2
	// The snub timer of a metadata download fires after RequestTimeout and makes the
	// client look for another peer. Keep it far away from the window of this test.
	cfg.RequestTimeout = time.Minute
	const window = 5 * time.Second

	s, err := NewSession(cfg)
	if err != nil {
		t.Fatal(err)
	}
	defer func() {
		if err := s.Close(); err != nil {
			t.Error(err)
		}
	}()

	var wg sync.WaitGroup
	doneC := make(chan struct{})
	defer wg.Wait()
	defer close(doneC)

	hangup := make(chan struct{})
	bothBusy := make(chan struct{})
	newPeer := func(ip string, silent bool) *slotDemoPeer {
		ln, err := net.Listen("tcp4", ip+":0")
		if err != nil {
			t.Fatal(err)
		}
		p := &slotDemoPeer{
			ln:       ln,
			infoHash: infoHash,
			info:     info,
			silent:   silent,
			gotReq:   make(chan struct{}),
			ready:    make(chan struct{}),
		}
		if silent {
			p.hangup = hangup
		} else {
			p.waitFor = bothBusy
		}
		wg.Add(1)
		go p.serve(&wg, doneC)
		go func() {
			<-doneC
			ln.Close()
		}()
		return p
	}

	silent1 := newPeer("127.0.0.2", true)
	silent2 := newPeer("127.0.0.3", true)
	honest := newPeer("127.0.0.4", false)
	go func() {
		for _, p := range []*slotDemoPeer{silent1, silent2} {
			select {
			case <-p.gotReq:
			case <-doneC:
				return
			}
		}
		close(bothBusy)
	}()

	link := fmt.Sprintf("magnet:?xt=urn:btih:%s&x.pe=%s&x.pe=%s&x.pe=%s",
		hex.EncodeToString(infoHash[:]), silent1.addr(), silent2.addr(), honest.addr())
	tor, err := s.AddURI(link, &AddTorrentOptions{StopAfterMetadata: true})
	if err != nil {
		t.Fatal(err)
	}
	start := time.Now()

	// Step 1: the silent peers hold both metadata download slots.
	select {
	case <-bothBusy:
	case <-time.After(10 * time.Second):
		t.Fatal("silent peers did not receive metadata requests")
	}

	// Step 2: the honest peer is connected and its extension handshake is processed.
	select {
	case <-honest.ready:
	case <-time.After(10 * time.Second):
		t.Fatal("client did not process the extension handshake of the honest peer")
	}
	st := tor.Stats()
	if st.Peers.Total != 3 || st.MetadataDownloads.Running != 2 || st.MetadataDownloads.Snubbed != 0 {
		t.Fatalf("unexpected state before the disconnects: peers=%d metadata downloads running=%d snubbed=%d",
			st.Peers.Total, st.MetadataDownloads.Running, st.MetadataDownloads.Snubbed)
	}
	select {
	case <-honest.gotReq:
		t.Fatal("honest peer was asked for the metadata although both slots were taken")
	default:
	}

	// Step 3: the silent peers disconnect. No other event happens afterwards.
	close(hangup)

	select {
	case <-tor.NotifyMetadata():
	case <-time.After(window):
		st := tor.Stats()
		asked := false
		select {
		case <-honest.gotReq:
			asked = true
		default:
		}
		t.Fatalf("metadata was not fetched within %s after the silent peers disconnected: "+
			"connected peers=%d, metadata downloads running=%d of %d slots, honest peer asked=%v "+
			"(snub timeout is %s, %s passed since start)",
			window, st.Peers.Total, st.MetadataDownloads.Running, cfg.ParallelMetadataDownloads, asked,
			cfg.RequestTimeout, time.Since(start).Round(time.Millisecond))
	}
	select {
	case <-honest.gotReq:
	default:
		t.Fatal("metadata completed but the honest peer was never asked")
	}
	b, err := tor.Torrent()
	if err != nil {
		t.Fatal(err)
	}
	if !bytes.Contains(b, info) {
		t.Fatal("adopted metadata differs from the one served by the honest peer")
	}
}

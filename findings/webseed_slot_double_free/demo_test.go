package torrent

import (
	"bytes"
	"net"
	"net/http"
	"os"
	"path/filepath"
	"testing"
	"time"

	"github.com/cenkalti/rain/v2/internal/logger"
	"github.com/cenkalti/rain/v2/internal/metainfo"
	"github.com/cenkalti/rain/v2/internal/webseedsource"
)

// TestDemoWebseedSlotCounter shows that webseedActiveDownloads becomes negative
// when the corrupt piece of a web seed is the last piece of its range.
//
// The torrent has a single piece and a single web seed that serves wrong bytes.
// There are no peers. The web seed downloader delivers piece #0 with Done=true,
// so handleWebseedPieceResult closes it and frees its slot (1 -> 0). No new range
// can be picked because the only piece is being written. Then the hash check fails
// and handlePieceWriteDone frees the slot a second time (0 -> -1).
func TestDemoWebseedSlotCounter(t *testing.T) {
	root := t.TempDir()
	goodDir := filepath.Join(root, "good")
	badDir := filepath.Join(root, "bad")
	for _, d := range []string{goodDir, badDir} {
		if err := os.MkdirAll(d, 0o755); err != nil {
			t.Fatal(err)
		}
	}
	const name = "one.bin"
	const size = 20000 // smaller than the piece length, the torrent has one piece
	if err := os.WriteFile(filepath.Join(goodDir, name), bytes.Repeat([]byte("x"), size), 0o644); err != nil {
		t.Fatal(err)
	}
	// The web seed serves a file of the same size with different content.
	if err := os.WriteFile(filepath.Join(badDir, name), bytes.Repeat([]byte("y"), size), 0o644); err != nil {
		t.Fatal(err)
	}
	info, err := metainfo.NewInfoBytes("", []string{filepath.Join(goodDir, name)}, false, 32*1024, "", logger.New("demo"))
	if err != nil {
		t.Fatal(err)
	}
	mi, err := metainfo.NewBytes(info, nil, nil, "")
	if err != nil {
		t.Fatal(err)
	}

	// Corrupt web seed on loopback.
	l, err := net.Listen("tcp4", "127.0.0.1:0")
	if err != nil {
		t.Fatal(err)
	}
	srv := &http.Server{Handler: http.FileServer(http.Dir(badDir))}
	served := make(chan struct{})
	go func() {
		_ = srv.Serve(l)
		close(served)
	}()
	defer func() {
		_ = srv.Close()
		<-served
	}()

	tmp := t.TempDir()
	cfg := DefaultConfig
	cfg.Database = filepath.Join(tmp, "session.db")
	cfg.DataDir = tmp
	cfg.DHTEnabled = false
	cfg.PEXEnabled = false
	cfg.RPCEnabled = false
	cfg.Host = "127.0.0.1"
	s, err := NewSession(cfg)
	if err != nil {
		t.Fatal(err)
	}
	defer func() {
		if err := s.Close(); err != nil {
			t.Error(err)
		}
	}()

	tor, err := s.AddTorrent(bytes.NewReader(mi), &AddTorrentOptions{Stopped: true})
	if err != nil {
		t.Fatal(err)
	}
	// The torrent is stopped, its run loop does not touch these fields before Start.
	tor.torrent.webseedSources = webseedsource.NewList([]string{"http://" + l.Addr().String() + "/" + name})
	tor.torrent.webseedClient = http.DefaultClient
	if err := tor.Start(); err != nil {
		t.Fatal(err)
	}

	// Wait until the source is disabled because of the corrupt piece.
	deadline := time.Now().Add(10 * time.Second)
	for {
		ws := tor.Webseeds()
		if len(ws) == 1 && ws[0].Error != nil {
			if ws[0].Error.Error() != "corrupt piece" {
				t.Fatalf("unexpected webseed error: %v", ws[0].Error)
			}
			break
		}
		if time.Now().After(deadline) {
			t.Fatalf("web seed has not been disabled: %+v", ws)
		}
		time.Sleep(10 * time.Millisecond)
	}

	// Stats() is answered by the run loop, so everything the loop has done before is visible here.
	// The torrent is idle now: no peers, the only web seed is disabled and is not retried.
	st := tor.Stats()
	if st.Status != Downloading || st.Pieces.Have != 0 {
		t.Fatalf("unexpected state: status=%v have=%d", st.Status, st.Pieces.Have)
	}
	downloading := 0
	for _, src := range tor.torrent.webseedSources {
		if src.Downloading() {
			downloading++
		}
	}
	active := tor.torrent.webseedActiveDownloads
	t.Logf("running web seed downloaders: %d, webseedActiveDownloads: %d, WebseedMaxDownloads: %d", downloading, active, cfg.WebseedMaxDownloads)
	if active != downloading {
		t.Errorf("webseedActiveDownloads = %d, want %d (number of running web seed downloaders); with this value %d downloads can run at the same time although WebseedMaxDownloads is %d",
			active, downloading, cfg.WebseedMaxDownloads-active, cfg.WebseedMaxDownloads)
	}
}

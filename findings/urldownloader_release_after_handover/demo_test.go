package urldownloader

// Demonstration for the defect repaired by the "fix: web seed downloader released the buffer
// of the last piece" commit (property C01, rule R01.11). Place in internal/urldownloader/.
//
// History: a web seed downloads pieces [0,2) of a multi-file torrent (piece 0 = file A,
// piece 1 = file B). While piece 0 is in flight a peer completes piece 1, so the picker lowers
// the downloader's End to 1 (UpdateEnd). Piece 0 is then the last piece: it is sent with
// Done=true and its buffer now belongs to the torrent loop / piece writer. Before the repair,
// Run went on with the job for file B; the request fails (here: 500, in the client: context
// cancelled because the loop closes the downloader) and Run released the buffer it had already
// handed over. The next pool.Get returns (and clears) the same storage while the piece writer is
// still hashing / writing it.

import (
	"net/http"
	"net/http/httptest"
	"runtime"
	"strings"
	"testing"
	"time"

	"github.com/cenkalti/rain/v2/internal/bufferpool"
	"github.com/cenkalti/rain/v2/internal/filesection"
	"github.com/cenkalti/rain/v2/internal/piece"
)

func TestDemoReleaseAfterHandover(t *testing.T) {
	defer runtime.GOMAXPROCS(runtime.GOMAXPROCS(1)) // one P: sync.Pool hands back what was just put
	var d *URLDownloader
	srv := httptest.NewServer(http.HandlerFunc(func(w http.ResponseWriter, r *http.Request) {
		if strings.HasSuffix(r.URL.Path, "/A") {
			d.UpdateEnd(1) // a peer finished piece 1 meanwhile
			_, _ = w.Write([]byte("AAAAAAAAAAAAAAAA"))
			return
		}
		http.Error(w, "gone", http.StatusInternalServerError)
	}))
	defer srv.Close()
	pieces := []piece.Piece{
		{Index: 0, Length: 16, Data: []filesection.FileSection{{Name: "A", Offset: 0, Length: 16}}},
		{Index: 1, Length: 16, Data: []filesection.FileSection{{Name: "B", Offset: 0, Length: 16}}},
	}
	d = New(srv.URL, 0, 2, nil)
	pool := bufferpool.New(16)
	resultC := make(chan *PieceResult)
	go d.Run(http.DefaultClient, pieces, true, resultC, pool, 5*time.Second)

	var handed *PieceResult
	deadline := time.After(10 * time.Second)
loop:
	for {
		select {
		case res := <-resultC:
			if res.Error == nil {
				if !res.Done {
					t.Fatalf("piece #%d: expected Done", res.Index)
				}
				handed = res // we (the torrent loop) own res.Buffer now
				continue
			}
			break loop // the error result of the job for file B
		case <-d.doneC:
			break loop
		case <-deadline:
			t.Fatal("timeout")
		}
	}
	if handed == nil {
		t.Fatal("no piece result")
	}
	<-d.doneC
	// The piece writer would be hashing handed.Buffer now. Nobody else may get its storage.
	for i := 0; i < 4; i++ {
		other := pool.Get(16)
		if &other.Data[0] == &handed.Buffer.Data[0] {
			t.Fatalf("pool.Get returned (and cleared) the storage of the piece buffer that was handed over with Done=true: data is now %q", handed.Buffer.Data)
		}
	}
}

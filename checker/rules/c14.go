package rules

import (
	"fmt"
	"go/token"
	"go/types"
	"sort"

	"golang.org/x/tools/go/ssa"

	"rainverif/checker/kit"
)

func init() {
	register(&Property{
		ID: "C14",
		Explanation: "Decides structural necessary conditions of 'ids unique, ports conserved, registry == resume database, resume values read back as written, compaction complete': " +
			"(R14.1) port ownership pairing: every function that takes a port from the pool (getPort, or through the hand-off acquirer add) reaches, on every return after a successful acquire, exactly one of {release, registration, hand-off to the caller}; the deferred release closure fires exactly on the returns on which the torrent was not registered; releasePort is called nowhere else except stopAndRemoveData, which always releases and is reached after every registry removal; only getPort/releasePort/loadExistingTorrent/NewSession write the pool. " +
			"(R14.2) every registry insert is preceded by a successful resumer.Write or Read of the same id; removeTorrentFromClient passes the map delete and DeleteBucket(id) on its found path and is the only registry delete. " +
			"(R14.3) every insert into Session.torrents happens inside an mTorrents.Lock region that has tested the same key absent. " +
			"(R14.4) the five resume codec tables (Write, Read, MarshalJSON/UnmarshalJSON, Spec literals of the adders and CompactDatabase, out-of-band Put/Get/Delete sites) agree on keys, fields and encoder/decoder inverse pairs, and every torrent field CompactDatabase copies from is maintained by every adder that records the corresponding Spec field. " +
			"(R14.5) session-level (off-loop) code dereferences a nil-able torrent field only under a dominating != nil test. " +
			"(R14.6) a torrent's resume bucket is created only as part of Resumer.Write and the single-field writers run their callback only on a looked-up bucket under b != nil, so a write that arrives after RemoveTorrent deleted the record cannot resurrect it. " +
			"(R14.7) the periodic writer Session.updateStats passes, in every iteration of a range loop over Session.torrents that runs on every path, the Put of each transfer counter key (no status filter in front of the Puts). " +
			"(R14.8) an out-of-band writer that stores an extension (append) of a resume value derives it from a Get of the same key on the same bucket inside the same transaction callback (no lost update). " +
			"(R14.9) torrent.port is assigned only by the constructor from its parameter, or re-read from a listener all of whose net.ListenTCP calls bind exactly t.port. " +
			"NOT decided: conservation over arbitrary interleavings beyond the lock-region shape, equality of values across a real restart, bbolt behaviour, data races on the fields read (C20).",
		RuleText:    commonRuleText,
		Assumptions: append([]string{"bbolt Put/Get store and return the bytes given; strconv/time/json/base64 encoder-decoder pairs of the pairs table are mutually inverse"}, commonAssumptions...),
		Run:         runC14,
	})
}

// c14Acq is one acquire site: a call that yields a port taken from the pool.
type c14Acq struct {
	fn      *ssa.Function
	call    *ssa.Call
	portIdx int
	errIdx  int
	via     string
}

type c14Env struct {
	c *kit.Ctx
	k *keyer

	getPort, releasePort, insertTorrent *types.Func
	stopAndRemove, removeFromClient     *types.Func
	fallibleReg                         map[*types.Func]int // registrar -> index of its error result
	releaseClosures                     map[*ssa.Function]bool
	directReleases                      map[ssa.Instruction]bool // releasePort(acquired port) written out in an acquirer
}

func runC14(c *kit.Ctx) {
	e := &c14Env{c: c, k: newKeyer(),
		getPort:          c.FuncObj("torrent", "(*Session).getPort"),
		releasePort:      c.FuncObj("torrent", "(*Session).releasePort"),
		insertTorrent:    c.FuncObj("torrent", "(*Session).insertTorrent"),
		stopAndRemove:    c.FuncObj("torrent", "(*Session).stopAndRemoveData"),
		removeFromClient: c.FuncObj("torrent", "(*Session).removeTorrentFromClient"),
		fallibleReg:      map[*types.Func]int{},
		releaseClosures:  map[*ssa.Function]bool{},
		directReleases:   map[ssa.Instruction]bool{},
	}
	e.findFallibleRegistrars()
	e.rulePorts()
	e.ruleDBBeforeRegistry()
	e.ruleDuplicateID()
	runC14Codec(c, e.k)
	e.ruleNilDeref()
	e.ruleNoResurrection()
	e.rulePortStable()
}

// ---- shared: registration facts -----------------------------------------------

// findFallibleRegistrars discovers functions that register a torrent
// (direct call of insertTorrent), do not take a port from the pool
// themselves, and report failure through a trailing error result
// (loadExistingTorrent). Their contract "err == nil <=> registered" is an
// obligation of R14.1.
func (e *c14Env) findFallibleRegistrars() {
	c := e.c
	for _, s := range sortSites(c.CallSites(e.insertTorrent)) {
		fn := s.Fn
		if fn.Parent() != nil {
			continue
		}
		// functions that take a port themselves (directly, or through a
		// function that calls getPort) are analysed as acquirers instead
		acquires := false
		kit.Instrs(fn, func(ins ssa.Instruction) {
			if kit.CallsAny(ins, e.getPort) {
				acquires = true
			}
			if call, ok := ins.(*ssa.Call); ok {
				if callee := call.Call.StaticCallee(); callee != nil && callee.Blocks != nil && kit.InModule(pkgOf(callee)) {
					kit.Instrs(callee, func(i2 ssa.Instruction) {
						if kit.CallsAny(i2, e.getPort) {
							acquires = true
						}
					})
				}
			}
		})
		res := fn.Signature.Results()
		if acquires || res.Len() == 0 || !isErrorType(res.At(res.Len()-1).Type()) {
			continue
		}
		o, _ := fn.Object().(*types.Func)
		if o == nil {
			continue
		}
		e.fallibleReg[o] = res.Len() - 1
	}
}

func isErrorType(t types.Type) bool {
	return types.Identical(t, types.Universe.Lookup("error").Type())
}

// regFlows returns the must-facts "a torrent has been registered" and
// "no torrent has been registered" for fn.
func (e *c14Env) regFlows(fn *ssa.Function) (reg, notReg *kit.Flow) {
	c := e.c
	regErr := func(v ssa.Value) bool { // v is the error result of a fallible registrar call
		ex, ok := v.(*ssa.Extract)
		if !ok {
			return false
		}
		call, ok := ex.Tuple.(*ssa.Call)
		if !ok {
			return false
		}
		idx, ok := e.fallibleReg[kit.CalleeObj(&call.Call)]
		return ok && idx == ex.Index
	}
	isRegCall := func(ins ssa.Instruction) (infallible, fallible bool) {
		call, ok := ins.(*ssa.Call)
		if !ok {
			return
		}
		o := kit.CalleeObj(&call.Call)
		if o == e.insertTorrent {
			return true, false
		}
		_, f := e.fallibleReg[o]
		return false, f
	}
	reg = (&kit.Flow{P: c.Prog, Fn: fn,
		Edge: func(a kit.Atom) bool {
			return a.IsNilCmp(true, func(x *kit.Expr) bool { return regErr(c14Subject(x)) })
		},
		Instr: func(ins ssa.Instruction, in bool) bool {
			if inf, _ := isRegCall(ins); inf {
				return true
			}
			return in
		}}).Solve()
	notReg = (&kit.Flow{P: c.Prog, Fn: fn, Entry: true,
		Edge: func(a kit.Atom) bool {
			return a.IsNilCmp(false, func(x *kit.Expr) bool { return regErr(c14Subject(x)) })
		},
		Instr: func(ins ssa.Instruction, in bool) bool {
			if inf, f := isRegCall(ins); inf || f {
				return false
			}
			return in
		}}).Solve()
	return
}

// ---- R14.1 ports ------------------------------------------------------------------

type c14Guard struct {
	deferIns *ssa.Defer
	closure  *ssa.Function
	cell     *ssa.Alloc // guard variable in the acquirer (nil: unconditional)
	kind     string     // "err!=nil", "flag==false", "flag==true", "always"
}

func (e *c14Env) rulePorts() {
	c, k := e.c, e.k
	var work []c14Acq
	for _, s := range sortSites(c.CallSites(e.getPort)) {
		call, ok := s.Instr.(*ssa.Call)
		if !ok {
			c.Bad("R14.1", k.key(s.Fn, "getPort"), posOf(s.Instr), "port taken from the pool by a go/defer statement: its owner cannot be determined")
			continue
		}
		work = append(work, c14Acq{s.Fn, call, 0, 1, "getPort"})
	}
	acquirers := map[*ssa.Function]bool{}
	for len(work) > 0 {
		a := work[0]
		work = work[1:]
		acquirers[a.fn] = true
		handsOff, pk, ek := e.analyseAcquirer(a)
		if !handsOff {
			continue
		}
		o, _ := a.fn.Object().(*types.Func)
		if o == nil {
			continue
		}
		for _, s := range sortSites(c.CallSites(o)) {
			call, ok := s.Instr.(*ssa.Call)
			if !ok {
				c.Bad("R14.1", k.key(s.Fn, a.fn.Name()), posOf(s.Instr), "port obtained through %s in a go/defer statement: its owner cannot be determined", a.fn.Name())
				continue
			}
			work = append(work, c14Acq{s.Fn, call, pk, ek, a.fn.Name()})
		}
	}
	c.Floor("R14.1", "functions that take a port from the pool (add, addTorrentStopped, addMagnet, handleMoveTorrent)", len(acquirers), 4)

	// registrar contract: err == nil <=> registered
	var regs []*types.Func
	for o := range e.fallibleReg {
		regs = append(regs, o)
	}
	sort.Slice(regs, func(i, j int) bool { return regs[i].Pos() < regs[j].Pos() })
	for _, o := range regs {
		fn := c.SSA.FuncValue(o)
		if fn == nil || fn.Blocks == nil {
			continue
		}
		idx := e.fallibleReg[o]
		reg, notReg := e.regFlowsInside(fn)
		for _, r := range returnsOf(fn) {
			if r.Block() == fn.Recover {
				continue
			}
			key := k.key(fn, "registrar return")
			n := c14Nilness(c14Trace(r.Results[idx]), r.Block(), 0)
			switch {
			case reg.Before(r) && n == -1:
				c.OK("R14.1", key, posOf(r), "returns nil error after insertTorrent on every path")
			case notReg.Before(r) && n == +1:
				c.OK("R14.1", key, posOf(r), "returns a non-nil error and no path to here registered the torrent")
			default:
				c.Bad("R14.1", key, posOf(r), "%s: the caller cannot tell from the error result whether the torrent was registered (registered-on-all-paths=%v, unregistered-on-all-paths=%v, error nilness=%d); port accounting of its callers relies on err==nil <=> registered",
					fn.Name(), reg.Before(r), notReg.Before(r), n)
			}
		}
	}

	// who may call releasePort
	n := 0
	stop := c.Func("torrent", "(*Session).stopAndRemoveData")
	for _, s := range sortSites(c.CallSites(e.releasePort)) {
		n++
		key := k.key(s.Fn, "releasePort")
		switch {
		case e.releaseClosures[s.Fn]:
			c.Present("R14.1", key, posOf(s.Instr), "release inside a deferred closure whose firing condition is checked against registration")
		case e.directReleases[s.Instr]:
			c.Present("R14.1", key, posOf(s.Instr), "release of the port acquired in this function, checked against registration")
		case s.Fn == stop:
			c.Present("R14.1", key, posOf(s.Instr), "release on removal")
		default:
			c.Bad("R14.1", key, posOf(s.Instr), "releasePort called outside the deferred release closures of the acquirers and stopAndRemoveData: a port can be returned to the pool while a torrent still owns it (or twice)")
		}
	}
	c.Floor("R14.1", "releasePort call sites", n, 3)

	// stopAndRemoveData always releases the torrent's own port
	{
		fPort := c.Field("torrent", "torrent", "port")
		fl := c.Called(stop, e.releasePort)
		ok := len(fl.FailingReturns()) == 0
		argOK := false
		kit.Instrs(stop, func(ins ssa.Instruction) {
			if kit.CallsAny(ins, e.releasePort) {
				argOK = kit.Canon(argOf(kit.CallOf(ins), 1)).IsField(fPort)
			}
		})
		c.Check(ok && argOK, "R14.1", kit.FuncName(stop)+"/releases", stop.Pos(),
			"every return of stopAndRemoveData has passed releasePort(t.torrent.port)",
			"stopAndRemoveData has a return that has not passed releasePort(t.torrent.port): the port of a removed torrent leaks")
	}

	// every registry removal reaches stopAndRemoveData
	{
		n := 0
		for _, s := range sortSites(c.CallSites(e.removeFromClient)) {
			call, ok := s.Instr.(*ssa.Call)
			if !ok {
				continue
			}
			n++
			removed := c14ExtractOf(call, 0)
			fl := (&kit.Flow{P: c.Prog, Fn: s.Fn, Entry: true,
				Edge: func(a kit.Atom) bool {
					return a.IsNilCmp(true, func(x *kit.Expr) bool { return removed != nil && c14Subject(x) == removed })
				},
				Instr: func(ins ssa.Instruction, in bool) bool {
					if ins == ssa.Instruction(call) {
						return false
					}
					if kit.CallsAny(ins, e.stopAndRemove) && removed != nil && c14Trace(argOf(kit.CallOf(ins), 1)) == removed {
						return true
					}
					return in
				}}).Solve()
			key := k.key(s.Fn, "removeTorrentFromClient")
			if fr := fl.FailingReturns(); len(fr) > 0 {
				c.Bad("R14.1", key, posOf(fr[0]), "a return is reachable after removeTorrentFromClient with a possibly non-nil removed torrent that was not passed to stopAndRemoveData: it is gone from the registry but keeps running and keeps its port")
			} else {
				c.OK("R14.1", key, posOf(call), "every path on which the removed torrent may be non-nil passes stopAndRemoveData(it) (which releases its port)")
			}
		}
		c.Floor("R14.1", "removeTorrentFromClient call sites", n, 2)
		for _, s := range sortSites(c.CallSites(e.stopAndRemove)) {
			v := c14Trace(argOf(s.Instr.Common(), 1))
			ex, _ := v.(*ssa.Extract)
			ok := false
			if ex != nil && ex.Index == 0 {
				if call, isCall := ex.Tuple.(*ssa.Call); isCall && kit.CalleeObj(&call.Call) == e.removeFromClient {
					ok = true
				}
			}
			c.Check(ok, "R14.1", k.key(s.Fn, "stopAndRemoveData"), posOf(s.Instr),
				"stops and releases exactly the torrent that removeTorrentFromClient took out of the registry",
				"stopAndRemoveData is applied to a torrent that was not just removed from the registry: its port is released while it is still registered (or released twice)")
		}
	}

	// who may write the pool
	{
		fPool := c.Field("torrent", "Session", "availablePorts")
		allowed := map[string]string{
			kit.FuncName(c.Func("torrent", "(*Session).getPort")):             "delete",
			kit.FuncName(c.Func("torrent", "(*Session).releasePort")):         "insert",
			kit.FuncName(c.Func("torrent", "(*Session).loadExistingTorrent")): "delete",
			kit.FuncName(c.Func("torrent", "NewSession")):                     "init",
		}
		n := 0
		for _, fn := range c.ModuleFunctions() {
			kit.Instrs(fn, func(ins ssa.Instruction) {
				what := ""
				switch x := ins.(type) {
				case *ssa.MapUpdate:
					if kit.Canon(x.Map).IsField(fPool) {
						what = "insert"
					}
				case *ssa.Call:
					if isBuiltin(&x.Call, "delete") && kit.Canon(x.Call.Args[0]).IsField(fPool) {
						what = "delete"
					}
					if isBuiltin(&x.Call, "clear") && kit.Canon(x.Call.Args[0]).IsField(fPool) {
						what = "clear"
					}
				case *ssa.Store:
					if _, ok := kit.StoresField(ins, fPool); ok {
						what = "init"
					}
				}
				if what == "" {
					return
				}
				n++
				key := k.key(fn, "availablePorts "+what)
				var allowedFn func(f *ssa.Function, depth int) bool
				allowedFn = func(f *ssa.Function, depth int) bool {
					if allowed[kit.FuncName(f)] == what {
						return true
					}
					// a helper that only the designated function(s) call (e.g. a locked takePort)
					sites := c.StaticCallSites(f)
					if depth == 0 || len(sites) == 0 {
						return false
					}
					for _, s := range sites {
						if s == nil || !allowedFn(s.Parent(), depth-1) {
							return false
						}
					}
					return true
				}
				if allowedFn(fn, 2) {
					c.Present("R14.1", key, posOf(ins), "pool %s in its designated function (or a helper only it calls)", what)
				} else {
					c.Bad("R14.1", key, posOf(ins), "port pool written (%s) outside getPort/releasePort/loadExistingTorrent/NewSession: port ownership is not tracked through this site", what)
				}
			})
		}
		c.Floor("R14.1", "writes of Session.availablePorts", n, 4)
	}
}

// regFlowsInside is regFlows for the body of a registrar itself (only
// insertTorrent and nested registrars count).
func (e *c14Env) regFlowsInside(fn *ssa.Function) (reg, notReg *kit.Flow) {
	o, _ := fn.Object().(*types.Func)
	idx, was := e.fallibleReg[o]
	delete(e.fallibleReg, o)
	reg, notReg = e.regFlows(fn)
	if was {
		e.fallibleReg[o] = idx
	}
	return
}

// analyseAcquirer checks one acquire site. It reports whether the function
// hands the port to its caller (and through which results).
func (e *c14Env) analyseAcquirer(a c14Acq) (handsOff bool, portRes, errRes int) {
	c, k := e.c, e.k
	F := a.fn
	portVal := c14ExtractOf(a.call, a.portIdx)
	errVal := c14ExtractOf(a.call, a.errIdx)
	acqKey := kit.FuncName(F) + "/acquire via " + a.via
	if portVal == nil {
		c.Bad("R14.1", acqKey, posOf(a.call), "the port taken from the pool is discarded")
		return
	}
	isPort := func(v ssa.Value) bool { return v != nil && c14Trace(v) == portVal }
	acqFailed := func(at kit.Atom) bool {
		return errVal != nil && at.IsNilCmp(false, func(x *kit.Expr) bool { return c14Subject(x) == errVal })
	}

	// deferred release closures
	var guards []c14Guard
	kit.Instrs(F, func(ins ssa.Instruction) {
		d, ok := ins.(*ssa.Defer)
		if !ok {
			return
		}
		mc, ok := d.Call.Value.(*ssa.MakeClosure)
		if !ok {
			if kit.CallsAny(ins, e.releasePort) {
				guards = append(guards, c14Guard{deferIns: d, kind: "always"})
			}
			return
		}
		cl := mc.Fn.(*ssa.Function)
		var rel *ssa.Call
		kit.Instrs(cl, func(i2 ssa.Instruction) {
			if call, ok := i2.(*ssa.Call); ok && kit.CalleeObj(&call.Call) == e.releasePort {
				rel = call
			}
		})
		if rel == nil {
			return
		}
		e.releaseClosures[cl] = true
		g := c14Guard{deferIns: d, closure: cl}
		if !isPort(argOf(&rel.Call, 1)) {
			c.Bad("R14.1", k.key(F, "deferred release"), posOf(rel), "the deferred closure releases %s, which is not the port acquired at this function's acquire site", kit.Canon(argOf(&rel.Call, 1)))
			return
		}
		atoms := c14DomAtoms(rel.Block())
		switch {
		case len(atoms) == 0:
			g.kind = "always"
		case len(atoms) == 1 && atoms[0].L.Kind == "deref":
			cell, _ := c14Cell(atoms[0].L.Args[0].V).(*ssa.Alloc)
			any := func(*kit.Expr) bool { return true }
			if cell != nil && cell.Parent() == F {
				g.cell = cell
				switch {
				case atoms[0].IsNilCmp(false, any):
					g.kind = "err!=nil"
				case atoms[0].IsFalse(any):
					g.kind = "flag==false"
				case atoms[0].IsTrue(any):
					g.kind = "flag==true"
				}
			}
		}
		if g.kind == "" {
			c.Unknown("R14.1", k.key(F, "deferred release"), posOf(rel), "firing condition of the deferred release closure not understood (%d atoms)", len(atoms))
			return
		}
		guards = append(guards, g)
	})

	// hand-off: some int result always carries the acquired port
	res := F.Signature.Results()
	portRes, errRes = -1, -1
	if res.Len() > 0 && isErrorType(res.At(res.Len()-1).Type()) {
		errRes = res.Len() - 1
	}
	for i := 0; i < res.Len(); i++ {
		all, n := true, 0
		for _, r := range returnsOf(F) {
			if r.Block() == F.Recover {
				continue
			}
			n++
			if !isPort(r.Results[i]) {
				all = false
			}
		}
		if all && n > 0 {
			portRes = i
		}
	}
	handsOff = portRes >= 0 && errRes >= 0

	reg, notReg := e.regFlows(F)
	regSuccess := func(at kit.Atom) bool { // success edge of a fallible registrar
		return at.IsNilCmp(true, func(x *kit.Expr) bool {
			ex, ok := c14Subject(x).(*ssa.Extract)
			if !ok {
				return false
			}
			call, ok := ex.Tuple.(*ssa.Call)
			if !ok {
				return false
			}
			idx, ok := e.fallibleReg[kit.CalleeObj(&call.Call)]
			return ok && idx == ex.Index
		})
	}
	isGuardDefer := func(ins ssa.Instruction) bool {
		for _, g := range guards {
			if ssa.Instruction(g.deferIns) == ins {
				return true
			}
		}
		return false
	}

	// (a) no return with an undischarged port
	np := (&kit.Flow{P: c.Prog, Fn: F, Entry: true,
		Edge: func(at kit.Atom) bool { return acqFailed(at) || regSuccess(at) },
		Instr: func(ins ssa.Instruction, in bool) bool {
			switch {
			case ins == ssa.Instruction(a.call):
				return false
			case isGuardDefer(ins):
				return true
			case kit.CallsAny(ins, e.insertTorrent):
				return true
			case kit.CallsAny(ins, e.releasePort):
				if _, isDefer := ins.(*ssa.Defer); !isDefer && isPort(argOf(kit.CallOf(ins), 1)) {
					return true
				}
			}
			return in
		}}).Solve()
	// written-out releases of the acquired port (error branches without a
	// deferred closure): never after registration, never next to a deferred one
	kit.Instrs(F, func(ins ssa.Instruction) {
		call, ok := ins.(*ssa.Call)
		if !ok || kit.CalleeObj(&call.Call) != e.releasePort || !isPort(argOf(&call.Call, 1)) {
			return
		}
		e.directReleases[ins] = true
		key := k.key(F, "direct release")
		switch {
		case !notReg.Before(ins):
			c.Bad("R14.1", key, posOf(ins), "the acquired port is released on a path on which the torrent may already be registered")
		case len(guards) > 0:
			c.Bad("R14.1", key, posOf(ins), "the acquired port is released here and again by the deferred release closure: if another add takes the port in between, the second release frees a port that is owned")
		default:
			c.OK("R14.1", key, posOf(ins), "released before any registration, no deferred release installed")
		}
	})
	leaks := 0
	for _, r := range np.FailingReturns() {
		if r.Block() == F.Recover {
			continue
		}
		if handsOff && len(guards) == 0 && e.returnsNilError(F, r, errRes) {
			continue // plain hand-off return: the caller owns the port
		}
		leaks++
		c.Bad("R14.1", k.key(F, "port leak"), posOf(r), "a return is reachable after a successful acquire (via %s) on which the port is neither released, nor covered by an installed deferred release, nor owned by a registered torrent: the port is lost from the pool", a.via)
	}
	if leaks == 0 {
		c.OK("R14.1", acqKey, posOf(a.call), "every return after the acquire is on the acquire-failed edge, or behind the deferred release / a release call / a registration")
	}

	// (b) the deferred release fires exactly when the torrent is not registered
	if len(guards) > 1 {
		c.Bad("R14.1", k.key(F, "deferred release"), posOf(guards[1].deferIns), "two deferred releases of the same port are installed")
	}
	if len(guards) == 0 {
		return
	}
	g := guards[0]
	var fires, notFires *kit.Flow
	anyX := func(*kit.Expr) bool { return true }
	constBool := func(v ssa.Value, b bool) bool { return kit.Canon(v).IsConstBool(b) }
	switch g.kind {
	case "err!=nil":
		fires = c14CellFact(c, F, g.cell, false,
			func(st *ssa.Store) bool { return c14Nilness(st.Val, st.Block(), 0) == +1 },
			func(at kit.Atom) bool { return at.IsNilCmp(false, anyX) })
		notFires = c14CellFact(c, F, g.cell, true,
			func(st *ssa.Store) bool { return c14Nilness(st.Val, st.Block(), 0) == -1 },
			func(at kit.Atom) bool { return at.IsNilCmp(true, anyX) })
	case "flag==false", "flag==true":
		want := g.kind == "flag==true"
		fires = c14CellFact(c, F, g.cell, !want,
			func(st *ssa.Store) bool { return constBool(st.Val, want) },
			func(at kit.Atom) bool {
				if want {
					return at.IsTrue(anyX)
				}
				return at.IsFalse(anyX)
			})
		notFires = c14CellFact(c, F, g.cell, want,
			func(st *ssa.Store) bool { return constBool(st.Val, !want) },
			func(at kit.Atom) bool {
				if want {
					return at.IsFalse(anyX)
				}
				return at.IsTrue(anyX)
			})
	}
	nrd := 0
	kit.Instrs(F, func(ins ssa.Instruction) {
		rd, ok := ins.(*ssa.RunDefers)
		if !ok || rd.Block() == F.Recover || !kit.Dominates(g.deferIns, rd) {
			return
		}
		nrd++
		key := k.key(F, "return behind deferred release")
		rdPos := posOf(rd)
		if ret := lastInstr(rd.Block()); ret != nil && ret.Pos().IsValid() {
			rdPos = ret.Pos()
		}
		f, nf := g.kind == "always", false
		if fires != nil {
			f, nf = fires.Before(rd), notFires.Before(rd)
		}
		if handsOff {
			// the caller learns about the release through the error result
			ret, _ := lastInstr(rd.Block()).(*ssa.Return)
			same := false
			if ret != nil && g.kind == "err!=nil" {
				if u, ok := ret.Results[errRes].(*ssa.UnOp); ok && u.Op == token.MUL && u.X == ssa.Value(g.cell) {
					same = true
				}
			}
			c.Check(same, "R14.1", key, rdPos,
				"the returned error is the variable the deferred closure tests: the caller sees err != nil exactly when the port was already released",
				"hand-off acquirer: the returned error is not the variable the deferred release tests, so the caller cannot know whether it owns the port")
			return
		}
		r, nr := reg.Before(rd), notReg.Before(rd)
		switch {
		case r && nf:
			c.OK("R14.1", key, rdPos, "torrent registered on every path to this return and the deferred release (%s) cannot fire", g.kind)
		case nr && f:
			c.OK("R14.1", key, rdPos, "no torrent registered on any path to this return and the deferred release (%s) fires", g.kind)
		case !nr && !nf:
			c.Bad("R14.1", key, rdPos, "the deferred release (%s) can fire on a return that is reached after the torrent was registered: the port goes back to the pool while the registered torrent (and its resume record) still own it, so the next add can be given the same port", g.kind)
		default:
			c.Bad("R14.1", key, rdPos, "a return without registration on which the deferred release (%s) is not certain to fire: the port leaks (registered=%v unregistered=%v fires=%v not-fires=%v)", g.kind, r, nr, f, nf)
		}
	})
	c.Floor("R14.1", fmt.Sprintf("returns of %s behind its deferred release", F.Name()), nrd, 1)
	return
}

// returnsNilError decides that return r certainly returns a nil error in
// result idx (directly, or as the content of the result variable).
func (e *c14Env) returnsNilError(F *ssa.Function, r *ssa.Return, idx int) bool {
	rv := r.Results[idx]
	if u, ok := rv.(*ssa.UnOp); ok && u.Op == token.MUL {
		if cell, ok := u.X.(*ssa.Alloc); ok {
			anyX := func(*kit.Expr) bool { return true }
			fl := c14CellFact(e.c, F, cell, true,
				func(st *ssa.Store) bool { return c14Nilness(st.Val, st.Block(), 0) == -1 },
				func(at kit.Atom) bool { return at.IsNilCmp(true, anyX) })
			return fl.Before(u)
		}
	}
	return c14Nilness(c14Trace(rv), r.Block(), 0) == -1
}

// ---- R14.2 resume record before registry; both on remove ---------------------------

func (e *c14Env) ruleDBBeforeRegistry() {
	c, k := e.c, e.k
	newTorrent := c.FuncObj("torrent", "newTorrent")
	rWrite := c.FuncObj("internal/resumer/boltdbresumer", "(*Resumer).Write")
	rRead := c.FuncObj("internal/resumer/boltdbresumer", "(*Resumer).Read")
	n := 0
	for _, s := range sortSites(c.CallSites(e.insertTorrent)) {
		n++
		key := k.key(s.Fn, "insertTorrent")
		tv := c14Trace(argOf(s.Instr.Common(), 1))
		// the constructor may be called through a wrapper (newTorrentFromMetaInfo(id, ..))
		id := c14CtorID(tv, newTorrent, 2)
		sameID := func(v ssa.Value) bool { return v != nil && c14Trace(v) == id }
		if id == nil {
			// a helper that receives the constructed torrent and persists under t.id of that very parameter
			prm, isParam := tv.(*ssa.Parameter)
			if !isParam {
				c.Bad("R14.2", key, posOf(s.Instr), "the registered torrent is not the result of a newTorrent call (direct or through a constructor wrapper) in this function: its id cannot be related to a resume record")
				continue
			}
			fID := c.Field("torrent", "torrent", "id")
			sameID = func(v ssa.Value) bool {
				if v == nil {
					return false
				}
				x := kit.Canon(v)
				return x.IsField(fID) && len(x.Args) > 0 && x.Args[0].V == ssa.Value(prm)
			}
		}
		fl := (&kit.Flow{P: c.Prog, Fn: s.Fn,
			Edge: func(a kit.Atom) bool {
				return a.IsNilCmp(true, func(x *kit.Expr) bool {
					switch v := c14Subject(x).(type) {
					case *ssa.Call:
						return sameID(e.persistedID(v, 0, rWrite, rRead, 0))
					case *ssa.Extract:
						call, ok := v.Tuple.(*ssa.Call)
						return ok && sameID(e.persistedID(call, v.Index, rWrite, rRead, 0))
					}
					return false
				})
			}}).Solve()
		c.Check(fl.Before(s.Instr), "R14.2", key, posOf(s.Instr),
			"reached only through the err==nil edge of resumer.Write/Read of the id the torrent was created with",
			"torrent inserted into the registry on a path that has not passed a successful resumer.Write (or Read) of its id: a failing or later write leaves a listed torrent without resume record")
	}
	c.Floor("R14.2", "insertTorrent call sites", n, 2)

	// remove: map delete and DeleteBucket on the found path
	rm := c.Func("torrent", "(*Session).removeTorrentFromClient")
	fTorrents := c.Field("torrent", "Session", "torrents")
	torrentsBucket := c.Global("torrent", "torrentsBucket")
	dbUpdate := c.FuncObj("go.etcd.io/bbolt", "(*DB).Update")
	deleteBucket := c.FuncObj("go.etcd.io/bbolt", "(*Bucket).DeleteBucket")
	txBucket := c.FuncObj("go.etcd.io/bbolt", "(*Tx).Bucket")
	var lookup *ssa.Lookup
	kit.Instrs(rm, func(ins ssa.Instruction) {
		if l, ok := ins.(*ssa.Lookup); ok && l.CommaOk && kit.Canon(l.X).IsField(fTorrents) && lookup == nil {
			lookup = l
		}
	})
	if lookup == nil {
		c.Bad("R14.2", kit.FuncName(rm)+"/lookup", rm.Pos(), "removeTorrentFromClient no longer looks the id up in Session.torrents")
	} else {
		idv := c14Trace(lookup.Index)
		notFound := func(a kit.Atom) bool {
			return a.IsFalse(func(x *kit.Expr) bool {
				return x.Kind == "extract" && x.Idx == 1 && x.Args[0].V == ssa.Value(lookup)
			})
		}
		mk := func(discharge func(ssa.Instruction) bool) *kit.Flow {
			return (&kit.Flow{P: c.Prog, Fn: rm, Entry: true, Edge: notFound,
				Instr: func(ins ssa.Instruction, in bool) bool {
					if ins == ssa.Instruction(lookup) {
						return false
					}
					if discharge(ins) {
						return true
					}
					return in
				}}).Solve()
		}
		mapDel := mk(func(ins ssa.Instruction) bool {
			call, ok := ins.(*ssa.Call)
			return ok && isBuiltin(&call.Call, "delete") && kit.Canon(call.Call.Args[0]).IsField(fTorrents) && c14Trace(call.Call.Args[1]) == idv
		})
		dbDel := mk(func(ins ssa.Instruction) bool {
			if !kit.CallsAny(ins, dbUpdate) {
				return false
			}
			if _, isDefer := ins.(*ssa.Defer); isDefer {
				return false
			}
			cl := kit.Canon(argOf(kit.CallOf(ins), 1))
			if cl.Fn == nil {
				return false
			}
			return c.MustCallSummary(cl.Fn, func(i2 ssa.Instruction) bool {
				if !kit.CallsAny(i2, deleteBucket) {
					return false
				}
				cc := kit.CallOf(i2)
				recv := kit.Canon(argOf(cc, 0))
				okBucket := recv.IsCallTo(txBucket) && recv.Args[1].Mentions(func(x *kit.Expr) bool { return x.Kind == "global" && x.Obj == types.Object(torrentsBucket) })
				keyv := argOf(cc, 1)
				if cv, ok := keyv.(*ssa.Convert); ok {
					keyv = cv.X
				}
				return okBucket && c14Trace(keyv) == idv
			}, 0)
		})
		c.Check(len(mapDel.FailingReturns()) == 0, "R14.2", kit.FuncName(rm)+"/found path deletes registry entry", posOf(lookup),
			"every return after the lookup is on the not-found edge or has passed delete(s.torrents, id)",
			"removeTorrentFromClient can return on its found path without deleting the id from Session.torrents")
		c.Check(len(dbDel.FailingReturns()) == 0, "R14.2", kit.FuncName(rm)+"/found path deletes resume record", posOf(lookup),
			"every return after the lookup is on the not-found edge or has passed db.Update(DeleteBucket([]byte(id))) on the torrents bucket",
			"removeTorrentFromClient can return on its found path without deleting the resume bucket of the id: the torrent reappears after a restart")
	}
	// the only registry delete
	nd := 0
	for _, fn := range c.ModuleFunctions() {
		kit.Instrs(fn, func(ins ssa.Instruction) {
			call, ok := ins.(*ssa.Call)
			if !ok || !(isBuiltin(&call.Call, "delete") || isBuiltin(&call.Call, "clear")) || !kit.Canon(call.Call.Args[0]).IsField(fTorrents) {
				return
			}
			nd++
			c.Check(fn == rm, "R14.2", k.key(fn, "delete Session.torrents"), posOf(ins),
				"registry delete inside removeTorrentFromClient (whose found path also deletes the resume record)",
				"torrent deleted from the registry outside removeTorrentFromClient: its resume record and port are not handled")
		})
	}
	c.Floor("R14.2", "registry delete sites", nd, 1)
}

// persistedID answers: if result resIdx of `call` is a nil error, which id
// has certainly been written to / read from the resume database? Directly
// for Resumer.Write/Read, and through one level of module helper whose
// every return either passes on the Write/Read error, or returns a certainly
// non-nil error, or returns nil only behind the err==nil edge of the
// Write/Read. nil: none.
func (e *c14Env) persistedID(call *ssa.Call, resIdx int, rWrite, rRead *types.Func, depth int) ssa.Value {
	c := e.c
	o := kit.CalleeObj(&call.Call)
	switch {
	case o == nil:
		return nil
	case o == rWrite && resIdx == 0:
		return argOf(&call.Call, 1)
	case o == rRead && resIdx == 1:
		return argOf(&call.Call, 1)
	}
	f := call.Call.StaticCallee()
	if depth > 0 || f == nil || f.Blocks == nil || !kit.InModule(pkgOf(f)) {
		return nil
	}
	res := f.Signature.Results()
	if resIdx >= res.Len() || !isErrorType(res.At(resIdx).Type()) {
		return nil
	}
	var out ssa.Value
	kit.Instrs(f, func(ins ssa.Instruction) {
		ic, ok := ins.(*ssa.Call)
		if !ok || out != nil {
			return
		}
		var ev ssa.Value
		var idv ssa.Value
		switch kit.CalleeObj(&ic.Call) {
		case rWrite:
			ev, idv = ic, argOf(&ic.Call, 1)
		case rRead:
			ev, idv = c14ExtractOf(ic, 1), argOf(&ic.Call, 1)
		default:
			return
		}
		p, ok := c14Trace(idv).(*ssa.Parameter)
		if !ok || ev == nil {
			return
		}
		pj := -1
		for j, q := range f.Params {
			if q == p {
				pj = j
			}
		}
		if pj < 0 || pj >= len(call.Call.Args) {
			return
		}
		okFlow := (&kit.Flow{P: c.Prog, Fn: f, Edge: func(a kit.Atom) bool {
			return a.IsNilCmp(true, func(x *kit.Expr) bool { return c14Subject(x) == ev })
		}}).Solve()
		for _, r := range returnsOf(f) {
			if r.Block() == f.Recover {
				continue
			}
			rv := r.Results[resIdx]
			if h := c14Held(rv); h != nil {
				rv = h
			}
			rv = c14Trace(rv)
			switch n := c14Nilness(rv, r.Block(), 0); {
			case rv == ev, n == +1:
			case n == -1 && okFlow.Before(r):
			default:
				return
			}
		}
		out = call.Call.Args[pj]
	})
	return out
}

// ---- R14.3 duplicate id check and insert in one lock region ------------------------

func (e *c14Env) ruleDuplicateID() {
	c, k := e.c, e.k
	fTorrents := c.Field("torrent", "Session", "torrents")
	fMu := c.Field("torrent", "Session", "mTorrents")
	lock := c.FuncObj("sync", "(*RWMutex).Lock")
	unlock := c.FuncObj("sync", "(*RWMutex).Unlock")
	rlock := c.FuncObj("sync", "(*RWMutex).RLock")
	runlock := c.FuncObj("sync", "(*RWMutex).RUnlock")
	onMu := func(ins ssa.Instruction, fs ...*types.Func) bool {
		call, ok := ins.(*ssa.Call) // deferred unlocks run at exit: not a region end before the store
		return ok && kit.CallsAny(ins, fs...) && kit.Canon(argOf(&call.Call, 0)).IsField(fMu)
	}
	insertFn := c.Func("torrent", "(*Session).insertTorrent")
	// "mTorrents is write-locked": keyed on the mutex field, valid in any function
	// and across call boundaries (the store may sit in a helper called under the lock)
	lockedSpec := &kit.Spec{P: c.Prog, Deep: kit.DefaultDeep, Instr: func(i2 ssa.Instruction, in bool) bool {
		if onMu(i2, lock) {
			return true
		}
		if onMu(i2, unlock) {
			return false
		}
		return in
	}}
	n := 0
	for _, fn := range c.ModuleFunctions() {
		kit.Instrs(fn, func(ins ssa.Instruction) {
			mu, ok := ins.(*ssa.MapUpdate)
			if !ok || !kit.Canon(mu.Map).IsField(fTorrents) {
				return
			}
			n++
			// keyed by the registrar when the store is (a helper of) insertTorrent, so
			// that extracting the store into a helper keeps the construct's identity
			keyFn := fn
			if c.OnlyCalledFrom(fn, insertFn, 2) {
				keyFn = insertFn
			}
			key := k.key(keyFn, "insert Session.torrents")
			keyStr := kit.Canon(mu.Key).String()
			keyVal := c14Trace(mu.Key)
			sameKey := func(x *kit.Expr) bool {
				return x != nil && (x.String() == keyStr || (x.V != nil && c14Trace(x.V) == keyVal))
			}
			isLookup := func(x *kit.Expr) bool {
				return x != nil && x.Kind == "lookup" && x.Args[0].IsField(fTorrents) && sameKey(x.Args[1])
			}
			absent := (&kit.Flow{P: c.Prog, Fn: fn,
				Edge: func(a kit.Atom) bool {
					if a.IsFalse(func(x *kit.Expr) bool { return x.Kind == "extract" && x.Idx == 1 && isLookup(x.Args[0]) }) {
						return true
					}
					return a.IsNilCmp(true, isLookup)
				},
				Instr: func(i2 ssa.Instruction, in bool) bool {
					if onMu(i2, lock, unlock, rlock, runlock) {
						return false
					}
					if m2, ok := i2.(*ssa.MapUpdate); ok && kit.Canon(m2.Map).IsField(fTorrents) {
						return false
					}
					return in
				}}).Solve()
			l, a := lockedSpec.Holds(ins, 2), absent.Before(ins)
			switch {
			case l && a:
				c.OK("R14.3", key, posOf(ins), "insert under mTorrents.Lock after the same key tested absent inside the region")
			case l:
				c.Bad("R14.3", key, posOf(ins), "s.torrents[%s] is stored under mTorrents.Lock without a lookup of the same key inside that lock region: the only duplicate-id test (Session.add, under RLock, released before the torrent is built) and this insert are in different critical sections, so N concurrent AddTorrent/AddURI calls with one explicit ID all pass the test and all insert; the last one wins the map slot, the others stay alive unlisted and keep their ports, and all share one resume bucket", keyStr)
			default:
				c.Bad("R14.3", key, posOf(ins), "s.torrents[%s] is stored without holding mTorrents.Lock", keyStr)
			}
		})
	}
	c.Floor("R14.3", "inserts into Session.torrents", n, 1)
}

// ---- R14.5 off-loop dereference of nil-able torrent state ---------------------------

func (e *c14Env) ruleNilDeref() {
	c, k := e.c, e.k
	tTorrent := c.Named("torrent", "torrent")
	scope := map[*types.Named]bool{
		c.Named("torrent", "Session"):    true,
		c.Named("torrent", "Torrent"):    true,
		c.Named("torrent", "rpcHandler"): true,
	}
	// nil-able pointer fields of torrent: a nil constant is stored, or is
	// passed for the constructor parameter that initialises the field.
	nilable := map[*types.Var]string{}
	for _, f := range c14StructFields(tTorrent) {
		if _, ok := f.Type().Underlying().(*types.Pointer); !ok {
			continue
		}
		var whys []string
		for _, st := range fieldStores(c, f) {
			if why := c14MayBeNil(c, st.Val, st.Fn, 0); why != "" {
				whys = append(whys, why)
			}
		}
		if len(whys) > 0 {
			sort.Strings(whys)
			nilable[f] = whys[0]
		}
	}
	n := 0
	specs := map[*types.Var]*kit.Spec{}
	// session-level code: methods of the scoped types, and plain helpers of
	// package torrent that run only as part of such methods (compactSpec(t))
	var inScope func(root *ssa.Function, d int) bool
	inScope = func(root *ssa.Function, d int) bool {
		if root.Signature.Recv() != nil {
			return scope[derefNamed(root.Signature.Recv().Type())]
		}
		if d <= 0 || !inPkg(root, c, "torrent") {
			return false
		}
		sites := c.StaticCallSites(root)
		if len(sites) == 0 {
			return false
		}
		for _, s := range sites {
			if s == nil || !inScope(c14RootFn(s.Parent()), d-1) {
				return false
			}
		}
		return true
	}
	for _, fn := range c.ModuleFunctions() {
		root := c14RootFn(fn)
		if !inScope(root, 2) {
			continue
		}
		kit.Instrs(fn, func(ins ssa.Instruction) {
			var ptr ssa.Value
			what := ""
			switch x := ins.(type) {
			case *ssa.FieldAddr:
				ptr, what = x.X, "."+derefStructField(x)
			case *ssa.UnOp:
				if x.Op == token.MUL {
					if _, isPtr := x.Type().Underlying().(*types.Struct); isPtr {
						ptr, what = x.X, " (copy)"
					}
				}
			case ssa.CallInstruction:
				cc := x.Common()
				if callee := cc.StaticCallee(); callee != nil && callee.Signature.Recv() != nil && len(cc.Args) > 0 {
					if _, isPtr := callee.Signature.Recv().Type().(*types.Pointer); isPtr {
						ptr, what = cc.Args[0], "."+callee.Name()+"()"
					}
				}
			}
			if ptr == nil {
				return
			}
			pe := kit.Canon(ptr)
			if pe.Kind != "field" || nilable[pe.Field] == "" {
				return
			}
			f := pe.Field
			n++
			if specs[f] == nil {
				specs[f] = c.FieldNilSpec(f, false, kit.DefaultDeep)
			}
			key := k.key(fn, "deref torrent."+f.Name())
			if specs[f].Holds(ins, 2) {
				c.OK("R14.5", key, posOf(ins), "torrent.%s%s is evaluated only under a dominating %s != nil test", f.Name(), what, f.Name())
			} else {
				c.Bad("R14.5", key, posOf(ins), "session-level code evaluates torrent.%s%s without a dominating nil test; the field can be nil (%s): nil pointer dereference (panic) for such a torrent", f.Name(), what, nilable[f])
			}
		})
	}
	c.Floor("R14.5", "off-loop dereferences of nil-able torrent fields in Session/Torrent/rpcHandler methods", n, 4)
}

func derefStructField(fa *ssa.FieldAddr) string {
	t := fa.X.Type().Underlying()
	if p, ok := t.(*types.Pointer); ok {
		t = p.Elem().Underlying()
	}
	if st, ok := t.(*types.Struct); ok {
		return st.Field(fa.Field).Name()
	}
	return "?"
}

// c14MayBeNil explains why v may be nil: a nil constant, a phi with a nil
// edge, or a parameter for which some caller passes nil.
func c14MayBeNil(c *kit.Ctx, v ssa.Value, fn *ssa.Function, depth int) string {
	switch x := v.(type) {
	case *ssa.Const:
		if x.Value == nil {
			return "nil is stored in " + fn.Name()
		}
	case *ssa.Phi:
		for _, e := range x.Edges {
			if why := c14MayBeNil(c, e, fn, depth+1); why != "" {
				return why
			}
		}
	case *ssa.Parameter:
		if depth > 2 {
			return ""
		}
		o, _ := fn.Object().(*types.Func)
		if o == nil {
			return ""
		}
		idx := -1
		for i, p := range fn.Params {
			if p == x {
				idx = i
			}
		}
		var whys []string
		for _, s := range sortSites(c.CallSites(o)) {
			if idx < 0 || idx >= len(s.Instr.Common().Args) {
				continue
			}
			if why := c14MayBeNil(c, s.Instr.Common().Args[idx], s.Fn, depth+1); why != "" {
				whys = append(whys, fmt.Sprintf("%s passes nil for %s at %s", s.Fn.Name(), x.Name(), c.Pos(posOf(s.Instr))))
			}
		}
		if len(whys) > 0 {
			sort.Strings(whys)
			return whys[0]
		}
	}
	return ""
}

package rules

import (
	"go/token"
	"go/types"
	"strings"

	"golang.org/x/tools/go/ssa"

	"rainverif/checker/kit"
)

// Rules from the fourth seeding round and the third refactoring corpus.

func init() {
	registerExtra("C17", runR17_10)
	registerExtra("C12", runR12_9)
	registerExtra("C16", func(c *kit.Ctx) { runBodyUses(c, "R16.7") })
	registerExtra("C06", func(c *kit.Ctx) { runBodyUses(c, "R06.9") })
}

// ---- R17.10 a web-seed slot is freed only for a downloader that was running -------------
//
// torrent.webseedActiveDownloads counts running web-seed downloaders and is what the cap
// WebseedMaxDownloads is tested against (R17.5). A decrement that is not tied to a downloader
// that was actually running makes the counter drift below the number of running downloaders,
// and the cap admits one more download than configured. Each decrement therefore needs a
// licence on every path:
//   - the enclosing function handles a *urldownloader.PieceResult: the result channel is
//     unbuffered and URLDownloader.Close joins the goroutine, so a result that is being handled
//     comes from a downloader that is still the running downloader of its source;
//   - or the path passed the true edge of a call that reports "a downloader was closed"
//     (a bool-returning function that can reach URLDownloader.Close), of Downloading(), of
//     src.Downloader != nil, or of a downloader identity test.
// One licence pays for one decrement.
func runR17_10(c *kit.Ctx) {
	k := newKeyer()
	fActive := c.Field("torrent", "torrent", "webseedActiveDownloads")
	fSrcDl := c.Field("internal/webseedsource", "WebseedSource", "Downloader")
	udClose := c.Func("internal/urldownloader", "(*URLDownloader).Close")
	tRes := c.Named("internal/urldownloader", "PieceResult")
	downloading := c.FuncObj("internal/webseedsource", "(*WebseedSource).Downloading")

	reachesClose := map[*ssa.Function]bool{}
	reaches := func(fn *ssa.Function) bool {
		if fn == nil {
			return false
		}
		if v, ok := reachesClose[fn]; ok {
			return v
		}
		r := c.Reach([]*ssa.Function{fn}, false, nil)[udClose]
		reachesClose[fn] = r
		return r
	}
	isDec := func(ins ssa.Instruction) bool {
		v, ok := kit.StoresField(ins, fActive)
		if !ok {
			return false
		}
		e := kit.Canon(v)
		return e.Kind == "binop" && e.Op == token.SUB
	}
	lic := &kit.Spec{P: c.Prog, Deep: 0,
		Edge: func(a kit.Atom) bool {
			if a.IsTrue(func(e *kit.Expr) bool {
				if e.Kind != "call" {
					return false
				}
				if e.IsCallTo(downloading) {
					return true
				}
				return e.Fn != nil && reaches(e.Fn)
			}) {
				return true
			}
			if a.IsNilCmp(false, func(e *kit.Expr) bool { return e.IsField(fSrcDl) }) {
				return true
			}
			if a.Op == token.EQL && (a.L.IsField(fSrcDl) || a.R.IsField(fSrcDl)) && !a.L.IsNil() && !a.R.IsNil() {
				return true
			}
			return false
		},
		Instr: func(ins ssa.Instruction, in bool) bool {
			if isDec(ins) {
				return false
			}
			return in
		},
	}
	n := 0
	for _, st := range fieldStores(c, fActive) {
		if !isDec(st.Store) {
			continue
		}
		n++
		key := k.key(st.Fn, "free web-seed slot")
		handlesResult := false
		for fn := st.Fn; fn != nil && !handlesResult; fn = fn.Parent() {
			for _, p := range fn.Params {
				if derefNamed(p.Type()) == tRes {
					handlesResult = true
				}
			}
		}
		if handlesResult {
			c.OK("R17.10", key, posOf(st.Store), "slot freed while handling a PieceResult of that downloader (unbuffered result channel + Close joins the downloader: the sender is still the running downloader of its source)")
			continue
		}
		c.Check(lic.Holds(st.Store, 2), "R17.10", key, posOf(st.Store),
			"slot freed only on a path that established that a running downloader was closed",
			"webseedActiveDownloads is decremented on a path that does not establish that a running downloader was closed (the source's downloader may already have been closed, e.g. after it delivered the last piece of its range): the counter drops below the number of running downloaders and WebseedMaxDownloads admits one download too many")
	}
	c.Floor("R17.10", "decrements of webseedActiveDownloads", n, 4)
	// the premise of the PieceResult licence: the result channel is unbuffered
	fResC := c.Field("torrent", "torrent", "webseedPieceResultC")
	nb := 0
	for _, st := range fieldStores(c, fResC) {
		e := kit.Canon(st.Val)
		if e.Kind == "call" && len(e.Args) == 1 {
			nb++
			z, ok := e.Args[0].IntConst()
			c.Check(ok && z == 0, "R17.10", k.key(st.Fn, "result channel capacity"), posOf(st.Store),
				"webseedPieceResultC is unbuffered", "webseedPieceResultC is buffered: a result can be handled after its downloader was closed, the PieceResult licence of R17.10 no longer holds")
		}
	}
	c.Floor("R17.10", "constructions of webseedPieceResultC", nb, 1)
}

// ---- R12.9 the connection that went through the MSE handshake is the one that is used ----
//
// btconn.Accept / btconn.Dial return the connection to use from then on (the MSE wrapper: it
// holds the cipher state AND the bytes that were read ahead during the handshake, e.g. the
// initial payload). Whoever calls them must adopt the returned connection on every path on which
// the call succeeded; keeping the raw socket for some outcomes loses buffered bytes.
func runR12_9(c *kit.Ctx) {
	k := newKeyer()
	n := 0
	for _, name := range []string{"Accept", "Dial"} {
		obj := c.FuncObj("internal/btconn", name)
		for _, s := range sortSites(c.CallSites(obj)) {
			call, ok := s.Instr.(*ssa.Call)
			if !ok {
				continue
			}
			n++
			var connV, errV ssa.Value
			for _, r := range *call.Referrers() {
				if ex, ok := r.(*ssa.Extract); ok {
					if ex.Index == 0 {
						connV = ex
					}
					if types.Identical(ex.Type(), types.Universe.Lookup("error").Type()) {
						errV = ex
					}
				}
			}
			key := k.key(s.Fn, "adopt conn of btconn."+name)
			if connV == nil {
				c.Bad("R12.9", key, posOf(call), "the connection returned by btconn.%s is discarded", name)
				continue
			}
			adopts := func(ins ssa.Instruction) bool {
				switch x := ins.(type) {
				case *ssa.Store:
					v := x.Val
					if ci, ok := v.(*ssa.ChangeInterface); ok {
						v = ci.X
					}
					if mi, ok := v.(*ssa.MakeInterface); ok {
						v = mi.X
					}
					return v == connV
				case *ssa.Return:
					for _, r := range x.Results {
						if r == connV {
							return true
						}
					}
				}
				return false
			}
			fl := &kit.Flow{P: c.Prog, Fn: s.Fn, Entry: true,
				Instr: func(ins ssa.Instruction, in bool) bool {
					if ins == ssa.Instruction(call) {
						return false
					}
					if adopts(ins) {
						return true
					}
					return in
				},
				Edge: func(a kit.Atom) bool {
					// the failure edge needs no adoption
					return errV != nil && a.IsNilCmp(false, func(e *kit.Expr) bool { return e.V == errV })
				},
			}
			fl.Solve()
			bad := fl.FailingReturns()
			if len(bad) == 0 {
				c.OK("R12.9", key, posOf(call), "every success path stores (or returns) the connection returned by btconn.%s", name)
			} else {
				c.Bad("R12.9", key, posOf(bad[0]), "a return is reachable after a successful btconn.%s on which the returned connection was not adopted (stored / returned): the raw socket stays in use and bytes buffered by the handshake (initial payload) or the cipher are lost", name)
			}
		}
	}
	c.Floor("R12.9", "call sites of btconn.Accept/Dial", n, 2)
}

// ---- R16.7 / R06.9 an HTTP response body is only read through a bound -----------------------
//
// Every use of a value loaded from http.Response.Body in library code must be one of:
// Close; argument of io.LimitReader; destination-bounded reads (io.ReadFull, io.ReadAtLeast,
// Read, io.CopyN); being passed to a module function whose parameter is, recursively, only used
// this way. Anything else (io.ReadAll, io.Copy, a decoder, bufio) reads as much as the server
// sends.
func runBodyUses(c *kit.Ctx, rule string) {
	k := newKeyer()
	resp := c.Named("net/http", "Response")
	var fBody *types.Var
	st := resp.Underlying().(*types.Struct)
	for i := 0; i < st.NumFields(); i++ {
		if st.Field(i).Name() == "Body" {
			fBody = st.Field(i)
		}
	}
	if fBody == nil {
		c.Unknown(rule, "net/http.Response.Body", token.NoPos, "field not found")
		return
	}
	boundedCallee := func(fn *ssa.Function, obj *types.Func) bool {
		name := ""
		pkg := ""
		if fn != nil {
			name, pkg = fn.Name(), kit.FnPkgPath(fn)
		} else if obj != nil {
			name = obj.Name()
			if obj.Pkg() != nil {
				pkg = obj.Pkg().Path()
			}
		}
		if pkg == "io" && (name == "LimitReader" || name == "ReadFull" || name == "ReadAtLeast" || name == "CopyN") {
			return true
		}
		return name == "Close" || name == "Read"
	}
	var usesOK func(v ssa.Value, depth int, why *string) bool
	usesOK = func(v ssa.Value, depth int, why *string) bool {
		for _, r := range *v.Referrers() {
			switch u := r.(type) {
			case *ssa.DebugRef:
			case *ssa.ChangeInterface:
				if !usesOK(u, depth, why) {
					return false
				}
			case *ssa.MakeInterface:
				if !usesOK(u, depth, why) {
					return false
				}
			case *ssa.Phi:
				// a merged reader variable (rc = resp.Body / rc = file): follow it
				if depth > 3 || !usesOK(u, depth+1, why) {
					return false
				}
			case *ssa.Defer:
				if !boundedCallee(u.Call.StaticCallee(), kit.CalleeObj(&u.Call)) {
					*why = "deferred " + u.Call.String()
					return false
				}
			case *ssa.Call:
				cc := u.Common()
				callee := cc.StaticCallee()
				if boundedCallee(callee, kit.CalleeObj(cc)) {
					continue
				}
				if callee != nil && kit.InModule(kit.FnPkgPath(callee)) && depth < 3 && len(callee.Blocks) > 0 {
					okAll := true
					for i, a := range cc.Args {
						if a == v && i < len(callee.Params) {
							if !usesOK(callee.Params[i], depth+1, why) {
								okAll = false
							}
						}
					}
					if okAll {
						continue
					}
					return false
				}
				*why = cc.String()
				return false
			default:
				*why = r.String()
				return false
			}
		}
		return true
	}
	n := 0
	for _, fn := range c.ModuleFunctions() {
		p := kit.FnPkgPath(fn)
		if strings.HasSuffix(p, "internal/command") || strings.HasSuffix(p, "internal/console") || strings.HasSuffix(p, "/rain") || strings.HasSuffix(p, "rainrpc") {
			continue // CLI front ends: the operator's own URLs (same exclusion as R07.4)
		}
		fn := fn
		kit.Instrs(fn, func(ins ssa.Instruction) {
			ld, ok := ins.(*ssa.UnOp)
			if !ok || ld.Op != token.MUL {
				return
			}
			fa, ok := ld.X.(*ssa.FieldAddr)
			if !ok {
				return
			}
			s := derefStructT(fa.X.Type())
			if s == nil || s.Field(fa.Field) != fBody {
				return
			}
			n++
			why := ""
			c.Check(usesOK(ld, 0, &why), rule, k.key(fn, "use of Response.Body"), posOf(ins),
				"response body used only through Close / io.LimitReader / destination-bounded reads",
				"an HTTP response body is read without a bound ("+why+"): the server decides how much the client reads (and buffers); the configured response-size limit does not apply")
		})
	}
	c.Floor(rule, "loads of http.Response.Body in library code", n, 6)
}

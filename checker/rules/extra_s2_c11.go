package rules

import (
	"go/token"

	"golang.org/x/tools/go/ssa"

	"rainverif/checker/kit"
)

// Rule added to C11 after the second round of independently seeded changes.
//
// R11.7 a resumed block read continues where it stopped. R11.2 treats
//	(*PeerReader).readPiece(length) as the primitive that consumes exactly
//	`length` bytes into the delivered buffer. readPiece may resume after a
//	read timeout that delivered part of the block: it reads into
//	buf.Data[m:]. Whenever the lower bound of the destination of a looping
//	read (io.ReadFull / io.ReadAtLeast) on the peer stream is loop-carried,
//	every value it takes on a back edge must depend on its previous value
//	(an accumulation such as m += n). An offset that forgets its previous
//	value (m = n) misplaces the bytes after the second partial read: the block
//	delivered is not the block sent. Structural (data dependence of the
//	loop-carried offset on itself), no arithmetic is evaluated.

func init() { registerExtra("C11", runR11_7) }

func runR11_7(c *kit.Ctx) {
	k := newKeyer()
	fR := c.Field(c11PR, "PeerReader", "r")
	readFull := c.FuncObj("io", "ReadFull")
	readAtLeast := c.FuncObj("io", "ReadAtLeast")
	n := 0
	for _, fn := range c.ModuleFunctions() {
		if !inPkg(fn, c, c11PR) {
			continue
		}
		fn := fn
		kit.Instrs(fn, func(ins ssa.Instruction) {
			call, ok := ins.(*ssa.Call)
			if !ok || !kit.CallsAny(ins, readFull, readAtLeast) || len(call.Call.Args) < 2 {
				return
			}
			if !kit.Canon(call.Call.Args[0]).Strip().IsField(fR) {
				return
			}
			sl, ok := call.Call.Args[1].(*ssa.Slice)
			if !ok || sl.Low == nil {
				return
			}
			// the offset as a loop-carried value: a phi, or a local cell
			off := c11StripConv(sl.Low)
			phi, ok := off.(*ssa.Phi)
			if !ok {
				if a := c11LoadOf(off); a != nil {
					n++
					key := k.key(fn, "resume offset")
					okAll, cnt := true, 0
					for _, r := range *a.Referrers() {
						st, isSt := r.(*ssa.Store)
						if !isSt || st.Addr != ssa.Value(a) {
							continue
						}
						if _, isConst := c11StripConv(st.Val).(*ssa.Const); isConst {
							continue
						}
						cnt++
						if !dependsOn(st.Val, func(v ssa.Value) bool { return c11LoadOf(v) == a }, 0) {
							okAll = false
						}
					}
					c.Check(okAll, "R11.7", key, posOf(call), "the resume offset of the block read is only ever advanced from its previous value",
						"the offset at which the block read resumes is re-assigned from a value that does not depend on the previous offset: after a second partial read the bytes land at the wrong place of the block")
					_ = cnt
				}
				return
			}
			n++
			key := k.key(fn, "resume offset")
			bad := ""
			for _, e := range phi.Edges {
				if _, isConst := c11StripConv(e).(*ssa.Const); isConst {
					continue // initial value
				}
				if !dependsOn(e, func(v ssa.Value) bool { return v == ssa.Value(phi) }, 0) {
					bad = kit.Canon(e).String()
				}
			}
			c.Check(bad == "", "R11.7", key, posOf(call), "the resume offset of the block read accumulates: every loop-carried value depends on the previous offset",
				"the offset at which the block read resumes takes the value "+bad+" which does not depend on the previous offset (m = n instead of m += n): after a second partial read the bytes land at the wrong place of the block")
		})
	}
	c.Floor("R11.7", "looping reads of the peer stream into a destination with a loop-carried offset", n, 1)
}

// dependsOn: v is computed (through arithmetic, conversions and phis) from a
// value matched by pred.
func dependsOn(v ssa.Value, pred func(ssa.Value) bool, depth int) bool {
	if v == nil || depth > 8 {
		return false
	}
	if pred(v) {
		return true
	}
	switch x := v.(type) {
	case *ssa.BinOp:
		if x.Op == token.ADD || x.Op == token.SUB {
			return dependsOn(x.X, pred, depth+1) || dependsOn(x.Y, pred, depth+1)
		}
	case *ssa.Convert:
		return dependsOn(x.X, pred, depth+1)
	case *ssa.ChangeType:
		return dependsOn(x.X, pred, depth+1)
	case *ssa.Phi:
		any := false
		for _, e := range x.Edges {
			if dependsOn(e, pred, depth+1) {
				any = true
			} else if _, isConst := e.(*ssa.Const); !isConst {
				return false
			}
		}
		return any
	}
	return false
}

package rules

import (
	"fmt"
	"go/constant"
	"go/token"
	"go/types"
	"sort"

	"golang.org/x/tools/go/ssa"

	"rainverif/checker/kit"
)

// R14.4: resume codec tables (K7 table agreement).

// c14Codec names one text/wire encoding together with the Go type on the
// in-memory side of it. Encoder and decoder of a pair get the SAME name
// (pairs table): Itoa|FormatInt(base 10) / Atoi|ParseInt(base 10) = "dec",
// FormatBool|"true"|"false" / ParseBool = "bool", Duration.String /
// ParseDuration = "duration", Time.Format(L) / time.Parse(L) = "time:L",
// json.Marshal / json.Unmarshal = "json", Encoding.EncodeToString /
// DecodeString = "base64:<encoding>", plain copy / []byte<->string = "raw",
// numeric conversion T(x) / S(y) = "conv".
type c14Codec struct{ Op, Typ string }

func (x c14Codec) String() string { return x.Op + "(" + x.Typ + ")" }

func isBytesOrString(t types.Type) bool {
	switch u := t.Underlying().(type) {
	case *types.Basic:
		return u.Info()&types.IsString != 0
	case *types.Slice:
		b, ok := u.Elem().Underlying().(*types.Basic)
		return ok && b.Kind() == types.Byte
	}
	return false
}

func c14IntArg(v ssa.Value) int64 {
	n, _ := kit.ConstInt(v)
	return n
}

func c14GlobalName(v ssa.Value) string {
	e := kit.Canon(v)
	if e.Kind == "deref" && len(e.Args) == 1 && e.Args[0].Kind == "global" {
		return e.Args[0].Name
	}
	return e.String()
}

// c14Enc peels the encoder applied to a stored value: the codec and the
// in-memory source value.
func c14Enc(v ssa.Value) (c14Codec, ssa.Value) {
	for i := 0; i < 12; i++ {
		v = c14Trace(v)
		switch x := v.(type) {
		case *ssa.Convert:
			if isBytesOrString(x.X.Type()) && isBytesOrString(x.Type()) {
				v = x.X
				continue
			}
			return c14Codec{"conv", c14TypeStr(x.X.Type()) + ">" + c14TypeStr(x.Type())}, x.X
		case *ssa.MakeInterface:
			v = x.X
			continue
		case *ssa.Extract:
			if call, ok := x.Tuple.(*ssa.Call); ok && x.Index == 0 {
				v = call
				continue
			}
		case *ssa.Const:
			if s, ok := c14ConstString(x); ok {
				if s == "true" || s == "false" {
					return c14Codec{"bool", "bool"}, x
				}
				return c14Codec{"const:" + s, "string"}, x
			}
		case *ssa.Parameter:
			// the encoded text is handed to a helper (writeStartedAll("true")):
			// judged at every static call site, which must agree
			if args := c14ArgsOf(x); len(args) > 0 {
				first, src := c14Enc(args[0])
				for _, a := range args[1:] {
					if cd, _ := c14Enc(a); cd != first {
						return c14Codec{"mixed:" + first.String() + "/" + cd.String(), c14TypeStr(x.Type())}, x
					}
				}
				return first, src
			}
		case *ssa.Call:
			a := x.Call.Args
			switch c14FullName(&x.Call) {
			case "strconv.Itoa":
				n := c14NumSrc(a[0])
				return c14Codec{"dec", c14TypeStr(n.Type())}, n
			case "strconv.FormatInt", "strconv.FormatUint":
				n := c14NumSrc(a[0]) // FormatInt(int64(x), 10) encodes x
				if b := c14IntArg(a[1]); b != 10 {
					return c14Codec{fmt.Sprintf("int/base%d", b), c14TypeStr(n.Type())}, n
				}
				return c14Codec{"dec", c14TypeStr(n.Type())}, n
			case "strconv.FormatBool":
				return c14Codec{"bool", "bool"}, a[0]
			case "time.(Duration).String":
				return c14Codec{"duration", "time.Duration"}, a[0]
			case "time.(Time).Format":
				l, _ := c14ConstString(a[1])
				return c14Codec{"time:" + l, "time.Time"}, a[0]
			case "encoding/json.Marshal":
				in := a[0]
				if mi, ok := in.(*ssa.MakeInterface); ok {
					in = mi.X
				}
				return c14Codec{"json", c14TypeStr(in.Type())}, in
			case "encoding/base64.(*Encoding).EncodeToString":
				return c14Codec{"base64:" + c14GlobalName(a[0]), "[]byte"}, a[1]
			}
		}
		break
	}
	return c14Codec{"raw", c14TypeStr(v.Type())}, v
}

// c14NumSrc strips widening integer conversions from the operand of a
// number formatter.
func c14NumSrc(v ssa.Value) ssa.Value {
	for i := 0; i < 4; i++ {
		cv, ok := v.(*ssa.Convert)
		if !ok {
			break
		}
		fb, ok1 := cv.X.Type().Underlying().(*types.Basic)
		tb, ok2 := cv.Type().Underlying().(*types.Basic)
		if !ok1 || !ok2 || fb.Info()&types.IsInteger == 0 || tb.Info()&types.IsInteger == 0 {
			break
		}
		v = cv.X
	}
	return v
}

// c14Dec peels the decoder that produced a value: the codec and the wire
// side input (after []byte<->string transport conversions).
func c14Dec(v ssa.Value) (codec c14Codec, in ssa.Value) {
	outer := v
	strip := func(w ssa.Value) ssa.Value {
		for i := 0; i < 6; i++ {
			w = c14Trace(w)
			if cv, ok := w.(*ssa.Convert); ok && isBytesOrString(cv.X.Type()) && isBytesOrString(cv.Type()) {
				w = cv.X
				continue
			}
			if call, ok := w.(*ssa.Call); ok {
				if a := c14RawCopyArg(call); a != nil { // copyBytes(value): a transport copy
					w = a
					continue
				}
			}
			break
		}
		return w
	}
	v = c14Trace(v)
	// numeric conversions of a decoded number (int(ParseInt(..))) are on the
	// in-memory side of the text decoder; a conversion with no text decoder
	// underneath is the codec itself (JSON form).
	var conv *ssa.Convert
	for i := 0; i < 4; i++ {
		cv, ok := v.(*ssa.Convert)
		if !ok || (isBytesOrString(cv.X.Type()) && isBytesOrString(cv.Type())) {
			break
		}
		if conv == nil {
			conv = cv
		}
		v = c14Trace(cv.X)
	}
	if conv != nil {
		if ex, ok := v.(*ssa.Extract); !ok || ex.Index != 0 {
			return c14Codec{"conv", c14TypeStr(conv.Type()) + ">" + c14TypeStr(conv.X.Type())}, strip(conv.X)
		}
		defer func(t types.Type) {
			if codec.Op == "dec" || len(codec.Op) > 4 && codec.Op[:4] == "int/" {
				codec.Typ = c14TypeStr(t) // int(ParseInt(s, 10, 64)) decodes an int
			}
		}(conv.Type())
	}
	if ex, ok := v.(*ssa.Extract); ok && ex.Index == 0 {
		if call, ok := ex.Tuple.(*ssa.Call); ok {
			a := call.Call.Args
			switch c14FullName(&call.Call) {
			case "strconv.Atoi":
				return c14Codec{"dec", "int"}, strip(a[0])
			case "strconv.ParseInt", "strconv.ParseUint":
				typ := fmt.Sprintf("int%d", c14IntArg(a[2]))
				if b := c14IntArg(a[1]); b != 10 {
					return c14Codec{fmt.Sprintf("int/base%d", b), typ}, strip(a[0])
				}
				return c14Codec{"dec", typ}, strip(a[0])
			case "strconv.ParseBool":
				return c14Codec{"bool", "bool"}, strip(a[0])
			case "time.ParseDuration":
				return c14Codec{"duration", "time.Duration"}, strip(a[0])
			case "time.Parse":
				l, _ := c14ConstString(a[0])
				return c14Codec{"time:" + l, "time.Time"}, strip(a[1])
			case "encoding/base64.(*Encoding).DecodeString":
				return c14Codec{"base64:" + c14GlobalName(a[0]), "[]byte"}, strip(a[1])
			}
		}
	}
	return c14Codec{"raw", c14TypeStr(outer.Type())}, strip(v)
}

type c14Row struct {
	Key   string     // key string, "" for JSON rows
	Field *types.Var // Spec field (nil: none)
	Other *types.Var // jsonSpec field for JSON rows
	Codec c14Codec
	Src   ssa.Value
	Fn    *ssa.Function
	Ins   ssa.Instruction
}

type c14Tables struct {
	c       *kit.Ctx
	spec    *types.Named
	keys    map[string]string // Keys field name -> key string
	keysVar *types.Var
	known   map[string]string // key string -> Keys field name
}

// keyOf resolves a bbolt key argument to its string: Keys.X (the value X is
// initialised with) or a literal.
func (t *c14Tables) keyOf(v ssa.Value) (val string, how string, ok bool) {
	v = c14Trace(v)
	if s, ok := c14ConstString(v); ok {
		return s, "literal", true
	}
	e := kit.Canon(v)
	if e.Kind == "field" && e.Base() != nil && e.Base().Kind == "global" && e.Base().Obj == types.Object(t.keysVar) {
		s, ok := t.keys[e.Field.Name()]
		return s, "Keys." + e.Field.Name(), ok
	}
	return "", "", false
}

// specFieldOf finds the Spec field a source value is read from, looking
// through multi-assignment cells (`version`) and phis.
func (t *c14Tables) specFieldOf(v ssa.Value, depth int) *types.Var {
	if v == nil || depth > 3 {
		return nil
	}
	if f := c14FieldOf(kit.Canon(v), t.spec); f != nil {
		return f
	}
	switch x := v.(type) {
	case *ssa.Phi:
		for _, e := range x.Edges {
			if f := t.specFieldOf(c14Trace(e), depth+1); f != nil {
				return f
			}
		}
	case *ssa.UnOp:
		if a, ok := c14Cell(x.X).(*ssa.Alloc); ok && x.Op == token.MUL {
			for _, st := range c14CellStores(a) {
				if f := t.specFieldOf(c14Trace(st.Val), depth+1); f != nil {
					return f
				}
			}
		}
	}
	return nil
}

func runC14Codec(c *kit.Ctx, k *keyer) {
	const rp = "internal/resumer/boltdbresumer"
	c14Prog = c.Prog
	t := &c14Tables{c: c, spec: c.Named(rp, "Spec"), keys: map[string]string{}, known: map[string]string{}, keysVar: c.Global(rp, "Keys")}
	jsonSpec := c.Named(rp, "jsonSpec")
	put := c.FuncObj("go.etcd.io/bbolt", "(*Bucket).Put")
	get := c.FuncObj("go.etcd.io/bbolt", "(*Bucket).Get")
	del := c.FuncObj("go.etcd.io/bbolt", "(*Bucket).Delete")
	txBucket := c.FuncObj("go.etcd.io/bbolt", "(*Tx).Bucket")
	fWrite := c.Func(rp, "(*Resumer).Write")
	fRead := c.Func(rp, "(*Resumer).Read")
	fMarshal := c.Func(rp, "(Spec).MarshalJSON")
	fUnmarshal := c.Func(rp, "(*Spec).UnmarshalJSON")
	specFields := c14StructFields(t.spec)
	isSpecField := map[*types.Var]bool{}
	for _, f := range specFields {
		isSpecField[f] = true
	}
	fVersion := c.Field(rp, "Spec", "Version")

	// ---- table K: the key constants
	{
		kst, _ := t.keysVar.Type().Underlying().(*types.Struct)
		if kst == nil {
			panic(kit.AnchorError{Msg: "boltdbresumer.Keys is not a struct"})
		}
		// the package initialiser is synthetic and not part of ModuleFunctions
		initFn := c.Func(rp, "init")
		fns := []*ssa.Function{initFn}
		for _, fn := range c.ModuleFunctions() {
			if fn != initFn {
				fns = append(fns, fn)
			}
		}
		for _, fn := range fns {
			kit.Instrs(fn, func(ins ssa.Instruction) {
				st, ok := ins.(*ssa.Store)
				if !ok {
					return
				}
				fa, ok := st.Addr.(*ssa.FieldAddr)
				if !ok {
					return
				}
				bt := fa.X.Type().Underlying().(*types.Pointer).Elem()
				if !types.Identical(bt, t.keysVar.Type()) {
					return
				}
				name := kst.Field(fa.Field).Name()
				s, isConst := c14ConstString(st.Val)
				if fn != initFn || !isConst {
					c.Bad("R14.4", k.key(fn, "store Keys."+name), posOf(ins), "key constant Keys.%s is assigned outside the package initialiser or from a non-constant: writers and readers can disagree on the key", name)
					return
				}
				t.keys[name] = s
			})
		}
		names := make([]string, 0, len(t.keys))
		for n := range t.keys {
			names = append(names, n)
		}
		sort.Strings(names)
		for _, n := range names {
			if prev, dup := t.known[t.keys[n]]; dup {
				c.Bad("R14.4", "Keys."+n+"/distinct", c.Func(rp, "init").Pos(), "Keys.%s and Keys.%s are the same key %q: two fields overwrite each other", n, prev, t.keys[n])
			} else {
				c.Present("R14.4", "Keys."+n+"/distinct", c.Func(rp, "init").Pos(), "key %q", t.keys[n])
			}
			t.known[t.keys[n]] = n
		}
		c.Floor("R14.4", "key constants resolved from the initialiser of Keys", len(t.keys), 20)
	}

	inFn := func(fn, root *ssa.Function) bool { return fnIn(fn, root) }
	putSites := sortSites(c.CallSites(put))
	getSites := sortSites(c.CallSites(get))

	// ---- table W: Resumer.Write
	W := map[string][]c14Row{} // by key
	wByField := map[*types.Var][]c14Row{}
	for _, s := range putSites {
		if !inFn(s.Fn, fWrite) {
			continue
		}
		cc := s.Instr.Common()
		key, how, ok := t.keyOf(argOf(cc, 1))
		if !ok {
			c.Bad("R14.4", k.key(s.Fn, "Write Put"), posOf(s.Instr), "Resumer.Write stores under a key that is neither Keys.X nor a literal (%s)", kit.Canon(argOf(cc, 1)))
			continue
		}
		codec, src := c14Enc(argOf(cc, 2))
		row := c14Row{Key: key, Field: t.specFieldOf(src, 0), Codec: codec, Src: src, Fn: s.Fn, Ins: s.Instr}
		if row.Field == nil {
			c.Bad("R14.4", "Write/"+how, posOf(s.Instr), "value written under %q (%s of %s) is not read from a Spec field", key, codec, kit.Canon(src))
			continue
		}
		W[key] = append(W[key], row)
		wByField[row.Field] = append(wByField[row.Field], row)
	}
	c.Floor("R14.4", "keys written by Resumer.Write", len(W), 19)

	// ---- table R: Resumer.Read, extracted through its helpers (inlined view with
	// parameter binding: the key may be passed as an argument, the destination
	// field as a pointer)
	rw := &c14ReadWalk{t: t, get: get, isSpecField: isSpecField, R: map[string][]c14Row{}, visited: map[*ssa.Function]bool{}, stack: map[*ssa.Function]bool{}}
	for _, fn := range kit.WithAnon(fRead) {
		rw.walk(fn, nil, 3)
	}
	R := rw.R
	inRead := func(fn *ssa.Function) bool { return rw.visited[fn] || inFn(fn, fRead) }
	c.Floor("R14.4", "keys read by Resumer.Read", len(R), 19)

	// ---- obligations W <-> R
	for _, f := range specFields {
		key := "Spec." + f.Name() + "/db round trip"
		ws := wByField[f]
		switch {
		case len(ws) == 0:
			c.Bad("R14.4", key, fWrite.Pos(), "Spec.%s is not written by Resumer.Write under any key: the value is lost on restart", f.Name())
			continue
		case len(ws) > 1:
			c.Bad("R14.4", key, posOf(ws[1].Ins), "Spec.%s is written under two keys (%q, %q)", f.Name(), ws[0].Key, ws[1].Key)
			continue
		}
		w := ws[0]
		if len(W[w.Key]) > 1 {
			c.Bad("R14.4", key, posOf(w.Ins), "key %q is written twice by Resumer.Write (Spec.%s and Spec.%s): the second overwrites the first", w.Key, W[w.Key][0].Field.Name(), W[w.Key][1].Field.Name())
			continue
		}
		var match, wrongCodec, wrongField *c14Row
		for i := range R[w.Key] {
			r := &R[w.Key][i]
			switch {
			case r.Field == f && r.Codec == w.Codec:
				match = r
			case r.Field == f:
				wrongCodec = r
			default:
				wrongField = r
			}
		}
		switch {
		case match != nil:
			c.OK("R14.4", key, posOf(w.Ins), "written under %q as %s, read back from the same key into the same field with the inverse decoder (%s)", w.Key, w.Codec, c.Pos(posOf(match.Ins)))
		case wrongCodec != nil:
			c.Bad("R14.4", key, posOf(wrongCodec.Ins), "Spec.%s is written under %q as %s but decoded as %s: the value does not read back equal (or Read fails and the torrent is dropped as invalid)", f.Name(), w.Key, w.Codec, wrongCodec.Codec)
		case wrongField != nil:
			c.Bad("R14.4", key, posOf(wrongField.Ins), "key %q carries Spec.%s but Resumer.Read stores it into Spec.%s", w.Key, f.Name(), wrongField.Field.Name())
		default:
			c.Bad("R14.4", key, posOf(w.Ins), "Spec.%s is written under %q but Resumer.Read never reads that key into Spec.%s: the value is lost on restart", f.Name(), w.Key, f.Name())
		}
	}
	{
		var rk []string
		for key := range R {
			rk = append(rk, key)
		}
		sort.Strings(rk)
		for _, key := range rk {
			if len(W[key]) == 0 {
				c.Bad("R14.4", "key "+key+"/read but never written", posOf(R[key][0].Ins), "Resumer.Read decodes key %q into Spec.%s but Resumer.Write never writes it", key, R[key][0].Field.Name())
			}
		}
	}

	// ---- table J: MarshalJSON / UnmarshalJSON (the move-torrent wire form)
	{
		isJSONField := map[*types.Var]bool{}
		for _, f := range c14StructFields(jsonSpec) {
			isJSONField[f] = true
		}
		M := map[*types.Var][]c14Row{} // by Spec field
		kit.Instrs(fMarshal, func(ins ssa.Instruction) {
			st, ok := ins.(*ssa.Store)
			if !ok {
				return
			}
			fa, ok := st.Addr.(*ssa.FieldAddr)
			if !ok || !isJSONField[kit.Canon(fa).Field] {
				return
			}
			codec, src := c14Enc(st.Val)
			if f := c14FieldOf(kit.Canon(src), t.spec); f != nil {
				M[f] = append(M[f], c14Row{Field: f, Other: kit.Canon(fa).Field, Codec: codec, Ins: ins})
			}
		})
		U := map[*types.Var][]c14Row{}
		kit.Instrs(fUnmarshal, func(ins ssa.Instruction) {
			st, ok := ins.(*ssa.Store)
			if !ok {
				return
			}
			fa, ok := st.Addr.(*ssa.FieldAddr)
			if !ok || !isSpecField[kit.Canon(fa).Field] {
				return
			}
			codec, in := c14Dec(st.Val)
			if g := c14FieldOf(kit.Canon(in), jsonSpec); g != nil {
				f := kit.Canon(fa).Field
				U[f] = append(U[f], c14Row{Field: f, Other: g, Codec: codec, Ins: ins})
			}
		})
		n := 0
		for _, f := range specFields {
			key := "Spec." + f.Name() + "/json round trip"
			m, u := M[f], U[f]
			switch {
			case len(m) != 1:
				c.Bad("R14.4", key, fMarshal.Pos(), "Spec.%s is copied into the JSON form %d times (want once): a moved torrent loses or duplicates the value", f.Name(), len(m))
			case len(u) != 1:
				c.Bad("R14.4", key, fUnmarshal.Pos(), "Spec.%s is restored from the JSON form %d times (want once): a moved torrent loses the value", f.Name(), len(u))
			case m[0].Other != u[0].Other:
				c.Bad("R14.4", key, posOf(u[0].Ins), "Spec.%s is marshalled into jsonSpec.%s but unmarshalled from jsonSpec.%s", f.Name(), m[0].Other.Name(), u[0].Other.Name())
			case m[0].Codec != u[0].Codec:
				c.Bad("R14.4", key, posOf(u[0].Ins), "Spec.%s is marshalled as %s but unmarshalled as %s", f.Name(), m[0].Codec, u[0].Codec)
			default:
				n++
				c.OK("R14.4", key, posOf(m[0].Ins), "jsonSpec.%s carries it as %s in both directions", m[0].Other.Name(), m[0].Codec)
			}
		}
		c.Floor("R14.4", "Spec fields with a JSON round trip", n, 19)
	}

	// ---- table O: out-of-band writers / readers / deleters of resume records
	topLevel := func(recv ssa.Value) bool { // b obtained by tx.Bucket(..): a top-level bucket, not a torrent record
		call, ok := c14Trace(recv).(*ssa.Call)
		return ok && kit.CalleeObj(&call.Call) == txBucket
	}
	oobWriters := map[string][]c14Row{} // key -> out-of-band Put rows outside the codec package
	{
		n := 0
		for _, s := range putSites {
			if inFn(s.Fn, fWrite) {
				continue
			}
			cc := s.Instr.Common()
			if topLevel(argOf(cc, 0)) {
				continue
			}
			n++
			kkey := k.key(s.Fn, "Put")
			key, how, ok := t.keyOf(argOf(cc, 1))
			if !ok {
				c.Bad("R14.4", kkey, posOf(s.Instr), "a torrent's resume bucket is written under a key that is neither Keys.X nor a literal (%s)", kit.Canon(argOf(cc, 1)))
				continue
			}
			ws := W[key]
			if len(ws) == 0 {
				c.Bad("R14.4", kkey, posOf(s.Instr), "out-of-band writer stores under %s = %q, which is not a key Resumer.Write/Read use (Keys: %s): the value is never read back", how, key, c14KeyList(t.keys))
				continue
			}
			codec, src := c14Enc(argOf(cc, 2))
			if codec != ws[0].Codec {
				c.Bad("R14.4", kkey, posOf(s.Instr), "out-of-band writer stores %q as %s but Resumer.Write/Read use %s for Spec.%s: Read fails (torrent dropped as invalid) or yields a different value", key, codec, ws[0].Codec, ws[0].Field.Name())
				continue
			}
			c.OK("R14.4", kkey, posOf(s.Instr), "%s = %q written as %s, the codec of Spec.%s", how, key, codec, ws[0].Field.Name())
			if !inPkg(s.Fn, c, rp) {
				oobWriters[key] = append(oobWriters[key], c14Row{Key: key, Field: ws[0].Field, Codec: codec, Src: src, Fn: s.Fn, Ins: s.Instr})
			}
		}
		c.Floor("R14.4", "out-of-band Put sites on torrent resume buckets", n, 12)
		nd := 0
		for _, s := range sortSites(c.CallSites(del)) {
			cc := s.Instr.Common()
			if topLevel(argOf(cc, 0)) {
				continue
			}
			nd++
			key, how, ok := t.keyOf(argOf(cc, 1))
			c.Check(ok && len(W[key]) > 0, "R14.4", k.key(s.Fn, "Delete"), posOf(s.Instr),
				fmt.Sprintf("deletes %s = %q, a key of the codec", how, key),
				fmt.Sprintf("deletes key %q (%s) which is not a key Resumer.Write/Read use: the intended field survives", key, kit.Canon(argOf(cc, 1))))
		}
		c.Floor("R14.4", "out-of-band Delete sites on torrent resume buckets", nd, 1)
		ng := 0
		for _, s := range getSites {
			if inRead(s.Fn) {
				continue
			}
			cc := s.Instr.Common()
			if topLevel(argOf(cc, 0)) {
				continue
			}
			call, ok := s.Instr.(*ssa.Call)
			if !ok {
				continue
			}
			ng++
			kkey := k.key(s.Fn, "Get")
			key, _, ok := t.keyOf(argOf(cc, 1))
			if !ok || len(W[key]) == 0 {
				c.Bad("R14.4", kkey, posOf(s.Instr), "out-of-band reader uses key %q (%s) which Resumer.Write never writes", key, kit.Canon(argOf(cc, 1)))
				continue
			}
			// how is the value decoded?
			var codec *c14Codec
			for _, r := range *call.Referrers() {
				if u, ok := r.(*ssa.Call); ok && c14FullName(&u.Call) == "encoding/json.Unmarshal" && u.Call.Args[0] == ssa.Value(call) {
					dst := u.Call.Args[1]
					if mi, ok := dst.(*ssa.MakeInterface); ok {
						dst = mi.X
					}
					if p, ok := dst.Type().Underlying().(*types.Pointer); ok {
						codec = &c14Codec{"json", c14TypeStr(p.Elem())}
					}
				}
			}
			switch {
			case codec == nil:
				c.Present("R14.4", kkey, posOf(s.Instr), "reads %q (no decoder recognised at this site)", key)
			case *codec == W[key][0].Codec:
				c.OK("R14.4", kkey, posOf(s.Instr), "reads %q with the inverse decoder %s", key, *codec)
			default:
				c.Bad("R14.4", kkey, posOf(s.Instr), "out-of-band reader decodes %q as %s but Resumer.Write stores %s", key, *codec, W[key][0].Codec)
			}
		}
		// no floor here: an edit that removes the only out-of-band reader (AddTracker's
		// read-back) must be judged by R14.8, not turn the check into "broken"
		c.Floor("R14.4", "out-of-band Get sites on torrent resume buckets", ng, 0)
	}

	// ---- table L: Spec initialisations outside the codec package
	runC14Literals(c, k, t, specFields, fVersion, W, oobWriters)

	// ---- R14.7 the periodic counter writer covers the whole registry
	runC14Stats(c, k, t, put, W)

	// ---- R14.8 read-modify-write of a resume key happens inside one transaction
	runC14LostUpdate(c, k, t, get, oobWriters)
}

func c14KeyList(m map[string]string) string {
	var ss []string
	for _, v := range m {
		ss = append(ss, v)
	}
	sort.Strings(ss)
	return c14Join(ss)
}

func c14ZeroConst(v ssa.Value) bool {
	k, ok := v.(*ssa.Const)
	if !ok {
		return false
	}
	if k.Value == nil {
		return true
	}
	switch k.Value.Kind() {
	case constant.Bool:
		return !constant.BoolVal(k.Value)
	case constant.String:
		return constant.StringVal(k.Value) == ""
	case constant.Int, constant.Float:
		return constant.Sign(k.Value) == 0
	}
	return false
}

// c14Mentioned collects the fields of struct `of` an argument is built
// from, looking through phis. Only the shallowest occurrences count: in
// parseTrackers(spec.Trackers, private) the argument is "made of" Trackers,
// not of the Info that `private` was derived from several steps earlier.
func c14Mentioned(v ssa.Value, of *types.Named, out map[*types.Var]bool, depth int) {
	found := map[*types.Var]int{}
	c14MentionedDepth(v, of, found, depth)
	min := -1
	for _, d := range found {
		if min < 0 || d < min {
			min = d
		}
	}
	for f, d := range found {
		if d == min {
			out[f] = true
		}
	}
}

func c14MentionedDepth(v ssa.Value, of *types.Named, found map[*types.Var]int, depth int) {
	if v == nil || depth > 12 {
		return
	}
	fields := map[*types.Var]bool{}
	for _, f := range c14StructFields(of) {
		fields[f] = true
	}
	var visit func(e *kit.Expr, d int)
	visit = func(e *kit.Expr, d int) {
		if e == nil {
			return
		}
		if (e.Kind == "field" || e.Kind == "fieldaddr") && fields[e.Field] {
			if old, ok := found[e.Field]; !ok || d < old {
				found[e.Field] = d
			}
			return
		}
		if e.Kind == "phi" {
			if phi, ok := e.V.(*ssa.Phi); ok {
				for _, ed := range phi.Edges {
					c14MentionedDepth(ed, of, found, d+1)
				}
			}
		}
		// a value produced by a same-module helper (parseInfoAndBitfield(spec)):
		// what the helper's results are built from, one level per call
		if c14MentionThroughCalls {
			call, idx := (*ssa.Call)(nil), 0
			switch x := e.V.(type) {
			case *ssa.Call:
				call = x
			case *ssa.Extract:
				call, _ = x.Tuple.(*ssa.Call)
				idx = x.Index
			}
			if call != nil {
				if h := call.Call.StaticCallee(); h != nil && h.Blocks != nil && kit.InModule(pkgOf(h)) && d < 10 {
					for _, r := range returnsOf(h) {
						if idx < len(r.Results) {
							c14MentionedDepth(r.Results[idx], of, found, d+1)
						}
					}
				}
			}
		}
		for _, a := range e.Args {
			visit(a, d+1)
		}
	}
	visit(kit.Canon(v), depth)
}

// c14MentionThroughCalls makes c14Mentioned look into the results of module
// helpers; enabled only where a constructor argument of the loader is related
// to the Spec fields it is parsed from.
var c14MentionThroughCalls bool

func runC14Literals(c *kit.Ctx, k *keyer, t *c14Tables, specFields []*types.Var, fVersion *types.Var,
	W map[string][]c14Row, oobWriters map[string][]c14Row) {
	const rp = "internal/resumer/boltdbresumer"
	tTorrent := c.Named("torrent", "torrent")
	newTorrentObj := c.FuncObj("torrent", "newTorrent")
	newTorrent := c.Func("torrent", "newTorrent")
	insertTorrent := c.FuncObj("torrent", "(*Session).insertTorrent")
	compact := c.Func("torrent", "(*Session).CompactDatabase")
	loader := c.Func("torrent", "(*Session).loadExistingTorrent")

	// Spec field stores of a function in its inlined view (outside the codec
	// package): stores in the function and its closures, and stores in a
	// same-package helper it calls (metaInfoSpec(mi, port, ..)) with the helper's
	// parameters replaced by the argument expressions of the call.
	type specInit struct {
		st  fieldStore
		val *kit.Expr
	}
	isSpec := map[*types.Var]bool{}
	for _, f := range specFields {
		isSpec[f] = true
	}
	specStore := func(ins ssa.Instruction) (*types.Var, *ssa.Store) {
		st, ok := ins.(*ssa.Store)
		if !ok {
			return nil, nil
		}
		fa, ok := st.Addr.(*ssa.FieldAddr)
		if !ok {
			return nil, nil
		}
		if f := kit.Canon(fa).Field; f != nil && isSpec[f] {
			return f, st
		}
		return nil, nil
	}
	setMemo := map[*ssa.Function]map[*types.Var]specInit{}
	setIn := func(fn *ssa.Function) map[*types.Var]specInit {
		if m, ok := setMemo[fn]; ok {
			return m
		}
		m := map[*types.Var]specInit{}
		for _, g := range kit.WithAnon(fn) {
			kit.Instrs(g, func(ins ssa.Instruction) {
				if f, st := specStore(ins); f != nil {
					m[f] = specInit{fieldStore{g, st, st.Val}, kit.Canon(st.Val)}
					return
				}
				call, ok := ins.(*ssa.Call)
				if !ok {
					return
				}
				h := call.Call.StaticCallee()
				if h == nil || h.Blocks == nil || h == fn || pkgOf(h) != pkgOf(fn) || inPkg(h, c, rp) {
					return
				}
				bind := c14Bind(h, call)
				kit.Instrs(h, func(i2 ssa.Instruction) {
					if f, st := specStore(i2); f != nil {
						if _, have := m[f]; !have {
							m[f] = specInit{fieldStore{h, st, st.Val}, c14Subst(kit.Canon(st.Val), bind)}
						}
					}
				})
			})
		}
		setMemo[fn] = m
		return m
	}

	// which torrent field does newTorrent initialise from which parameter
	paramOfField := map[*types.Var]int{}
	fieldOfParam := map[int]*types.Var{}
	storedByCtor := map[*types.Var]bool{}
	for _, f := range c14StructFields(tTorrent) {
		kit.Instrs(newTorrent, func(ins ssa.Instruction) {
			if v, ok := kit.StoresField(ins, f); ok {
				storedByCtor[f] = true
				if p, ok := v.(*ssa.Parameter); ok {
					for i, q := range newTorrent.Params {
						if q == p {
							paramOfField[f] = i
							fieldOfParam[i] = f
						}
					}
				}
			}
		})
	}

	// the loader is the reference: constructor parameter i <- Spec fields
	var loaderCall *ssa.Call
	kit.Instrs(loader, func(ins ssa.Instruction) {
		if call, ok := ins.(*ssa.Call); ok && kit.CalleeObj(&call.Call) == newTorrentObj {
			loaderCall = call
		}
	})
	if loaderCall == nil {
		panic(kit.AnchorError{Msg: "newTorrent call in loadExistingTorrent"})
	}
	specOfParam := map[int]map[*types.Var]bool{}
	c14MentionThroughCalls = true
	defer func() { c14MentionThroughCalls = false }()
	for i, a := range loaderCall.Call.Args {
		m := map[*types.Var]bool{}
		c14Mentioned(a, t.spec, m, 0)
		delete(m, fVersion)
		if len(m) > 0 {
			specOfParam[i] = m
		}
	}
	c.Floor("R14.4", "newTorrent parameters the loader feeds from Spec fields", len(specOfParam), 12)

	// ---- adders: functions (other than the loader) that construct and register.
	// The constructor may be called through a wrapper (newTorrentFromMetaInfo):
	// its arguments are then read in the wrapper and expressed in the adder's
	// frame by parameter substitution.
	var adders []*ssa.Function
	// candidates: the functions that call insertTorrent, and - when such a function constructs
	// nothing itself (a register helper like saveAndInsertTorrent(t, spec)) - its static callers
	var cands []*ssa.Function
	for _, s := range sortSites(c.CallSites(insertTorrent)) {
		F := s.Fn
		if F != loader && c14FindCtor(F, newTorrentObj, loader) == nil {
			for _, cs := range c.StaticCallSites(F) {
				if cs != nil {
					cands = append(cands, cs.Parent())
				}
			}
			continue
		}
		cands = append(cands, F)
	}
	for _, F := range cands {
		if F == loader || fnIn(F, adders...) {
			continue
		}
		ct := c14FindCtor(F, newTorrentObj, loader)
		if ct == nil {
			continue
		}
		adders = append(adders, F)
		call := ct.outer
		set := setIn(F)
		for i, a := range ct.inner.Call.Args {
			fields := specOfParam[i]
			ae := c14Subst(kit.Canon(a), ct.bind)
			if len(fields) == 0 || (ae.V != nil && c14ZeroConst(ae.V)) {
				continue
			}
			var fs []*types.Var
			for f := range fields {
				fs = append(fs, f)
			}
			sort.Slice(fs, func(x, y int) bool { return fs[x].Pos() < fs[y].Pos() })
			for _, f := range fs {
				key := kit.FuncName(F) + "/records Spec." + f.Name()
				in, ok := set[f]
				if !ok {
					c.Bad("R14.4", key, posOf(call), "the torrent is constructed with %s = %s but the Spec written to the resume database does not set %s: after a restart the torrent reappears without it", newTorrent.Params[i].Name(), ae, f.Name())
					continue
				}
				// value agreement (single-field parameters only)
				if len(fields) == 1 && !c14SameSource(in.val, ae, call, fieldOfParam[i]) {
					c.Bad("R14.4", key, posOf(in.st.Store), "Spec.%s is recorded as %s but the torrent is constructed with %s = %s: the restarted torrent differs from the running one", f.Name(), in.val, newTorrent.Params[i].Name(), ae)
					continue
				}
				c.OK("R14.4", key, posOf(in.st.Store), "constructor argument %s and recorded Spec.%s come from the same source", newTorrent.Params[i].Name(), f.Name())
			}
		}
	}
	c.Floor("R14.4", "adders (construct + register)", len(adders), 2)

	// ---- CompactDatabase: every field, from a maintained source
	// inlined view: the literal may be built by a helper (compactSpec(t))
	set := map[*types.Var]fieldStore{}
	{
		isSpec := map[*types.Var]bool{}
		for _, f := range specFields {
			isSpec[f] = true
		}
		for _, g := range kit.WithAnon(compact) {
			c.InstrsDeep(g, 2, false, func(ins ssa.Instruction) {
				st, ok := ins.(*ssa.Store)
				if !ok {
					return
				}
				if fa, ok := st.Addr.(*ssa.FieldAddr); ok {
					if f := kit.Canon(fa).Field; f != nil && isSpec[f] {
						set[f] = fieldStore{ins.Parent(), st, st.Val}
					}
				}
			})
		}
	}
	n := 0
	for _, f := range specFields {
		if f == fVersion {
			continue
		}
		key := kit.FuncName(compact) + "/Spec." + f.Name()
		st, ok := set[f]
		if !ok {
			c.Bad("R14.4", key, compact.Pos(), "CompactDatabase does not set Spec.%s: the compacted database loses it for every torrent", f.Name())
			continue
		}
		n++
		src := map[*types.Var]bool{}
		c14Mentioned(st.Val, tTorrent, src, 0)
		fromSpec := map[*types.Var]bool{}
		c14Mentioned(st.Val, t.spec, fromSpec, 0)
		switch {
		case len(fromSpec) > 0:
			c.Check(fromSpec[f] && len(fromSpec) == 1, "R14.4", key, posOf(st.Store),
				"copied from the same field of an existing resume record",
				fmt.Sprintf("Spec.%s is copied from a different field of the existing record", f.Name()))
			continue
		case len(src) == 0:
			c.Present("R14.4", key, posOf(st.Store), "set from %s (no torrent field involved)", kit.Canon(st.Val))
			continue
		}
		bad := false
		for g := range src {
			if g.Name() == "torrent" { // t.torrent of the public wrapper
				continue
			}
			if p, ok := paramOfField[g]; ok {
				// initialised by the constructor from parameter p: the loader must feed p from this Spec field
				if m := specOfParam[p]; len(m) > 0 && !m[f] {
					bad = true
					c.Bad("R14.4", key, posOf(st.Store), "Spec.%s is compacted from torrent.%s, which a loaded torrent gets from a different Spec field", f.Name(), g.Name())
				}
				continue
			}
			if storedByCtor[g] {
				continue // counters etc. created by the constructor
			}
			// a side copy kept only for compaction: every adder that records
			// Spec.f, and every out-of-band writer of its key, must maintain it
			stores := fieldStores(c, g)
			maintainedBy := func(root *ssa.Function) bool {
				for _, s2 := range stores {
					if c14RootFn(s2.Fn) == root {
						return true
					}
				}
				return false
			}
			for _, a := range adders {
				if _, records := setIn(a)[f]; !records {
					continue
				}
				k2 := kit.FuncName(a) + "/maintains torrent." + g.Name()
				if maintainedBy(a) {
					c.OK("R14.4", k2, a.Pos(), "sets torrent.%s, the copy CompactDatabase writes back as Spec.%s", g.Name(), f.Name())
				} else {
					bad = true
					c.Bad("R14.4", k2, a.Pos(), "%s records Spec.%s in the resume database but never sets torrent.%s (only %s does), which is what CompactDatabase writes back as Spec.%s: compacting while a torrent added in this session is present drops its %s from the new database", a.Name(), f.Name(), g.Name(), c14Storers(stores), f.Name(), f.Name())
				}
			}
			var wkey string
			for key2, rows := range W {
				if len(rows) > 0 && rows[0].Field == f {
					wkey = key2
				}
			}
			for _, row := range oobWriters[wkey] {
				root := c14RootFn(row.Fn)
				k2 := kit.FuncName(root) + "/maintains torrent." + g.Name()
				if maintainedBy(root) {
					c.OK("R14.4", k2, posOf(row.Ins), "updates torrent.%s together with key %q", g.Name(), wkey)
				} else {
					bad = true
					c.Bad("R14.4", k2, posOf(row.Ins), "%s rewrites key %q in the resume database but not torrent.%s, which CompactDatabase writes back as Spec.%s: the change is lost by compaction", root.Name(), wkey, g.Name(), f.Name())
				}
			}
		}
		if !bad {
			c.OK("R14.4", key, posOf(st.Store), "set from %s", kit.Canon(st.Val))
		}
	}
	c.Floor("R14.4", "Spec fields set by CompactDatabase", n, 17)
}

func c14Storers(st []fieldStore) string {
	seen := map[string]bool{}
	var ss []string
	for _, s := range st {
		n := c14RootFn(s.Fn).Name()
		if !seen[n] {
			seen[n] = true
			ss = append(ss, n)
		}
	}
	if len(ss) == 0 {
		return "nothing"
	}
	return c14Join(ss)
}

// c14SameSource decides whether the value recorded in the Spec and the
// constructor argument come from the same place: equal access paths, one a
// sub-expression of the other (parseTrackers(x) / x, &mi.Info / mi.Info.Bytes),
// or the recorded value is the field of the constructed torrent that the
// constructor fills from that very parameter (t.addedAt).
func c14SameSource(re, ae *kit.Expr, ctor *ssa.Call, ctorField *types.Var) bool {
	rs, as := re.String(), ae.String()
	if rs == as {
		return true
	}
	contains := func(outer *kit.Expr, inner string) bool {
		return outer.Mentions(func(x *kit.Expr) bool {
			s := x.String()
			return s == inner || (x.Kind == "fieldaddr" && s == "&"+inner) || "&"+s == inner
		})
	}
	if contains(ae, rs) || contains(re, as) {
		return true
	}
	if ctorField != nil && re.Kind == "field" && re.Field == ctorField && re.Base() != nil && re.Base().V != nil {
		// base must be the constructed torrent
		if ex, ok := c14Trace(re.Base().V).(*ssa.Extract); ok && ex.Tuple == ssa.Value(ctor) && ex.Index == 0 {
			return true
		}
	}
	return false
}

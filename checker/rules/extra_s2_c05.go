package rules

import (
	"go/types"

	"golang.org/x/tools/go/ssa"

	"rainverif/checker/kit"
)

// R05.8 a received torrent's resume record is committed only after its data.
//
// The move-torrent receiver gets (id, resume Spec incl. bitfield, tar of the
// data files). The Spec it persists with Resumer.Write carries the sender's
// bitfield, which the next start trusts (R05.4). The chain "durable data ->
// persisted bits" therefore requires, on the receiving side, that the record is
// written only after the data was extracted successfully; otherwise an
// interrupted transfer leaves a trusted bitfield over missing / partial files.
//
// Formulated on objects, not on function names:
//
//	extraction function  = a module function (package torrent) that reads an
//	                       archive/tar stream (calls tar.NewReader) and returns an
//	                       error, or a function returning an error that reaches
//	                       one within 2 call levels (a wrapper / helper);
//	receiver             = every function of package torrent that calls an
//	                       extraction function and is not one itself;
//	obligation           = every (*Resumer).Write reached from a receiver
//	                       (walk through its helpers, in the receiver's own
//	                       calling context) executes under the fact "the error
//	                       result of an extraction function was tested == nil".
//
// The fact is keyed on callee objects, so both the extraction call with its
// test and the Write may be moved into helpers.

func init() { registerExtra("C05", runR05_8) }

func runR05_8(c *kit.Ctx) {
	k := newKeyer()
	tarNew := c.FuncObj("archive/tar", "NewReader")
	resWrite := c.FuncObj("internal/resumer/boltdbresumer", "(*Resumer).Write")
	errT := types.Universe.Lookup("error").Type()
	returnsOnlyError := func(fn *ssa.Function) bool {
		r := fn.Signature.Results()
		return r.Len() == 1 && types.Identical(r.At(0).Type(), errT)
	}
	inTorrent := func(fn *ssa.Function) bool { return inPkg(fn, c, "torrent") }

	// extraction functions (fix-point over two wrapper levels)
	extract := map[*ssa.Function]bool{}
	for _, s := range c.CallSites(tarNew) {
		if inTorrent(s.Fn) && s.Fn.Parent() == nil && returnsOnlyError(s.Fn) {
			extract[s.Fn] = true
		}
	}
	nBase := len(extract)
	for round := 0; round < 2; round++ {
		var add []*ssa.Function
		for _, fn := range c.ModuleFunctions() {
			if extract[fn] || !inTorrent(fn) || fn.Parent() != nil || !returnsOnlyError(fn) {
				continue
			}
			kit.Instrs(fn, func(ins ssa.Instruction) {
				if call, ok := ins.(*ssa.Call); ok {
					if g := call.Call.StaticCallee(); g != nil && extract[g] {
						add = append(add, fn)
					}
				}
			})
		}
		for _, fn := range add {
			extract[fn] = true
		}
	}
	c.Floor("R05.8", "tar extraction functions in package torrent", nBase, 1)

	isExtractCall := func(v ssa.Value) bool {
		call, ok := v.(*ssa.Call)
		if !ok {
			return false
		}
		g := call.Call.StaticCallee()
		return g != nil && extract[g]
	}
	// value of an error variable that lives in a stack slot (captured by a
	// closure): the nearest store before the load, searched backwards through
	// the block and its unique predecessors
	reachingStore := func(ld *ssa.UnOp) ssa.Value {
		slot := ld.X
		b := ld.Block()
		idx := -1
		for i, ins := range b.Instrs {
			if ins == ssa.Instruction(ld) {
				idx = i
			}
		}
		for hops := 0; hops < 4 && b != nil; hops++ {
			for i := idx - 1; i >= 0; i-- {
				if st, ok := b.Instrs[i].(*ssa.Store); ok && st.Addr == slot {
					return st.Val
				}
			}
			if len(b.Preds) != 1 {
				return nil
			}
			b = b.Preds[0]
			idx = len(b.Instrs)
		}
		return nil
	}
	extracted := &kit.Spec{P: c.Prog, Deep: kit.DefaultDeep,
		Edge: func(a kit.Atom) bool {
			return a.IsNilCmp(true, func(e *kit.Expr) bool {
				if isExtractCall(e.V) {
					return true
				}
				if e.Kind == "deref" {
					if ld, ok := e.V.(*ssa.UnOp); ok {
						if _, isAlloc := ld.X.(*ssa.Alloc); isAlloc {
							if v := reachingStore(ld); v != nil && isExtractCall(v) {
								return true
							}
						}
					}
				}
				return false
			})
		}}

	// receivers
	nRecv, nWrite := 0, 0
	for _, fn := range c.ModuleFunctions() {
		if !inTorrent(fn) || extract[fn] {
			continue
		}
		calls := false
		kit.Instrs(fn, func(ins ssa.Instruction) {
			if call, ok := ins.(*ssa.Call); ok && isExtractCall(call) {
				calls = true
			}
		})
		if !calls {
			continue
		}
		nRecv++
		extracted.VisitDown(fn, false, 2, func(ins ssa.Instruction, before bool) {
			if _, isCall := ins.(*ssa.Call); !isCall || !kit.CallsAny(ins, resWrite) {
				return
			}
			nWrite++
			c.Check(before, "R05.8", k.key(fn, "resume record after data"), posOf(ins),
				"the received resume record is written only after the tar extraction returned nil",
				"Resumer.Write of a received torrent's resume record (with its bitfield) can execute before the data was extracted successfully: an interrupted or failed transfer leaves a trusted bitfield over missing data")
		})
	}
	c.Floor("R05.8", "functions receiving a tar of torrent data", nRecv, 1)
	c.Floor("R05.8", "Resumer.Write sites reached from a receiver", nWrite, 1)
}

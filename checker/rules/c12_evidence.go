package rules

import (
	"go/constant"
	"go/token"
	"go/types"

	"golang.org/x/tools/go/ssa"

	"rainverif/checker/kit"
)

// ---- incoming side: slots and "the negotiated cipher is RC4" evidence ----------
//
// R12.3 does not depend on where the function boundaries of btconn.Accept
// are drawn nor on the variable the code uses to remember the negotiation.
// What is decided is: at every nil-error return of Accept and at every write
// on the connection, forceEncryption==false holds or the crypto_select
// callback has run and returned mse.RC4. The latter is *evidence* that the
// code may establish by
//   - a test of a bool value b ("flag") for which `b true => the callback
//     returned RC4` holds by construction (every non-false store happens where
//     RC4 is the value the callback returns), or
//   - a test `s == mse.RC4` of a value s ("selection copy") that is either
//     zero or exactly the value the callback returned.
// Both may travel through locals captured by the callback, through results
// of same-module helpers and through phis.

type c12In struct {
	x      *c12
	accept *ssa.Function
	nHS    int
	hs     *ssa.Call       // the MSE responder handshake call (unique in the module)
	hsFn   *ssa.Function   // the function that contains it (Accept or a static helper of Accept)
	hsSite ssa.Instruction // the instruction of Accept through which it executes
	cb     *ssa.Function   // the crypto_select callback
	mc     *ssa.MakeClosure
	F      *boolParam

	alias    map[*ssa.Function][]*boolParam
	aliasing map[*ssa.Function]bool
	notF     map[*ssa.Function]*kit.Flow
	helper   map[*ssa.Function]int // 0 unknown, 1 yes, 2 no

	safeties map[*ssa.Function]*connSafety
	hOK      map[*ssa.Function]int

	flagMemo map[ssa.Value]int // 1 ok, 2 not ok, 3 in progress
	selMemo  map[ssa.Value]int
	cellMemo map[*ssa.Alloc]int
	retCell  map[*ssa.Alloc]int
}

func (x *c12) inc() *c12In {
	if x.in != nil {
		return x.in
	}
	in := &c12In{x: x, accept: x.accept,
		alias: map[*ssa.Function][]*boolParam{}, aliasing: map[*ssa.Function]bool{}, notF: map[*ssa.Function]*kit.Flow{},
		helper:   map[*ssa.Function]int{},
		safeties: map[*ssa.Function]*connSafety{}, hOK: map[*ssa.Function]int{},
		flagMemo: map[ssa.Value]int{}, selMemo: map[ssa.Value]int{}, cellMemo: map[*ssa.Alloc]int{}, retCell: map[*ssa.Alloc]int{}}
	x.in = in
	in.F = newBoolParam(x.accept, "forceEncryption")
	for _, s := range sortSites(x.c.CallSites(x.hsIn)) {
		if call, ok := s.Instr.(*ssa.Call); ok {
			in.nHS++
			in.hs = call
		}
	}
	if in.nHS != 1 {
		in.hs = nil
		return in
	}
	in.hsFn = in.hs.Parent()
	// the instruction of Accept through which the handshake executes
	top := topFn(in.hsFn)
	switch {
	case top == x.accept && in.hsFn == x.accept:
		in.hsSite = in.hs
	case top != x.accept && in.isHelper(top):
		in.hsSite = in.siteInAccept(top, 3)
	}
	switch a := argOf(&in.hs.Call, 2).(type) {
	case *ssa.MakeClosure:
		in.mc = a
		in.cb, _ = a.Fn.(*ssa.Function)
	case *ssa.Function:
		if a.Parent() != nil {
			in.cb = a
		}
	}
	if in.cb == nil {
		panic(kit.AnchorError{Msg: "HandshakeIncoming is not called with a closure literal as crypto_select callback"})
	}
	return in
}

func topFn(fn *ssa.Function) *ssa.Function {
	for fn != nil && fn.Parent() != nil {
		fn = fn.Parent()
	}
	return fn
}

// isHelper: fn is a function of package btconn all of whose uses are plain
// static calls from Accept or from other such helpers (so that what holds at
// every call site holds inside).
func (in *c12In) isHelper(fn *ssa.Function) bool {
	if fn == in.accept {
		return true
	}
	switch in.helper[fn] {
	case 1:
		return true
	case 2:
		return false
	}
	in.helper[fn] = 2 // recursion guard
	ok := fn != nil && fn.Parent() == nil && fn.Blocks != nil && pkgOf(fn) == pkgOf(in.accept)
	sites := in.x.c.StaticCallSites(fn)
	if len(sites) == 0 {
		ok = false
	}
	for _, s := range sites {
		if !ok {
			break
		}
		if s == nil || !in.isHelper(topFn(s.Parent())) {
			ok = false
		}
	}
	if ok {
		in.helper[fn] = 1
	}
	return ok
}

// siteInAccept returns the unique instruction of Accept (itself, not its
// closures) whose execution runs helper fn, or nil.
func (in *c12In) siteInAccept(fn *ssa.Function, depth int) ssa.Instruction {
	sites := in.x.c.StaticCallSites(fn)
	if len(sites) != 1 || sites[0] == nil || depth <= 0 {
		return nil
	}
	p := sites[0].Parent()
	if p == in.accept {
		return sites[0]
	}
	if p.Parent() != nil {
		return nil
	}
	return in.siteInAccept(p, depth-1)
}

// ---- forceEncryption and its aliases in helpers --------------------------------

// aliases returns the bool parameters of top-level function fn that hold
// Accept's forceEncryption at every call (Accept: the parameter itself).
func (in *c12In) aliases(fn *ssa.Function) []*boolParam {
	fn = topFn(fn)
	if fn == in.accept {
		return []*boolParam{in.F}
	}
	if a, ok := in.alias[fn]; ok {
		return a
	}
	if in.aliasing[fn] || fn == nil || fn.Blocks == nil {
		return nil
	}
	in.aliasing[fn] = true
	defer delete(in.aliasing, fn)
	var out []*boolParam
	sites := in.x.c.StaticCallSites(fn)
	for i, p := range fn.Params {
		if b, ok := p.Type().Underlying().(*types.Basic); !ok || b.Kind() != types.Bool {
			continue
		}
		ok := len(sites) > 0
		for _, s := range sites {
			call, _ := s.(*ssa.Call)
			if call == nil || i >= len(call.Call.Args) || !in.isF(call.Parent(), kit.Canon(call.Call.Args[i])) {
				ok = false
				break
			}
		}
		if !ok {
			continue
		}
		bp := newBoolParam(fn, p.Name())
		if !bp.reassigned() {
			out = append(out, bp)
		}
	}
	in.alias[fn] = out
	return out
}

// isF: e reads forceEncryption (or an alias of it) inside fn.
func (in *c12In) isF(fn *ssa.Function, e *kit.Expr) bool {
	for _, bp := range in.aliases(fn) {
		if bp.is(e) {
			return true
		}
	}
	return false
}

// notFIn: the flow "forceEncryption == false" inside fn (a fact about an
// immutable input).
func (in *c12In) notFIn(fn *ssa.Function) *kit.Flow {
	if fl, ok := in.notF[fn]; ok {
		return fl
	}
	fl := in.x.c.AtomFlow(fn, func(a kit.Atom) bool {
		return a.IsFalse(func(e *kit.Expr) bool { return in.isF(fn, e) })
	}, nil)
	in.notF[fn] = fl
	return fl
}

// ---- evidence ------------------------------------------------------------------

func (in *c12In) isRC4Const(v ssa.Value) bool {
	k, ok := v.(*ssa.Const)
	if !ok || k.Value == nil || k.Value.Kind() != constant.Int {
		return false
	}
	n, ok := constant.Int64Val(k.Value)
	return ok && n == in.x.rc4Bit
}

func isZeroIntConst(v ssa.Value) bool {
	k, ok := v.(*ssa.Const)
	if !ok {
		return false
	}
	if k.Value == nil {
		return true
	}
	if k.Value.Kind() != constant.Int {
		return false
	}
	n, ok := constant.Int64Val(k.Value)
	return ok && n == 0
}

// calleeResults: for a value that is result idx of a static call to a module
// function with a body, the values returned at that index.
func calleeResults(v ssa.Value) ([]ssa.Value, bool) {
	var call *ssa.Call
	idx := 0
	switch t := v.(type) {
	case *ssa.Extract:
		call, _ = t.Tuple.(*ssa.Call)
		idx = t.Index
	case *ssa.Call:
		if t.Call.Signature().Results().Len() == 1 {
			call = t
		}
	}
	if call == nil {
		return nil, false
	}
	g := call.Call.StaticCallee()
	if g == nil || g.Blocks == nil || g.Pkg == nil || !kit.InModule(g.Pkg.Pkg.Path()) {
		return nil, false
	}
	var out []ssa.Value
	for _, r := range returnsOf(g) {
		if r.Block() == g.Recover || idx >= len(r.Results) {
			continue
		}
		out = append(out, r.Results[idx])
	}
	return out, len(out) > 0
}

// inCB: fn is the callback or a closure nested in it.
func (in *c12In) inCB(fn *ssa.Function) bool { return fnIn(fn, in.cb) }

// selOK: v is zero or exactly the value the crypto_select callback returned.
func (in *c12In) selOK(v ssa.Value) bool {
	switch in.selMemo[v] {
	case 1, 3:
		return true
	case 2:
		return false
	}
	in.selMemo[v] = 3
	ok := false
	switch t := v.(type) {
	case *ssa.Const:
		ok = isZeroIntConst(t)
	case *ssa.Phi:
		ok = true
		for _, e := range t.Edges {
			if !in.selOK(e) {
				ok = false
			}
		}
	case *ssa.ChangeType:
		ok = in.selOK(t.X)
	case *ssa.UnOp:
		if t.Op == token.MUL {
			if a, isA := cellRoot(t.X).(*ssa.Alloc); isA {
				ok = in.selCellOK(a)
			}
		}
	default:
		if rs, isCall := calleeResults(v); isCall {
			ok = true
			for _, r := range rs {
				if !in.selOK(r) {
					ok = false
				}
			}
		}
	}
	if ok {
		in.selMemo[v] = 1
	} else {
		in.selMemo[v] = 2
	}
	return ok
}

// selCellOK: the local holds zero or the callback's return value: it does
// not escape, the callback stores it at most once and then returns exactly
// the stored value, every other store copies a selection copy.
func (in *c12In) selCellOK(a *ssa.Alloc) bool {
	switch in.cellMemo[a] {
	case 1, 3:
		return true
	case 2:
		return false
	}
	in.cellMemo[a] = 3
	ok := !cellEscapes(a.Parent(), a)
	nCB := 0
	for _, s := range cellStores(a.Parent(), a) {
		switch {
		case s.Fn == in.cb:
			nCB++
		case in.inCB(s.Fn):
			ok = false
		default:
			if !in.selOK(s.St.Val) {
				ok = false
			}
		}
	}
	if nCB > 1 || (nCB == 1 && !in.cbReturnsCell(a)) {
		ok = false
	}
	if ok {
		in.cellMemo[a] = 1
	} else {
		in.cellMemo[a] = 2
	}
	return ok
}

// selLinked: v certainly carries the callback's return value whenever the
// MSE handshake ran (non-vacuity of selOK for R12.5: a cipher result that is
// simply never assigned is "zero or the selection" but reports nothing).
// zeroOK tells whether a zero constant is acceptable at `at` (no handshake
// has run on that path / the helper returns a non-nil error with it).
func (in *c12In) selLinked(v ssa.Value, at ssa.Instruction, zeroOK func(ssa.Instruction) bool, seen map[ssa.Value]bool) bool {
	if seen[v] {
		return true
	}
	seen[v] = true
	switch t := v.(type) {
	case *ssa.Const:
		return isZeroIntConst(t) && at != nil && zeroOK != nil && zeroOK(at)
	case *ssa.ChangeType:
		return in.selLinked(t.X, at, zeroOK, seen)
	case *ssa.Phi:
		for i, e := range t.Edges {
			if !in.selLinked(e, termOf(t.Block().Preds[i]), zeroOK, seen) {
				return false
			}
		}
		return true
	case *ssa.UnOp:
		if t.Op != token.MUL {
			return false
		}
		a, ok := cellRoot(t.X).(*ssa.Alloc)
		if !ok || !in.selCellOK(a) {
			return false
		}
		nCB, nOther := 0, 0
		for _, s := range cellStores(a.Parent(), a) {
			if s.Fn == in.cb {
				nCB++
				continue
			}
			if isZeroIntConst(s.St.Val) {
				continue // (re-)initialisation
			}
			nOther++
			if !in.selLinked(s.St.Val, s.St, nil, seen) {
				return false
			}
		}
		return nCB == 1 || nOther > 0
	case *ssa.Extract, *ssa.Call:
		var call *ssa.Call
		idx := 0
		if ex, ok := t.(*ssa.Extract); ok {
			call, _ = ex.Tuple.(*ssa.Call)
			idx = ex.Index
		} else if c2 := t.(*ssa.Call); c2.Call.Signature().Results().Len() == 1 {
			call = c2
		}
		if call == nil {
			return false
		}
		g := call.Call.StaticCallee()
		if g == nil || g.Blocks == nil || g.Pkg == nil || !kit.InModule(g.Pkg.Pkg.Path()) {
			return false
		}
		// in a helper a zero may accompany a certainly non-nil error
		res := g.Signature.Results()
		ei := res.Len() - 1
		hasErr := ei >= 0 && types.Identical(res.At(ei).Type(), types.Universe.Lookup("error").Type())
		ef := newErrFacts(in.x.c, g)
		zok := func(at ssa.Instruction) bool {
			r, isRet := at.(*ssa.Return)
			return hasErr && isRet && ef.nonNil(r.Results[ei], r, nil)
		}
		n := 0
		for _, r := range returnsOf(g) {
			if r.Block() == g.Recover || idx >= len(r.Results) {
				continue
			}
			n++
			if !in.selLinked(r.Results[idx], r, zok, seen) {
				return false
			}
		}
		return n > 0
	}
	return false
}

// cbReturnsCell: at every return of the callback the cell holds exactly the
// value that is returned (the stored SSA value, or a load of the cell).
func (in *c12In) cbReturnsCell(a *ssa.Alloc) bool {
	if r, ok := in.retCell[a]; ok {
		return r == 1
	}
	ok := true
	n := 0
	for _, cr := range returnsOf(in.cb) {
		if len(cr.Results) != 1 {
			ok = false
			continue
		}
		n++
		ret := cr.Results[0]
		fl := &kit.Flow{P: in.x.c.Prog, Fn: in.cb}
		fl.Instr = func(ins ssa.Instruction, v bool) bool {
			if st, isSt := ins.(*ssa.Store); isSt && cellRoot(st.Addr) == ssa.Value(a) {
				return st.Val == ret
			}
			if ld, isLd := ins.(*ssa.UnOp); isLd && ssa.Value(ld) == ret && loadOfCell(ld, a) {
				return true
			}
			return v
		}
		if !fl.Solve().Before(cr) {
			ok = false
		}
	}
	if n == 0 {
		ok = false
	}
	in.retCell[a] = 2
	if ok {
		in.retCell[a] = 1
	}
	return ok
}

// cbReturnsValue: every return of the callback returns exactly v.
func (in *c12In) cbReturnsValue(v ssa.Value) bool {
	rets := returnsOf(in.cb)
	for _, r := range rets {
		if len(r.Results) != 1 || r.Results[0] != v {
			return false
		}
	}
	return len(rets) > 0
}

// eqRC4: v is `s == mse.RC4` for a selection copy s (or, inside the callback,
// for the very value the callback returns).
func (in *c12In) eqRC4(v ssa.Value) bool {
	b, ok := v.(*ssa.BinOp)
	if !ok || b.Op != token.EQL {
		return false
	}
	l, r := b.X, b.Y
	if in.isRC4Const(l) {
		l, r = r, l
	}
	if !in.isRC4Const(r) {
		return false
	}
	for {
		if ct, ok := l.(*ssa.ChangeType); ok {
			l = ct.X
			continue
		}
		break
	}
	if in.selOK(l) {
		return true
	}
	return b.Parent() == in.cb && in.cbReturnsValue(l)
}

// flagOK: `v is true` implies that the callback ran and returned mse.RC4.
func (in *c12In) flagOK(v ssa.Value) bool {
	if b, ok := v.Type().Underlying().(*types.Basic); !ok || b.Kind() != types.Bool {
		return false
	}
	switch in.flagMemo[v] {
	case 1, 3:
		return true
	case 2:
		return false
	}
	in.flagMemo[v] = 3
	ok := false
	switch t := v.(type) {
	case *ssa.Const:
		ok = kit.Canon(t).IsConstBool(false)
	case *ssa.Phi:
		ok = true
		for _, e := range t.Edges {
			if !in.flagOK(e) {
				ok = false
			}
		}
	case *ssa.BinOp:
		ok = in.eqRC4(t)
	case *ssa.UnOp:
		if t.Op == token.MUL {
			if a, isA := cellRoot(t.X).(*ssa.Alloc); isA {
				ok = in.flagCellOK(a)
			}
		}
	default:
		if rs, isCall := calleeResults(v); isCall {
			ok = true
			for _, r := range rs {
				if !in.flagOK(r) {
					ok = false
				}
			}
		}
	}
	if ok {
		in.flagMemo[v] = 1
	} else {
		in.flagMemo[v] = 2
	}
	return ok
}

// flagStore classifies one store to a bool local that is used as evidence.
type flagStore struct {
	S    cellStore
	OK   bool
	Kind string // "false", "true-in-callback", "derived", "bad"
	Why  string
}

// flagCellStores judges every store to the bool local a.
func (in *c12In) flagCellStores(a *ssa.Alloc) []flagStore {
	var out []flagStore
	for _, s := range cellStores(a.Parent(), a) {
		e := kit.Canon(s.St.Val)
		fs := flagStore{S: s}
		switch {
		case e.IsConstBool(false):
			fs.OK, fs.Kind, fs.Why = true, "false", "initialised / reset to false"
		case e.IsConstBool(true):
			switch {
			case s.Fn != in.cb:
				fs.Kind, fs.Why = "bad", "set to true in "+kit.FuncName(s.Fn)+", not in the crypto_select callback: 'true' no longer means that RC4 was selected"
			default:
				if why := in.rc4AtStore(a, s.St); why != "" {
					fs.Kind, fs.Why = "bad", why
				} else {
					fs.OK, fs.Kind, fs.Why = true, "true-in-callback", "set to true only on the callback path that returns exactly mse.RC4"
				}
			}
		case in.flagOK(s.St.Val):
			fs.OK, fs.Kind, fs.Why = true, "derived", "assigned "+e.String()+", which is true only when the callback returned mse.RC4"
		default:
			fs.Kind, fs.Why = "bad", "assigned "+e.String()+", which does not imply that the callback returned mse.RC4"
		}
		out = append(out, fs)
	}
	return out
}

func (in *c12In) flagCellOK(a *ssa.Alloc) bool {
	switch in.cellMemo[a] {
	case 1, 3:
		return true
	case 2:
		return false
	}
	in.cellMemo[a] = 3
	ok := !cellEscapes(a.Parent(), a)
	for _, fs := range in.flagCellStores(a) {
		if !fs.OK {
			ok = false
		}
	}
	if ok {
		in.cellMemo[a] = 1
	} else {
		in.cellMemo[a] = 2
	}
	return ok
}

// rc4AtStore: the store st (of the constant true, inside the callback) is
// executed only in invocations that return mse.RC4: every value the callback
// can return after st is the constant RC4, or it is a load of a local X that
// was tested `X == RC4` before st and is not written afterwards. Returns a
// complaint or "".
func (in *c12In) rc4AtStore(flag *ssa.Alloc, st *ssa.Store) string {
	cb := in.cb
	c := in.x.c
	isSt := func(ins ssa.Instruction) bool { return ins == ssa.Instruction(st) }
	notSet := c.Pending(cb, isSt, func(ssa.Instruction) bool { return false })
	for _, r := range returnsOf(cb) {
		if len(r.Results) != 1 {
			return "callback shape"
		}
		for _, src := range boolSources(r.Results[0]) {
			at := src.At
			if at == nil {
				at = r
			}
			if notSet.Before(at) {
				continue // the flag is untouched on this path
			}
			if in.isRC4Const(src.V) {
				continue
			}
			if ld, ok := src.V.(*ssa.UnOp); ok && ld.Op == token.MUL {
				if X, ok := cellRoot(ld.X).(*ssa.Alloc); ok {
					isX := func(e *kit.Expr) bool { return derefOfCell(e, X) }
					storesX := func(ins ssa.Instruction) bool {
						s2, ok := ins.(*ssa.Store)
						return ok && cellRoot(s2.Addr) == ssa.Value(X)
					}
					nested := false
					for _, s := range cellStores(X.Parent(), X) {
						if s.Fn != cb && in.inCB(s.Fn) {
							nested = true
						}
					}
					eq := c.AtomFlow(cb, func(a kit.Atom) bool {
						z, ok := a.R.Strip().IntConst()
						return a.Op == token.EQL && ok && z == in.x.rc4Bit && isX(a.L)
					}, storesX)
					// D: the flag is not set, or it was set while X == RC4 and X is unchanged since
					d := &kit.Flow{P: c.Prog, Fn: cb, Entry: true}
					d.Instr = func(ins ssa.Instruction, v bool) bool {
						if isSt(ins) {
							return eq.Before(ins)
						}
						if storesX(ins) {
							return notSet.Before(ins)
						}
						return v
					}
					if !nested && d.Solve().Before(ld) && d.Before(r) {
						continue
					}
				}
			}
			return "set to true on a path on which the callback may return " + kit.Canon(src.V).String() + " instead of mse.RC4: a plaintext stream would count as encrypted"
		}
	}
	return ""
}

// rc4Atom: the branch atom is evidence "the callback returned mse.RC4".
func (in *c12In) rc4Atom(a kit.Atom) bool {
	if a.IsTrue(func(e *kit.Expr) bool {
		e = e.Strip()
		return e != nil && e.V != nil && in.flagOK(e.V)
	}) {
		return true
	}
	if a.Op == token.EQL {
		if z, ok := a.R.Strip().IntConst(); ok && z == in.x.rc4Bit {
			l := a.L.Strip()
			return l != nil && l.V != nil && isCryptoMethod(l.V.Type(), in.x) && in.selOK(l.V)
		}
	}
	return false
}

func isCryptoMethod(t types.Type, x *c12) bool {
	n, ok := t.(*types.Named)
	return ok && n.Origin() == x.tMethod
}

// ---- the policy guard G in Accept and in its helpers ------------------------------

// safety builds, for Accept or one of its helpers, the guard flow
// G = "forceEncryption==false or the callback ran and returned mse.RC4" and
// the connection-safety solver that uses it.
func (in *c12In) safety(fn *ssa.Function) *connSafety {
	if cs, ok := in.safeties[fn]; ok {
		return cs
	}
	c := in.x.c
	// calls after which locals written by the callback may have changed
	reachCB := map[ssa.Instruction]bool{}
	kit.Instrs(fn, func(ins ssa.Instruction) {
		ci, ok := ins.(*ssa.Call)
		if !ok {
			return
		}
		if _, isB := ci.Call.Value.(*ssa.Builtin); isB {
			return
		}
		callees := c.Callees(ci)
		if len(callees) == 0 {
			reachCB[ins] = true // unresolved dynamic call
			return
		}
		r := c.Reach(callees, true, nil)
		for _, f := range kit.WithAnon(in.cb) {
			if r[f] {
				reachCB[ins] = true
			}
		}
	})
	// evidence locals of fn: bool / CryptoMethod cells that qualify
	evCell := map[*ssa.Alloc]bool{}
	kit.Instrs(fn, func(ins ssa.Instruction) {
		a, ok := ins.(*ssa.Alloc)
		if !ok {
			return
		}
		for _, bp := range in.aliases(fn) {
			if bp.Cell == a {
				return
			}
		}
		el := a.Type().Underlying().(*types.Pointer).Elem()
		if b, isB := el.Underlying().(*types.Basic); isB && b.Kind() == types.Bool {
			evCell[a] = in.flagCellOK(a)
		} else if isCryptoMethod(el, in.x) {
			evCell[a] = in.selCellOK(a)
		}
	})
	kill := func(ins ssa.Instruction) bool {
		if st, ok := ins.(*ssa.Store); ok {
			if a, isA := st.Addr.(*ssa.Alloc); isA && evCell[a] {
				return true
			}
		}
		return reachCB[ins]
	}
	gGen := func(a kit.Atom) bool {
		return a.IsFalse(func(e *kit.Expr) bool { return in.isF(fn, e) }) || in.rc4Atom(a)
	}
	g := &kit.Flow{P: c.Prog, Fn: fn, Edge: gGen}
	g.Instr = func(ins ssa.Instruction, v bool) bool {
		if v && kill(ins) {
			return false
		}
		return v
	}
	g.Solve()
	cs := &connSafety{x: in.x, fn: fn, G: g, gGen: gGen, gKill: kill, d: map[*ssa.Alloc]*kit.Flow{}, busy: map[*ssa.Alloc]bool{}}
	cs.helperOK = in.helperSinksSafe
	in.safeties[fn] = cs
	return cs
}

// helperSinksSafe: h is a helper of Accept and every write on a connection
// inside h is discharged inside h (guard or MSE wrapper).
func (in *c12In) helperSinksSafe(h *ssa.Function) bool {
	switch in.hOK[h] {
	case 1:
		return true
	case 2:
		return false
	}
	in.hOK[h] = 2 // recursion guard: a cycle is not a helper
	if !in.isHelper(h) || h == in.accept {
		return false
	}
	cs := in.safety(h)
	ok := true
	for _, s := range cs.writeSinks() {
		if !cs.safe(s.Val, s.Ins, nil) {
			ok = false
		}
	}
	// closures of h that write on a captured connection are not followed
	for _, f := range kit.WithAnon(h)[1:] {
		kit.Instrs(f, func(ins ssa.Instruction) {
			ci, isCall := ins.(ssa.CallInstruction)
			if isCall && ci.Common().IsInvoke() && writeMethods[ci.Common().Method.Name()] && types.Implements(ci.Common().Value.Type(), in.x.iNetConn) {
				ok = false
			}
		})
	}
	if ok {
		in.hOK[h] = 1
	}
	return ok
}

// ---- bit provenance across helpers -----------------------------------------------

// plainOnlyUnderNotF decides "value v (evaluated in fn) contains the
// PlainText bit only in executions with forceEncryption==false", following
// locals, phis and the results of module functions; the guard is evaluated in
// whatever function the bit is introduced.
func (in *c12In) plainOnlyUnderNotF(fn *ssa.Function, v ssa.Value, at ssa.Instruction, seen map[ssa.Value]bool, depth int) bool {
	holds := in.notFIn(fn)
	if at != nil && at.Parent() == fn && holds.Before(at) {
		return true
	}
	if seen == nil {
		seen = map[ssa.Value]bool{}
	}
	if seen[v] {
		return true
	}
	seen[v] = true
	defer delete(seen, v)
	bit := in.x.plainBit
	constHas := func(k *ssa.Const) (bool, bool) {
		if k.Value == nil {
			return false, true
		}
		if k.Value.Kind() != constant.Int {
			return false, false
		}
		n, ok := constant.Int64Val(k.Value)
		return n&bit != 0, ok
	}
	switch t := v.(type) {
	case *ssa.Const:
		has, ok := constHas(t)
		return ok && !has
	case *ssa.Phi:
		for i, e := range t.Edges {
			pred := t.Block().Preds[i]
			if t.Parent() == fn && holds.OnEdge(pred, t.Block()) {
				continue
			}
			if !in.plainOnlyUnderNotF(fn, e, termOf(pred), seen, depth) {
				return false
			}
		}
		return true
	case *ssa.BinOp:
		switch t.Op {
		case token.OR, token.XOR:
			return in.plainOnlyUnderNotF(fn, t.X, t, seen, depth) && in.plainOnlyUnderNotF(fn, t.Y, t, seen, depth)
		case token.AND:
			return in.plainOnlyUnderNotF(fn, t.X, t, seen, depth) || in.plainOnlyUnderNotF(fn, t.Y, t, seen, depth)
		case token.AND_NOT:
			if k, ok := t.Y.(*ssa.Const); ok {
				if has, ok := constHas(k); ok && has {
					return true
				}
			}
			return in.plainOnlyUnderNotF(fn, t.X, t, seen, depth)
		}
		return false
	case *ssa.Convert:
		return in.plainOnlyUnderNotF(fn, t.X, t, seen, depth)
	case *ssa.ChangeType:
		return in.plainOnlyUnderNotF(fn, t.X, t, seen, depth)
	case *ssa.UnOp:
		if t.Op == token.MUL {
			a, ok := cellRoot(t.X).(*ssa.Alloc)
			if !ok || cellEscapes(a.Parent(), a) {
				return false
			}
			for _, s := range cellStores(a.Parent(), a) {
				if !in.plainOnlyUnderNotF(s.Fn, s.St.Val, s.St, seen, depth) {
					return false
				}
			}
			return true // (zero value has no bits)
		}
	case *ssa.Extract, *ssa.Call:
		var call *ssa.Call
		idx := 0
		if ex, ok := t.(*ssa.Extract); ok {
			call, _ = ex.Tuple.(*ssa.Call)
			idx = ex.Index
		} else {
			call = t.(*ssa.Call)
		}
		if call == nil || depth <= 0 {
			return false
		}
		if call.Parent() == fn && holds.Before(call) {
			return true
		}
		g := call.Call.StaticCallee()
		if g == nil || g.Blocks == nil || g.Pkg == nil || !kit.InModule(g.Pkg.Pkg.Path()) {
			return false
		}
		n := 0
		for _, r := range returnsOf(g) {
			if r.Block() == g.Recover || idx >= len(r.Results) {
				continue
			}
			n++
			if !in.plainOnlyUnderNotF(g, r.Results[idx], r, seen, depth-1) {
				return false
			}
		}
		return n > 0
	}
	return false
}

package rules

import (
	"fmt"
	"go/token"
	"go/types"
	"sort"
	"strings"

	"golang.org/x/tools/go/ssa"

	"rainverif/checker/kit"
)

func init() {
	register(&Property{
		ID: "C20",
		Explanation: "Decides goroutine confinement of torrent state and lock discipline of the session maps, as a may-analysis on the VTA call graph: (R20.1) every field path of the `torrent` struct that the event-loop context (closure of (*torrent).run under non-`go` calls) writes is loop-owned; no function reachable from another goroutine root (exported API methods of Torrent/Session/rpcHandler, every other `go` target, bound methods handed to announcers/handshakers) may read or write it, except under the field's declared lock (bitfield: mBitfield) or after (*torrent).Close() returned; each (accessor, field path) is one obligation; (R20.2) every access to a lock-guarded Session map holds its mutex (torrents, torrentsByInfoHash -> mTorrents; availablePorts -> mPorts; dhtPeerRequests -> mPeerRequests; blocklistTimestamp -> mBlocklist); (R20.3) no send/receive on a torrent command channel and no (*torrent).Close() while mTorrents is write-locked, except in Session.Close; (R20.4) command/response rendezvous between API and loop is complete (K11); (R20.5) mutex fields and the bbolt write transaction (DB.Update/Batch) are lock classes, an edge A->B exists when B is acquired (directly, by a callee transitively, or by the transaction callback) at a point where A is must-held, and the graph has no cycle; (R20.6) the slice returned by Bytes() of the loop-owned torrent.bitfield is only measured, copied or passed to callees that do not let it reach a channel send, a go statement or a heap object (followed through composite literals, interface boxing, closures and module callee parameters; callees outside the module are assumed to use it synchronously); (R20.7) every channel field of a request struct on which the loop replies with a plain send is always made with capacity >= 1 or is only ever received from unconditionally. NOT decided: absence of deadlock in general; races through aliases that are not field paths of the torrent struct (pointees handed out by value are treated as frozen after publication).",
		RuleText:    commonRuleText,
		Assumptions: append([]string{"metrics counters/meters, mutexes, atomics and channels are internally synchronised; a field holding one is still subject to the rule when the loop re-assigns the field itself"}, commonAssumptions...),
		Run:         runC20,
	})
}

// tpath is a field path relative to the torrent struct (1 or 2 levels).
type tpath struct{ f1, f2 *types.Var }

func (p tpath) String() string {
	if p.f2 != nil {
		return "torrent." + p.f1.Name() + "[..]." + p.f2.Name()
	}
	return "torrent." + p.f1.Name()
}

type taccess struct {
	fn    *ssa.Function
	ins   ssa.Instruction
	path  tpath
	write bool
}

// torrentAccesses lists every access to a field path of struct `torrent` in fn.
func torrentAccesses(c *kit.Ctx, fn *ssa.Function, tStruct *types.Named) []taccess {
	var out []taccess
	isT := func(t types.Type) bool { return derefNamed(t) == tStruct }
	rel := func(e *kit.Expr) (tpath, bool) {
		// walk the chain root->leaf, find the first field owned by torrent
		var chain []*kit.Expr
		for x := e; x != nil; {
			switch x.Kind {
			case "field", "fieldaddr":
				chain = append([]*kit.Expr{x}, chain...)
				x = x.Args[0]
			case "index", "indexaddr", "deref", "lookup", "slice":
				x = x.Args[0]
			default:
				x = nil
			}
		}
		for i, x := range chain {
			if x.Args[0].V != nil && isT(x.Args[0].V.Type()) || ownerIs(x, tStruct) {
				p := tpath{f1: x.Field}
				if i+1 < len(chain) {
					p.f2 = chain[i+1].Field
				}
				return p, true
			}
		}
		return tpath{}, false
	}
	kit.Instrs(fn, func(ins ssa.Instruction) {
		switch x := ins.(type) {
		case *ssa.Store:
			if p, ok := rel(kit.Canon(x.Addr)); ok {
				out = append(out, taccess{fn, ins, p, true})
			}
		case *ssa.MapUpdate:
			if p, ok := rel(kit.Canon(x.Map)); ok {
				out = append(out, taccess{fn, ins, p, true})
			}
		case *ssa.UnOp:
			if x.Op.String() == "*" {
				if p, ok := rel(kit.Canon(x)); ok {
					out = append(out, taccess{fn, ins, p, false})
				}
			}
		case *ssa.Field:
			if p, ok := rel(kit.Canon(x)); ok {
				out = append(out, taccess{fn, ins, p, false})
			}
		case *ssa.Call:
			// delete(m, k) and append through a field are writes of the container
			if isBuiltin(&x.Call, "delete") {
				if p, ok := rel(kit.Canon(x.Call.Args[0])); ok {
					out = append(out, taccess{fn, ins, p, true})
				}
			}
		}
	})
	return out
}

func ownerIs(e *kit.Expr, named *types.Named) bool {
	st, ok := named.Underlying().(*types.Struct)
	if !ok || e.Field == nil {
		return false
	}
	for i := 0; i < st.NumFields(); i++ {
		if st.Field(i) == e.Field {
			return true
		}
	}
	return false
}

// syncType reports whether values of t are internally synchronised.
func syncType(t types.Type) bool {
	s := t.String()
	for _, p := range []string{"sync.Mutex", "sync.RWMutex", "sync/atomic.", "github.com/rcrowley/go-metrics.", "sync.WaitGroup", "sync.Once"} {
		if strings.Contains(s, p) {
			return true
		}
	}
	if _, ok := t.Underlying().(*types.Chan); ok {
		return true
	}
	return false
}

func runC20(c *kit.Ctx) {
	k := newKeyer()
	tStruct := c.Named("torrent", "torrent")
	run := c.Func("torrent", "(*torrent).run")
	newTorrent := c.Func("torrent", "newTorrent")
	closeT := c.FuncObj("torrent", "(*torrent).Close")
	fBitfield := c.Field("torrent", "torrent", "bitfield")
	fMBitfield := c.Field("torrent", "torrent", "mBitfield")

	// ---- contexts
	loop := c.Reach([]*ssa.Function{run}, false, nil)
	var roots []*ssa.Function
	rootWhy := map[*ssa.Function]string{}
	addRoot := func(fn *ssa.Function, why string) {
		if fn == nil || fn == run || fn.Blocks == nil {
			return
		}
		if _, ok := rootWhy[fn]; !ok {
			rootWhy[fn] = why
			roots = append(roots, fn)
		}
	}
	for _, fn := range c.ModuleFunctions() {
		// exported API methods
		if fn.Parent() == nil && fn.Signature.Recv() != nil && inPkg(fn, c, "torrent") && fn.Object() != nil && fn.Object().Exported() {
			if n := derefNamed(fn.Signature.Recv().Type()); n != nil {
				switch n.Obj().Name() {
				case "Torrent", "Session", "rpcHandler":
					addRoot(fn, "exported method of "+n.Obj().Name())
				}
			}
		}
		// unexported handlers registered on the RPC mux
		if fn.Name() == "handleMoveTorrent" {
			addRoot(fn, "HTTP handler")
		}
		kit.Instrs(fn, func(ins ssa.Instruction) {
			g, ok := ins.(*ssa.Go)
			if !ok {
				return
			}
			for _, callee := range c.Callees(g) {
				addRoot(callee, "go statement in "+kit.FuncName(fn))
			}
		})
	}
	stopAtCtor := func(fn *ssa.Function) bool { return fn == newTorrent || fn == run }
	outside := c.Reach(roots, false, stopAtCtor)
	// which root reaches a function (for diagnostics): recompute lazily
	reachedFrom := func(target *ssa.Function) string {
		var names []string
		for _, r := range roots {
			if c.Reach([]*ssa.Function{r}, false, stopAtCtor)[target] {
				names = append(names, kit.FuncName(r))
				if len(names) >= 2 {
					break
				}
			}
		}
		return strings.Join(names, ", ")
	}

	// roots that reach a function (finding identity: the API entry, not the helper that
	// happens to contain the access)
	rootReach := map[*ssa.Function]map[*ssa.Function]bool{}
	rootsOf := func(target *ssa.Function) []string {
		var names []string
		for _, r := range roots {
			rs, ok := rootReach[r]
			if !ok {
				rs = c.Reach([]*ssa.Function{r}, false, stopAtCtor)
				rootReach[r] = rs
			}
			if rs[target] {
				names = append(names, kit.FuncName(r))
			}
		}
		sort.Strings(names)
		return names
	}
	_ = rootsOf
	// innermost roots only: an RPC handler that merely calls the Torrent/Session API
	// method is not a second identity of the finding
	minimalRoots := func(target *ssa.Function) []string {
		var rs []*ssa.Function
		for _, r := range roots {
			reach, ok := rootReach[r]
			if !ok {
				reach = c.Reach([]*ssa.Function{r}, false, stopAtCtor)
				rootReach[r] = reach
			}
			if reach[target] {
				rs = append(rs, r)
			}
		}
		var names []string
		for _, r2 := range rs {
			covered := false
			for _, r1 := range rs {
				if r1 != r2 && rootReach[r2][r1] && !rootReach[r1][r2] {
					covered = true
				}
			}
			if !covered {
				names = append(names, kit.FuncName(r2))
			}
		}
		sort.Strings(names)
		return names
	}
	whoOf := func(fn *ssa.Function) string {
		rs := minimalRoots(fn)
		if len(rs) >= 1 && len(rs) <= 3 {
			return strings.Join(rs, "+")
		}
		return kit.FuncName(fn)
	}

	// ---- field classes
	neverNil := neverNilFields(c, tStruct, newTorrent)
	loopWrites := map[tpath]bool{}
	loopTouches := map[tpath]bool{}
	for fn := range loop {
		if fn.Blocks == nil || !kit.InModule(kit.FnPkgPath(fn)) || fn == newTorrent {
			continue
		}
		for _, a := range torrentAccesses(c, fn, tStruct) {
			if a.write && deadNilGuardedStore(c, a, neverNil) {
				continue // store under `f == nil` of a field that is never nil: unreachable
			}
			loopTouches[a.path] = true
			if a.write {
				loopWrites[a.path] = true
			}
		}
	}
	nOwned := 0
	for range loopWrites {
		nOwned++
	}
	c.Floor("R20.1", "loop-written torrent field paths", nOwned, 40)
	c.Floor("R20.1", "outside-context roots", len(roots), 40)

	// lock flows per function (mBitfield)
	lockHeld := map[*ssa.Function]*kit.Flow{}
	heldAt := func(fn *ssa.Function, ins ssa.Instruction) bool {
		fl, ok := lockHeld[fn]
		if !ok {
			fl = mutexFlow(c, fn, fMBitfield)
			lockHeld[fn] = fl
		}
		return fl.Before(ins)
	}
	var holdsViaCallers func(fn *ssa.Function, depth int) bool
	holdsViaCallers = func(fn *ssa.Function, depth int) bool {
		edges := c.CallersOf(fn)
		if len(edges) == 0 || depth > 2 {
			return false
		}
		for _, e := range edges {
			if e.Site == nil {
				return false
			}
			if _, isGo := e.Site.(*ssa.Go); isGo {
				return false
			}
			cf := e.Caller.Func
			if !outside[cf] && loop[cf] {
				continue // loop-side callers are not the concern here
			}
			if !heldAt(cf, e.Site) && !holdsViaCallers(cf, depth+1) {
				return false
			}
		}
		return true
	}
	closedFlows := map[*ssa.Function]*kit.Flow{}
	afterClose := func(fn *ssa.Function, ins ssa.Instruction) bool {
		fl, ok := closedFlows[fn]
		if !ok {
			fl = c.Called(fn, closeT)
			closedFlows[fn] = fl
		}
		return fl.Before(ins)
	}

	// ---- R20.1 obligations
	type obKey struct {
		fn   *ssa.Function
		path tpath
	}
	seen := map[obKey]bool{}
	// several accessors under one API root share one obligation; it is violated if any of them is
	type verdictT struct {
		bad bool
		pos token.Pos
		msg string
	}
	verdicts := map[string]*verdictT{}
	var vorder []string
	verdict := func(key string, bad bool, pos token.Pos, msg string) {
		v, ok := verdicts[key]
		if !ok {
			verdicts[key] = &verdictT{bad, pos, msg}
			vorder = append(vorder, key)
			return
		}
		if bad && !v.bad {
			*v = verdictT{bad, pos, msg}
		}
	}
	var fns []*ssa.Function
	for fn := range outside {
		if fn.Blocks != nil && kit.InModule(kit.FnPkgPath(fn)) {
			fns = append(fns, fn)
		}
	}
	sort.Slice(fns, func(i, j int) bool { return kit.FuncName(fns[i]) < kit.FuncName(fns[j]) })
	nAcc := 0
	for _, fn := range fns {
		for _, a := range torrentAccesses(c, fn, tStruct) {
			top := tpath{f1: a.path.f1}
			racy := false
			switch {
			case a.write && a.path.f2 == nil:
				racy = loopTouches[top]
			case a.write:
				// a write through a (frozen) pointer/slice field races only with loop
				// accesses of the same element field, or with the loop replacing the container
				racy = loopTouches[a.path] || loopWrites[top]
			default:
				racy = loopWrites[a.path] || loopWrites[top]
			}
			if !racy {
				continue
			}
			if syncType(a.path.f1.Type()) && !loopWrites[top] {
				continue
			}
			if a.path.f2 != nil && syncType(a.path.f2.Type()) && !loopWrites[top] && !loopWrites[a.path] {
				continue
			}
			nAcc++
			ok := obKey{fn, a.path}
			if seen[ok] {
				continue
			}
			mode := "reads"
			if a.write {
				mode = "writes"
			}
			key := fmt.Sprintf("%s %s %s", whoOf(fn), mode, a.path)
			// exceptions
			if afterClose(fn, a.ins) {
				seen[ok] = true
				verdict(key, false, posOf(a.ins), "access ordered after (*torrent).Close() (the loop has exited)")
				continue
			}
			if a.path.f1 == fBitfield && !a.write && (heldAt(fn, a.ins) || holdsViaCallers(fn, 0)) {
				seen[ok] = true
				verdict(key, false, posOf(a.ins), "bitfield read under mBitfield")
				continue
			}
			seen[ok] = true
			verdict(key, true, posOf(a.ins), fmt.Sprintf("%s %s %s from outside the event loop (reachable from %s) while the loop writes it: unsynchronised access", kit.FuncName(fn), mode, a.path, reachedFrom(fn)))
		}
	}
	for _, key := range vorder {
		v := verdicts[key]
		if v.bad {
			c.Bad("R20.1", key, v.pos, "%s", v.msg)
		} else {
			c.OK("R20.1", key, v.pos, "%s", v.msg)
		}
	}
	// loop-side writes of lock-guarded fields hold the write lock
	for fn := range loop {
		if fn.Blocks == nil || fn == newTorrent || !kit.InModule(kit.FnPkgPath(fn)) {
			continue
		}
		for _, a := range torrentAccesses(c, fn, tStruct) {
			if a.path.f1 == fBitfield && a.path.f2 == nil && a.write {
				key := k.key(fn, "loop writes bitfield")
				c.Check(heldAt(fn, a.ins), "R20.1", key, posOf(a.ins), "bitfield pointer replaced under mBitfield.Lock()", "the loop replaces the bitfield pointer without mBitfield.Lock(): readers under RLock race")
			}
		}
	}
	c.Stats["outside accesses examined"] = nAcc

	runC20Session(c, k)
	runRendezvous(c, k, "R20.4")
	runC20Locks(c, k)
	runC20Alias(c, k)
	runC20Reply(c, k)
	runC20Retain(c, k, loop, outside, loopWrites, tStruct)
}

// mutexFlow: fact "mutex field m is held" (Lock/RLock gen, Unlock/RUnlock
// kill; deferred unlocks keep it to the exit).
func mutexFlow(c *kit.Ctx, fn *ssa.Function, m *types.Var) *kit.Flow {
	return (&kit.Flow{P: c.Prog, Fn: fn, Instr: func(ins ssa.Instruction, in bool) bool {
		cc := kit.CallOf(ins)
		if cc == nil || cc.StaticCallee() == nil || len(cc.Args) == 0 {
			return in
		}
		if _, isDefer := ins.(*ssa.Defer); isDefer {
			return in
		}
		if !kit.Canon(cc.Args[0]).IsField(m) {
			return in
		}
		switch cc.StaticCallee().Name() {
		case "Lock", "RLock":
			return true
		case "Unlock", "RUnlock":
			return false
		}
		return in
	}}).Solve()
}

// writeLockFlow is like mutexFlow but only for the exclusive lock.
func writeLockFlow(c *kit.Ctx, fn *ssa.Function, m *types.Var) *kit.Flow {
	return (&kit.Flow{P: c.Prog, Fn: fn, Instr: func(ins ssa.Instruction, in bool) bool {
		cc := kit.CallOf(ins)
		if cc == nil || cc.StaticCallee() == nil || len(cc.Args) == 0 {
			return in
		}
		if _, isDefer := ins.(*ssa.Defer); isDefer {
			return in
		}
		if !kit.Canon(cc.Args[0]).IsField(m) {
			return in
		}
		switch cc.StaticCallee().Name() {
		case "Lock":
			return true
		case "Unlock":
			return false
		}
		return in
	}}).Solve()
}

func runC20Session(c *kit.Ctx, k *keyer) {
	S := func(n string) *types.Var { return c.Field("torrent", "Session", n) }
	newSession := c.Func("torrent", "NewSession")
	guards := []struct {
		field, mu *types.Var
	}{
		{S("torrents"), S("mTorrents")},
		{S("torrentsByInfoHash"), S("mTorrents")},
		{S("availablePorts"), S("mPorts")},
		{S("dhtPeerRequests"), S("mPeerRequests")},
		{S("blocklistTimestamp"), S("mBlocklist")},
	}
	// ---- R20.2 lock-set of session maps
	n := 0
	for _, g := range guards {
		flows := map[*ssa.Function]*kit.Flow{}
		held := func(fn *ssa.Function, ins ssa.Instruction) bool {
			fl, ok := flows[fn]
			if !ok {
				fl = mutexFlow(c, fn, g.mu)
				flows[fn] = fl
			}
			return fl.Before(ins)
		}
		var viaCallers func(fn *ssa.Function, depth int) bool
		viaCallers = func(fn *ssa.Function, depth int) bool {
			edges := c.CallersOf(fn)
			if len(edges) == 0 || depth > 3 {
				return false
			}
			for _, e := range edges {
				if e.Site == nil {
					return false
				}
				if _, isGo := e.Site.(*ssa.Go); isGo {
					return false
				}
				cf := e.Caller.Func
				if cf == newSession || fnIn(cf, newSession) {
					continue // construction: no other goroutine has the session yet
				}
				if !held(cf, e.Site) && !viaCallers(cf, depth+1) {
					return false
				}
			}
			return true
		}
		seen := map[string]bool{}
		for _, fn := range c.ModuleFunctions() {
			if !inPkg(fn, c, "torrent") || fnIn(fn, newSession) {
				continue
			}
			kit.Instrs(fn, func(ins ssa.Instruction) {
				fa, ok := ins.(*ssa.FieldAddr)
				if !ok {
					return
				}
				st := derefStructT(fa.X.Type())
				if st == nil || st.Field(fa.Field) != g.field {
					return
				}
				n++
				key := kit.FuncName(fn) + " accesses Session." + g.field.Name()
				if seen[key] {
					return
				}
				seen[key] = true
				if held(fn, ins) || viaCallers(fn, 0) || closureRunsUnder(fn, held) {
					c.OK("R20.2", key, posOf(ins), "Session.%s accessed under %s", g.field.Name(), g.mu.Name())
				} else {
					c.Bad("R20.2", key, posOf(ins), "Session.%s accessed without holding %s (in %s, nor in all of its callers)", g.field.Name(), g.mu.Name(), kit.FuncName(fn))
				}
			})
		}
	}
	c.Floor("R20.2", "accesses to lock-guarded session fields", n, 25)

	// ---- R20.3 no blocking on a torrent loop while mTorrents is write-locked
	{
		mT := S("mTorrents")
		sessionClose := c.Func("torrent", "(*Session).Close")
		tStruct := c.Named("torrent", "torrent")
		blocking := map[*types.Func]bool{}
		for _, m := range []string{"Close", "Start", "Stop", "Announce", "Verify", "Stats", "Trackers", "Peers", "Webseeds", "AddPeers", "AddTrackers", "NotifyError", "NotifyListen"} {
			blocking[c.FuncObj("torrent", "(*torrent)."+m)] = true
		}
		nb := 0
		for _, fn := range c.ModuleFunctions() {
			if !inPkg(fn, c, "torrent") || fn == sessionClose || fnIn(fn, sessionClose) {
				continue
			}
			var wl *kit.Flow
			kit.Instrs(fn, func(ins ssa.Instruction) {
				cc := kit.CallOf(ins)
				if cc == nil {
					return
				}
				if _, isGo := ins.(*ssa.Go); isGo {
					return
				}
				obj := kit.CalleeObj(cc)
				if obj == nil || !blocking[obj] {
					return
				}
				nb++
				if wl == nil {
					wl = writeLockFlow(c, fn, mT)
				}
				if wl.Before(ins) {
					c.Bad("R20.3", k.key(fn, "blocking call under mTorrents"), posOf(ins), "%s is called on a torrent loop while Session.mTorrents is write-locked: every other API call that needs the registry (and the DHT result loop) blocks behind a torrent that may itself be waiting", obj.Name())
				}
			})
		}
		c.Floor("R20.3", "calls into a torrent loop from session code", nb, 10)
		c.Present("R20.3", "session/no-loop-call-under-write-lock", sessionClose.Pos(), "examined %d calls into torrent loops; none under mTorrents.Lock() outside Session.Close", nb)
		_ = tStruct
	}
}

func derefStructT(t types.Type) *types.Struct {
	if p, ok := t.Underlying().(*types.Pointer); ok {
		t = p.Elem()
	}
	st, _ := t.Underlying().(*types.Struct)
	return st
}

// neverNilFields returns the torrent fields that the constructor sets to a
// fresh non-nil value and that no store in the module ever sets to anything
// but a fresh non-nil value.
func neverNilFields(c *kit.Ctx, tStruct *types.Named, ctor *ssa.Function) map[*types.Var]bool {
	st := tStruct.Underlying().(*types.Struct)
	out := map[*types.Var]bool{}
	for i := 0; i < st.NumFields(); i++ {
		f := st.Field(i)
		inCtor, ok := false, true
		for _, s := range fieldStores(c, f) {
			if !kit.NonNilValue(s.Val) {
				ok = false
			}
			if s.Fn == ctor {
				inCtor = true
			}
		}
		if ok && inCtor {
			out[f] = true
		}
	}
	return out
}

// deadNilGuardedStore: the store is dominated by the fact `field == nil`
// for a field that is never nil, hence cannot execute.
func deadNilGuardedStore(c *kit.Ctx, a taccess, neverNil map[*types.Var]bool) bool {
	if a.path.f2 != nil || !neverNil[a.path.f1] {
		return false
	}
	f := a.path.f1
	fl := c.AtomFlow(a.fn, func(at kit.Atom) bool {
		return at.IsNilCmp(true, func(e *kit.Expr) bool { return e.IsField(f) })
	}, func(ins ssa.Instruction) bool { _, ok := kit.StoresField(ins, f); return ok })
	return fl.Before(a.ins)
}

// closureRunsUnder reports whether fn is a closure that is only passed as a
// call argument (executed synchronously by the callee, e.g. bbolt's
// DB.Update) at a point of its parent where held() is true.
func closureRunsUnder(fn *ssa.Function, held func(*ssa.Function, ssa.Instruction) bool) bool {
	par := fn.Parent()
	if par == nil {
		return false
	}
	ok := false
	bad := false
	kit.Instrs(par, func(ins ssa.Instruction) {
		mc, isMC := ins.(*ssa.MakeClosure)
		if !isMC || mc.Fn != ssa.Value(fn) {
			return
		}
		for _, r := range *mc.Referrers() {
			switch u := r.(type) {
			case *ssa.Call:
				if held(par, u) {
					ok = true
				} else {
					bad = true
				}
			default:
				_ = u
				bad = true // stored, spawned or deferred
			}
		}
	})
	return ok && !bad
}

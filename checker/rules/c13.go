package rules

import (
	"go/token"
	"regexp"
	"sort"
	"strings"

	"golang.org/x/tools/go/ssa"

	"rainverif/checker/kit"
)

func init() {
	register(&Property{
		ID: "C13",
		Explanation: "Decides the adoption gate of magnet metadata: (R13.1) torrent.info is stored only by the constructor and by handleMetadataMessage, where the store, the parse and the persist are dominated by bytes.Equal(h.Sum(nil), t.infoHash[:])==true with h a fresh sha1 fed exactly the downloader's assembly buffer, and the bytes parsed are that same buffer; (R13.2) an info downloader is created only for a peer with an extension handshake, the metadata key, and 0 < MetadataSize <= config.MaxMetadataSize; (R13.3) the metadata block copy is gated by index<len(blocks), blocks[index].requested and len(data)==blocks[index].size; (R13.4) adoption requires info.Private==false; (R13.5) the parameter keys written by Magnet.String equal the keys read by magnet.New and names / tracker URLs are query-escaped. NOT decided: eventual success with an honest peer (liveness); round-trip equality of magnet values.",
		RuleText:    commonRuleText,
		Assumptions: commonAssumptions,
		Run:         runC13,
	})
}

func runC13(c *kit.Ctx) {
	k := newKeyer()
	h := c.Func("torrent", "(*torrent).handleMetadataMessage")
	fInfo := c.Field("torrent", "torrent", "info")
	fInfoHash := c.Field("torrent", "torrent", "infoHash")
	fIDBytes := c.Field("internal/infodownloader", "InfoDownloader", "Bytes")
	fPrivate := c.Field("internal/metainfo", "Info", "Private")
	bytesEqual := c.FuncObj("bytes", "Equal")
	sha1New := c.FuncObj("crypto/sha1", "New")
	parseInfo := c.FuncObj("torrent", "(*Session).parseInfo")
	writeInfo := c.FuncObj("internal/resumer/boltdbresumer", "(*Resumer).WriteInfo")
	newTorrent := c.Func("torrent", "newTorrent")

	// ---- R13.1 adoption gate
	{
		// hash-equality fact (function-agnostic: matched by shape), remembering
		// the Sum call per function
		sumCallOf := map[*ssa.Function]*ssa.Call{}
		isHashEq := func(e *kit.Expr) (*ssa.Call, bool) {
			if !e.IsCallTo(bytesEqual) || len(e.Args) != 2 {
				return nil, false
			}
			for i := 0; i < 2; i++ {
				s, o := e.Args[i], e.Args[1-i]
				if s.Kind == "call" && s.Name == "Sum" && o.Mentions(func(x *kit.Expr) bool { return x.IsField(fInfoHash) }) {
					if call, ok := s.V.(*ssa.Call); ok {
						return call, true
					}
				}
			}
			return nil, false
		}
		hashSpec := &kit.Spec{P: c.Prog, Deep: kit.DefaultDeep,
			Edge: func(a kit.Atom) bool {
				return a.IsTrue(func(e *kit.Expr) bool {
					call, ok := isHashEq(e)
					if ok {
						sumCallOf[call.Parent()] = call
					}
					return ok
				})
			},
			Instr: func(ins ssa.Instruction, in bool) bool {
				if !in {
					return false
				}
				// the assembly buffer must not change between hashing and use
				if c.KillsField(ins, fIDBytes) {
					return false
				}
				if cc := kit.CallOf(ins); cc != nil && isBuiltin(cc, "copy") {
					if kit.Canon(cc.Args[0]).Mentions(func(x *kit.Expr) bool { return x.IsField(fIDBytes) }) {
						return false
					}
				}
				return true
			}}
		// which buffer was hashed: h.Write(X) exactly once before Sum on a fresh sha1.New()
		hashedBuf := func(sum *ssa.Call) (*kit.Expr, bool) {
			fn := sum.Parent()
			hv := sum.Call.Value
			if !kit.Canon(hv).IsCallTo(sha1New) {
				return nil, false
			}
			var buf *kit.Expr
			writes := 0
			kit.Instrs(fn, func(ins ssa.Instruction) {
				cc := kit.CallOf(ins)
				if cc != nil && cc.IsInvoke() && cc.Value == hv && cc.Method.Name() == "Write" {
					writes++
					buf = kit.Canon(cc.Args[0])
					if !kit.Dominates(ins, sum) {
						buf = nil
					}
				}
			})
			if writes != 1 || buf == nil {
				return nil, false
			}
			return buf, true
		}
		// a use of bytes inside a helper is traced to the expression at the helper's call sites
		type ctxPoint struct {
			at    ssa.Instruction
			bytes *kit.Expr
		}
		var resolve func(at ssa.Instruction, e *kit.Expr, depth int) ([]ctxPoint, bool)
		resolve = func(at ssa.Instruction, e *kit.Expr, depth int) ([]ctxPoint, bool) {
			e = e.Strip()
			fn := at.Parent()
			if p, ok := e.V.(*ssa.Parameter); ok && e.Kind == "param" && depth > 0 {
				idx := -1
				for i, q := range fn.Params {
					if q == p {
						idx = i
					}
				}
				sites := c.StaticCallSites(fn)
				if idx < 0 || len(sites) == 0 {
					return nil, false
				}
				var out []ctxPoint
				for _, site := range sites {
					if site == nil {
						return nil, false
					}
					sub, ok := resolve(site, kit.Canon(site.(*ssa.Call).Call.Args[idx]), depth-1)
					if !ok {
						return nil, false
					}
					out = append(out, sub...)
				}
				return out, true
			}
			return []ctxPoint{{at, e}}, true
		}
		checkUse := func(at ssa.Instruction, bytesArg *kit.Expr) (bool, string) {
			pts, ok := resolve(at, bytesArg, 2)
			if !ok || len(pts) == 0 {
				return false, "the bytes used cannot be traced to the info downloader's assembly buffer"
			}
			for _, pt := range pts {
				if !hashSpec.Holds(pt.at, 2) {
					return false, "not dominated by bytes.Equal(sha1(assembled), infoHash)==true on every path"
				}
				sum := sumCallOf[pt.at.Parent()]
				if sum == nil {
					// the comparison may live one level up: accept only if the bytes are a plain field path
					for f, sc := range sumCallOf {
						_ = f
						sum = sc
					}
				}
				if sum == nil {
					return false, "no hash comparison found"
				}
				buf, ok := hashedBuf(sum)
				if !ok || !buf.IsField(fIDBytes) {
					return false, "the hashed bytes are not exactly the info downloader's assembly buffer fed once to a fresh sha1"
				}
				if !(pt.bytes.IsField(fIDBytes) && (sum.Parent() != pt.at.Parent() || pt.bytes.Base().V == buf.Base().V)) {
					return false, "bytes used (" + pt.bytes.String() + ") are not the bytes hashed (" + buf.String() + ")"
				}
			}
			return true, ""
		}
		n := 0
		for _, st := range fieldStores(c, fInfo) {
			key := k.key(st.Fn, "store torrent.info")
			if st.Fn == newTorrent {
				c.Present("R13.1", key, posOf(st.Store), "constructor (metainfo given by the user / resume data)")
				continue
			}
			n++
			v := kit.Canon(st.Val)
			if !(v.Kind == "extract" && v.Idx == 0 && v.Args[0].IsCallTo(parseInfo)) {
				c.Bad("R13.1", key, posOf(st.Store), "adopted info %s is not the result of Session.parseInfo", v)
				continue
			}
			// solve the spec once on the functions involved so that sumCallOf is filled
			hashSpec.Holds(st.Store, 2)
			ok, why := checkUse(st.Store, v.Args[0].Args[1])
			if ok {
				c.OK("R13.1", key, posOf(st.Store), "t.info = parseInfo(assembled bytes) only under bytes.Equal(sha1(same bytes), t.infoHash)==true (caller context included)")
			} else {
				c.Bad("R13.1", key, posOf(st.Store), "metadata adopted without the hash gate: %s", why)
			}
		}
		c.Floor("R13.1", "info adoption sites", n, 1)
		// parse and persist of fetched metadata are behind the same gate, wherever they are
		reach := c.Reach([]*ssa.Function{h}, false, func(f *ssa.Function) bool { return !inPkg(f, c, "torrent") })
		for fn := range reach {
			if fn.Blocks == nil || !inPkg(fn, c, "torrent") {
				continue
			}
			kit.Instrs(fn, func(ins ssa.Instruction) {
				if !kit.CallsAny(ins, parseInfo, writeInfo) {
					return
				}
				if _, isCall := ins.(*ssa.Call); !isCall {
					return
				}
				// only uses that belong to the metadata road (reachable from the handler through this function)
				if fn != h && len(c.StaticCallSites(fn)) == 0 {
					return
				}
				c.Check(hashSpec.Holds(ins, 2), "R13.1", k.key(fn, "parse/persist"), posOf(ins),
					"parse / persist of fetched metadata only after the hash comparison succeeded", "fetched metadata parsed or persisted before the hash comparison")
			})
		}
		// infoHash never re-assigned after construction
		for _, st := range fieldStores(c, fInfoHash) {
			if st.Fn != newTorrent {
				c.Bad("R13.1", k.key(st.Fn, "store infoHash"), posOf(st.Store), "torrent.infoHash re-assigned after construction")
			}
		}
	}

	// ---- R13.4 private refused
	{
		notPrivate := c.FieldBoolSpec(fPrivate, false, kit.DefaultDeep)
		for _, st := range fieldStores(c, fInfo) {
			if st.Fn == newTorrent {
				continue
			}
			c.Check(notPrivate.Holds(st.Store, 2), "R13.4", k.key(st.Fn, "adopt non-private"), posOf(st.Store),
				"metadata adopted only under info.Private==false", "metadata fetched through a magnet link is adopted although it may be private")
		}
	}

	// ---- R13.2 size cap and eligibility
	{
		idNew := c.FuncObj("internal/infodownloader", "New")
		next := c.Func("torrent", "(*torrent).nextInfoDownload")
		fEH := c.Field("internal/peer", "Peer", "ExtensionHandshake")
		fMS := c.Field("internal/peerprotocol", "ExtensionHandshakeMessage", "MetadataSize")
		fMax := c.Field("torrent", "Config", "MaxMetadataSize")
		fM := c.Field("internal/peerprotocol", "ExtensionHandshakeMessage", "M")
		_ = next
		killMS := func(ins ssa.Instruction, in bool) bool {
			if in && c.KillsField(ins, fMS) {
				return false
			}
			return in
		}
		hasEH := c.FieldNilSpec(fEH, false, kit.DefaultDeep)
		capOK := &kit.Spec{P: c.Prog, Deep: kit.DefaultDeep, Instr: killMS, Edge: func(a kit.Atom) bool {
			ok, _ := a.UpperBound(func(e *kit.Expr) bool { return e.Strip().IsField(fMS) }, func(e *kit.Expr) bool { return e.Strip().IsField(fMax) })
			return ok
		}}
		nonZero := &kit.Spec{P: c.Prog, Deep: kit.DefaultDeep, Instr: killMS, Edge: func(a kit.Atom) bool {
			z, ok := a.R.IntConst()
			if !ok || z != 0 || !a.L.Strip().IsField(fMS) {
				return false
			}
			return a.Op == token.NEQ || a.Op == token.GTR
		}}
		hasKey := &kit.Spec{P: c.Prog, Deep: kit.DefaultDeep, Edge: func(a kit.Atom) bool {
			return a.IsTrue(func(e *kit.Expr) bool {
				return e.Kind == "extract" && e.Idx == 1 && e.Args[0].Kind == "lookup" && e.Args[0].Args[0].IsField(fM)
			})
		}}
		n := 0
		for _, s := range sortSites(c.CallSites(idNew)) {
			n++
			key := k.key(s.Fn, "infodownloader.New")
			// the facts may be established in the function itself or, when the call sits in a
			// helper, before every call of that helper
			switch {
			case !hasEH.Holds(s.Instr, 2):
				c.Bad("R13.2", key, posOf(s.Instr), "peer may have no extension handshake")
			case !capOK.Holds(s.Instr, 2):
				c.Bad("R13.2", key, posOf(s.Instr), "metadata download started without MetadataSize <= config.MaxMetadataSize: an announced size above the maximum would be allocated and fetched")
			case !nonZero.Holds(s.Instr, 2):
				c.Bad("R13.2", key, posOf(s.Instr), "metadata download started for MetadataSize==0")
			case !hasKey.Holds(s.Instr, 2):
				c.Bad("R13.2", key, posOf(s.Instr), "peer did not advertise the metadata extension key")
			default:
				c.OK("R13.2", key, posOf(s.Instr), "info downloader only for a peer with handshake, metadata key and 0 != MetadataSize <= MaxMetadataSize")
			}
		}
		c.Floor("R13.2", "infodownloader.New sites", n, 1)
	}

	// ---- R13.3 block gate
	{
		got := c.Func("internal/infodownloader", "(*InfoDownloader).GotBlock")
		fBlocks := c.Field("internal/infodownloader", "InfoDownloader", "blocks")
		fReq := c.Field("internal/infodownloader", "block", "requested")
		fSize := c.Field("internal/infodownloader", "block", "size")
		index, data := got.Params[1], got.Params[2]
		idxOK := c.AtomFlow(got, func(a kit.Atom) bool {
			ok, strict := a.UpperBound(func(e *kit.Expr) bool { return e.Strip().V == ssa.Value(index) },
				func(e *kit.Expr) bool { e = e.Strip(); return e.Kind == "len" && e.Args[0].IsField(fBlocks) })
			return ok && strict
		}, func(ins ssa.Instruction) bool { return c.KillsField(ins, fBlocks) })
		reqOK := c.FieldBool(got, fReq, true)
		sizeOK := c.AtomFlow(got, func(a kit.Atom) bool {
			if a.Op != token.EQL {
				return false
			}
			l, r := a.L.Strip(), a.R.Strip()
			isLen := func(e *kit.Expr) bool { return e.Kind == "len" && e.Args[0].V == ssa.Value(data) }
			isSz := func(e *kit.Expr) bool { return e.IsField(fSize) }
			return (isLen(l) && isSz(r)) || (isLen(r) && isSz(l))
		}, func(ins ssa.Instruction) bool { return c.KillsField(ins, fSize) })
		n := 0
		for _, fn := range c.ModuleFunctions() {
			if !inPkg(fn, c, "internal/infodownloader") {
				continue
			}
			kit.Instrs(fn, func(ins ssa.Instruction) {
				cc := kit.CallOf(ins)
				if !isBuiltin(cc, "copy") || !kit.Canon(cc.Args[0]).Mentions(func(e *kit.Expr) bool { return e.IsField(fIDBytes) }) {
					return
				}
				n++
				key := k.key(fn, "copy into metadata buffer")
				switch {
				case fn != got:
					c.Bad("R13.3", key, posOf(ins), "metadata buffer written outside GotBlock")
				case !idxOK.Before(ins):
					c.Bad("R13.3", key, posOf(ins), "metadata block copied without index < len(blocks)")
				case !reqOK.Before(ins):
					c.Bad("R13.3", key, posOf(ins), "unrequested metadata block copied")
				case !sizeOK.Before(ins):
					c.Bad("R13.3", key, posOf(ins), "metadata block copied without len(data)==blocks[index].size")
				default:
					c.OK("R13.3", key, posOf(ins), "copy under index<len(blocks), requested, len(data)==size")
				}
			})
		}
		c.Floor("R13.3", "copies into the metadata buffer", n, 1)
		for _, st := range fieldStores(c, fIDBytes) {
			if !inPkg(st.Fn, c, "internal/infodownloader") {
				c.Bad("R13.3", k.key(st.Fn, "store InfoDownloader.Bytes"), posOf(st.Store), "assembly buffer replaced outside its package")
			}
		}
	}

	// ---- R13.5 magnet parameter keys
	{
		str := c.Func("internal/magnet", "(*Magnet).String")
		mnew := c.Func("internal/magnet", "New")
		keyRe := regexp.MustCompile(`[?&]([a-z.]+?)\.?=?$`)
		written := map[string]bool{}
		var last string
		encOK := true
		kit.Instrs(str, func(ins ssa.Instruction) {
			cc := kit.CallOf(ins)
			if cc == nil || cc.StaticCallee() == nil || cc.StaticCallee().Name() != "WriteString" {
				return
			}
			arg := kit.Canon(cc.Args[1])
			if s, ok := constString(arg); ok {
				s2 := strings.TrimSuffix(s, "urn:btih:")
				if m := keyRe.FindStringSubmatch(s2); m != nil {
					last = m[1]
					written[last] = true
				} else if s != "=" {
					last = ""
				}
				return
			}
			want := map[string][]string{"xt": {"EncodeToString"}, "dn": {"QueryEscape"}, "tr": {"QueryEscape", "Itoa"}, "x.pe": nil}[last]
			if want == nil {
				return
			}
			okEnc := false
			for _, w := range want {
				if arg.Kind == "call" && arg.Name == w {
					okEnc = true
				}
			}
			if !okEnc {
				encOK = false
				c.Bad("R13.5", k.key(str, "value of "+last), posOf(ins), "magnet parameter %q value %s is written without %v", last, arg, want)
			}
		})
		read := map[string]bool{}
		kit.Instrs(mnew, func(ins ssa.Instruction) {
			switch x := ins.(type) {
			case *ssa.Lookup:
				if s, ok := constString(kit.Canon(x.Index)); ok {
					read[s] = true
				}
			case *ssa.BinOp:
				if x.Op == token.EQL {
					for _, o := range []ssa.Value{x.X, x.Y} {
						if s, ok := constString(kit.Canon(o)); ok {
							read[s] = true
						}
					}
				}
			case *ssa.Call:
				if f := x.Call.StaticCallee(); f != nil && f.Name() == "HasPrefix" {
					if s, ok := constString(kit.Canon(x.Call.Args[1])); ok {
						read[strings.TrimSuffix(s, ".")] = true
					}
				}
			}
		})
		delete(read, "magnet")
		ws, rs := setKeys(written), setKeys(read)
		c.Check(strings.Join(ws, ",") == strings.Join(rs, ",") && len(ws) >= 4, "R13.5", "magnet/keys", str.Pos(),
			"keys written by Magnet.String == keys read by magnet.New: "+strings.Join(ws, ","),
			"magnet key tables disagree: written {"+strings.Join(ws, ",")+"} read {"+strings.Join(rs, ",")+"}")
		if encOK {
			c.OK("R13.5", "magnet/escaping", str.Pos(), "info-hash hex-encoded; name and tracker URLs pass url.QueryEscape")
		}
	}
}

func setKeys(m map[string]bool) []string {
	var out []string
	for k := range m {
		out = append(out, k)
	}
	sort.Strings(out)
	return out
}

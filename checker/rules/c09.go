package rules

import (
	"fmt"
	"go/types"
	"sort"
	"strings"

	"golang.org/x/tools/go/ssa"

	"rainverif/checker/kit"
)

func init() {
	register(&Property{
		ID: "C09",
		Explanation: "Decides the guard structure of the piece picker and the single-writer discipline of its indexes: " +
			"(R09.1) every non-nil *myPiece returned by a function that picks on behalf of a peer (pickAllowedFast, pickRarest, pickFileEdge, pickSequential, pickEndgame, pickStalled, pickLastPieceOfSmallestGap, peerStealsFromWebseed and their composer findPiece) satisfies, at the point where it is returned, Done==false, Writing==false and Having.Has(peer)==true about that very value (guarded-return data-flow; PickableBy/AvailableForWebseed are summarised from their bodies; pickLastPieceOfSmallestGap takes Done/Writing from findGaps(), whose loop is checked to keep 'gap open => current piece AvailableForWebseed' and to emit ranges only while the gap is open); " +
			"(R09.2) findPiece returns a piece only with PeerChoking==false or from the peer's allowed-fast set, its allowed-fast flag is true only for such pieces, and every PieceDownloader.RequestBlocks in package torrent is under 'AllowedFast or not PeerChoking' or uses the downloader just built from PickFor; " +
			"(R09.3) findPiece returns a piece only with Downloading==false; Peer.Downloading and the torrent.pieceDownloaders map are written only, and together, in startSinglePieceDownloader / closePieceDownloader; " +
			"(R09.4) every picked piece has Requested.Len()==0 or Requested.Len()<maxDuplicateDownload (the latter only in pickEndgame/pickStalled today), PickFor records the peer in Requested, maxDuplicateDownload is wired from Config.EndgameMaxDuplicateDownloads; " +
			"(R09.5) PiecePicker.available is written only in addHavingPeer/removeHavingPeer by +-1 under 'Add returned true and Len()==1' / 'Remove returned true and Len()==0' of the same set, and Having.Add/Remove have no other caller; " +
			"(R09.6) myPiece.RequestedWebseed is stored non-nil only in PickWebseed where it is known nil, and nil-ed only in CloseWebseedDownloader/WebseedStopAt; " +
			"(R09.7) every function that stores Peer.Closed=true passes piecePicker.HandleDisconnect (or the picker is nil) and unchoker.HandleDisconnect on every returning path after the store, and closePeer always reaches such a store unless the peer is already Closed; every delete from torrent.pieceDownloaders passes HandleCancelDownload and every update of the torrent-side choked/snubbed maps passes the matching picker Handle* (directly or in a helper that always does; or the picker is nil). " +
			"NOT decided: mutual consistency of the six per-piece indexes under every order of operations (a reachability question), the 'lowest-indexed eligible piece' optimality of sequential mode, non-overlap of web-seed ranges as arithmetic, and the positional invariant pieces[i].Index==i that the allowed-fast and gap arguments rely on.",
		RuleText: commonRuleText,
		Assumptions: append([]string{
			"p.pieces[i].Piece.Index == i and ReceivedAllowedFast holds pointers into the same piece table (construction of the piece table is C02's subject)",
			"Config.EndgameMaxDuplicateDownloads >= 1, so that a piece with no running download is always within the duplicate bound",
			"a branch condition is evaluated where its operands are loaded (no state change between the load / predicate call and the branch that tests it)",
		}, commonAssumptions...),
		Run: runC09,
	})
}

const c09PP = "internal/piecepicker"

func newC09Env(c *kit.Ctx) *c09Env {
	e := &c09Env{c: c, k: newKeyer(),
		flows: map[c09FlowKey]*kit.Flow{}, subjs: map[ssa.Value]*c09Subj{},
		sums: map[c09SumKey]int{}, preds: map[c09PredKey]int{},
		killMemo: map[c09KillKey]bool{}, replMemo: map[c09ReplKey]bool{},
		replDirect: map[*types.Var]map[*ssa.Function]bool{}, replReach: map[*ssa.Function]map[*ssa.Function]bool{}}
	e.tMyPiece = c.Named(c09PP, "myPiece")
	e.tPicker = c.Named(c09PP, "PiecePicker")
	e.tPeer = c.Named("internal/peer", "Peer")
	e.fMPPiece = c.Field(c09PP, "myPiece", "Piece")
	e.fHaving = c.Field(c09PP, "myPiece", "Having")
	e.fRequested = c.Field(c09PP, "myPiece", "Requested")
	e.fSnubbed = c.Field(c09PP, "myPiece", "Snubbed")
	e.fChoked = c.Field(c09PP, "myPiece", "Choked")
	e.fReqWebseed = c.Field(c09PP, "myPiece", "RequestedWebseed")
	e.fDone = c.Field("internal/piece", "Piece", "Done")
	e.fWriting = c.Field("internal/piece", "Piece", "Writing")
	e.fIndex = c.Field("internal/piece", "Piece", "Index")
	e.fPieces = c.Field(c09PP, "PiecePicker", "pieces")
	e.fMaxDup = c.Field(c09PP, "PiecePicker", "maxDuplicateDownload")
	e.fAvailable = c.Field(c09PP, "PiecePicker", "available")
	e.fPeerChoking = c.Field("internal/peer", "Peer", "PeerChoking")
	e.fDownloading = c.Field("internal/peer", "Peer", "Downloading")
	e.fRecvAF = c.Field("internal/peer", "Peer", "ReceivedAllowedFast")
	e.itemsOrigin = c.Field("internal/sliceset", "SliceSet", "Items")
	e.ssHas = c.FuncObj("internal/sliceset", "(*SliceSet).Has")
	e.ssLen = c.FuncObj("internal/sliceset", "(*SliceSet).Len")
	e.ssAdd = c.FuncObj("internal/sliceset", "(*SliceSet).Add")
	e.ssRemove = c.FuncObj("internal/sliceset", "(*SliceSet).Remove")
	e.findGaps = c.Func(c09PP, "(*PiecePicker).findGaps")
	// every instantiation of SliceSet[T].Items that the program touches
	seen := map[*types.Var]bool{}
	for fn := range c.AllFunctions() {
		if fn.Blocks == nil || !kit.InModule(kit.FnPkgPath(fn)) {
			continue
		}
		kit.Instrs(fn, func(ins ssa.Instruction) {
			var f *types.Var
			switch x := ins.(type) {
			case *ssa.FieldAddr:
				if st := c09StructOfPtr(x.X.Type()); st != nil {
					f = st.Field(x.Field)
				}
			case *ssa.Field:
				if st, ok := x.X.Type().Underlying().(*types.Struct); ok {
					f = st.Field(x.Field)
				}
			}
			if f != nil && f.Origin() == e.itemsOrigin && !seen[f] {
				seen[f] = true
				e.itemsVars = append(e.itemsVars, f)
			}
		})
	}
	sort.Slice(e.itemsVars, func(i, j int) bool { return e.itemsVars[i].Type().String() < e.itemsVars[j].Type().String() })
	if len(e.itemsVars) == 0 {
		panic(kit.AnchorError{Msg: "no instantiation of sliceset.SliceSet.Items is used"})
	}
	return e
}

func runC09(c *kit.Ctx) {
	e := newC09Env(c)
	e.rulePicks()
	e.ruleFindGaps()
	e.ruleChoke()
	e.ruleOnePerPeer()
	e.ruleDuplicateBound()
	e.ruleAvailable()
	e.ruleWebseedOwner()
	e.ruleInStep()
}

// pickFuncs discovers the functions of the picker that return a *myPiece
// on behalf of a peer, by signature.
func (e *c09Env) pickFuncs() []*ssa.Function {
	var out []*ssa.Function
	for _, fn := range e.c.ModuleFunctions() {
		if fn.Parent() != nil || !inPkg(fn, e.c, c09PP) {
			continue
		}
		res := fn.Signature.Results()
		if res.Len() == 0 || !e.isMyPiecePtr(res.At(0).Type()) {
			continue
		}
		if e.peerParam(fn) < 0 {
			continue
		}
		out = append(out, fn)
	}
	return out
}

func c09ShortName(fn *ssa.Function) string {
	s := kit.FuncName(fn)
	if i := strings.LastIndex(s, "."); i >= 0 {
		return s[i+1:]
	}
	return s
}

// ---- R09.1 ------------------------------------------------------------------

func (e *c09Env) rulePicks() {
	c := e.c
	picks := e.pickFuncs()
	n := 0
	for _, fn := range picks {
		pi := e.peerParam(fn)
		nonNil := 0
		for _, r := range returnsOf(fn) {
			v := r.Results[0]
			if kit.Canon(v).IsNil() {
				continue
			}
			nonNil++
			key := e.k.key(fn, "return piece")
			var missing, how []string
			for _, kind := range []c09Kind{c09NotDone, c09NotWriting, c09Has} {
				if e.flow(kind, fn, v, fn.Params[pi]).Before(r) {
					how = append(how, kind.String())
				} else {
					missing = append(missing, kind.String())
				}
			}
			if len(missing) > 0 {
				c.Bad("R09.1", key, posOf(r), "%s can return piece %s for peer %s without %s established about that piece on every path: the client would request a piece it already has, is writing, or that the peer lacks",
					c09ShortName(fn), kit.Canon(v), fn.Params[pi].Name(), strings.Join(missing, ", "))
				continue
			}
			src := ""
			if why := e.viaGaps(fn, v); why != "" {
				src = " (" + why + ")"
			}
			c.OK("R09.1", key, posOf(r), "returned piece %s: %s hold at the return%s", kit.Canon(v), strings.Join(how, ", "), src)
		}
		if nonNil > 0 {
			n++
		} else {
			c.Bad("R09.1", e.k.key(fn, "no piece returned"), fn.Pos(), "%s has the signature of a pick function but never returns a piece", c09ShortName(fn))
		}
	}
	c.Floor("R09.1", "functions returning *myPiece on behalf of a peer (8 pick functions + findPiece)", n, 9)

	// the predicate helpers, summarised once for the record
	for _, p := range []struct {
		name  string
		kinds []c09Kind
		peer  bool
	}{
		{"(*myPiece).PickableBy", []c09Kind{c09NotDone, c09NotWriting, c09Has, c09Req0}, true},
		{"(*myPiece).AvailableForWebseed", []c09Kind{c09NotDone, c09NotWriting}, false},
	} {
		fn := c.Func(c09PP, p.name)
		pi := -1
		if p.peer {
			pi = e.peerParam(fn)
		}
		for _, kind := range p.kinds {
			key := kit.FuncName(fn) + "/true implies " + kind.String()
			if e.predImplies(fn, kind, 0, pi, true, 1) {
				c.OK("R09.1", key, fn.Pos(), "%s returns true only on paths where %s holds for its receiver", c09ShortName(fn), kind)
			} else {
				c.Bad("R09.1", key, fn.Pos(), "%s can return true without %s: callers that rely on it may pick such a piece", c09ShortName(fn), kind)
			}
		}
	}
}

// viaGaps explains a Done/Writing fact that came through the findGaps table
// entry.
func (e *c09Env) viaGaps(fn *ssa.Function, v ssa.Value) string {
	if _, ok := v.(*ssa.IndexAddr); !ok {
		return ""
	}
	if e.gapOrigin(fn, v, c09NotDone) == "" && e.gapOrigin(fn, v, c09NotWriting) == "" {
		return "Done/Writing through the table entry 'index ranges inside a findGaps() range': findGaps emits only ranges of AvailableForWebseed pieces, see R09.1 findGaps obligations"
	}
	return ""
}

func c09Why(unchoked, af bool) string {
	switch {
	case unchoked:
		return "PeerChoking==false"
	case af:
		return "piece in the peer's allowed-fast set"
	}
	return "'PeerChoking==false or piece in the allowed-fast set' (per path)"
}

// ---- R09.2 ------------------------------------------------------------------

// peerFieldFalse solves "peer.<f> == false" for the given peer value.
func (e *c09Env) peerFieldFalse(fn *ssa.Function, f *types.Var, peer ssa.Value) *kit.Flow {
	fl := &kit.Flow{P: e.c.Prog, Fn: fn}
	is := func(x *kit.Expr) bool { return x.IsField(f) && x.Base() != nil && x.Base().V == peer }
	fl.Edge = func(a kit.Atom) bool { return a.IsFalse(is) }
	fl.Instr = func(ins ssa.Instruction, in bool) bool {
		if v, ok := kit.StoresField(ins, f); ok {
			st := ins.(*ssa.Store)
			if fa, ok := st.Addr.(*ssa.FieldAddr); ok && fa.X == peer {
				return kit.Canon(v).IsConstBool(false)
			}
			return false
		}
		if in && e.c.KillsField(ins, f) {
			return false
		}
		return in
	}
	return fl.Solve()
}

func (e *c09Env) ruleChoke() {
	c := e.c
	fn := c.Func(c09PP, "(*PiecePicker).findPiece")
	pi := e.peerParam(fn)
	if pi < 0 || fn.Signature.Results().Len() != 2 {
		panic(kit.AnchorError{Msg: "findPiece(pe *peer.Peer) (*myPiece, bool) expected"})
	}
	n := 0
	// check examines the piece-returning returns of fn (findPiece, or a
	// function findPiece delegates a whole branch to: `return p.helper(pe)`
	// hands on both results of a callee with the same result shape, whose own
	// returns are then the instances).
	var check func(fn *ssa.Function, pe *ssa.Parameter, depth int)
	check = func(fn *ssa.Function, pe *ssa.Parameter, depth int) {
		notChoking := e.peerFieldFalse(fn, e.fPeerChoking, pe)
		for _, r := range returnsOf(fn) {
			v, b := r.Results[0], kit.Canon(r.Results[1])
			if kit.Canon(v).IsNil() {
				continue
			}
			if callee, cpe := e.delegatedReturn(r, pe); callee != nil && depth < 2 {
				check(callee, cpe, depth+1)
				continue
			}
			n++
			key := e.k.key(fn, "return piece, allowedFast")
			unchoked := notChoking.Before(r)
			af := e.flow(c09AllowedFast, fn, v, pe).Before(r)
			if !unchoked && !af && !e.flow(c09MayRequest, fn, v, pe).Before(r) {
				c.Bad("R09.2", key, posOf(r), "%s can return piece %s while %s.PeerChoking may be true and the piece is not known to be in its allowed-fast set: a request to a choking peer", c09ShortName(fn), kit.Canon(v), pe.Name())
				continue
			}
			s := e.subj(v)
			flagFromSet := b.IsCallTo(e.ssHas) && len(b.Args) == 2 && b.Args[0].IsField(e.fRecvAF) && b.Args[0].Base() != nil && b.Args[0].Base().V == ssa.Value(pe) &&
				b.Args[1].IsField(e.fMPPiece) && s.is(b.Args[1].Base())
			switch {
			case b.IsConstBool(true) && !af:
				c.Bad("R09.2", key, posOf(r), "%s reports allowedFast=true for piece %s that is not taken from %s.ReceivedAllowedFast: the downloader would keep requesting it after a choke", c09ShortName(fn), kit.Canon(v), pe.Name())
			case b.IsConstBool(true):
				c.OK("R09.2", key, posOf(r), "allowedFast=true: piece %s ranges over %s.ReceivedAllowedFast", kit.Canon(v), pe.Name())
			case b.IsConstBool(false):
				c.OK("R09.2", key, posOf(r), "allowedFast=false; %s holds at the return", c09Why(unchoked, af))
			case flagFromSet:
				c.OK("R09.2", key, posOf(r), "%s holds at the return; flag is ReceivedAllowedFast.Has of the returned piece", c09Why(unchoked, af))
			default:
				c.Bad("R09.2", key, posOf(r), "allowed-fast flag %s of the returned piece is neither a constant nor ReceivedAllowedFast.Has(<returned piece>.Piece)", b)
			}
		}
	}
	check(fn, fn.Params[pi], 0)
	c.Floor("R09.2", "piece-returning returns of findPiece (and of the functions it delegates a branch to)", n, 5)

	// request emission
	reqBlocks := c.FuncObj("internal/piecedownloader", "(*PieceDownloader).RequestBlocks")
	fPDAF := c.Field("internal/piecedownloader", "PieceDownloader", "AllowedFast")
	pickFor := c.FuncObj(c09PP, "(*PiecePicker).PickFor")
	pdNew := c.FuncObj("internal/piecedownloader", "New")
	m := 0
	var mayReq *kit.Spec
	for _, s := range sortSites(c.CallSites(reqBlocks)) {
		m++
		key := e.k.key(s.Fn, "call PieceDownloader.RequestBlocks")
		if !inPkg(s.Fn, c, "torrent") {
			c.Bad("R09.2", key, posOf(s.Instr), "PieceDownloader.RequestBlocks called outside package torrent (%s): request emission is no longer under the torrent loop's choke discipline", kit.FuncName(s.Fn))
			continue
		}
		recv := argOf(s.Instr.Common(), 0)
		// the downloader just built from PickFor's result
		if call, ok := recv.(*ssa.Call); ok && kit.CalleeObj(&call.Call) == pdNew && len(call.Call.Args) >= 3 {
			p0, ok0 := call.Call.Args[0].(*ssa.Extract)
			p2, ok2 := call.Call.Args[2].(*ssa.Extract)
			if ok0 && ok2 && p0.Tuple == p2.Tuple && p0.Index == 0 && p2.Index == 1 {
				if pc, ok := p0.Tuple.(*ssa.Call); ok && kit.CalleeObj(&pc.Call) == pickFor && kit.Canon(call.Call.Args[1]).Strip().V == argOf(&pc.Call, 1) {
					c.OK("R09.2", key, posOf(s.Instr), "requests go to the downloader built from PickFor(%s): piece and allowed-fast flag are the picker's", kit.Canon(call.Call.Args[1]))
					continue
				}
			}
		}
		// function-agnostic fact (keyed on fields): evaluated at the call including
		// the context of the static callers, so that the request emission may sit
		// in a helper that is called under the guard
		if mayReq == nil {
			mayReq = &kit.Spec{P: c.Prog,
				Edge: func(a kit.Atom) bool {
					return a.IsTrue(func(x *kit.Expr) bool { return x.IsField(fPDAF) }) ||
						a.IsFalse(func(x *kit.Expr) bool { return x.IsField(e.fPeerChoking) })
				},
				Instr: func(ins ssa.Instruction, in bool) bool {
					if v, ok := kit.StoresField(ins, e.fPeerChoking); ok {
						return kit.Canon(v).IsConstBool(false)
					}
					if in && (c.KillsField(ins, e.fPeerChoking) || c.KillsField(ins, fPDAF)) {
						return false
					}
					return in
				}}
		}
		if mayReq.Holds(s.Instr, 2) {
			c.OK("R09.2", key, posOf(s.Instr), "RequestBlocks dominated by 'pd.AllowedFast or PeerChoking==false'")
		} else {
			c.Bad("R09.2", key, posOf(s.Instr), "RequestBlocks reachable while the peer may be choking us and the download is not allowed-fast")
		}
	}
	c.Floor("R09.2", "PieceDownloader.RequestBlocks call sites", m, 3)
}

// ---- R09.3 ------------------------------------------------------------------

func (e *c09Env) ruleOnePerPeer() {
	c := e.c
	fn := c.Func(c09PP, "(*PiecePicker).findPiece")
	pe := fn.Params[e.peerParam(fn)]
	idle := e.peerFieldFalse(fn, e.fDownloading, pe)
	n := 0
	for _, r := range returnsOf(fn) {
		if kit.Canon(r.Results[0]).IsNil() {
			continue
		}
		n++
		key := e.k.key(fn, "return piece, peer idle")
		if idle.Before(r) {
			c.OK("R09.3", key, posOf(r), "piece returned only with %s.Downloading==false", pe.Name())
		} else {
			c.Bad("R09.3", key, posOf(r), "findPiece can return a piece while %s.Downloading may be true: a second piece download for the same peer", pe.Name())
		}
	}
	c.Floor("R09.3", "piece-returning returns of findPiece", n, 1)

	start := c.Func("torrent", "(*torrent).startSinglePieceDownloader")
	closePD := c.Func("torrent", "(*torrent).closePieceDownloader")
	newTorrent := c.Func("torrent", "newTorrent")
	fMap := c.Field("torrent", "torrent", "pieceDownloaders")

	// the two writers, and the helpers that exist only as a part of them
	// (every use is a plain call from the writer or from such a helper)
	startOwned, closeOwned := c09OwnedBy(c, start), c09OwnedBy(c, closePD)

	// writers of Peer.Downloading
	w := 0
	for _, s := range fieldStores(c, e.fDownloading) {
		w++
		key := e.k.key(s.Fn, "store Peer.Downloading")
		val := kit.Canon(s.Val)
		switch {
		case startOwned[s.Fn] && val.IsConstBool(true), closeOwned[s.Fn] && val.IsConstBool(false):
			c.Present("R09.3", key, posOf(s.Store), "Peer.Downloading = %s in %s", val, c09ShortName(s.Fn))
		default:
			c.Bad("R09.3", key, posOf(s.Store), "Peer.Downloading = %s written in %s: only startSinglePieceDownloader (true) and closePieceDownloader (false) may change it", val, kit.FuncName(s.Fn))
		}
	}
	c.Floor("R09.3", "stores to Peer.Downloading", w, 2)

	// writers of the map
	mw := 0
	for _, f := range c.ModuleFunctions() {
		kit.Instrs(f, func(ins ssa.Instruction) {
			kind, _ := c09MapWrite(ins, fMap)
			if kind == "" {
				return
			}
			mw++
			key := e.k.key(f, kind+" torrent.pieceDownloaders")
			if (kind == "insert" && startOwned[f]) || (kind == "delete" && closeOwned[f]) {
				c.Present("R09.3", key, posOf(ins), "%s in %s", kind, c09ShortName(f))
			} else {
				c.Bad("R09.3", key, posOf(ins), "torrent.pieceDownloaders %s in %s: the map and Peer.Downloading can disagree", kind, kit.FuncName(f))
			}
		})
	}
	c.Floor("R09.3", "insert/delete sites of torrent.pieceDownloaders", mw, 2)
	for _, s := range fieldStores(c, fMap) {
		key := e.k.key(s.Fn, "store torrent.pieceDownloaders")
		if s.Fn == newTorrent {
			if _, ok := s.Val.(*ssa.MakeMap); ok {
				c.Present("R09.3", key, posOf(s.Store), "fresh map in the constructor")
				continue
			}
		}
		c.Bad("R09.3", key, posOf(s.Store), "torrent.pieceDownloaders replaced in %s", kit.FuncName(s.Fn))
	}

	// map and flag change together, for the same peer
	e.together(start, fMap, "insert", true)
	e.together(closePD, fMap, "delete", false)
}

// together: in fn, the map write of the given kind and the store
// Peer.Downloading=want (same peer) are paired on every path: at each
// return both have happened, or neither has. The order of the two inside
// the function is free.
func (e *c09Env) together(fn *ssa.Function, fMap *types.Var, kind string, want bool) {
	c := e.c
	var mapIns []ssa.Instruction
	var keys []ssa.Value
	var stores []*ssa.Store
	c.InstrsDeep(fn, 2, false, func(ins ssa.Instruction) {
		if k, key := c09MapWrite(ins, fMap); k == kind {
			mapIns = append(mapIns, ins)
			keys = append(keys, key)
		}
		if v, ok := kit.StoresField(ins, e.fDownloading); ok && kit.Canon(v).IsConstBool(want) {
			stores = append(stores, ins.(*ssa.Store))
		}
	})
	key := kit.FuncName(fn) + "/" + kind + " pieceDownloaders with Downloading=" + fmt.Sprint(want)
	if len(mapIns) == 0 || len(stores) == 0 {
		c.Bad("R09.3", key, fn.Pos(), "%s no longer performs both the %s on torrent.pieceDownloaders and Peer.Downloading=%v", c09ShortName(fn), kind, want)
		return
	}
	isMap := func(ins ssa.Instruction) bool { k, _ := c09MapWrite(ins, fMap); return k == kind }
	isStore := func(ins ssa.Instruction) bool {
		v, ok := kit.StoresField(ins, e.fDownloading)
		return ok && kit.Canon(v).IsConstBool(want)
	}
	// order-free pairing: at every return either both have happened on every
	// path, or neither on any path
	happened := func(is func(ssa.Instruction) bool) *kit.Flow {
		fl := &kit.Flow{P: c.Prog, Fn: fn}
		fl.Instr = func(ins ssa.Instruction, in bool) bool { return in || is(ins) }
		return fl.WithDeep(kit.DefaultDeep, nil).Solve()
	}
	never := func(is func(ssa.Instruction) bool) *kit.Flow {
		fl := &kit.Flow{P: c.Prog, Fn: fn, Entry: true}
		fl.Instr = func(ins ssa.Instruction, in bool) bool { return in && !is(ins) }
		return fl.WithDeep(kit.DefaultDeep, nil).Solve()
	}
	mapDone, storeDone, mapNever, storeNever := happened(isMap), happened(isStore), never(isMap), never(isStore)
	for _, r := range returnsOf(fn) {
		both := mapDone.Before(r) && storeDone.Before(r)
		neither := mapNever.Before(r) && storeNever.Before(r)
		if !both && !neither {
			c.Bad("R09.3", key, posOf(r), "%s can return with only one of {%s on torrent.pieceDownloaders, Peer.Downloading=%v} done: the map and the flag disagree", c09ShortName(fn), kind, want)
			return
		}
	}
	for _, st := range stores {
		base := kit.Canon(st.Addr).Base()
		same := false
		for i, k := range keys {
			// compared inside one function (a helper sees both through its own names)
			if mapIns[i].Parent() == st.Parent() && kit.Canon(k).Strip().String() == base.Strip().String() {
				same = true
			}
		}
		if !same {
			c.Bad("R09.3", key, posOf(st), "Peer.Downloading=%v is stored on %s but the map %s uses another key", want, base, kind)
			return
		}
	}
	c.OK("R09.3", key, posOf(mapIns[0]), "at every return the map %s and Downloading=%v (same peer) have either both happened on every path or neither on any", kind, want)
}

// ---- R09.4 ------------------------------------------------------------------

func (e *c09Env) ruleDuplicateBound() {
	c := e.c
	n := 0
	for _, fn := range e.pickFuncs() {
		pi := e.peerParam(fn)
		for _, r := range returnsOf(fn) {
			v := r.Results[0]
			if kit.Canon(v).IsNil() {
				continue
			}
			n++
			key := e.k.key(fn, "return piece, duplicate bound")
			switch {
			case e.fromPick(v, fn.Params[pi]) != nil:
				c.OK("R09.4", key, posOf(r), "returned piece is the result of %s for the same peer, whose own returns carry the bound", c09ShortName(e.fromPick(v, fn.Params[pi])))
			case e.flow(c09Req0, fn, v, fn.Params[pi]).Before(r):
				c.OK("R09.4", key, posOf(r), "returned piece %s has Requested.Len()==0", kit.Canon(v))
			case e.flow(c09ReqLtMax, fn, v, fn.Params[pi]).Before(r):
				c.OK("R09.4", key, posOf(r), "returned piece %s has Requested.Len() < maxDuplicateDownload", kit.Canon(v))
			default:
				c.Bad("R09.4", key, posOf(r), "%s can return piece %s with neither Requested.Len()==0 nor Requested.Len()<maxDuplicateDownload established: simultaneous downloads of one piece are unbounded", c09ShortName(fn), kit.Canon(v))
			}
		}
	}
	c.Floor("R09.4", "piece-returning returns of pick functions", n, 14)

	// PickFor records the download in Requested
	pickFor := c.Func(c09PP, "(*PiecePicker).PickFor")
	findPiece := c.FuncObj(c09PP, "(*PiecePicker).findPiece")
	ppi := e.peerParam(pickFor)
	recorded := &kit.Flow{P: c.Prog, Fn: pickFor}
	recorded.Instr = func(ins ssa.Instruction, in bool) bool {
		if in {
			return true
		}
		call, ok := ins.(*ssa.Call)
		if !ok || kit.CalleeObj(&call.Call) != e.ssAdd || len(call.Call.Args) != 2 {
			return false
		}
		r := kit.Canon(call.Call.Args[0])
		if !r.IsField(e.fRequested) || ppi < 0 || call.Call.Args[1] != pickFor.Params[ppi] {
			return false
		}
		b := r.Base()
		return b != nil && b.Kind == "extract" && b.Idx == 0 && b.Args[0].IsCallTo(findPiece)
	}
	recorded.Solve()
	pn := 0
	for _, r := range returnsOf(pickFor) {
		if kit.Canon(r.Results[0]).IsNil() {
			continue
		}
		pn++
		key := e.k.key(pickFor, "return piece, recorded")
		if recorded.Before(r) {
			c.OK("R09.4", key, posOf(r), "PickFor passes <found>.Requested.Add(%s) before returning the piece", pickFor.Params[ppi].Name())
		} else {
			c.Bad("R09.4", key, posOf(r), "PickFor can return a piece without adding the peer to its Requested set: the duplicate bound counts nothing")
		}
	}
	c.Floor("R09.4", "piece-returning returns of PickFor", pn, 1)

	// wiring of the bound
	newFn := c.Func(c09PP, "New")
	newObj := c.FuncObj(c09PP, "New")
	fCfg := c.Field("torrent", "Config", "EndgameMaxDuplicateDownloads")
	pIdx := c09ParamIndex(newFn, "maxDuplicateDownload")
	st := 0
	for _, s := range fieldStores(c, e.fMaxDup) {
		st++
		key := e.k.key(s.Fn, "store PiecePicker.maxDuplicateDownload")
		if s.Fn == newFn && pIdx >= 0 && s.Val == ssa.Value(newFn.Params[pIdx]) {
			c.OK("R09.4", key, posOf(s.Store), "maxDuplicateDownload = parameter %s of New", newFn.Params[pIdx].Name())
		} else {
			c.Bad("R09.4", key, posOf(s.Store), "maxDuplicateDownload written in %s with %s: the end-game limit is no longer the configured one", kit.FuncName(s.Fn), kit.Canon(s.Val))
		}
	}
	c.Floor("R09.4", "stores to PiecePicker.maxDuplicateDownload", st, 1)
	cs := 0
	for _, s := range sortSites(c.CallSites(newObj)) {
		cs++
		key := e.k.key(s.Fn, "call piecepicker.New")
		var arg *kit.Expr
		if pIdx >= 0 && pIdx < len(s.Instr.Common().Args) {
			arg = kit.Canon(s.Instr.Common().Args[pIdx]).Strip()
		}
		if arg != nil && arg.IsField(fCfg) {
			c.OK("R09.4", key, posOf(s.Instr), "New(..., %s, ...)", arg)
		} else {
			c.Bad("R09.4", key, posOf(s.Instr), "piecepicker.New is given %s as maxDuplicateDownload, not Config.EndgameMaxDuplicateDownloads", arg)
		}
	}
	c.Floor("R09.4", "piecepicker.New call sites", cs, 1)
}

// c09OwnedBy returns root and the functions that exist only as a part of it:
// every use of such a function is a plain static call from root or from
// another owned function (no go / defer / function value).
func c09OwnedBy(c *kit.Ctx, root *ssa.Function, more ...*ssa.Function) map[*ssa.Function]bool {
	owned := map[*ssa.Function]bool{root: true}
	for _, m := range more {
		owned[m] = true
	}
	for changed := true; changed; {
		changed = false
		for _, fn := range c.ModuleFunctions() {
			if owned[fn] || fn.Parent() != nil || fn.Blocks == nil || kit.FnPkgPath(fn) != kit.FnPkgPath(root) {
				continue
			}
			sites := c.StaticCallSites(fn)
			all := len(sites) > 0
			for _, s := range sites {
				if s == nil || !owned[s.Parent()] {
					all = false
					break
				}
			}
			if all {
				owned[fn] = true
				changed = true
			}
		}
	}
	return owned
}

// delegatedReturn recognises `return p.g(pe)`: both results of the return
// are the two results of one call, in the same block with nothing but the
// extractions in between, to a picker function with a body and the
// (*myPiece, bool) result shape, which is given the same peer. It returns
// the callee and its peer parameter.
func (e *c09Env) delegatedReturn(r *ssa.Return, pe *ssa.Parameter) (*ssa.Function, *ssa.Parameter) {
	if len(r.Results) != 2 {
		return nil, nil
	}
	x0, ok0 := r.Results[0].(*ssa.Extract)
	x1, ok1 := r.Results[1].(*ssa.Extract)
	if !ok0 || !ok1 || x0.Tuple != x1.Tuple || x0.Index != 0 || x1.Index != 1 {
		return nil, nil
	}
	call, ok := x0.Tuple.(*ssa.Call)
	if !ok || call.Block() != r.Block() {
		return nil, nil
	}
	callee := call.Call.StaticCallee()
	if callee == nil || callee.Blocks == nil || !inPkg(callee, e.c, c09PP) || callee.Signature.Results().Len() != 2 || !e.isMyPiecePtr(callee.Signature.Results().At(0).Type()) {
		return nil, nil
	}
	cpi := e.peerParam(callee)
	if cpi < 0 || cpi >= len(call.Call.Args) || call.Call.Args[cpi] != ssa.Value(pe) {
		return nil, nil
	}
	after := false
	for _, ins := range r.Block().Instrs {
		if ins == ssa.Instruction(call) {
			after = true
			continue
		}
		if !after || ins == ssa.Instruction(r) {
			continue
		}
		if _, isX := ins.(*ssa.Extract); !isX {
			return nil, nil
		}
	}
	return callee, callee.Params[cpi]
}

// fromPick: v is the piece result of a call to another pick function that is given the same peer.
func (e *c09Env) fromPick(v ssa.Value, pe *ssa.Parameter) *ssa.Function {
	ex, ok := v.(*ssa.Extract)
	if !ok || ex.Index != 0 {
		return nil
	}
	call, ok := ex.Tuple.(*ssa.Call)
	if !ok {
		return nil
	}
	callee := call.Call.StaticCallee()
	if callee == nil {
		return nil
	}
	isPick := false
	for _, f := range e.pickFuncs() {
		if f == callee {
			isPick = true
		}
	}
	if !isPick {
		return nil
	}
	for _, a := range call.Call.Args {
		if a == ssa.Value(pe) {
			return callee
		}
	}
	return nil
}

package rules

import (
	"go/token"
	"go/types"

	"golang.org/x/tools/go/ssa"

	"rainverif/checker/kit"
)

func init() {
	register(&Property{
		ID: "C18",
		Explanation: "Decides that there is exactly one road to a dial / an accepted peer and that every filter stands on it: (R18.1) btconn.Dial only from OutgoingHandshaker.Run, outgoinghandshaker.New only from dialAddresses with the address popped from the address list and only for an IP absent from connectedPeerIPs (which is then inserted), AddrList.Push only from handleNewPeers with the result of filterBannedIPs, whose appends require absence from bannedPeerIPs, and inside Push the insert requires Port!=0, not(loopback && own port), !clientIP.Equal, !IsExternal, blocklist==nil || !Blocked; (R18.2) incominghandshaker.New only from handleNewConnection under the accept cap, the incoming blocklist test, and absence from connectedPeerIPs and bannedPeerIPs; (R18.3) every tracker / web-seed DialContext and the UDP connect take their address from resolver.Resolve with err==nil, and Resolve succeeds only under bl==nil || !Blocked(ip), an IPv4 and a port in 1..65535; (R18.4) the blocklist reaches addrlist.New / trackermanager.New only under the respective Config flag, the web-seed resolver always gets it; (R18.5) Blocklist.tree is replaced only in Reload under the write lock and read under a lock. NOT decided: segment tree == naive range membership (value-level), the address queue as a bounded priority set.",
		RuleText:    commonRuleText,
		Assumptions: commonAssumptions,
		Run:         runC18,
	})
}

// lookupAbsent: atom "m[k] lookup reported !ok" for map field f.
func lookupAbsent(f *types.Var) func(kit.Atom) bool {
	return func(a kit.Atom) bool {
		return a.IsFalse(func(e *kit.Expr) bool {
			return e.Kind == "extract" && e.Idx == 1 && e.Args[0].Kind == "lookup" && e.Args[0].Args[0].IsField(f)
		})
	}
}

func onlyCallers(c *kit.Ctx, k *keyer, rule string, obj *types.Func, allowed *ssa.Function, what string) []kit.Site {
	var ok []kit.Site
	for _, s := range sortSites(c.CallSites(obj)) {
		key := k.key(s.Fn, "call "+obj.Name())
		if fnIn(s.Fn, allowed) {
			ok = append(ok, s)
			c.Present(rule, key, posOf(s.Instr), "%s called from %s", obj.Name(), kit.FuncName(allowed))
		} else {
			c.Bad(rule, key, posOf(s.Instr), "%s called outside %s: %s", obj.Name(), kit.FuncName(allowed), what)
		}
	}
	for _, s := range c.FuncRefs(obj) {
		c.Bad(rule, k.key(s.Fn, "ref "+obj.Name()), s.Fn.Pos(), "%s taken as a value: call sites cannot be enumerated", obj.Name())
	}
	return ok
}

func runC18(c *kit.Ctx) {
	k := newKeyer()
	fConnected := c.Field("torrent", "torrent", "connectedPeerIPs")
	fBanned := c.Field("torrent", "torrent", "bannedPeerIPs")

	// ---- R18.1 one road to a dial
	{
		dial := c.FuncObj("internal/btconn", "Dial")
		ohRun := c.Func("internal/handshaker/outgoinghandshaker", "(*OutgoingHandshaker).Run")
		n := len(onlyCallers(c, k, "R18.1", dial, ohRun, "a peer could be dialled without passing the address-list filters"))
		c.Floor("R18.1", "btconn.Dial sites", n, 1)

		ohNew := c.FuncObj("internal/handshaker/outgoinghandshaker", "New")
		dialAddrs := c.Func("torrent", "(*torrent).dialAddresses")
		pop := c.FuncObj("internal/addrlist", "(*AddrList).Pop")
		sites := onlyCallers(c, k, "R18.1", ohNew, dialAddrs, "outgoing handshake for an address that did not come from the filtered address list")
		c.Floor("R18.1", "outgoinghandshaker.New sites", len(sites), 1)
		absent := c.AtomFlow(dialAddrs, lookupAbsent(fConnected), func(ins ssa.Instruction) bool {
			mu, ok := ins.(*ssa.MapUpdate)
			return ok && kit.Canon(mu.Map).IsField(fConnected)
		})
		for _, s := range sites {
			key := k.key(s.Fn, "dial popped address")
			a := kit.Canon(s.Instr.Common().Args[0])
			switch {
			case !(a.Kind == "extract" && a.Idx == 0 && a.Args[0].IsCallTo(pop)):
				c.Bad("R18.1", key, posOf(s.Instr), "address dialled (%s) is not the result of addrList.Pop()", a)
			case !absent.Before(s.Instr):
				c.Bad("R18.1", key, posOf(s.Instr), "outgoing handshake started for an IP that may already be in connectedPeerIPs")
			default:
				c.OK("R18.1", key, posOf(s.Instr), "dial only the address popped from the list, IP absent from connectedPeerIPs")
			}
		}
		// New is followed by the connectedPeerIPs insert
		pend := c.Pending(dialAddrs, func(ins ssa.Instruction) bool { return kit.CallsAny(ins, ohNew) }, func(ins ssa.Instruction) bool {
			mu, ok := ins.(*ssa.MapUpdate)
			return ok && kit.Canon(mu.Map).IsField(fConnected)
		})
		okp := len(pend.FailingReturns()) == 0
		for _, s := range sites {
			if !pend.Before(s.Instr) {
				okp = false
			}
		}
		c.Check(okp, "R18.1", kit.FuncName(dialAddrs)+"/mark-connected", dialAddrs.Pos(),
			"every started outgoing handshake records its IP in connectedPeerIPs before the next one", "an outgoing handshake can start without recording the IP: the same IP could be dialled twice")

		push := c.FuncObj("internal/addrlist", "(*AddrList).Push")
		hnp := c.Func("torrent", "(*torrent).handleNewPeers")
		filter := c.FuncObj("torrent", "(*torrent).filterBannedIPs")
		psites := onlyCallers(c, k, "R18.1", push, hnp, "addresses could enter the dial list without the banned-IP filter")
		c.Floor("R18.1", "AddrList.Push sites", len(psites), 1)
		for _, s := range psites {
			a := kit.Canon(argOf(s.Instr.Common(), 1))
			c.Check(a.IsCallTo(filter), "R18.1", k.key(s.Fn, "push filtered"), posOf(s.Instr),
				"addresses pushed are the result of filterBannedIPs", "addresses pushed ("+a.String()+") did not pass filterBannedIPs")
		}
		ff := c.Func("torrent", "(*torrent).filterBannedIPs")
		notBanned := c.AtomFlow(ff, lookupAbsent(fBanned), nil)
		na := 0
		kit.Instrs(ff, func(ins ssa.Instruction) {
			if cc := kit.CallOf(ins); isBuiltin(cc, "append") {
				na++
				c.Check(notBanned.Before(ins), "R18.1", k.key(ff, "keep address"), posOf(ins),
					"address kept only if its IP is absent from bannedPeerIPs", "filterBannedIPs keeps an address without testing the ban set")
			}
		})
		c.Floor("R18.1", "appends in filterBannedIPs", na, 1)

		// Push-time filters
		pushFn := c.Func("internal/addrlist", "(*AddrList).Push")
		fPort := c.Field("net", "TCPAddr", "Port")
		fListen := c.Field("internal/addrlist", "AddrList", "listenPort")
		fClientIP := c.Field("internal/addrlist", "AddrList", "clientIP")
		fBL := c.Field("internal/addrlist", "AddrList", "blocklist")
		isExternal := c.FuncObj("internal/externalip", "IsExternal")
		blocked := c.FuncObj("internal/blocklist", "(*Blocklist).Blocked")
		mk := func(gen func(a kit.Atom) bool) *kit.Spec {
			return &kit.Spec{P: c.Prog, Deep: kit.DefaultDeep, Edge: gen}
		}
		portNZ := mk(func(a kit.Atom) bool {
			z, ok := a.R.IntConst()
			return ok && z == 0 && a.Op == token.NEQ && a.L.IsField(fPort)
		})
		notSelf := mk(func(a kit.Atom) bool {
			if a.IsFalse(func(e *kit.Expr) bool { return e.Kind == "call" && e.Name == "IsLoopback" }) {
				return true
			}
			return a.Op == token.NEQ && ((a.L.IsField(fPort) && a.R.IsField(fListen)) || (a.R.IsField(fPort) && a.L.IsField(fListen)))
		})
		notClient := mk(func(a kit.Atom) bool {
			return a.IsFalse(func(e *kit.Expr) bool {
				return e.Kind == "call" && e.Name == "Equal" && e.Mentions(func(x *kit.Expr) bool { return x.IsField(fClientIP) })
			})
		})
		notExt := mk(func(a kit.Atom) bool {
			return a.IsFalse(func(e *kit.Expr) bool { return e.IsCallTo(isExternal) })
		})
		notBlocked := mk(func(a kit.Atom) bool {
			if a.IsNilCmp(true, func(e *kit.Expr) bool { return e.IsField(fBL) }) {
				return true
			}
			return a.IsFalse(func(e *kit.Expr) bool { return e.IsCallTo(blocked) && e.Args[0].IsField(fBL) })
		})
		_ = pushFn
		// every insert into the priority tree, wherever it sits in the package: the five filters
		// hold in the inserting function or (for a helper) before every call of it; a filter may
		// also sit in a bool-returning predicate (predicate summaries of the kit)
		ni := 0
		for _, fn := range c.ModuleFunctions() {
			if !inPkg(fn, c, "internal/addrlist") {
				continue
			}
			kit.Instrs(fn, func(ins ssa.Instruction) {
				cc := kit.CallOf(ins)
				if cc == nil || cc.StaticCallee() == nil || cc.StaticCallee().Name() != "ReplaceOrInsert" {
					return
				}
				ni++
				key := k.key(fn, "insert address")
				switch {
				case !portNZ.Holds(ins, 2):
					c.Bad("R18.1", key, posOf(ins), "address inserted without Port != 0")
				case !notSelf.Holds(ins, 2):
					c.Bad("R18.1", key, posOf(ins), "address inserted without the own-listening-address test (loopback && own port)")
				case !notClient.Holds(ins, 2):
					c.Bad("R18.1", key, posOf(ins), "address inserted without the !clientIP.Equal test")
				case !notExt.Holds(ins, 2):
					c.Bad("R18.1", key, posOf(ins), "address inserted without the !externalip.IsExternal test")
				case !notBlocked.Holds(ins, 2):
					c.Bad("R18.1", key, posOf(ins), "address inserted without blocklist == nil || !Blocked(ip): a blocked address could be dialled")
				default:
					c.OK("R18.1", key, posOf(ins), "insert under Port!=0, not own address, !clientIP, !external, not blocked")
				}
			})
		}
		c.Floor("R18.1", "address inserts in package addrlist", ni, 1)
	}

	// ---- R18.2 accept road
	{
		ihNew := c.FuncObj("internal/handshaker/incominghandshaker", "New")
		hnc := c.Func("torrent", "(*torrent).handleNewConnection")
		sites := onlyCallers(c, k, "R18.2", ihNew, hnc, "an incoming connection could be accepted without the accept-time checks")
		c.Floor("R18.2", "incominghandshaker.New sites", len(sites), 1)
		fMaxAccept := c.Field("torrent", "Config", "MaxPeerAccept")
		fEnabledIn := c.Field("torrent", "Config", "BlocklistEnabledForIncomingConnections")
		fSBL := c.Field("torrent", "Session", "blocklist")
		blocked := c.FuncObj("internal/blocklist", "(*Blocklist).Blocked")
		capOK := c.AtomFlow(hnc, func(a kit.Atom) bool {
			ok, strict := a.UpperBound(func(e *kit.Expr) bool { return e.Kind == "binop" && e.Op == token.ADD }, func(e *kit.Expr) bool { return e.IsField(fMaxAccept) })
			return ok && strict
		}, nil)
		notBlocked := c.AtomFlow(hnc, func(a kit.Atom) bool {
			if a.IsFalse(func(e *kit.Expr) bool { return e.IsField(fEnabledIn) }) {
				return true
			}
			if a.IsNilCmp(true, func(e *kit.Expr) bool { return e.IsField(fSBL) }) {
				return true
			}
			return a.IsFalse(func(e *kit.Expr) bool { return e.IsCallTo(blocked) })
		}, nil)
		notConn := c.AtomFlow(hnc, lookupAbsent(fConnected), nil)
		notBan := c.AtomFlow(hnc, lookupAbsent(fBanned), nil)
		for _, s := range sites {
			key := k.key(s.Fn, "accept")
			switch {
			case !capOK.Before(s.Instr):
				c.Bad("R18.2", key, posOf(s.Instr), "incoming handshake started without the MaxPeerAccept cap")
			case !notBlocked.Before(s.Instr):
				c.Bad("R18.2", key, posOf(s.Instr), "incoming handshake started without the incoming blocklist test")
			case !notConn.Before(s.Instr):
				c.Bad("R18.2", key, posOf(s.Instr), "incoming handshake started for an IP that may already be connected")
			case !notBan.Before(s.Instr):
				c.Bad("R18.2", key, posOf(s.Instr), "incoming handshake started for an IP that may be banned")
			default:
				c.OK("R18.2", key, posOf(s.Instr), "accept under cap, blocklist, not connected, not banned")
			}
		}
	}

	// ---- R18.3 tracker and web-seed dials
	{
		resolve := c.FuncObj("internal/resolver", "Resolve")
		dialCtx := c.FuncObj("net", "(*Dialer).DialContext")
		n := 0
		for _, s := range sortSites(c.CallSites(dialCtx)) {
			if inPkg(s.Fn, c, "internal/btconn") {
				continue // peer dials: R18.1
			}
			n++
			key := k.key(s.Fn, "DialContext")
			var resCall *ssa.Call
			kit.Instrs(s.Fn, func(ins ssa.Instruction) {
				if call, ok := ins.(*ssa.Call); ok && kit.CalleeObj(&call.Call) == resolve {
					resCall = call
				}
			})
			if resCall == nil {
				c.Bad("R18.3", key, posOf(s.Instr), "tracker / web-seed host dialled without resolver.Resolve (blocklist not applied)")
				continue
			}
			errNil := c.AtomFlow(s.Fn, func(a kit.Atom) bool {
				return a.IsNilCmp(true, func(e *kit.Expr) bool { return e.Kind == "extract" && e.Idx == 2 && e.Args[0].V == ssa.Value(resCall) })
			}, nil)
			addr := kit.Canon(s.Instr.Common().Args[3])
			fromRes := addr.Mentions(func(e *kit.Expr) bool { return e.Kind == "alloc" || (e.Kind == "extract" && e.Args[0].V == ssa.Value(resCall)) })
			c.Check(errNil.Before(s.Instr) && fromRes, "R18.3", key, posOf(s.Instr),
				"dial only after resolver.Resolve returned err==nil, address built from its result", "dial not dominated by a successful resolver.Resolve or address not derived from it")
		}
		c.Floor("R18.3", "tracker/web-seed DialContext sites", n, 2)
		// UDP tracker connect
		rdc := c.Func("internal/tracker/udptracker", "resolveDestinationAndConnect")
		sendConnect := c.FuncObj("internal/tracker/udptracker", "sendAndReceiveConnect")
		var resCall *ssa.Call
		kit.Instrs(rdc, func(ins ssa.Instruction) {
			if call, ok := ins.(*ssa.Call); ok && kit.CalleeObj(&call.Call) == resolve {
				resCall = call
			}
		})
		if resCall == nil {
			c.Bad("R18.3", kit.FuncName(rdc)+"/resolve", rdc.Pos(), "UDP tracker destination is not resolved through resolver.Resolve")
		} else {
			errNil := c.AtomFlow(rdc, func(a kit.Atom) bool {
				return a.IsNilCmp(true, func(e *kit.Expr) bool { return e.Kind == "extract" && e.Idx == 2 && e.Args[0].V == ssa.Value(resCall) })
			}, nil)
			m := 0
			kit.Instrs(rdc, func(ins ssa.Instruction) {
				if kit.CallsAny(ins, sendConnect) {
					m++
					c.Check(errNil.Before(ins), "R18.3", k.key(rdc, "udp connect"), posOf(ins),
						"UDP connect only after a successful resolver.Resolve", "UDP tracker contacted without a successful resolver.Resolve")
				}
			})
			c.Floor("R18.3", "UDP connect sites", m, 1)
		}
		for _, s := range c.CallSites(sendConnect) {
			if s.Fn != rdc {
				c.Bad("R18.3", k.key(s.Fn, "udp connect"), posOf(s.Instr), "sendAndReceiveConnect called outside resolveDestinationAndConnect")
			}
		}
		// Resolve's success returns
		rf := c.Func("internal/resolver", "Resolve")
		blocked := c.FuncObj("internal/blocklist", "(*Blocklist).Blocked")
		bl := rf.Params[3]
		notBlocked := c.AtomFlow(rf, func(a kit.Atom) bool {
			if a.IsNilCmp(true, func(e *kit.Expr) bool { return e.V == ssa.Value(bl) }) {
				return true
			}
			return a.IsFalse(func(e *kit.Expr) bool { return e.IsCallTo(blocked) && e.Args[0].V == ssa.Value(bl) })
		}, nil)
		portLo := c.AtomFlow(rf, func(a kit.Atom) bool {
			z, ok := a.R.IntConst()
			return ok && ((a.Op == token.GTR && z == 0) || (a.Op == token.GEQ && z == 1))
		}, nil)
		portHi := c.AtomFlow(rf, func(a kit.Atom) bool {
			z, ok := a.R.IntConst()
			return ok && ((a.Op == token.LEQ && z == 65535) || (a.Op == token.LSS && z == 65536))
		}, nil)
		is4 := c.AtomFlow(rf, func(a kit.Atom) bool {
			return a.IsNilCmp(false, func(e *kit.Expr) bool { return e.Kind == "call" && e.Name == "To4" })
		}, nil)
		ns := 0
		for _, r := range returnsOf(rf) {
			if !kit.Canon(r.Results[2]).IsNil() {
				continue
			}
			ns++
			key := k.key(rf, "success return")
			switch {
			case !notBlocked.Before(r):
				c.Bad("R18.3", key, posOf(r), "Resolve can succeed for a blocked IP")
			case !portLo.Before(r) || !portHi.Before(r):
				c.Bad("R18.3", key, posOf(r), "Resolve can succeed for a port outside 1..65535")
			case !is4.Before(r):
				c.Bad("R18.3", key, posOf(r), "Resolve can succeed for a non-IPv4 address")
			default:
				c.OK("R18.3", key, posOf(r), "success only under (bl==nil || !Blocked), 1<=port<=65535, IPv4")
			}
		}
		c.Floor("R18.3", "success returns of Resolve", ns, 1)
	}

	// ---- R18.4 wiring
	{
		fSBL := c.Field("torrent", "Session", "blocklist")
		check := func(fn *ssa.Function, callee *types.Func, argIdx int, flag *types.Var, what string) {
			n := 0
			for _, s := range sortSites(c.CallSites(callee)) {
				if s.Fn != fn {
					continue
				}
				n++
				key := k.key(fn, "wire blocklist to "+callee.Name())
				v := s.Instr.Common().Args[argIdx]
				phi, ok := v.(*ssa.Phi)
				if !ok {
					// passed unconditionally: filtering more than configured does not
					// break the property; only a nil here would.
					c.Check(!kit.Canon(v).IsNil(), "R18.4", key, posOf(s.Instr), what+": blocklist always passed", what+": blocklist is never passed although Config."+flag.Name()+" may be set")
					continue
				}
				good := true
				off := c.FieldBool(fn, flag, false)
				for i, e := range phi.Edges {
					if !kit.Canon(e).IsNil() {
						continue
					}
					// a nil blocklist is acceptable only where the flag is false
					if !off.OnEdge(phi.Block().Preds[i], phi.Block()) {
						good = false
					}
				}
				c.Check(good, "R18.4", key, posOf(s.Instr), what+": blocklist withheld only under Config."+flag.Name()+"==false", what+": blocklist can be withheld although Config."+flag.Name()+" is set")
			}
			c.Floor("R18.4", what, n, 1)
		}
		check(c.Func("torrent", "newTorrent"), c.FuncObj("internal/addrlist", "New"), 1, c.Field("torrent", "Config", "BlocklistEnabledForOutgoingConnections"), "addrlist.New")
		check(c.Func("torrent", "NewSession"), c.FuncObj("internal/trackermanager", "New"), 0, c.Field("torrent", "Config", "BlocklistEnabledForTrackers"), "trackermanager.New")
		_ = fSBL
	}

	// ---- R18.5 tree under lock
	{
		fTree := c.Field("internal/blocklist", "Blocklist", "tree")
		fM := c.Field("internal/blocklist", "Blocklist", "m")
		reload := c.Func("internal/blocklist", "(*Blocklist).Reload")
		lockFlow := func(fn *ssa.Function, names ...string) *kit.Flow {
			return (&kit.Flow{P: c.Prog, Fn: fn, Instr: func(ins ssa.Instruction, in bool) bool {
				cc := kit.CallOf(ins)
				if cc == nil || cc.StaticCallee() == nil || len(cc.Args) == 0 {
					return in
				}
				if !kit.Canon(cc.Args[0]).IsField(fM) {
					return in
				}
				name := cc.StaticCallee().Name()
				if _, isDefer := ins.(*ssa.Defer); isDefer {
					return in
				}
				for _, n := range names {
					if name == n {
						return true
					}
				}
				if name == "Unlock" || name == "RUnlock" {
					return false
				}
				return in
			}}).Solve()
		}
		n := 0
		for _, fn := range c.ModuleFunctions() {
			if !inPkg(fn, c, "internal/blocklist") {
				continue
			}
			var wl, rl *kit.Flow
			kit.Instrs(fn, func(ins ssa.Instruction) {
				if _, ok := kit.StoresField(ins, fTree); ok {
					n++
					if wl == nil {
						wl = lockFlow(fn, "Lock")
					}
					c.Check(fn == reload && wl.Before(ins), "R18.5", k.key(fn, "store tree"), posOf(ins),
						"tree replaced in Reload under m.Lock()", "blocklist tree replaced outside Reload or without the write lock")
					return
				}
				// reads: loads / method calls on &b.tree
				if fa, ok := ins.(*ssa.FieldAddr); ok {
					st := fa.X.Type().Underlying().(*types.Pointer).Elem().Underlying().(*types.Struct)
					if st.Field(fa.Field) != fTree {
						return
					}
					isStoreTarget := false
					for _, r := range *fa.Referrers() {
						if s, ok := r.(*ssa.Store); ok && s.Addr == ssa.Value(fa) {
							isStoreTarget = true
						}
					}
					if isStoreTarget {
						return
					}
					n++
					if rl == nil {
						rl = lockFlow(fn, "Lock", "RLock")
					}
					c.Check(rl.Before(ins), "R18.5", k.key(fn, "read tree"), posOf(ins),
						"tree read under m.RLock()/Lock()", "blocklist tree read without holding the lock")
				}
			})
		}
		c.Floor("R18.5", "tree accesses", n, 2)
	}
}

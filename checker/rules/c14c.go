package rules

import (
	"go/types"
	"sort"

	"golang.org/x/tools/go/ssa"

	"rainverif/checker/kit"
)

// R14.6 / R14.7: rules added from independently seeded changes.

// ruleNoResurrection (R14.6): a single-field resume writer must not re-create
// the record of a removed torrent. RemoveTorrent deletes the torrent's bucket
// first and closes the torrent afterwards; the closing run loop (and any stale
// handle) still calls WriteBitfield / WriteStarted / ... Those writers must
// find no bucket and do nothing.
//
//	(a) a sub-bucket of the torrents bucket is created (Bucket.CreateBucket /
//	    CreateBucketIfNotExists) only as part of Resumer.Write, the path of the
//	    adders (and of CompactDatabase into the fresh database);
//	(b) inside the codec package a callback is run on a bucket only when that
//	    bucket was obtained by lookup (Bucket.Bucket) and tested non-nil.
func (e *c14Env) ruleNoResurrection() {
	c, k := e.c, e.k
	const rp = "internal/resumer/boltdbresumer"
	creators := []*types.Func{
		c.FuncObj("go.etcd.io/bbolt", "(*Bucket).CreateBucket"),
		c.FuncObj("go.etcd.io/bbolt", "(*Bucket).CreateBucketIfNotExists"),
	}
	lookup := c.FuncObj("go.etcd.io/bbolt", "(*Bucket).Bucket")
	bucketT := c.Named("go.etcd.io/bbolt", "Bucket")
	fWrite := c.Func(rp, "(*Resumer).Write")

	n := 0
	for _, o := range creators {
		for _, s := range sortSites(c.CallSites(o)) {
			n++
			key := k.key(s.Fn, "create torrent bucket")
			ok := inPkg(s.Fn, c, rp) && c.OnlyCalledFrom(s.Fn, fWrite, 2)
			c.Check(ok, "R14.6", key, posOf(s.Instr),
				"a torrent's resume bucket is created only as part of Resumer.Write (the adders' path)",
				"a torrent's resume bucket is created outside Resumer.Write: RemoveTorrent deletes the bucket before the torrent is closed, so a late single-field write (writeBitfield in the closing run loop, Start/Stop on a stale handle) re-creates a record that holds only that field; it is not in the registry and cannot be loaded after a restart")
		}
	}
	c.Floor("R14.6", "creation sites of torrent resume buckets", n, 1)

	m := 0
	for _, fn := range c.ModuleFunctions() {
		if !inPkg(fn, c, rp) {
			continue
		}
		kit.Instrs(fn, func(ins ssa.Instruction) {
			call, ok := ins.(*ssa.Call)
			if !ok || call.Call.IsInvoke() || call.Call.StaticCallee() != nil {
				return
			}
			if _, isBuiltin := call.Call.Value.(*ssa.Builtin); isBuiltin {
				return
			}
			if _, isClosure := call.Call.Value.(*ssa.MakeClosure); isClosure {
				return
			}
			for _, a := range call.Call.Args {
				if derefNamed(a.Type()) != bucketT {
					continue
				}
				m++
				key := k.key(fn, "callback on a torrent bucket")
				bv := c14Trace(a)
				bc, _ := bv.(*ssa.Call)
				fromLookup := bc != nil && kit.CalleeObj(&bc.Call) == lookup
				nonNil := c.AtomFlow(fn, func(at kit.Atom) bool {
					return at.IsNilCmp(false, func(x *kit.Expr) bool { return x != nil && x.V != nil && c14Trace(x.V) == bv })
				}, nil)
				switch {
				case !fromLookup:
					c.Bad("R14.6", key, posOf(ins), "the callback of a single-field writer runs on %s, which is not the result of a bucket lookup: if the bucket is created on demand, a write that arrives after RemoveTorrent deleted the record resurrects it", kit.Canon(bv))
				case !nonNil.Before(ins):
					c.Bad("R14.6", key, posOf(ins), "the callback of a single-field writer can run although the looked-up bucket was not tested non-nil")
				default:
					c.OK("R14.6", key, posOf(ins), "callback runs only on a looked-up bucket under b != nil: a missing record stays missing")
				}
			}
		})
	}
	c.Floor("R14.6", "callback invocations on a torrent bucket in package boltdbresumer", m, 1)
}

// runC14Stats (R14.7): Session.updateStats is the only writer of the transfer
// counters (bytes_downloaded, bytes_uploaded, bytes_wasted, seeded_for). It
// must persist them for EVERY torrent of the registry: some range loop over
// Session.torrents in (the inlined view of) updateStats runs on every path and
// none of its iterations reaches the next iteration, or leaves the loop, without
// having passed the Put of each counter key. A status filter / `continue` in
// front of the Puts, or iterating over a pre-filtered copy, loses what a stopped
// torrent transferred since the last tick.
func runC14Stats(c *kit.Ctx, k *keyer, t *c14Tables, put *types.Func, W map[string][]c14Row) {
	const rp = "internal/resumer/boltdbresumer"
	updateStats := c.Func("torrent", "(*Session).updateStats")
	fTorrents := c.Field("torrent", "Session", "torrents")
	counters := map[string]string{} // key -> Spec field
	for _, name := range []string{"BytesDownloaded", "BytesUploaded", "BytesWasted", "SeededFor"} {
		f := c.Field(rp, "Spec", name)
		for key, rows := range W {
			if len(rows) > 0 && rows[0].Field == f {
				counters[key] = name
			}
		}
	}
	c.Floor("R14.7", "transfer counter keys (resolved from Resumer.Write)", len(counters), 4)

	// inlined view of updateStats: closures and same-package helpers
	var fns []*ssa.Function
	seen := map[*ssa.Function]bool{}
	var collect func(fn *ssa.Function, d int)
	collect = func(fn *ssa.Function, d int) {
		for _, g := range kit.WithAnon(fn) {
			if seen[g] {
				continue
			}
			seen[g] = true
			fns = append(fns, g)
			if d <= 0 {
				continue
			}
			kit.Instrs(g, func(ins ssa.Instruction) {
				if call, ok := ins.(*ssa.Call); ok {
					if h := call.Call.StaticCallee(); h != nil && h.Blocks != nil && pkgOf(h) == pkgOf(updateStats) {
						collect(h, d-1)
					}
				}
			})
		}
	}
	collect(updateStats, 2)

	isPutOf := func(ins ssa.Instruction, key string) bool {
		call, ok := ins.(*ssa.Call)
		if !ok || kit.CalleeObj(&call.Call) != put {
			return false
		}
		s, _, ok := t.keyOf(argOf(&call.Call, 1))
		return ok && s == key
	}

	// mustRun: every returning path of root executes instruction `target` of g
	var mustRun func(root, g *ssa.Function, target ssa.Instruction, d int) bool
	mustRun = func(root, g *ssa.Function, target ssa.Instruction, d int) bool {
		if d < 0 {
			return false
		}
		fl := (&kit.Flow{P: c.Prog, Fn: root, Instr: func(ins ssa.Instruction, in bool) bool {
			if in || ins == target {
				return true
			}
			if _, isGo := ins.(*ssa.Go); isGo {
				return in
			}
			cc := kit.CallOf(ins)
			if cc == nil || root == g {
				return in
			}
			if h := cc.StaticCallee(); h != nil && h.Blocks != nil && kit.InModule(pkgOf(h)) && h != root {
				if h == g || fnIn(g, h) {
					if mustRun(h, g, target, d-1) {
						return true
					}
				}
			}
			for _, a := range cc.Args { // closure handed to a library call that runs it (db.Update)
				if mc, ok := a.(*ssa.MakeClosure); ok {
					if h, _ := mc.Fn.(*ssa.Function); h != nil && (h == g || fnIn(g, h)) && mustRun(h, g, target, d-1) {
						return true
					}
				}
			}
			if mc, ok := cc.Value.(*ssa.MakeClosure); ok {
				if h, _ := mc.Fn.(*ssa.Function); h != nil && (h == g || fnIn(g, h)) && mustRun(h, g, target, d-1) {
					return true
				}
			}
			return in
		}}).Solve()
		return len(returnsOf(root)) > 0 && len(fl.FailingReturns()) == 0
	}

	type loop struct {
		fn   *ssa.Function
		rng  *ssa.Range
		next *ssa.Next
	}
	var loops []loop
	for _, g := range fns {
		kit.Instrs(g, func(ins ssa.Instruction) {
			rng, ok := ins.(*ssa.Range)
			if !ok || !kit.Canon(rng.X).IsField(fTorrents) || rng.Referrers() == nil {
				return
			}
			for _, r := range *rng.Referrers() {
				if nx, ok := r.(*ssa.Next); ok {
					loops = append(loops, loop{g, rng, nx})
				}
			}
		})
	}
	c.Floor("R14.7", "range loops over Session.torrents in updateStats", len(loops), 1)

	keys := make([]string, 0, len(counters))
	for key := range counters {
		keys = append(keys, key)
	}
	sort.Strings(keys)
	for _, key := range keys {
		okey := kit.FuncName(updateStats) + "/persists " + counters[key] + " of every torrent"
		var good *loop
		why := "no range loop over Session.torrents writes it"
		for i := range loops {
			l := &loops[i]
			fl := (&kit.Flow{P: c.Prog, Fn: l.fn, Entry: true,
				Edge: func(a kit.Atom) bool { // normal loop exit: the iterator is exhausted
					return a.IsFalse(func(x *kit.Expr) bool {
						return x != nil && x.Kind == "extract" && x.Idx == 0 && x.Args[0].V == ssa.Value(l.next)
					})
				},
				Instr: func(ins ssa.Instruction, in bool) bool {
					if ins == ssa.Instruction(l.next) {
						return false // a new iteration begins: its Put is pending
					}
					if isPutOf(ins, key) {
						return true
					}
					return in
				}}).WithDeep(kit.DefaultDeep, nil).Solve()
			writes := false
			c.InstrsDeep(l.fn, 2, false, func(ins ssa.Instruction) {
				if isPutOf(ins, key) {
					writes = true
				}
			})
			if !writes {
				continue
			}
			switch {
			case !fl.Before(l.next) || len(fl.FailingReturns()) > 0:
				why = "an iteration of the loop over Session.torrents can reach the next iteration (or leave the loop) without having passed the Put: some torrents are filtered out"
			case !mustRun(updateStats, l.fn, l.rng, 3):
				why = "the loop that writes it is not executed on every path through updateStats"
			default:
				good = l
			}
			if good != nil {
				break
			}
		}
		if good != nil {
			c.OK("R14.7", okey, posOf(good.next), "every iteration of the loop over Session.torrents passes Put(%q) and the loop runs on every path of updateStats", key)
		} else {
			c.Bad("R14.7", okey, updateStats.Pos(), "the periodic resume writer does not persist %q for every torrent of the registry (%s): what a torrent transferred (and its seeding time, added at stop) since the last tick is lost on restart when the torrent is skipped at the next tick and at Close", key, why)
		}
	}
}

// runC14LostUpdate (R14.8): an out-of-band writer (outside the codec package)
// whose new value EXTENDS the previous one (the encoded value is built with
// append) performs a read-modify-write of the resume record. It is atomic only
// if the value it extends is decoded from a Get of the same key on the same
// bucket inside the transaction callback that Puts it; computing it before the
// transaction (from a cached copy, or in an earlier transaction) lets two
// concurrent writers overwrite each other: the record and the in-memory list
// diverge and a tracker added through the API is gone after a restart.
func runC14LostUpdate(c *kit.Ctx, k *keyer, t *c14Tables, get *types.Func, oobWriters map[string][]c14Row) {
	// the cells / values an append chain starts from
	var bases func(v ssa.Value, d int, cells map[ssa.Value]bool) bool
	bases = func(v ssa.Value, d int, cells map[ssa.Value]bool) bool {
		if v == nil || d > 8 {
			return false
		}
		v = c14Trace(v)
		switch x := v.(type) {
		case *ssa.MakeInterface:
			return bases(x.X, d+1, cells)
		case *ssa.Call:
			if c14FullName(&x.Call) == "builtin.append" {
				// the extended value: what the chain of appends starts from
				b := x.Call.Args[0] // not traced: a load of the extended cell must stay a load
				if inner, ok := b.(*ssa.Call); ok && c14FullName(&inner.Call) == "builtin.append" {
					bases(inner, d+1, cells)
					// append(append(make(..), old...), new): `old` is the extended value
					if len(inner.Call.Args) == 2 {
						cells[c14BaseOf(inner.Call.Args[1])] = true
					}
				} else {
					cells[c14BaseOf(b)] = true
				}
				return true
			}
		case *ssa.Phi:
			any := false
			for _, e := range x.Edges {
				if bases(e, d+1, cells) {
					any = true
				}
			}
			return any
		case *ssa.UnOp:
			if a, ok := c14Cell(x.X).(*ssa.Alloc); ok && x.Op.String() == "*" {
				any := false
				for _, st := range c14CellStores(a) {
					if bases(st.Val, d+1, cells) {
						any = true
					}
				}
				return any
			}
		}
		return false
	}
	var keys []string
	for key := range oobWriters {
		keys = append(keys, key)
	}
	sort.Strings(keys)
	n, puts := 0, 0
	for _, key := range keys {
		for _, row := range oobWriters[key] {
			puts++
			cells := map[ssa.Value]bool{}
			if !bases(row.Src, 0, cells) {
				continue
			}
			n++
			okey := k.key(c14RootFn(row.Fn), "read-modify-write of "+key)
			putCall := row.Ins.(ssa.CallInstruction).Common()
			bucket := c14Trace(argOf(putCall, 0))
			// a Get of the same key on the same bucket, in the Put's function, before the Put
			var rd *ssa.Call
			kit.Instrs(row.Fn, func(ins ssa.Instruction) {
				call, ok := ins.(*ssa.Call)
				if !ok || kit.CalleeObj(&call.Call) != get || c14Trace(argOf(&call.Call, 0)) != bucket {
					return
				}
				if s, _, ok := t.keyOf(argOf(&call.Call, 1)); ok && s == key && kit.Dominates(call, row.Ins) {
					rd = call
				}
			})
			if rd == nil {
				c.Bad("R14.8", okey, posOf(row.Ins), "%s stores an extension (append) of the value of key %q, but the transaction callback that Puts it does not Get that key from the same bucket first: the extended value is computed outside the transaction (from a cached copy or an earlier read), so two concurrent calls each extend the same old value and the later Put silently drops the other's addition (lost update): the resume record and the in-memory list diverge and the addition is gone after a restart", c14RootFn(row.Fn).Name(), key)
				continue
			}
			// the extended value is what was decoded from that Get
			decoded := false
			kit.Instrs(row.Fn, func(ins ssa.Instruction) {
				call, ok := ins.(*ssa.Call)
				if !ok || c14FullName(&call.Call) != "encoding/json.Unmarshal" || c14Trace(call.Call.Args[0]) != ssa.Value(rd) {
					return
				}
				dst := call.Call.Args[1]
				if mi, ok := dst.(*ssa.MakeInterface); ok {
					dst = mi.X
				}
				if cells[c14Cell(dst)] {
					decoded = true
				}
			})
			c.Check(decoded, "R14.8", okey, posOf(row.Ins),
				"the extended value is decoded from a Get of the same key on the same bucket inside the transaction callback that Puts it",
				"the transaction callback Gets key \""+key+"\" but the value it extends and Puts is not the one decoded from that Get: lost update between concurrent writers")
		}
	}
	c.Floor("R14.8", "out-of-band Put sites outside the codec package", puts, 4)
	c.Floor("R14.8", "append-style (read-modify-write) out-of-band writers", n, 1)
}

// c14BaseOf: the cell a value is loaded from (through closures), or the value.
func c14BaseOf(v ssa.Value) ssa.Value {
	if u, ok := v.(*ssa.UnOp); ok && u.Op.String() == "*" {
		return c14Cell(u.X)
	}
	return c14Trace(v)
}

// rulePortStable (R14.9): the port a torrent owns is the one taken from the
// pool at add time (constructor parameter: getPort / spec.Port). The only
// other assignment re-reads it from the listener; that is the identity only if
// every listen of that function binds exactly t.port. A fallback listen on
// another port (port 0) makes t.port an OS-chosen port while availablePorts
// and the resume record hold the assigned one: the assigned port leaks on
// remove, a foreign port enters the pool, and the port changes over a restart.
func (e *c14Env) rulePortStable() {
	c, k := e.c, e.k
	fPort := c.Field("torrent", "torrent", "port")
	newTorrent := c.Func("torrent", "newTorrent")
	listenTCP := c.FuncObj("net", "ListenTCP")
	listen := c.FuncObj("net", "Listen")
	fAddrPort := c.Field("net", "TCPAddr", "Port")
	n := 0
	for _, st := range fieldStores(c, fPort) {
		n++
		key := k.key(st.Fn, "store torrent.port")
		if st.Fn == newTorrent {
			_, isParam := st.Val.(*ssa.Parameter)
			c.Check(isParam, "R14.9", key, posOf(st.Store), "constructor stores its port parameter (getPort / spec.Port at the call sites, R14.1)", "constructor stores something else than its port parameter")
			continue
		}
		if !kit.Canon(st.Val).Mentions(func(x *kit.Expr) bool { return x.Kind == "call" && x.Name == "Addr" }) {
			c.Bad("R14.9", key, posOf(st.Store), "torrent.port is reassigned to %s outside the constructor: the pool and the resume record keep the port taken at add time", kit.Canon(st.Val))
			continue
		}
		listens, bad := 0, ""
		c.InstrsDeep(st.Fn, 1, false, func(ins ssa.Instruction) {
			call, ok := ins.(*ssa.Call)
			if !ok {
				return
			}
			switch kit.CalleeObj(&call.Call) {
			case listen:
				listens++
				bad = "net.Listen(" + kit.Canon(call.Call.Args[1]).String() + ")"
			case listenTCP:
				listens++
				addr, _ := c14Trace(call.Call.Args[1]).(*ssa.Alloc)
				okPort := false
				if addr != nil && addr.Referrers() != nil {
					for _, r := range *addr.Referrers() {
						fa, ok := r.(*ssa.FieldAddr)
						if !ok || kit.Canon(fa).Field != fAddrPort || fa.Referrers() == nil {
							continue
						}
						for _, rr := range *fa.Referrers() {
							if s2, ok := rr.(*ssa.Store); ok && s2.Addr == ssa.Value(fa) {
								okPort = kit.Canon(s2.Val).IsField(fPort)
							}
						}
					}
				}
				if !okPort {
					bad = "net.ListenTCP(_, " + kit.Canon(call.Call.Args[1]).String() + ") at " + c.Pos(posOf(call))
				}
			}
		})
		switch {
		case listens == 0:
			c.Bad("R14.9", key, posOf(st.Store), "torrent.port is re-read from a listener address but no listen call is found in %s", st.Fn.Name())
		case bad != "":
			c.Bad("R14.9", key, posOf(st.Store), "torrent.port is re-read from the listener, and %s does not bind exactly t.port: when that listen succeeds t.port becomes an OS-chosen port while Session.availablePorts and the resume record hold the assigned one (the assigned port is never released, a port outside the range enters the pool on remove, the torrent's port differs after a restart)", bad)
		default:
			c.OK("R14.9", key, posOf(st.Store), "re-read from a listener whose every listen call binds Port: t.port (identity)")
		}
	}
	c.Floor("R14.9", "stores of torrent.port", n, 2)
}

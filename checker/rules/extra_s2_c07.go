package rules

import (
	"go/token"
	"go/types"
	"sort"

	"golang.org/x/tools/go/ssa"

	"rainverif/checker/kit"
)

// Rule added after the second round of independently seeded changes
// (property C07: names from untrusted metainfo stay inside the torrent's
// directory; two different non-padding files never resolve to the same path).

func init() {
	registerExtra("C07", runR07_5)
}

// ---- R07.5 nothing rewrites a validated path between File.Path and the filesystem
//
// metainfo.NewInfo establishes three facts about every File.Path: components
// are dot-dot free, cleaned, and the joined path is unique among the non-padding
// files (R07.1, R07.3). The facts are about that very string. Between a load of
// File.Path and the path argument of an os / filepath / ioutil call only
// operations that preserve them may touch the value:
//
//	filepath.Join (prefixing the storage root), filepath.Clean, filepath.Dir,
//	string concatenation, plain copies (parameters, results, fields, phis).
//
// Any other producer on the data path (strings.*, a module function that
// splits / trims / re-joins elements, slicing) is a second normalisation that
// the duplicate detection knows nothing about: "notes.txt" and "notes.txt."
// become the same OS file. Decided by a backward slice from every path-taking
// library call that the forward taint from File.Path reaches; the slice follows
// only tainted values.
func runR07_5(c *kit.Ctx) {
	k := newKeyer()
	fFilePath := c.Field("internal/metainfo", "File", "Path")
	allowed := map[*types.Func]string{
		c.FuncObj("path/filepath", "Join"):  "filepath.Join",
		c.FuncObj("path/filepath", "Clean"): "filepath.Clean",
		c.FuncObj("path/filepath", "Dir"):   "filepath.Dir",
	}
	tn := c.RunTaint(kit.TaintCfg{
		Source: func(ld ssa.Value, f *types.Var) (string, bool) {
			if f == fFilePath {
				return "File.Path", true
			}
			return "", false
		},
	})
	tainted := func(v ssa.Value) bool { return v != nil && tn.Of(v) != nil }

	type finding struct {
		at   ssa.Instruction
		what string
	}
	// slice: the non-preserving producers on the tainted data paths into v
	var slice func(v ssa.Value, seen map[ssa.Value]bool, out *[]finding, d int)
	slice = func(v ssa.Value, seen map[ssa.Value]bool, out *[]finding, d int) {
		if v == nil || seen[v] || !tainted(v) {
			return
		}
		seen[v] = true
		if d > 40 {
			return
		}
		isStr := func(t types.Type) bool {
			b, ok := t.Underlying().(*types.Basic)
			return ok && b.Info()&types.IsString != 0
		}
		fromCall := func(call *ssa.Call, idx int) {
			cc := &call.Call
			if b, ok := cc.Value.(*ssa.Builtin); ok {
				switch b.Name() {
				case "append", "min", "max":
					for _, a := range cc.Args {
						slice(a, seen, out, d+1)
					}
				}
				return
			}
			callees := c.Callees(call)
			ext := len(callees) == 0
			for _, h := range callees {
				if h.Blocks == nil || !kit.InModule(pkgOf(h)) {
					ext = true
					continue
				}
				for _, r := range returnsOf(h) {
					if idx < len(r.Results) {
						slice(r.Results[idx], seen, out, d+1)
					}
				}
			}
			if !ext {
				return
			}
			o := kit.CalleeObj(cc)
			if name, ok := allowed[o]; ok {
				_ = name
				for _, a := range cc.Args {
					if els := variadicElems(a); els != nil {
						for _, e := range els {
							slice(e, seen, out, d+1)
						}
						continue
					}
					slice(a, seen, out, d+1)
				}
				return
			}
			any := false
			for _, a := range cc.Args {
				if tainted(a) {
					any = true
				}
			}
			if cc.IsInvoke() && tainted(cc.Value) {
				any = true
			}
			if any {
				n := "a dynamic call"
				if o != nil {
					n = o.FullName()
				}
				*out = append(*out, finding{call, n})
			}
		}
		switch x := v.(type) {
		case *ssa.Call:
			fromCall(x, 0)
		case *ssa.Extract:
			if call, ok := x.Tuple.(*ssa.Call); ok {
				fromCall(call, x.Index)
			} else {
				slice(x.Tuple, seen, out, d+1)
			}
		case *ssa.Parameter:
			fn := x.Parent()
			idx := -1
			for i, q := range fn.Params {
				if q == x {
					idx = i
				}
			}
			for _, e := range c.CallersOf(fn) {
				if e.Site == nil || idx < 0 {
					continue
				}
				cc := e.Site.Common()
				var arg ssa.Value
				if cc.IsInvoke() {
					if idx == 0 {
						arg = cc.Value
					} else if idx-1 < len(cc.Args) {
						arg = cc.Args[idx-1]
					}
				} else if idx < len(cc.Args) {
					arg = cc.Args[idx]
				}
				slice(arg, seen, out, d+1)
			}
		case *ssa.FreeVar:
			slice(c14Cell(x), seen, out, d+1)
		case *ssa.Phi:
			for _, e := range x.Edges {
				slice(e, seen, out, d+1)
			}
		case *ssa.ChangeType:
			slice(x.X, seen, out, d+1)
		case *ssa.Convert:
			slice(x.X, seen, out, d+1)
		case *ssa.MakeInterface:
			slice(x.X, seen, out, d+1)
		case *ssa.TypeAssert:
			slice(x.X, seen, out, d+1)
		case *ssa.BinOp:
			if x.Op == token.ADD {
				slice(x.X, seen, out, d+1)
				slice(x.Y, seen, out, d+1)
			}
		case *ssa.Slice:
			if isStr(x.X.Type()) {
				*out = append(*out, finding{x, "a substring expression"})
				return
			}
			slice(x.X, seen, out, d+1)
		case *ssa.Alloc:
			if x.Referrers() != nil {
				for _, r := range *x.Referrers() {
					switch y := r.(type) {
					case *ssa.Store:
						if y.Addr == ssa.Value(x) {
							slice(y.Val, seen, out, d+1)
						}
					case *ssa.IndexAddr: // array behind a variadic slice
						if y.Referrers() != nil {
							for _, rr := range *y.Referrers() {
								if st, ok := rr.(*ssa.Store); ok && st.Addr == ssa.Value(y) {
									slice(st.Val, seen, out, d+1)
								}
							}
						}
					}
				}
			}
		case *ssa.Field:
			if st, ok := x.X.Type().Underlying().(*types.Struct); ok {
				f := st.Field(x.Field)
				if f == fFilePath {
					return // the validated value itself
				}
				for _, s := range fieldStores(c, f) {
					slice(s.Val, seen, out, d+1)
				}
			}
		case *ssa.UnOp:
			if x.Op != token.MUL {
				return
			}
			switch a := x.X.(type) {
			case *ssa.FieldAddr:
				f := kit.Canon(a).Field
				if f == fFilePath {
					return // the validated value itself
				}
				if f != nil {
					for _, s := range fieldStores(c, f) {
						slice(s.Val, seen, out, d+1)
					}
				}
			case *ssa.IndexAddr:
				slice(a.X, seen, out, d+1)
			default:
				slice(c14Cell(x.X), seen, out, d+1)
			}
		case *ssa.Index:
			slice(x.X, seen, out, d+1)
		case *ssa.Lookup:
			slice(x.X, seen, out, d+1)
		case *ssa.Global:
			for _, fn := range c.ModuleFunctions() {
				kit.Instrs(fn, func(ins ssa.Instruction) {
					if st, ok := ins.(*ssa.Store); ok && st.Addr == ssa.Value(x) {
						slice(st.Val, seen, out, d+1)
					}
				})
			}
		}
	}

	type site struct {
		fn  *ssa.Function
		ins ssa.CallInstruction
		obj *types.Func
		arg ssa.Value
	}
	var sites []site
	for _, fn := range c.ModuleFunctions() {
		kit.Instrs(fn, func(ins ssa.Instruction) {
			ci, ok := ins.(ssa.CallInstruction)
			if !ok {
				return
			}
			o := kit.CalleeObj(ci.Common())
			for _, ai := range pathArgs(o) {
				if ai < len(ci.Common().Args) && tainted(ci.Common().Args[ai]) {
					sites = append(sites, site{fn, ci, o, ci.Common().Args[ai]})
				}
			}
		})
	}
	sort.SliceStable(sites, func(i, j int) bool { return sites[i].ins.Pos() < sites[j].ins.Pos() })
	for _, s := range sites {
		callee := s.obj.Pkg().Name() + "." + s.obj.Name()
		key := k.key(s.fn, "validated path reaches "+callee)
		var fs []finding
		slice(s.arg, map[ssa.Value]bool{}, &fs, 0)
		if len(fs) == 0 {
			c.OK("R07.5", key, posOf(s.ins), "every data path from File.Path to this call consists of filepath.Join / Clean / Dir, concatenation and plain copies")
			continue
		}
		sort.SliceStable(fs, func(i, j int) bool { return fs[i].at.Pos() < fs[j].at.Pos() })
		f := fs[0]
		c.Bad("R07.5", key, posOf(s.ins), "the path given to %s is derived from metainfo.File.Path through %s (%s, in %s), which is not one of filepath.Join / Clean / Dir: the string is rewritten after NewInfo's duplicate detection and dot-dot test, so two different files of one torrent can resolve to the same OS path (e.g. trailing dots or spaces stripped) and the confinement facts no longer speak about the path that is opened",
			callee, f.what, c.Pos(posOf(f.at)), f.at.Parent().Name())
	}
	c.Floor("R07.5", "path-taking library calls reached by metainfo.File.Path", len(sites), 2)
}

package rules

import (
	"fmt"
	"go/constant"
	"go/token"
	"go/types"
	"regexp"
	"sort"
	"strings"

	"golang.org/x/tools/go/ssa"

	"rainverif/checker/kit"
)

func init() {
	register(&Property{
		ID: "C15",
		Explanation: "Decides structural necessary conditions of 'announces carry the torrent's true identity and follow the event discipline': " +
			"(R15.1) the identity fields (info-hash, peer id, port, counters) of tracker.Torrent and of the UDP announceRequest are written only by the first, initialising store of a value built in the same function; no byte writer (copy, binary.PutUintN, rand.Read, io.ReadFull ...) receives a sub-slice of them and their address does not escape; " +
			"(R15.2) one identity: every store to tracker.Torrent takes info-hash/peer id/port/counters from the torrent's own fields, the peer id given to both handshakers (and forwarded to btconn.Accept/Dial and writeHandshake) and the cache key prefix are loads of torrent.peerID, that field is written only in the constructor before the run loop starts, and the tracker.Torrent of every Tracker.Announce request originates from (*torrent).announcerFields; " +
			"(R15.3) request tables: the HTTP query's (key -> req.Torrent field) pairs equal the reference table with both hashes through percentEscape, the UDP announceRequest layout equals BEP 15 offsets/widths, each BEP 15 slot is initialised from the corresponding request field, it is encoded big-endian, event/action constants equal BEP 15 and the HTTP event names are indexed by the same constants; " +
			"(R15.4) event discipline: the first doAnnounce on every path of PeriodicalAnnouncer.Run carries EventStarted, EventCompleted is sent only in the completedC arm which nils completedC, an already closed completedC is nil-ed before the first announce, EventStopped literals occur only in StopAnnouncer.Run, the stop list receives a tracker only under HasAnnounced==true, HasAnnounced is stored only in the response arm and responses are delivered only for err==nil; " +
			"(R15.5) every tracker-controlled duration (AnnounceResponse.Interval/MinInterval, tracker.Error.RetryIn) that reaches a timer of the announcer is positive at the point of use or replaced by the client minimum. " +
			"NOT decided: inter-announce distance as a measured quantity, whole announce histories per tracker, the bytes actually put on the wire (percentEscape / encoding/binary are trusted), correctness of the counters themselves.",
		RuleText:    commonRuleText,
		Assumptions: append([]string{"encoding/binary.Write encodes struct fields in declaration order without padding; strings.Builder appends in call order", "BEP 3 / BEP 15 reference tables embedded in the checker are correct"}, commonAssumptions...),
		Run:         runC15,
	})
}

// c15Slots are the program objects the C15 rules are instantiated with.
type c15Slots struct {
	tTorrent, tAnnReq, tUDPReq *types.Named
	// tracker.Torrent fields
	fInfoHash, fPeerID, fPort, fUp, fDown, fLeft *types.Var
	// tracker.AnnounceRequest fields
	fReqTorrent, fReqEvent, fReqNumWant *types.Var
	// torrent.torrent fields
	ftInfoHash, ftPeerID, ftPort, ftUp, ftDown *types.Var
	announcerFields                            *types.Func
	trackerAnnounce                            *types.Func
}

func c15Resolve(c *kit.Ctx) *c15Slots {
	s := &c15Slots{}
	s.tTorrent = c.Named("internal/tracker", "Torrent")
	s.tAnnReq = c.Named("internal/tracker", "AnnounceRequest")
	s.tUDPReq = c.Named("internal/tracker/udptracker", "announceRequest")
	f := func(n string) *types.Var { return c.Field("internal/tracker", "Torrent", n) }
	s.fInfoHash, s.fPeerID, s.fPort, s.fUp, s.fDown, s.fLeft = f("InfoHash"), f("PeerID"), f("Port"), f("BytesUploaded"), f("BytesDownloaded"), f("BytesLeft")
	s.fReqTorrent = c.Field("internal/tracker", "AnnounceRequest", "Torrent")
	s.fReqEvent = c.Field("internal/tracker", "AnnounceRequest", "Event")
	s.fReqNumWant = c.Field("internal/tracker", "AnnounceRequest", "NumWant")
	g := func(n string) *types.Var { return c.Field("torrent", "torrent", n) }
	s.ftInfoHash, s.ftPeerID, s.ftPort, s.ftUp, s.ftDown = g("infoHash"), g("peerID"), g("port"), g("bytesUploaded"), g("bytesDownloaded")
	s.announcerFields = c.FuncObj("torrent", "(*torrent).announcerFields")
	s.trackerAnnounce = c.FuncObj("internal/tracker", "Tracker.Announce")
	return s
}

func runC15(c *kit.Ctx) {
	k := newKeyer()
	s := c15Resolve(c)
	c15Identity(c, k, s)
	c15OnePeerID(c, k, s)
	c15Wiring(c, k, s)
	c15HTTPTable(c, k, s)
	c15UDPTable(c, k, s)
	c15Events(c, k, s)
	c15Durations(c, k, s)
}

// ---- R15.1 identity fields are not mutated --------------------------------

func c15Identity(c *kit.Ctx, k *keyer, s *c15Slots) {
	id := map[*types.Var]string{}
	owner := map[*types.Var]*types.Named{}
	for _, f := range []*types.Var{s.fInfoHash, s.fPeerID, s.fPort, s.fUp, s.fDown, s.fLeft} {
		id[f] = "tracker.Torrent." + f.Name()
		owner[f] = s.tTorrent
	}
	for _, n := range []string{"InfoHash", "PeerID", "Downloaded", "Left", "Uploaded", "Port"} {
		f := c.Field("internal/tracker/udptracker", "announceRequest", n)
		id[f] = "udptracker.announceRequest." + n
		owner[f] = s.tUDPReq
	}
	nInit, nRead := 0, 0
	for _, fn := range c.ModuleFunctions() {
		fn := fn
		fresh := map[*types.Var]*kit.Flow{}
		freshFlow := func(f *types.Var) *kit.Flow {
			if fl, ok := fresh[f]; ok {
				return fl
			}
			fl := &kit.Flow{P: c.Prog, Fn: fn, Entry: true}
			fl.Instr = func(ins ssa.Instruction, in bool) bool {
				if a, ok := ins.(*ssa.Alloc); ok && derefNamed(a.Type()) == owner[f] {
					return true // a fresh value of the struct starts its life
				}
				if _, ok := kit.StoresField(ins, f); ok {
					return false
				}
				return in
			}
			fresh[f] = fl.Solve()
			return fl
		}
		kit.Instrs(fn, func(ins ssa.Instruction) {
			fa, ok := ins.(*ssa.FieldAddr)
			if !ok {
				return
			}
			_, f := c15StructOf(fa)
			name, ok := id[f]
			if !ok {
				return
			}
			for _, u := range c15AddrUses(fa) {
				switch u.Kind {
				case "load", "reader":
					nRead++
				case "store":
					key := k.key(fn, "store "+name)
					st := u.Ins.(*ssa.Store)
					switch {
					case c15AllocRoot(fa.X) == nil:
						c.Bad("R15.1", key, posOf(st), "%s is assigned through a pointer to a value that was not built in this function (%s): the identity carried by an existing request is mutated", name, kit.Canon(fa))
					case !c15BuiltHere(c15AllocRoot(fa.X), 0):
						c.Bad("R15.1", key, posOf(st), "%s is assigned in a local copy of a value that was not built in this function (parameter, call result or field): the identity taken from the torrent is replaced", name)
					case !freshFlow(f).Before(st):
						c.Bad("R15.1", key, posOf(st), "%s is overwritten after its initialising store on some path", name)
					default:
						nInit++
						c.OK("R15.1", key, posOf(st), "initialising store: first store to the field of a value built in this function, on every path")
					}
				default:
					c.Bad("R15.1", k.key(fn, "write into "+name), posOf(u.Ins),
						"bytes of %s are not left as initialised: %s (%s); every announce built from this value carries an identity that is not the torrent's", name, u.Kind, u.What)
				}
			}
		})
	}
	c.Floor("R15.1", "initialising stores to identity fields (announcerFields literal + BytesLeft arms + UDP announceRequest literal)", nInit, 13)
	c.Floor("R15.1", "reads of identity fields (transports)", nRead, 12)
}

// c15BuiltHere reports whether local a only ever holds values constructed in
// this function: it is never assigned a whole value that comes from outside
// (parameter, call result, field load), only composite literals / other
// locals built here.
func c15BuiltHere(a *ssa.Alloc, depth int) bool {
	if a == nil || a.Referrers() == nil || depth > 4 {
		return false
	}
	for _, r := range *a.Referrers() {
		st, ok := r.(*ssa.Store)
		if !ok || st.Addr != ssa.Value(a) {
			continue
		}
		if kc, ok := st.Val.(*ssa.Const); ok && kc.Value == nil {
			continue // zero value
		}
		b, _ := c15StoresOfLocal(st.Val)
		if b == nil || b == a || !c15BuiltHere(b, depth+1) {
			return false
		}
	}
	return true
}

// ---- R15.2 one peer id ----------------------------------------------------

func c15OnePeerID(c *kit.Ctx, k *keyer, s *c15Slots) {
	isT := func(f *types.Var) func(*kit.Expr) bool {
		return func(e *kit.Expr) bool { return e.Strip().IsField(f) }
	}
	counter := func(f *types.Var) func(*kit.Expr) bool {
		return func(e *kit.Expr) bool {
			e = e.Strip()
			return e.Kind == "call" && e.Name == "Count" && len(e.Args) == 1 && e.Args[0].IsField(f)
		}
	}
	bytesComplete := c.FuncObj("torrent", "(*torrent).bytesComplete")
	src := []struct {
		f    *types.Var
		ok   func(*kit.Expr) bool
		want string
	}{
		{s.fPeerID, isT(s.ftPeerID), "torrent.peerID"},
		{s.fInfoHash, isT(s.ftInfoHash), "torrent.infoHash"},
		{s.fPort, isT(s.ftPort), "torrent.port"},
		{s.fUp, counter(s.ftUp), "torrent.bytesUploaded.Count()"},
		{s.fDown, counter(s.ftDown), "torrent.bytesDownloaded.Count()"},
		{s.fLeft, func(e *kit.Expr) bool {
			if e.Kind == "const" {
				return true
			}
			return e.Kind == "binop" && e.Op == token.SUB && e.Args[1].IsCallTo(bytesComplete)
		}, "a constant or <length> - torrent.bytesComplete()"},
	}
	n := 0
	for _, p := range src {
		for _, st := range fieldStores(c, p.f) {
			n++
			v := kit.Canon(st.Val)
			c.Check(p.ok(v), "R15.2", k.key(st.Fn, "source of tracker.Torrent."+p.f.Name()), posOf(st.Store),
				"tracker.Torrent."+p.f.Name()+" = "+v.String(),
				"tracker.Torrent."+p.f.Name()+" is set from "+v.String()+", not from "+p.want+": announces carry a different identity than the torrent's")
		}
	}
	c.Floor("R15.2", "stores to tracker.Torrent fields", n, 7)

	// the id handed to the handshakers and on to the wire
	btAccept := c.Func("internal/btconn", "Accept")
	btDial := c.Func("internal/btconn", "Dial")
	writeHS := c.Func("internal/btconn", "writeHandshake")
	nh := 0
	for _, h := range []struct {
		pkg, name string
		next      *ssa.Function
	}{
		{"internal/handshaker/incominghandshaker", "(*IncomingHandshaker).Run", btAccept},
		{"internal/handshaker/outgoinghandshaker", "(*OutgoingHandshaker).Run", btDial},
	} {
		run := c.Func(h.pkg, h.name)
		idx := c15ParamIndex(run, "peerID")
		if idx < 0 {
			c.Bad("R15.2", kit.FuncName(run)+"/peerID parameter", run.Pos(), "handshaker Run has no peerID parameter")
			continue
		}
		sites := sortSites(c.CallSites(run.Object().(*types.Func)))
		for _, site := range sites {
			nh++
			v := kit.Canon(argOf(site.Instr.Common(), idx))
			c.Check(v.Strip().IsField(s.ftPeerID), "R15.2", k.key(site.Fn, "peer id to "+h.name), posOf(site.Instr),
				"handshaker receives "+v.String(),
				"handshaker receives "+v.String()+" as our peer id, not torrent.peerID: peers see a different id than trackers")
		}
		if len(sites) == 0 {
			c.Bad("R15.2", kit.FuncName(run)+"/started", run.Pos(), "no call site of the handshaker found")
		}
		nh += c15Forward(c, k, "R15.2", run, "peerID", h.next, "ourID")
		nh += c15Forward(c, k, "R15.2", h.next, "ourID", writeHS, "id")
	}
	c.Floor("R15.2", "peer id hand-over sites (2 handshaker starts, Accept, Dial, 2 writeHandshake)", nh, 6)

	// cache key prefix
	cpNew := c.Func("internal/cachedpiece", "New")
	nc := 0
	if idx := c15ParamIndex(cpNew, "peerID"); idx >= 0 {
		for _, site := range sortSites(c.CallSites(cpNew.Object().(*types.Func))) {
			nc++
			v := kit.Canon(argOf(site.Instr.Common(), idx))
			c.Check(v.Strip().IsField(s.ftPeerID), "R15.2", k.key(site.Fn, "cache key prefix"), posOf(site.Instr),
				"cache key prefix is "+v.String(), "cache key prefix is "+v.String()+", not torrent.peerID")
		}
	}
	c.Floor("R15.2", "cachedpiece.New sites", nc, 1)

	// torrent.peerID is written only in the constructor, before the loop starts
	run := c.FuncObj("torrent", "(*torrent).run")
	var ctor *ssa.Function
	var goRun ssa.Instruction
	for _, site := range c.CallSites(run) {
		if g, ok := site.Instr.(*ssa.Go); ok {
			ctor, goRun = site.Fn, g
		}
	}
	if ctor == nil {
		c.Bad("R15.2", "torrent:constructor", 0, "no `go (*torrent).run` found: constructor not identified")
		return
	}
	notStarted := c.Pending(ctor, func(i ssa.Instruction) bool { return i == goRun }, func(ssa.Instruction) bool { return false })
	var inCtor func(fn *ssa.Function, depth int) bool
	inCtor = func(fn *ssa.Function, depth int) bool {
		// every caller is the constructor, before the loop goroutine starts
		edges := c.CallersOf(fn)
		if len(edges) == 0 || depth > 3 {
			return false
		}
		for _, e := range edges {
			cf := e.Caller.Func
			switch {
			case e.Site == nil:
				return false
			case cf == ctor:
				if _, isGo := e.Site.(*ssa.Go); isGo || !notStarted.Before(e.Site) {
					return false
				}
			case !inCtor(cf, depth+1):
				return false
			}
		}
		return true
	}
	nw := 0
	for _, fn := range c.ModuleFunctions() {
		fn := fn
		kit.Instrs(fn, func(ins ssa.Instruction) {
			fa, ok := ins.(*ssa.FieldAddr)
			if !ok {
				return
			}
			if _, f := c15StructOf(fa); f != s.ftPeerID {
				return
			}
			for _, u := range c15AddrUses(fa) {
				if u.Kind == "load" || u.Kind == "reader" {
					continue
				}
				nw++
				key := k.key(fn, "write torrent.peerID")
				switch {
				case u.Kind == "escape":
					c.Bad("R15.2", key, posOf(u.Ins), "address of torrent.peerID escapes (%s)", u.What)
				case fn == ctor && notStarted.Before(u.Ins):
					c.OK("R15.2", key, posOf(u.Ins), "peer id written (%s %s) in the constructor before the run loop is started", u.Kind, u.What)
				case fn != ctor && inCtor(fn, 0):
					c.OK("R15.2", key, posOf(u.Ins), "peer id written (%s %s) in a helper called only from the constructor before the run loop is started", u.Kind, u.What)
				default:
					c.Bad("R15.2", key, posOf(u.Ins), "torrent.peerID is written (%s %s) outside the constructor: trackers and peers that were contacted earlier know a different id", u.Kind, u.What)
				}
			}
		})
	}
	c.Floor("R15.2", "writes of torrent.peerID (prefix copy, random tail)", nw, 2)
}

// c15Forward checks that in every call from caller (closures included) to
// callee the argument bound to callee's parameter cname is caller's
// parameter pname. Returns the number of call sites.
func c15Forward(c *kit.Ctx, k *keyer, rule string, caller *ssa.Function, pname string, callee *ssa.Function, cname string) int {
	pi, ci := c15ParamIndex(caller, pname), c15ParamIndex(callee, cname)
	if pi < 0 || ci < 0 {
		c.Bad(rule, kit.FuncName(caller)+"/forward "+pname+"->"+callee.Name()+"."+cname, caller.Pos(), "parameter %s of %s or %s of %s not found", pname, caller.Name(), cname, callee.Name())
		return 0
	}
	// the call may sit in caller itself or in a same-package helper that only
	// caller (transitively) calls and that receives caller's parameter
	// unchanged: the argument is followed up through the helper's call sites
	var isCallerParam func(fn *ssa.Function, v ssa.Value, depth int) bool
	isCallerParam = func(fn *ssa.Function, v ssa.Value, depth int) bool {
		if fn == caller {
			return c15IsParam(v, caller, pi)
		}
		if depth <= 0 || fn.Parent() != nil {
			return false
		}
		for j := range fn.Params {
			if !c15IsParam(v, fn, j) {
				continue
			}
			sites := c.StaticCallSites(fn)
			if len(sites) == 0 {
				return false
			}
			for _, site := range sites {
				call, _ := site.(*ssa.Call)
				if call == nil || j >= len(call.Call.Args) || !isCallerParam(call.Parent(), call.Call.Args[j], depth-1) {
					return false
				}
			}
			return true
		}
		return false
	}
	n := 0
	seen := map[ssa.Instruction]bool{}
	visit := func(ins ssa.Instruction) {
		cc := kit.CallOf(ins)
		if cc == nil || cc.StaticCallee() != callee || seen[ins] {
			return
		}
		seen[ins] = true
		n++
		fn := ins.Parent()
		arg := argOf(cc, ci)
		ok := isCallerParam(fn, arg, 2)
		c.Check(ok, rule, k.key(fn, "forward "+pname+" to "+callee.Name()), posOf(ins),
			callee.Name()+"."+cname+" receives the parameter "+pname+" of "+caller.Name()+" unchanged",
			callee.Name()+"."+cname+" receives "+kit.Canon(arg).String()+", not the parameter "+pname+" of "+caller.Name())
	}
	for _, fn := range kit.WithAnon(caller) {
		kit.Instrs(fn, visit)
	}
	c.InstrsDeep(caller, 2, false, visit)
	if n == 0 {
		c.Bad(rule, kit.FuncName(caller)+"/forward "+pname+" to "+callee.Name(), caller.Pos(), "%s does not call %s (nor does a helper it calls): the hand-over chain of the peer id is broken or changed", caller.Name(), callee.Name())
	}
	return n
}

// c15OnlyUsedFrom: fn is root, a closure of root, or a same-package named
// function every use of which (call, go, defer; never as a value) is inside
// such a function (depth levels).
func c15OnlyUsedFrom(c *kit.Ctx, fn, root *ssa.Function, depth int) bool {
	if fnIn(fn, root) {
		return true
	}
	for fn.Parent() != nil {
		fn = fn.Parent()
	}
	obj, _ := fn.Object().(*types.Func)
	if obj == nil || depth <= 0 || pkgOf(fn) != pkgOf(root) || len(c.FuncRefs(obj)) > 0 {
		return false
	}
	sites := c.CallSites(obj)
	if len(sites) == 0 {
		return false
	}
	for _, s := range sites {
		if !c15OnlyUsedFrom(c, s.Fn, root, depth-1) {
			return false
		}
	}
	return true
}

// ---- R15.2 (wiring) every announce request carries the announcerFields snapshot

type c15Origin struct {
	c    *kit.Ctx
	s    *c15Slots
	seen map[ssa.Value]bool
}

func c15StripVal(v ssa.Value) ssa.Value {
	for {
		switch x := v.(type) {
		case *ssa.ChangeType:
			v = x.X
		case *ssa.MakeInterface:
			v = x.X
		default:
			return v
		}
	}
}

// callerArgs returns, for parameter idx of fn, the argument at every call
// site in the call graph. ok=false if a site cannot be resolved.
func (o *c15Origin) callerArgs(fn *ssa.Function, idx int) ([]ssa.Value, bool) {
	var out []ssa.Value
	for _, e := range o.c.CallersOf(fn) {
		if e.Site == nil {
			return nil, false
		}
		if !kit.InModule(pkgOf(e.Caller.Func)) {
			continue
		}
		cc := e.Site.Common()
		i := idx
		if cc.IsInvoke() {
			i--
		}
		if i < 0 || i >= len(cc.Args) {
			return nil, false
		}
		out = append(out, cc.Args[i])
	}
	return out, len(out) > 0
}

func c15ParamIndexOf(p *ssa.Parameter) int {
	for i, q := range p.Parent().Params {
		if q == p {
			return i
		}
	}
	return -1
}

// torrentOK: v is a tracker.Torrent value produced by announcerFields.
func (o *c15Origin) torrentOK(v ssa.Value) (bool, string) {
	v = c15StripVal(v)
	if o.seen[v] {
		return true, ""
	}
	o.seen[v] = true
	switch x := v.(type) {
	case *ssa.Call:
		if kit.CalleeObj(&x.Call) == o.s.announcerFields {
			return true, ""
		}
		if !x.Call.IsInvoke() && x.Call.StaticCallee() == nil {
			if _, isB := x.Call.Value.(*ssa.Builtin); !isB {
				return o.funcOK(x.Call.Value)
			}
		}
		return false, "result of " + kit.Canon(x).String()
	case *ssa.Parameter:
		args, ok := o.callerArgs(x.Parent(), c15ParamIndexOf(x))
		if !ok {
			return false, "parameter " + x.Name() + " of " + x.Parent().Name() + " with unresolved callers"
		}
		for _, a := range args {
			if ok, why := o.torrentOK(a); !ok {
				return false, why
			}
		}
		return true, ""
	case *ssa.UnOp:
		if x.Op != token.MUL {
			break
		}
		switch a := x.X.(type) {
		case *ssa.Alloc:
			why := ""
			ok := c15OnlyStores(a, func(val ssa.Value) bool {
				ok, w := o.torrentOK(val)
				if !ok {
					why = w
				}
				return ok
			})
			if !ok && why == "" {
				why = "local " + a.Comment + " is modified"
			}
			return ok, why
		case *ssa.FieldAddr:
			_, f := c15StructOf(a)
			sts := fieldStores(o.c, f)
			if len(sts) == 0 {
				return false, "field " + f.Name() + " is never stored"
			}
			for _, st := range sts {
				if ok, why := o.torrentOK(st.Val); !ok {
					return false, "field " + f.Name() + " <- " + why
				}
			}
			return true, ""
		}
	}
	return false, kit.Canon(v).String()
}

// funcOK: v is a func() tracker.Torrent value bound to announcerFields.
func (o *c15Origin) funcOK(v ssa.Value) (bool, string) {
	v = c15StripVal(v)
	if m := c15BoundMethod(v); m != nil {
		if m == o.s.announcerFields {
			return true, ""
		}
		return false, "function value " + m.Name()
	}
	switch x := v.(type) {
	case *ssa.Parameter:
		args, ok := o.callerArgs(x.Parent(), c15ParamIndexOf(x))
		if !ok {
			return false, "parameter " + x.Name() + " with unresolved callers"
		}
		for _, a := range args {
			if ok, why := o.funcOK(a); !ok {
				return false, why
			}
		}
		return true, ""
	case *ssa.UnOp:
		if fa, ok := x.X.(*ssa.FieldAddr); ok && x.Op == token.MUL {
			_, f := c15StructOf(fa)
			sts := fieldStores(o.c, f)
			if len(sts) == 0 {
				return false, "field " + f.Name() + " is never stored"
			}
			for _, st := range sts {
				if ok, why := o.funcOK(st.Val); !ok {
					return false, "field " + f.Name() + " <- " + why
				}
			}
			return true, ""
		}
	}
	return false, "function value " + kit.Canon(v).String()
}

// reqOK: v is an AnnounceRequest whose Torrent is the snapshot (or the
// request parameter of a forwarding Tracker implementation).
func (o *c15Origin) reqOK(v ssa.Value, fn *ssa.Function) (bool, string) {
	v = c15StripVal(v)
	if p, ok := v.(*ssa.Parameter); ok {
		if fn.Object() != nil && fn.Object().Name() == o.s.trackerAnnounce.Name() && types.Identical(p.Type(), o.s.tAnnReq) {
			return true, "request parameter forwarded by a Tracker implementation (its callers are checked)"
		}
		return false, "parameter " + p.Name()
	}
	a, whole := c15StoresOfLocal(v)
	if a == nil {
		return false, kit.Canon(v).String()
	}
	fs := c15FieldStoresIn(a, o.s.fReqTorrent)
	if len(fs)+len(whole) == 0 {
		return false, "request without a Torrent"
	}
	for _, st := range fs {
		if ok, why := o.torrentOK(st.Val); !ok {
			return false, "AnnounceRequest.Torrent <- " + why
		}
	}
	for _, st := range whole {
		if ok, why := o.reqOK(st.Val, fn); !ok {
			return false, why
		}
	}
	return true, "AnnounceRequest.Torrent originates from (*torrent).announcerFields"
}

func c15Wiring(c *kit.Ctx, k *keyer, s *c15Slots) {
	n := 0
	for _, site := range sortSites(c.CallSites(s.trackerAnnounce)) {
		n++
		o := &c15Origin{c: c, s: s, seen: map[ssa.Value]bool{}}
		ok, why := o.reqOK(argOf(site.Instr.Common(), 2), site.Fn)
		key := k.key(site.Fn, "Tracker.Announce request")
		if ok {
			c.OK("R15.2", key, posOf(site.Instr), "%s", why)
		} else {
			c.Bad("R15.2", key, posOf(site.Instr), "the request given to Tracker.Announce does not carry the announcerFields snapshot of the torrent: %s", why)
		}
	}
	c.Floor("R15.2", "Tracker.Announce invoke sites (periodic, stop, tier)", n, 3)
	// transports receive the request unchanged
	udpAnn := c.Func("internal/tracker/udptracker", "(*UDPTracker).Announce")
	c15Forward(c, k, "R15.2", udpAnn, "req", c.Func("internal/tracker/udptracker", "newTransportRequest"), "req")
}

// ---- R15.3 request tables: HTTP --------------------------------------------

var c15KeyRE = regexp.MustCompile(`[?&]([A-Za-z_]+)=$`)

// c15ReqField reports whether e is req.Torrent.<f> (f a tracker.Torrent
// field) or req.<f> (f an AnnounceRequest field), req being parameter idx of
// fn.
func c15ReqField(e *kit.Expr, s *c15Slots, f *types.Var, fn *ssa.Function, idx int) bool {
	if !e.IsField(f) {
		return false
	}
	b := e.Base()
	if f != s.fReqEvent && f != s.fReqNumWant {
		if !b.IsField(s.fReqTorrent) {
			// a local copy `tor := req.Torrent` that is never modified
			var a *ssa.Alloc
			switch {
			case b.Kind == "alloc":
				a, _ = b.V.(*ssa.Alloc)
			case b.Kind == "deref" && b.Args[0].Kind == "alloc":
				a, _ = b.Args[0].V.(*ssa.Alloc)
			}
			var src *kit.Expr
			if a == nil || !c15OnlyStores(a, func(v ssa.Value) bool { src = kit.Canon(v); return src.IsField(s.fReqTorrent) }) {
				return false
			}
			b = src
		}
		b = b.Base()
	}
	switch b.Kind {
	case "param":
		return idx < len(fn.Params) && b.V == ssa.Value(fn.Params[idx])
	case "alloc":
		return c15AllocIsParam(b.V.(*ssa.Alloc), fn, idx)
	case "deref":
		return b.Args[0].Kind == "alloc" && c15AllocIsParam(b.Args[0].V.(*ssa.Alloc), fn, idx)
	}
	return false
}

func c15HTTPTable(c *kit.Ctx, k *keyer, s *c15Slots) {
	ann := c.Func("internal/tracker/httptracker", "(*HTTPTracker).Announce")
	ri := c15ParamIndex(ann, "req")
	writeString := c.FuncObj("strings", "(*Builder).WriteString")
	percentEscape := c.FuncObj("internal/tracker/httptracker", "percentEscape")
	itoa := c.FuncObj("strconv", "Itoa")
	formatInt := c.FuncObj("strconv", "FormatInt")
	evString := c.FuncObj("internal/tracker", "Event.String")
	hexEnc := c.FuncObj("encoding/hex", "EncodeToString")

	// the query may be built by Announce itself or by same-package helpers that
	// receive Announce's request value (announceURL(req), ...): every builder
	// is scanned with its own request parameter index.
	builders := c15QueryBuilders(c, ann, ri)
	reqIdx := func(fn *ssa.Function) int {
		for _, b := range builders {
			if b.fn == fn {
				return b.ri
			}
		}
		return -1
	}
	// WriteString calls per block, in order
	type ws struct {
		ins ssa.Instruction
		arg ssa.Value
	}
	perBlock := map[*ssa.BasicBlock][]ws{}
	var all []ws
	for _, b := range builders {
		kit.Instrs(b.fn, func(ins ssa.Instruction) {
			if kit.IsCall(ins, writeString) {
				w := ws{ins, argOf(kit.CallOf(ins), 1)}
				perBlock[ins.Block()] = append(perBlock[ins.Block()], w)
				all = append(all, w)
			}
		})
	}
	next := func(w ws) *ws {
		l := perBlock[w.ins.Block()]
		for i := range l {
			if l[i].ins == w.ins && i+1 < len(l) {
				return &l[i+1]
			}
		}
		b := w.ins.Block()
		for hops := 0; hops < 8 && len(b.Succs) == 1; hops++ {
			b = b.Succs[0]
			if l := perBlock[b]; len(l) > 0 {
				return &l[0]
			}
		}
		return nil
	}
	type pair struct {
		key ws
		val *ws
	}
	table := map[string][]pair{}
	for _, w := range all {
		str, ok := constString(kit.Canon(w.arg))
		if !ok {
			continue
		}
		m := c15KeyRE.FindStringSubmatch(str)
		if m == nil {
			continue
		}
		table[m[1]] = append(table[m[1]], pair{w, next(w)})
	}
	// the builder in which the values of the current pair are evaluated
	cur := ann
	field := func(e *kit.Expr, f *types.Var) bool { return c15ReqField(e.Strip(), s, f, cur, reqIdx(cur)) }
	hash := func(f *types.Var) func(*kit.Expr) bool {
		return func(e *kit.Expr) bool { return e.IsCallTo(percentEscape) && len(e.Args) == 1 && field(e.Args[0], f) }
	}
	num := func(f *types.Var) func(*kit.Expr) bool {
		return func(e *kit.Expr) bool {
			if e.IsCallTo(itoa) && len(e.Args) == 1 {
				return field(e.Args[0], f)
			}
			if e.IsCallTo(formatInt) && len(e.Args) == 2 {
				b, ok := e.Args[1].IntConst()
				return ok && b == 10 && field(e.Args[0], f)
			}
			return false
		}
	}
	ref := []struct {
		key  string
		ok   func(*kit.Expr) bool
		want string
	}{
		{"info_hash", hash(s.fInfoHash), "percentEscape(req.Torrent.InfoHash)"},
		{"peer_id", hash(s.fPeerID), "percentEscape(req.Torrent.PeerID)"},
		{"port", num(s.fPort), "decimal req.Torrent.Port"},
		{"uploaded", num(s.fUp), "decimal req.Torrent.BytesUploaded"},
		{"downloaded", num(s.fDown), "decimal req.Torrent.BytesDownloaded"},
		{"left", num(s.fLeft), "decimal req.Torrent.BytesLeft"},
		{"numwant", num(s.fReqNumWant), "decimal req.NumWant"},
		{"event", func(e *kit.Expr) bool {
			return e.IsCallTo(evString) && len(e.Args) == 1 && field(e.Args[0], s.fReqEvent)
		}, "req.Event.String()"},
		{"key", func(e *kit.Expr) bool {
			return e.IsCallTo(hexEnc) && len(e.Args) == 1 && e.Args[0].Kind == "slice" && field(e.Args[0].Args[0], s.fPeerID)
		}, "hex of a sub-slice of req.Torrent.PeerID"},
	}
	n := 0
	for _, r := range ref {
		ps := table[r.key]
		if len(ps) == 0 {
			c.Bad("R15.3", kit.FuncName(ann)+"/query "+r.key, ann.Pos(), "HTTP announce query has no %q parameter (BEP 3)", r.key)
			continue
		}
		for _, p := range ps {
			n++
			key := k.key(ann, "query "+r.key)
			if p.val == nil {
				c.Bad("R15.3", key, posOf(p.key.ins), "query key %q is not followed by a value write", r.key)
				continue
			}
			v := kit.Canon(p.val.arg)
			cur = p.val.ins.Parent()
			c.Check(r.ok(v), "R15.3", key, posOf(p.val.ins), r.key+"="+v.String(),
				"HTTP query parameter "+r.key+" is written from "+v.String()+", reference (BEP 3) is "+r.want)
		}
	}
	c.Floor("R15.3", "HTTP query (key,value) pairs extracted", n, 10)
	// event is written only for a non-empty event
	evNone := c.Const("internal/tracker", "EventNone")
	evW, _ := constant.Int64Val(evNone.Val())
	guards := map[*ssa.Function]*kit.Flow{}
	guardIn := func(fn *ssa.Function) *kit.Flow {
		if g, ok := guards[fn]; ok {
			return g
		}
		idx := reqIdx(fn)
		g := c.AtomFlow(fn, func(a kit.Atom) bool {
			if a.Op != token.NEQ || idx < 0 || !c15ReqField(a.L.Strip(), s, s.fReqEvent, fn, idx) {
				return false
			}
			v, ok := a.R.Strip().IntConst()
			return ok && v == evW
		}, nil)
		guards[fn] = g
		return g
	}
	// the guard holds at the write, or (the request being an unmodified
	// by-value parameter of every builder) at every call site of the builder
	var guarded func(ins ssa.Instruction, up int) bool
	guarded = func(ins ssa.Instruction, up int) bool {
		fn := ins.Parent()
		if guardIn(fn).Before(ins) {
			return true
		}
		if fn == ann || up <= 0 {
			return false
		}
		sites := c.StaticCallSites(fn)
		if len(sites) == 0 {
			return false
		}
		for _, site := range sites {
			if site == nil || !guarded(site, up-1) {
				return false
			}
		}
		return true
	}
	for _, p := range table["event"] {
		c.Check(guarded(p.key.ins, 2), "R15.3", k.key(ann, "event guard"), posOf(p.key.ins),
			"event parameter written only under req.Event != EventNone", "event parameter is written also for EventNone (regular announces must carry no event)")
	}
}

// c15QB is a function that takes part in building the HTTP announce query
// together with the index of the parameter that holds Announce's request.
type c15QB struct {
	fn *ssa.Function
	ri int
}

// c15QueryBuilders returns Announce and the same-package functions (two call
// levels) that are only called statically from builders with the builder's
// own request value as an argument.
func c15QueryBuilders(c *kit.Ctx, ann *ssa.Function, ri int) []c15QB {
	out := []c15QB{{ann, ri}}
	idxOf := func(fn *ssa.Function) int {
		for _, b := range out {
			if b.fn == fn {
				return b.ri
			}
		}
		return -1
	}
	for level := 0; level < 2; level++ {
		var add []c15QB
		for _, b := range out {
			kit.Instrs(b.fn, func(ins ssa.Instruction) {
				call, ok := ins.(*ssa.Call)
				if !ok {
					return
				}
				g := call.Call.StaticCallee()
				if g == nil || g.Blocks == nil || g == ann || idxOf(g) >= 0 || pkgOf(g) != pkgOf(ann) {
					return
				}
				for j, a := range call.Call.Args {
					if j >= len(g.Params) || !c15IsParam(a, b.fn, b.ri) {
						continue
					}
					// every call site hands over the request of a builder
					okAll := true
					for _, site := range c.StaticCallSites(g) {
						if site == nil {
							okAll = false
							break
						}
						pi := idxOf(site.Parent())
						sc := site.(*ssa.Call)
						if pi < 0 || j >= len(sc.Call.Args) || !c15IsParam(sc.Call.Args[j], site.Parent(), pi) {
							okAll = false
						}
					}
					dup := false
					for _, x := range add {
						if x.fn == g {
							dup = true
						}
					}
					if okAll && !dup {
						add = append(add, c15QB{g, j})
					}
					return
				}
			})
		}
		out = append(out, add...)
	}
	return out
}

// ---- R15.3 request tables: UDP ---------------------------------------------

type c15Leaf struct {
	path  string
	f     *types.Var
	off   int
	width int
}

func c15BinSize(t types.Type) int {
	switch u := t.Underlying().(type) {
	case *types.Basic:
		switch u.Kind() {
		case types.Int8, types.Uint8, types.Bool:
			return 1
		case types.Int16, types.Uint16:
			return 2
		case types.Int32, types.Uint32, types.Float32:
			return 4
		case types.Int64, types.Uint64, types.Float64:
			return 8
		}
	case *types.Array:
		if n := c15BinSize(u.Elem()); n > 0 {
			return n * int(u.Len())
		}
	case *types.Struct:
		n := 0
		for i := 0; i < u.NumFields(); i++ {
			m := c15BinSize(u.Field(i).Type())
			if m < 0 {
				return -1
			}
			n += m
		}
		return n
	}
	return -1
}

// c15Flatten lists the leaves of a struct in encoding/binary order.
func c15Flatten(t types.Type, prefix string, off int) ([]c15Leaf, int) {
	st := t.Underlying().(*types.Struct)
	var out []c15Leaf
	for i := 0; i < st.NumFields(); i++ {
		f := st.Field(i)
		if sub, ok := f.Type().Underlying().(*types.Struct); ok && sub != nil {
			l, o := c15Flatten(f.Type(), prefix+f.Name()+".", off)
			out = append(out, l...)
			off = o
			continue
		}
		w := c15BinSize(f.Type())
		out = append(out, c15Leaf{prefix + f.Name(), f, off, w})
		if w > 0 {
			off += w
		}
	}
	return out, off
}

func c15UDPTable(c *kit.Ctx, k *keyer, s *c15Slots) {
	const udp = "internal/tracker/udptracker"
	ntr := c.Func(udp, "newTransportRequest")
	ri := c15ParamIndex(ntr, "req")
	leaves, total := c15Flatten(s.tUDPReq, "", 0)
	// BEP 15 announce request
	bep := []struct {
		name  string
		off   int
		width int
	}{
		{"connection_id", 0, 8}, {"action", 8, 4}, {"transaction_id", 12, 4}, {"info_hash", 16, 20}, {"peer_id", 36, 20},
		{"downloaded", 56, 8}, {"left", 64, 8}, {"uploaded", 72, 8}, {"event", 80, 4}, {"ip", 84, 4}, {"key", 88, 4},
		{"num_want", 92, 4}, {"port", 96, 2},
	}
	var got []string
	for _, l := range leaves {
		got = append(got, fmt.Sprintf("%s@%d+%d", l.path, l.off, l.width))
	}
	okLayout := len(leaves) >= len(bep) && (total == 98 || total == 100)
	for i, b := range bep {
		if i >= len(leaves) || leaves[i].off != b.off || leaves[i].width != b.width {
			okLayout = false
		}
	}
	if len(leaves) > len(bep)+1 {
		okLayout = false
	}
	key := "udptracker.announceRequest/layout"
	if okLayout {
		c.OK("R15.3", key, s.tUDPReq.Obj().Pos(), "flattened layout equals BEP 15 offsets/widths: %s", strings.Join(got, " "))
	} else {
		c.Bad("R15.3", key, s.tUDPReq.Obj().Pos(), "UDP announce request layout %s differs from BEP 15 (connection_id@0+8 action@8+4 transaction_id@12+4 info_hash@16+20 peer_id@36+20 downloaded@56+8 left@64+8 uploaded@72+8 event@80+4 ip@84+4 key@88+4 num_want@92+4 port@96+2)", strings.Join(got, " "))
	}
	// slot -> source pairs (by BEP 15 slot index, independent of field names)
	field := func(e *kit.Expr, f *types.Var) bool { return c15ReqField(e.Strip(), s, f, ntr, ri) }
	slots := []struct {
		idx  int
		src  *types.Var
		want string
	}{
		{3, s.fInfoHash, "req.Torrent.InfoHash"}, {4, s.fPeerID, "req.Torrent.PeerID"}, {5, s.fDown, "req.Torrent.BytesDownloaded"},
		{6, s.fLeft, "req.Torrent.BytesLeft"}, {7, s.fUp, "req.Torrent.BytesUploaded"}, {8, s.fReqEvent, "req.Event"},
		{11, s.fReqNumWant, "req.NumWant"}, {12, s.fPort, "req.Torrent.Port"},
	}
	n := 0
	for _, sl := range slots {
		if sl.idx >= len(leaves) {
			continue
		}
		l := leaves[sl.idx]
		sts := fieldStores(c, l.f)
		if len(sts) == 0 {
			c.Bad("R15.3", "udptracker.announceRequest/slot "+bep[sl.idx].name, l.f.Pos(), "BEP 15 slot %s (field %s) is never initialised: it is sent as zero", bep[sl.idx].name, l.path)
		}
		for _, st := range sts {
			n++
			v := kit.Canon(st.Val)
			c.Check(field(v, sl.src), "R15.3", k.key(st.Fn, "slot "+bep[sl.idx].name), posOf(st.Store),
				fmt.Sprintf("slot %s@%d (field %s) = %s", bep[sl.idx].name, l.off, l.path, v),
				fmt.Sprintf("BEP 15 slot %s@%d (field %s) is initialised from %s, reference is %s", bep[sl.idx].name, l.off, l.path, v, sl.want))
		}
	}
	c.Floor("R15.3", "UDP slot initialisers", n, 8)
	// action slot
	actAnn := c.Const(udp, "actionAnnounce")
	if len(leaves) > 1 {
		na := 0
		kit.Instrs(ntr, func(ins ssa.Instruction) {
			if v, ok := kit.StoresField(ins, leaves[1].f); ok {
				na++
				x, isC := kit.Canon(v).Strip().IntConst()
				w, _ := constant.Int64Val(actAnn.Val())
				c.Check(isC && x == w && w == 1, "R15.3", k.key(ntr, "slot action"), posOf(ins), "action = 1 (announce)", "announce request action is not the BEP 15 announce action 1")
			}
		})
		c.Floor("R15.3", "action stores in newTransportRequest", na, 1)
	}
	// constants
	consts := []struct {
		pkg, name string
		want      int64
	}{
		{"internal/tracker", "EventNone", 0}, {"internal/tracker", "EventCompleted", 1}, {"internal/tracker", "EventStarted", 2}, {"internal/tracker", "EventStopped", 3},
		{udp, "actionConnect", 0}, {udp, "actionAnnounce", 1}, {udp, "actionError", 3}, {udp, "connectionIDMagic", 0x41727101980},
	}
	for _, k0 := range consts {
		cv := c.Const(k0.pkg, k0.name)
		v, exact := constant.Int64Val(cv.Val())
		c.Check(exact && v == k0.want, "R15.3", "const "+k0.name, cv.Pos(), fmt.Sprintf("%s = %d as in BEP 15", k0.name, k0.want), fmt.Sprintf("%s = %s, BEP 15 says %d", k0.name, cv.Val(), k0.want))
	}
	// the struct that is encoded is this one, big-endian
	wt := c.Func(udp, "(*transferAnnounceRequest).WriteTo")
	binWrite := c.FuncObj("encoding/binary", "Write")
	bigEndian := c.Global("encoding/binary", "BigEndian")
	nw := 0
	kit.Instrs(wt, func(ins ssa.Instruction) {
		if !kit.IsCall(ins, binWrite) {
			return
		}
		nw++
		cc := kit.CallOf(ins)
		ord := kit.Canon(cc.Args[1]).Strip()
		data := c15StripVal(cc.Args[2])
		okOrd := ord.Kind == "deref" && ord.Args[0].Kind == "global" && ord.Args[0].Obj == types.Object(bigEndian)
		okData := derefNamed(data.Type()) == s.tUDPReq
		c.Check(okOrd && okData, "R15.3", k.key(wt, "binary.Write"), posOf(ins), "announceRequest encoded with binary.Write(BigEndian)",
			"announce packet is not binary.Write(BigEndian, *announceRequest): order="+ord.String()+" data type="+data.Type().String())
	})
	c.Floor("R15.3", "binary.Write in transferAnnounceRequest.WriteTo", nw, 1)

	// HTTP event names indexed by the same constants
	names := map[int64]string{}
	evNames := c.Global("internal/tracker", "eventNames")
	initFn := c.Pkg("internal/tracker").Func("init")
	if initFn != nil {
		kit.Instrs(initFn, func(ins ssa.Instruction) {
			st, ok := ins.(*ssa.Store)
			if !ok {
				return
			}
			g, ok := st.Addr.(*ssa.Global)
			if !ok || g.Object() != types.Object(evNames) {
				return
			}
			a, _ := c15StoresOfLocal(st.Val)
			if a == nil || a.Referrers() == nil {
				return
			}
			for _, r := range *a.Referrers() {
				ia, ok := r.(*ssa.IndexAddr)
				if !ok || ia.Referrers() == nil {
					continue
				}
				i, ok := kit.ConstInt(ia.Index)
				if !ok {
					continue
				}
				for _, r2 := range *ia.Referrers() {
					if st2, ok := r2.(*ssa.Store); ok && st2.Addr == ssa.Value(ia) {
						if str, ok := constString(kit.Canon(st2.Val)); ok {
							names[i] = str
						}
					}
				}
			}
		})
	}
	var idxs []int64
	for i := range names {
		idxs = append(idxs, i)
	}
	sort.Slice(idxs, func(i, j int) bool { return idxs[i] < idxs[j] })
	okNames := names[1] == "completed" && names[2] == "started" && names[3] == "stopped"
	desc := ""
	for _, i := range idxs {
		desc += fmt.Sprintf("%d:%q ", i, names[i])
	}
	c.Check(okNames, "R15.3", "tracker.eventNames", evNames.Pos(), "HTTP event names "+desc+"agree with BEP 3 names at the BEP 15 numbers", "HTTP event names table "+desc+"does not put completed/started/stopped at 1/2/3: the wrong event name is sent")
	evStr := c.Func("internal/tracker", "(Event).String")
	okStr := false
	for _, r := range returnsOf(evStr) {
		e := kit.Canon(r.Results[0])
		okStr = e.Kind == "index" && e.Args[0].Kind == "global" && e.Args[0].Obj == types.Object(evNames) && e.Args[1].Strip().Kind == "param"
	}
	c.Check(okStr, "R15.3", kit.FuncName(evStr)+"/index", evStr.Pos(), "Event.String() returns eventNames[e]", "Event.String() does not return eventNames[e]")
}

package rules

import (
	"fmt"
	"go/token"
	"go/types"
	"sort"
	"strings"

	"golang.org/x/tools/go/ssa"

	"rainverif/checker/kit"
)

// Rules from the third seeding round.

// ---- map key agreement (R01.12 / R10.6 / R18.7) ----------------------------
//
// The ban set, the connected-IP set and similar string-keyed maps of the torrent
// are written at one site and consulted at others; the entry only does its job
// if every site derives the key the same way. Seeded: `bannedPeerIPs[x.String()]`
// ("ip:port") where the set is keyed by `x.IP.String()`: the filter never
// matches and a banned peer is dialled again; `delete(connectedPeerIPs,
// addr.String())`: the IP is never released and the honest seed is never
// re-dialled.
//
// Rule: for every map[string]... field of the torrent struct, the keys used at
// all insert / lookup / delete sites that are results of a String() method
// agree on the method's receiver type.

func keyAgreement(c *kit.Ctx, rule string, floor int, fields ...string) {
	tT := c.Named("torrent", "torrent")
	st := tT.Underlying().(*types.Struct)
	want := map[string]bool{}
	for _, f := range fields {
		want[f] = true
	}
	type site struct {
		fn   *ssa.Function
		ins  ssa.Instruction
		kind string // receiver type of the String method producing the key
	}
	sites := map[*types.Var][]site{}
	keyKind := func(v ssa.Value) string {
		for {
			switch x := v.(type) {
			case *ssa.ChangeType:
				v = x.X
				continue
			case *ssa.Convert:
				v = x.X
				continue
			}
			break
		}
		call, ok := v.(*ssa.Call)
		if !ok {
			return ""
		}
		cc := call.Common()
		if cc.IsInvoke() {
			if cc.Method.Name() == "String" {
				return "interface " + cc.Value.Type().String()
			}
			return ""
		}
		f := cc.StaticCallee()
		if f == nil || f.Name() != "String" || f.Signature.Recv() == nil {
			return ""
		}
		return f.Signature.Recv().Type().String()
	}
	fieldOf := func(m ssa.Value) *types.Var {
		e := kit.Canon(m)
		if e.Kind == "field" && e.Field != nil && ownerIs(e, tT) {
			return e.Field
		}
		return nil
	}
	for _, fn := range c.ModuleFunctions() {
		if !inPkg(fn, c, "torrent") {
			continue
		}
		kit.Instrs(fn, func(ins ssa.Instruction) {
			var m, key ssa.Value
			switch x := ins.(type) {
			case *ssa.MapUpdate:
				m, key = x.Map, x.Key
			case *ssa.Lookup:
				m, key = x.X, x.Index
			case *ssa.Call:
				if isBuiltin(&x.Call, "delete") {
					m, key = x.Call.Args[0], x.Call.Args[1]
				}
			}
			if m == nil {
				return
			}
			if _, isMap := m.Type().Underlying().(*types.Map); !isMap {
				return
			}
			f := fieldOf(m)
			if f == nil || !want[f.Name()] {
				return
			}
			if k := keyKind(key); k != "" {
				sites[f] = append(sites[f], site{fn, ins, k})
			}
		})
	}
	_ = st
	k := newKeyer()
	n := 0
	var fs []*types.Var
	for f := range sites {
		fs = append(fs, f)
	}
	sort.Slice(fs, func(i, j int) bool { return fs[i].Name() < fs[j].Name() })
	for _, f := range fs {
		count := map[string]int{}
		for _, s := range sites[f] {
			count[s.kind]++
		}
		// the majority producer is the reference
		ref, best := "", 0
		for kd, cnt := range count {
			if cnt > best || (cnt == best && kd < ref) {
				ref, best = kd, cnt
			}
		}
		for _, s := range sites[f] {
			n++
			c.Check(s.kind == ref, rule, k.key(s.fn, "key of torrent."+f.Name()), posOf(s.ins),
				"key of torrent."+f.Name()+" is produced by "+ref+".String() like at the other sites",
				fmt.Sprintf("torrent.%s is keyed by %s.String() at %d other site(s) but by %s.String() here: the entry written at one site is never found at the other (a banned / connected address is not recognised)", f.Name(), ref, best, s.kind))
		}
	}
	c.Floor(rule, "String()-keyed accesses of the address sets", n, floor)
}

func init() {
	registerExtra("C01", func(c *kit.Ctx) { keyAgreement(c, "R01.12", 2, "bannedPeerIPs") })
	registerExtra("C10", func(c *kit.Ctx) { keyAgreement(c, "R10.6", 4, "connectedPeerIPs") })
	registerExtra("C18", func(c *kit.Ctx) { keyAgreement(c, "R18.7", 6, "bannedPeerIPs", "connectedPeerIPs") })
}

// ---- lock leak (R20.9) ----------------------------------------------------
//
// Every Lock / RLock of a mutex field is released on every path to a return of
// the same (named) function, or a deferred unlock is registered. Seeded: the
// deferred RUnlock of Session.mTorrents in Session.add replaced by an explicit
// unlock that misses the duplicate-id early return; the next writer blocks for
// ever and every reader behind it.

func init() { registerExtra("C20", runR20_9) }

func runR20_9(c *kit.Ctx) {
	k := newKeyer()
	n := 0
	for _, fn := range c.ModuleFunctions() {
		if fn.Blocks == nil {
			continue
		}
		fields := map[*types.Var]bool{}
		kit.Instrs(fn, func(ins ssa.Instruction) {
			if f, op := mutexOp(ins); f != nil && (op == "Lock" || op == "RLock") {
				fields[f] = true
			}
		})
		if len(fields) == 0 {
			continue
		}
		var fl []*types.Var
		for f := range fields {
			fl = append(fl, f)
		}
		sort.Slice(fl, func(i, j int) bool { return fl[i].Name() < fl[j].Name() })
		for _, f := range fl {
			f := f
			// a closure whose parent releases the lock (the parent contains the unlock of the
			// same field) hands the lock over on purpose
			if fn.Parent() != nil {
				parentUnlocks := false
				kit.Instrs(fn.Parent(), func(ins ssa.Instruction) {
					if g, op := mutexOp(ins); g == f && (op == "Unlock" || op == "RUnlock") {
						parentUnlocks = true
					}
				})
				if parentUnlocks {
					continue
				}
			}
			released := (&kit.Flow{P: c.Prog, Fn: fn, Entry: true, Instr: func(ins ssa.Instruction, in bool) bool {
				if d, isDefer := ins.(*ssa.Defer); isDefer {
					cc := d.Common()
					if sc := cc.StaticCallee(); sc != nil && sc.Pkg != nil && sc.Pkg.Pkg.Path() == "sync" && (sc.Name() == "Unlock" || sc.Name() == "RUnlock") && len(cc.Args) > 0 && kit.Canon(cc.Args[0]).IsField(f) {
						return true
					}
					// defer func() { ...Unlock() }()
					if mc, ok := cc.Value.(*ssa.MakeClosure); ok {
						hit := false
						kit.Instrs(mc.Fn.(*ssa.Function), func(i2 ssa.Instruction) {
							if g, op := mutexOp(i2); g == f && (op == "Unlock" || op == "RUnlock") {
								hit = true
							}
						})
						if hit {
							return true
						}
					}
					return in
				}
				if g, op := mutexOp(ins); g == f {
					switch op {
					case "Lock", "RLock":
						return false
					case "Unlock", "RUnlock":
						return true
					}
				}
				return in
			}}).Solve()
			n++
			bad := released.FailingReturns()
			key := k.key(fn, "release of "+f.Name())
			if len(bad) == 0 {
				c.OK("R20.9", key, fn.Pos(), "%s is released (or a deferred unlock is registered) on every path of %s", f.Name(), kit.FuncName(fn))
			} else {
				c.Bad("R20.9", key, posOf(bad[0]), "%s can return with %s still locked (no unlock, no deferred unlock on this path): the next writer blocks for ever and every reader queues behind it", kit.FuncName(fn), f.Name())
			}
		}
	}
	c.Floor("R20.9", "lock acquisitions with a release obligation", n, 20)
}

// ---- cancellation reaches the request (R04.11) -----------------------------
//
// A function that receives a context.Context and starts network work must derive
// the context of that work from the one it was given: the stop announcer's deadline
// and the announcer's cancellation otherwise never reach the request, and
// Stop -> Stopped takes the full transport timeout. Seeded: httptracker built its
// per-request context from context.Background().

func init() { registerExtra("C04", runR04_11) }

func runR04_11(c *kit.Ctx) {
	k := newKeyer()
	n := 0
	for _, fn := range c.ModuleFunctions() {
		if fn.Blocks == nil || !(strings.Contains(kit.FnPkgPath(fn), "/internal/tracker") || strings.Contains(kit.FnPkgPath(fn), "/internal/announcer")) {
			continue
		}
		// the function, or the function it is a closure of, has a context parameter
		hasCtx := false
		for f := fn; f != nil; f = f.Parent() {
			for _, p := range f.Params {
				if p.Type().String() == "context.Context" {
					hasCtx = true
				}
			}
		}
		if !hasCtx {
			continue
		}
		n++
		kit.Instrs(fn, func(ins ssa.Instruction) {
			cc := kit.CallOf(ins)
			if cc == nil || cc.StaticCallee() == nil {
				return
			}
			f := cc.StaticCallee()
			if f.Pkg != nil && f.Pkg.Pkg.Path() == "context" && (f.Name() == "Background" || f.Name() == "TODO") {
				c.Bad("R04.11", k.key(fn, "fresh context"), posOf(ins), "%s receives a context but builds the context of its work from context.%s(): cancellation and the caller's deadline (the tracker stop timeout) do not reach the request, Stop waits for the full transport timeout", kit.FuncName(fn), f.Name())
			}
		})
	}
	c.Present("R04.11", "tracker/announcer functions with a context parameter", 0, "%d functions examined; none replaces its context by a fresh one", n)
	c.Floor("R04.11", "tracker/announcer functions with a context parameter", n, 5)
}

// ---- R09.11 a written piece is marked Done before the picker runs again ------
//
// Between `Writing = false` and `Done = true` a piece is in limbo: not done, not
// being written, its requester sets just cleared, so the picker prefers it.
// Seeded: the Done / bitfield update in handlePieceWriteDone moved behind the
// block that restarts piece downloaders: the piece just written is requested
// again (and a second completion crashes with "already have the piece").
//
// Rule: at every store `Piece.Done = true`, no call that can reach a picker
// pick function has been made since the function was entered.

func init() { registerExtra("C09", runR09_11) }

func runR09_11(c *kit.Ctx) {
	k := newKeyer()
	fDone := c.Field("internal/piece", "Piece", "Done")
	picks := []*ssa.Function{
		c.Func("internal/piecepicker", "(*PiecePicker).PickFor"),
		c.Func("internal/piecepicker", "(*PiecePicker).PickWebseed"),
	}
	reachMemo := map[*ssa.Function]bool{}
	reachesPick := func(g *ssa.Function) bool {
		if v, ok := reachMemo[g]; ok {
			return v
		}
		r := c.Reach([]*ssa.Function{g}, false, nil)
		res := false
		for _, p := range picks {
			if r[p] {
				res = true
			}
		}
		reachMemo[g] = res
		return res
	}
	n := 0
	for _, fn := range c.ModuleFunctions() {
		if !inPkg(fn, c, "torrent") {
			continue
		}
		var stores []ssa.Instruction
		kit.Instrs(fn, func(ins ssa.Instruction) {
			if v, ok := kit.StoresField(ins, fDone); ok && kit.Canon(v).IsConstBool(true) {
				stores = append(stores, ins)
			}
		})
		if len(stores) == 0 {
			continue
		}
		noPick := (&kit.Flow{P: c.Prog, Fn: fn, Entry: true, Instr: func(ins ssa.Instruction, in bool) bool {
			call, ok := ins.(*ssa.Call)
			if !ok || !in {
				return in
			}
			for _, g := range c.Callees(call) {
				if g.Blocks != nil && kit.InModule(kit.FnPkgPath(g)) && reachesPick(g) {
					return false
				}
			}
			return in
		}}).Solve()
		for _, st := range stores {
			n++
			c.Check(noPick.Before(st), "R09.11", k.key(fn, "Done stored before any pick"), posOf(st),
				"the written piece is marked Done before anything in this handler can run the picker", "the picker can run (piece downloaders are restarted) before the piece just written is marked Done: it is neither done nor writing and its requesters were cleared, so it is picked again (duplicate download; a second completion crashes with 'already have the piece')")
		}
	}
	c.Floor("R09.11", "stores of Piece.Done = true in package torrent", n, 1)
}

// ---- R05.9 missing files invalidate the persisted bitfield --------------------
//
// When the allocator had to re-create a file (HasMissing) while a resume bitfield
// exists, the bits persisted for that file describe data that is gone. The loop
// re-verifies, but the stale bitfield stays in the database until verification has
// finished: a second crash in that window restarts with every file present, so
// HasMissing is false and the stale bitfield is trusted (pieces claimed over a
// zero-filled file). Necessary condition checked here: on every path of the
// allocation-result handler that starts the verifier while a resume bitfield may
// exist, the persisted bitfield has been invalidated first (a write / delete of the
// bitfield key through the resumer or the database).

func init() { registerExtra("C05", runR05_9) }

func runR05_9(c *kit.Ctx) {
	k := newKeyer()
	fHasMissing := c.Field("internal/allocator", "Allocator", "HasMissing")
	fBitfield := c.Field("torrent", "torrent", "bitfield")
	startVerifier := c.FuncObj("torrent", "(*torrent).startVerifier")
	writeBF := c.FuncObj("internal/resumer/boltdbresumer", "(*Resumer).WriteBitfield")
	n := 0
	for _, fn := range c.ModuleFunctions() {
		if !inPkg(fn, c, "torrent") {
			continue
		}
		reads := false
		kit.Instrs(fn, func(ins ssa.Instruction) {
			if v, ok := ins.(ssa.Value); ok && kit.Canon(v).IsField(fHasMissing) {
				reads = true
			}
		})
		if !reads {
			continue
		}
		safe := (&kit.Flow{P: c.Prog, Fn: fn,
			Edge: func(a kit.Atom) bool {
				// no resume bitfield on this path
				return a.IsNilCmp(true, func(e *kit.Expr) bool { return e.IsField(fBitfield) })
			},
			Instr: func(ins ssa.Instruction, in bool) bool {
				if kit.CallsAny(ins, writeBF) {
					return true
				}
				isDelete := func(i2 ssa.Instruction) bool {
					cc := kit.CallOf(i2)
					return cc != nil && cc.StaticCallee() != nil && cc.StaticCallee().Name() == "Delete" && strings.HasSuffix(kit.FnPkgPath(cc.StaticCallee()), "bbolt")
				}
				if isDelete(ins) {
					return true
				}
				// db.Update(func(tx) { ... b.Delete(bitfield key) ... })
				if cc := kit.CallOf(ins); isBoltUpdate(cc) {
					if cb := closureArg(cc); cb != nil {
						hit := false
						kit.Instrs(cb, func(i2 ssa.Instruction) {
							if isDelete(i2) {
								hit = true
							}
						})
						if hit {
							return true
						}
					}
				}
				if v, ok := kit.StoresField(ins, fBitfield); ok && !kit.Canon(v).IsNil() {
					return false
				}
				return in
			}}).WithDeep(kit.DefaultDeep, nil).Solve()
		kit.Instrs(fn, func(ins ssa.Instruction) {
			if !kit.CallsAny(ins, startVerifier) {
				return
			}
			n++
			c.Check(safe.Before(ins), "R05.9", k.key(fn, "re-verify after missing files"), posOf(ins),
				"the persisted bitfield is invalidated (or there is none) before files found missing are re-verified", "files found missing were re-created and are re-verified while the stale bitfield stays in the resume database: a crash during that verification restarts with every file present (HasMissing false) and trusts bits for data that is gone")
		})
	}
	c.Floor("R05.9", "verifier starts in handlers that read Allocator.HasMissing", n, 1)
}

// ---- R19.4 an HTTP tracker is built with the caller's user agent -----------
//
// The private / public user agent is chosen by the caller of TrackerManager.Get
// per torrent. Seeded: Get cached HTTPTracker objects per announce URL; the cache
// key ignored the user agent, so a private torrent added after a magnet link with
// the same tracker announced with the public client identity.
//
// Rule: every HTTP tracker that TrackerManager.Get returns is the result of a
// call to httptracker.New made in that invocation with Get's own user-agent
// parameter among the arguments.

func init() { registerExtra("C19", runR19_4) }

func runR19_4(c *kit.Ctx) {
	k := newKeyer()
	get := c.Func("internal/trackermanager", "(*TrackerManager).Get")
	newHTTP := c.FuncObj("internal/tracker/httptracker", "New")
	tHTTP := c.Named("internal/tracker/httptracker", "HTTPTracker")
	var ua *ssa.Parameter
	for _, p := range get.Params {
		if b, ok := p.Type().Underlying().(*types.Basic); ok && b.Kind() == types.String && strings.Contains(strings.ToLower(p.Name()), "agent") {
			ua = p
		}
	}
	if ua == nil {
		c.Unknown("R19.4", "TrackerManager.Get/user agent parameter", get.Pos(), "TrackerManager.Get has no string parameter for the user agent")
		return
	}
	n := 0
	var check func(v ssa.Value, ret *ssa.Return, seen map[ssa.Value]bool)
	check = func(v ssa.Value, ret *ssa.Return, seen map[ssa.Value]bool) {
		if seen[v] {
			return
		}
		seen[v] = true
		switch x := v.(type) {
		case *ssa.MakeInterface:
			check(x.X, ret, seen)
			return
		case *ssa.ChangeInterface:
			check(x.X, ret, seen)
			return
		case *ssa.Phi:
			for _, e := range x.Edges {
				check(e, ret, seen)
			}
			return
		case *ssa.Const:
			return
		case *ssa.UnOp:
			// result cell of a function with defers: judge everything stored into it
			if cell, ok := x.X.(*ssa.Alloc); ok && x.Op == token.MUL && cell.Referrers() != nil {
				for _, r := range *cell.Referrers() {
					if st, ok := r.(*ssa.Store); ok && st.Addr == ssa.Value(cell) {
						check(st.Val, ret, seen)
					}
				}
				return
			}
		}
		if derefNamed(v.Type()) != tHTTP {
			return
		}
		n++
		ok := false
		if call, isCall := v.(*ssa.Call); isCall && kit.CallsAny(call, newHTTP) {
			for _, a := range call.Call.Args {
				if a == ssa.Value(ua) {
					ok = true
				}
			}
		}
		c.Check(ok, "R19.4", k.key(get, "returned HTTP tracker"), posOf(ret),
			"the HTTP tracker returned is built by httptracker.New in this call with the caller's user agent", "TrackerManager.Get can return an HTTP tracker that was not built in this call with the caller's user agent ("+kit.Canon(v).String()+"): a private torrent announces with whatever identity the first requester of that URL had")
	}
	for _, r := range returnsOf(get) {
		if len(r.Results) > 0 {
			check(r.Results[0], r, map[ssa.Value]bool{})
		}
	}
	c.Floor("R19.4", "HTTP trackers returned by TrackerManager.Get", n, 1)
}

// ---- R20.10 fields of a worker written by the event loop ------------------
//
// A worker object (a type started with `go x.Run`) whose method, called from
// the event loop while the worker runs, stores a plain field that the worker's
// own goroutine also accesses needs a common mutex of the object at both sites
// (or the field must be an atomic / channel / mutex itself). Seeded:
// DHTAnnouncer.NeedMorePeers stored needMorePeers without the mutex that the
// periodical announcer's twin uses.

func init() { registerExtra("C20", runR20_10) }

func runR20_10(c *kit.Ctx) {
	k := newKeyer()
	run := c.Func("torrent", "(*torrent).run")
	tT := c.Named("torrent", "torrent")
	sT := c.Named("torrent", "Session")
	loopCtx := c.Reach([]*ssa.Function{run}, false, nil)
	// worker types and their Run contexts
	type worker struct {
		t   *types.Named
		ctx map[*ssa.Function]bool
	}
	workers := map[*types.Named]*worker{}
	for _, fn := range c.ModuleFunctions() {
		kit.Instrs(fn, func(ins ssa.Instruction) {
			g, ok := ins.(*ssa.Go)
			if !ok {
				return
			}
			callee := g.Call.StaticCallee()
			if callee == nil || callee.Signature.Recv() == nil || callee.Blocks == nil {
				return
			}
			w := derefNamed(callee.Signature.Recv().Type())
			if w == nil || w == tT || w == sT || w.Obj().Pkg() == nil || !kit.InModule(w.Obj().Pkg().Path()) {
				return
			}
			wk := workers[w]
			if wk == nil {
				wk = &worker{t: w, ctx: map[*ssa.Function]bool{}}
				workers[w] = wk
			}
			for f := range c.Reach([]*ssa.Function{callee}, false, func(f *ssa.Function) bool { return kit.FnPkgPath(f) != w.Obj().Pkg().Path() }) {
				wk.ctx[f] = true
			}
		})
	}
	fieldOfW := func(ins ssa.Instruction, w *types.Named) (*types.Var, bool, bool) {
		// returns (field, isWrite, ok) for direct accesses x.f with x of type W
		switch x := ins.(type) {
		case *ssa.Store:
			if fa, ok := x.Addr.(*ssa.FieldAddr); ok && derefNamed(fa.X.Type()) == w {
				return derefStructT(fa.X.Type()).Field(fa.Field), true, true
			}
		case *ssa.UnOp:
			if fa, ok := x.X.(*ssa.FieldAddr); ok && x.Op == token.MUL && derefNamed(fa.X.Type()) == w {
				return derefStructT(fa.X.Type()).Field(fa.Field), false, true
			}
		}
		return nil, false, false
	}
	underMutexOf := func(fn *ssa.Function, ins ssa.Instruction, w *types.Named) map[*types.Var]bool {
		held := map[*types.Var]bool{}
		st := w.Underlying().(*types.Struct)
		for i := 0; i < st.NumFields(); i++ {
			m := st.Field(i)
			if !strings.HasPrefix(m.Type().String(), "sync.") {
				continue
			}
			if mutexFlow(c, fn, m).Before(ins) {
				held[m] = true
			}
		}
		return held
	}
	n := 0
	var ws []*worker
	for _, wk := range workers {
		ws = append(ws, wk)
	}
	sort.Slice(ws, func(i, j int) bool { return ws[i].t.Obj().Name() < ws[j].t.Obj().Name() })
	for _, wk := range ws {
		w := wk.t
		// loop-side stores (methods of W reachable from the event loop, outside the worker's own context)
		type acc struct {
			fn  *ssa.Function
			ins ssa.Instruction
		}
		loopStores := map[*types.Var][]acc{}
		var lfns []*ssa.Function
		for f := range loopCtx {
			if f.Blocks != nil && !wk.ctx[f] && f.Signature.Recv() != nil && derefNamed(f.Signature.Recv().Type()) == w {
				lfns = append(lfns, f)
			}
		}
		sort.Slice(lfns, func(i, j int) bool { return kit.FuncName(lfns[i]) < kit.FuncName(lfns[j]) })
		for _, f := range lfns {
			// constructors and methods that start the goroutine run before it exists
			starts := false
			kit.Instrs(f, func(ins ssa.Instruction) {
				if _, ok := ins.(*ssa.Go); ok {
					starts = true
				}
			})
			if starts {
				continue
			}
			kit.Instrs(f, func(ins ssa.Instruction) {
				if fld, isW, ok := fieldOfW(ins, w); ok && isW && !syncType(fld.Type()) {
					loopStores[fld] = append(loopStores[fld], acc{f, ins})
				}
			})
		}
		if len(loopStores) == 0 {
			continue
		}
		var flds []*types.Var
		for fld := range loopStores {
			flds = append(flds, fld)
		}
		sort.Slice(flds, func(i, j int) bool { return flds[i].Name() < flds[j].Name() })
		for _, fld := range flds {
			// worker-side accesses
			var wacc []acc
			var wfns []*ssa.Function
			for f := range wk.ctx {
				if f.Blocks != nil {
					wfns = append(wfns, f)
				}
			}
			sort.Slice(wfns, func(i, j int) bool { return kit.FuncName(wfns[i]) < kit.FuncName(wfns[j]) })
			for _, f := range wfns {
				kit.Instrs(f, func(ins ssa.Instruction) {
					if g, _, ok := fieldOfW(ins, w); ok && g == fld {
						wacc = append(wacc, acc{f, ins})
					}
				})
			}
			if len(wacc) == 0 {
				continue
			}
			n++
			// a mutex held at every loop-side store and every worker-side access
			common := map[*types.Var]int{}
			total := 0
			for _, a := range append(append([]acc{}, loopStores[fld]...), wacc...) {
				total++
				for m := range underMutexOf(a.fn, a.ins, w) {
					common[m]++
				}
			}
			ok := false
			for _, cnt := range common {
				if cnt == total {
					ok = true
				}
			}
			key := w.Obj().Name() + "." + fld.Name() + " written from the event loop"
			s0 := loopStores[fld][0]
			if ok {
				c.OK("R20.10", key, posOf(s0.ins), "%s.%s is stored by %s (event loop) and accessed by the worker goroutine, always under the same mutex of the object", w.Obj().Name(), fld.Name(), kit.FuncName(s0.fn))
			} else {
				c.Bad("R20.10", k.key(s0.fn, key), posOf(s0.ins), "%s stores %s.%s from the event loop while the worker goroutine (%s) accesses it, and no mutex of the object is held at all of these sites: unsynchronised access from two goroutines", kit.FuncName(s0.fn), w.Obj().Name(), fld.Name(), kit.FuncName(wacc[0].fn))
			}
		}
	}
	c.Stats["worker fields written from the event loop"] = n
}

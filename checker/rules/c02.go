package rules

import (
	"go/constant"
	"go/types"

	"golang.org/x/tools/go/ssa"

	"rainverif/checker/kit"
)

func init() {
	register(&Property{
		ID: "C02",
		Explanation: "Decides only the clause 'padding reads as zeros and is never written to disk' and its web-seed twin, plus the constant the block split rests on: (R02.1) filesection.Piece.Write calls WriteAt only under sec.Padding==false; (R02.2) Allocator.Run opens storage only under f.Padding==false and gives padding entries a storage.PaddingFile, whose WriteAt panics; (R02.3) URLDownloader.Run issues an HTTP request only for jobs with Padding==false and every downloadJob literal copies the section's Padding flag; (R02.4) PaddingFile.ReadAt zero-fills p and returns len(p), nil; (R02.5) CalculateBlocks splits with the constant BlockSize (16 KiB) and is the only caller of calculateBlocks. NOT decided: exact cover, piece lengths, block offsets/lengths, read-back equality, create->verify: these are relations between runtime integers across loop iterations (the stale block offset after a leading padding section quoted in the property is therefore not reported by this machinery).",
		RuleText:    commonRuleText,
		Assumptions: commonAssumptions,
		Run:         runC02,
	})
}

func runC02(c *kit.Ctx) {
	k := newKeyer()
	fSecPadding := c.Field("internal/filesection", "FileSection", "Padding")

	// ---- R02.1
	//
	// Every WriteAt on a section file (package filesection), wherever it sits
	// (Piece.Write or a helper of it), happens under sec.Padding==false: the
	// fact is evaluated with caller context.
	{
		writeAt := c.FuncObj("io", "WriterAt.WriteAt")
		notPad := c.FieldBoolSpec(fSecPadding, false, kit.DefaultDeep)
		n := 0
		for _, s := range sortSites(c.CallSites(writeAt)) {
			if !inPkg(s.Fn, c, "internal/filesection") {
				continue // a WriteAt outside filesection is reported by C01 R01.1
			}
			n++
			c.Check(notPad.Holds(s.Instr, 2), "R02.1", k.key(s.Fn, "WriteAt"), posOf(s.Instr),
				"section written only under sec.Padding==false", "a padding section can be written to its (padding) file: PaddingFile.WriteAt panics / padding bytes reach disk")
		}
		c.Floor("R02.1", "WriteAt sites in package filesection", n, 1)
	}

	// ---- R02.2
	{
		fPad := c.Field("internal/metainfo", "File", "Padding")
		stoOpen := c.FuncObj("internal/storage", "Storage.Open")
		newPad := c.FuncObj("internal/storage", "NewPaddingFile")
		// module-wide enumeration of the two operations; the guard may be in the
		// function of the site or in its caller (Spec.Holds)
		notPad := c.FieldBoolSpec(fPad, false, kit.DefaultDeep)
		isPad := c.FieldBoolSpec(fPad, true, kit.DefaultDeep)
		no, np := 0, 0
		for _, s := range sortSites(c.CallSites(stoOpen)) {
			if _, isCall := s.Instr.(*ssa.Call); !isCall {
				continue
			}
			no++
			c.Check(notPad.Holds(s.Instr, 2), "R02.2", k.key(s.Fn, "Storage.Open"), posOf(s.Instr),
				"storage opened only for non-padding files", "a padding file can be opened (created) in storage")
		}
		for _, s := range sortSites(c.CallSites(newPad)) {
			np++
			c.Check(isPad.Holds(s.Instr, 2), "R02.2", k.key(s.Fn, "NewPaddingFile"), posOf(s.Instr),
				"PaddingFile used only for padding entries", "a real file can be replaced by a PaddingFile (its data would never be written)")
		}
		c.Floor("R02.2", "Storage.Open sites", no, 1)
		c.Floor("R02.2", "NewPaddingFile sites", np, 1)
		// the stored File.Padding flag is the metainfo one
		fAPad := c.Field("internal/allocator", "File", "Padding")
		for _, st := range fieldStores(c, fAPad) {
			c.Check(kit.Canon(st.Val).IsField(fPad), "R02.2", k.key(st.Fn, "store allocator.File.Padding"), posOf(st.Store),
				"allocator.File.Padding copied from metainfo.File.Padding", "allocator.File.Padding does not come from the metainfo flag")
		}
		// PaddingFile.WriteAt panics (never writes)
		wa := c.Func("internal/storage", "(PaddingFile).WriteAt")
		c.Check(len(returnsOf(wa)) == 0 || !canReturnNormally(c, wa), "R02.2", kit.FuncName(wa)+"/panics", wa.Pos(),
			"PaddingFile.WriteAt never returns normally", "PaddingFile.WriteAt can return: a write to padding would be silently accepted")
	}

	// ---- R02.3
	{
		run := c.Func("internal/urldownloader", "(*URLDownloader).Run")
		fJobPad := c.Field("internal/urldownloader", "downloadJob", "Padding")
		// the closure that performs the HTTP request
		var reqFn *ssa.Function
		for _, an := range run.AnonFuncs {
			kit.Instrs(an, func(ins ssa.Instruction) {
				cc := kit.CallOf(ins)
				if cc != nil && cc.StaticCallee() != nil && cc.StaticCallee().Name() == "Do" && kit.FnPkgPath(cc.StaticCallee()) == "net/http" {
					reqFn = an
				}
			})
		}
		if reqFn == nil {
			c.Bad("R02.3", kit.FuncName(run)+"/request-closure", run.Pos(), "no closure of URLDownloader.Run performs the HTTP request: cannot relate requests to jobs")
		} else {
			notPad := c.FieldBool(run, fJobPad, false)
			n := 0
			kit.Instrs(run, func(ins ssa.Instruction) {
				cc := kit.CallOf(ins)
				if cc == nil {
					return
				}
				callee := kit.Canon(cc.Value).Fn
				if mc, ok := cc.Value.(*ssa.MakeClosure); ok {
					callee, _ = mc.Fn.(*ssa.Function)
				}
				if callee != reqFn {
					return
				}
				n++
				c.Check(notPad.Before(ins), "R02.3", k.key(run, "request job"), posOf(ins),
					"HTTP range request only for jobs with Padding==false", "a padding job can be requested from the web seed (the file does not exist there)")
			})
			c.Floor("R02.3", "request-closure call sites", n, 1)
			// no HTTP request outside that closure
			for _, fn := range kit.WithAnon(run) {
				if fn == reqFn {
					continue
				}
				kit.Instrs(fn, func(ins ssa.Instruction) {
					cc := kit.CallOf(ins)
					if cc != nil && cc.StaticCallee() != nil && cc.StaticCallee().Name() == "Do" && kit.FnPkgPath(cc.StaticCallee()) == "net/http" {
						c.Bad("R02.3", k.key(fn, "http Do"), posOf(ins), "HTTP request outside the job-processing closure")
					}
				})
			}
		}
		m := 0
		for _, st := range fieldStores(c, fJobPad) {
			m++
			c.Check(kit.Canon(st.Val).IsField(fSecPadding), "R02.3", k.key(st.Fn, "downloadJob.Padding"), posOf(st.Store),
				"job.Padding copied from the section's Padding flag", "downloadJob.Padding is not the section's Padding flag")
		}
		c.Floor("R02.3", "downloadJob.Padding initialisers", m, 1)
		// every downloadJob literal sets Padding
		tJob := c.Named("internal/urldownloader", "downloadJob")
		for _, fn := range c.ModuleFunctions() {
			if !inPkg(fn, c, "internal/urldownloader") {
				continue
			}
			kit.Instrs(fn, func(ins ssa.Instruction) {
				a, ok := ins.(*ssa.Alloc)
				if !ok || derefNamed(a.Type()) != tJob || a.Comment != "complit" {
					return
				}
				has := false
				for _, r := range *a.Referrers() {
					if fa, ok := r.(*ssa.FieldAddr); ok && derefStructT(fa.X.Type()).Field(fa.Field) == fJobPad {
						has = true
					}
				}
				c.Check(has, "R02.3", k.key(fn, "downloadJob literal"), posOf(ins), "job literal carries the Padding flag", "a downloadJob is built without the section's Padding flag: a padding section would be requested from the web seed")
			})
		}
	}

	// ---- R02.4 padding reads as zeros
	{
		ra := c.Func("internal/storage", "(PaddingFile).ReadAt")
		p := ra.Params[1]
		zeroed := false
		kit.Instrs(ra, func(ins ssa.Instruction) {
			if cc := kit.CallOf(ins); isBuiltin(cc, "clear") && cc.Args[0] == ssa.Value(p) {
				zeroed = true
			}
			if st, ok := ins.(*ssa.Store); ok {
				if ia, ok := st.Addr.(*ssa.IndexAddr); ok && ia.X == ssa.Value(p) {
					if z, ok := kit.Canon(st.Val).IntConst(); ok && z == 0 {
						// the index ranges over the whole slice: it is the range-loop index of `range p`
						if idx, ok := ia.Index.(*ssa.BinOp); ok {
							if phi, ok := idx.X.(*ssa.Phi); ok && phi.Comment == "rangeindex" {
								zeroed = true
							}
						} else if phi, ok := ia.Index.(*ssa.Phi); ok && phi.Comment == "rangeindex" {
							zeroed = true
						}
					} else {
						zeroed = false
					}
				}
			}
		})
		okRet := true
		for _, r := range returnsOf(ra) {
			n := kit.Canon(r.Results[0]).Strip()
			if !(n.Kind == "len" && n.Args[0].V == ssa.Value(p)) || !kit.Canon(r.Results[1]).IsNil() {
				okRet = false
			}
		}
		c.Check(zeroed && okRet, "R02.4", kit.FuncName(ra)+"/zeros", ra.Pos(),
			"PaddingFile.ReadAt stores 0 into p[i] over range p and returns len(p), nil", "PaddingFile.ReadAt does not serve a full buffer of zeros")
	}

	// ---- R02.5 block size constant
	{
		bs := c.Const("internal/piece", "BlockSize")
		v, _ := constant.Int64Val(bs.Val())
		c.Check(v == 16*1024, "R02.5", "const/piece.BlockSize", bs.Pos(), "piece.BlockSize == 16384", "piece.BlockSize is not 16 KiB")
		cb := c.FuncObj("internal/piece", "(*Piece).calculateBlocks")
		pub := c.Func("internal/piece", "(*Piece).CalculateBlocks")
		n := 0
		for _, s := range sortSites(c.CallSites(cb)) {
			n++
			a, ok := kit.Canon(argOf(s.Instr.Common(), 1)).IntConst()
			_ = pub
			c.Check(ok && a == v, "R02.5", k.key(s.Fn, "calculateBlocks"), posOf(s.Instr),
				"blocks are split with the constant BlockSize", "calculateBlocks called with a block size other than the constant BlockSize (blocks could exceed 16 KiB)")
		}
		c.Floor("R02.5", "calculateBlocks call sites", n, 1)
	}
	_ = types.Typ
	runC02Affine(c, k)
}

// canReturnNormally reports whether fn has a reachable Return.
func canReturnNormally(c *kit.Ctx, fn *ssa.Function) bool {
	fl := (&kit.Flow{P: c.Prog, Fn: fn, Entry: true}).Solve()
	for _, r := range returnsOf(fn) {
		// a return in a block that is only reachable through a no-return call
		// has the (vacuous) fact true and in==true; distinguish by reachability
		_ = r
	}
	_ = fl
	seen := map[*ssa.BasicBlock]bool{}
	var walk func(b *ssa.BasicBlock) bool
	walk = func(b *ssa.BasicBlock) bool {
		if seen[b] {
			return false
		}
		seen[b] = true
		for _, ins := range b.Instrs {
			switch x := ins.(type) {
			case *ssa.Call:
				if c.IsNoReturn(&x.Call) {
					return false
				}
			case *ssa.Panic:
				return false
			case *ssa.Return:
				return true
			}
		}
		for _, s := range b.Succs {
			if walk(s) {
				return true
			}
		}
		return false
	}
	return len(fn.Blocks) > 0 && walk(fn.Blocks[0])
}

package rules

import (
	"fmt"
	"go/token"
	"go/types"
	"sort"
	"strings"

	"golang.org/x/tools/go/ssa"

	"rainverif/checker/kit"
)

// ---- R08.3 peer-chosen indexes (K6) ---------------------------------------

// c08Bounds is the taint engine: sources are loads of the integer fields of
// the wire message structs; sinks are index / slice-bound / make operands,
// range checks whose failing branch panics, and arguments of module
// functions that (transitively) use the parameter in such a sink without
// bounding it themselves. The required sanitiser is an upper-bound fact
// against a length-like quantity, or a successful membership test of the
// value in a map.
type c08Bounds struct {
	c         *kit.Ctx
	src       map[*types.Var]string // tainted message fields -> display name
	fNumPcs   *types.Var
	bfLen     *types.Func
	memo      map[string][]*c08Sink
	busy      map[string]bool
	all       []*c08Sink
	flows     map[string]*kit.Flow
	validMemo map[string]bool
	units     []*ssa.Function
	unitSeen  map[*ssa.Function]bool
}

type c08Sink struct {
	Fn        *ssa.Function
	Ins       ssa.Instruction
	What      string // kind of sink + operand description
	Leaves    string
	Guarded   bool
	Why       string
	ParamOnly bool  // every tainted leaf is a parameter of Fn: callers may guard
	Params    []int // those parameters
	Strict    bool
}

func (b *c08Bounds) isSrcLoad(v ssa.Value) (string, bool) {
	switch v.(type) {
	case *ssa.UnOp, *ssa.Field:
	default:
		return "", false
	}
	e := kit.Canon(v)
	if e.Kind == "field" {
		if n, ok := b.src[e.Field]; ok {
			return n, true
		}
	}
	return "", false
}

// leaves returns the tainted leaf values v is computed from.
func (b *c08Bounds) leaves(v ssa.Value, tp map[*ssa.Parameter]bool, seen map[ssa.Value]bool, out *[]ssa.Value) {
	if v == nil || seen[v] {
		return
	}
	seen[v] = true
	if _, ok := b.isSrcLoad(v); ok {
		*out = append(*out, v)
		return
	}
	switch x := v.(type) {
	case *ssa.Parameter:
		if tp[x] {
			*out = append(*out, v)
		}
	case *ssa.UnOp:
		switch x.Op {
		case token.MUL:
			if a, ok := x.X.(*ssa.Alloc); ok {
				if p := paramOfRoot(a); p != nil && tp[p] {
					*out = append(*out, v)
					return
				}
				// local variable: follow its stores
				kit.Instrs(a.Parent(), func(ins ssa.Instruction) {
					if st, ok := ins.(*ssa.Store); ok && st.Addr == ssa.Value(a) {
						b.leaves(st.Val, tp, seen, out)
					}
				})
			}
		case token.SUB, token.XOR:
			b.leaves(x.X, tp, seen, out)
		}
	case *ssa.BinOp:
		switch x.Op {
		case token.ADD, token.SUB, token.MUL, token.QUO, token.REM, token.SHL, token.SHR, token.AND, token.OR, token.XOR, token.AND_NOT:
			b.leaves(x.X, tp, seen, out)
			b.leaves(x.Y, tp, seen, out)
		}
	case *ssa.Convert:
		b.leaves(x.X, tp, seen, out)
	case *ssa.ChangeType:
		b.leaves(x.X, tp, seen, out)
	case *ssa.Phi:
		for _, e := range x.Edges {
			b.leaves(e, tp, seen, out)
		}
	}
}

func (b *c08Bounds) leavesOf(v ssa.Value, tp map[*ssa.Parameter]bool) []ssa.Value {
	var out []ssa.Value
	b.leaves(v, tp, map[ssa.Value]bool{}, &out)
	return out
}

func (b *c08Bounds) leafName(v ssa.Value) string {
	if n, ok := b.isSrcLoad(v); ok {
		return n
	}
	if p, ok := v.(*ssa.Parameter); ok {
		return "param " + p.Name()
	}
	if u, ok := v.(*ssa.UnOp); ok {
		if p := paramOfRoot(u.X); p != nil {
			return "param " + p.Name()
		}
	}
	return kit.Canon(v).String()
}

// sizeLike: an expression that denotes a length / piece count and is not
// itself chosen by the peer.
func (b *c08Bounds) sizeLike(e *kit.Expr) bool {
	if e == nil {
		return false
	}
	tainted := e.Mentions(func(x *kit.Expr) bool {
		if x.Kind == "field" {
			_, ok := b.src[x.Field]
			return ok
		}
		return false
	})
	if tainted {
		return false
	}
	return e.Mentions(func(x *kit.Expr) bool {
		return x.Kind == "len" || x.IsField(b.fNumPcs) || x.IsCallTo(b.bfLen)
	})
}

// boundFlow: must-fact "subject < (or <=) size-like bound, or subject is a
// key of a map" for the access path `subj`.
func (b *c08Bounds) boundFlow(fn *ssa.Function, subj *kit.Expr, strict bool) *kit.Flow {
	cs := subj.String()
	key := fmt.Sprintf("%p|%s|%v", fn, cs, strict)
	if f, ok := b.flows[key]; ok {
		return f
	}
	root := exprRoot(subj)
	isSubj := func(x *kit.Expr) bool { return x.Strip().String() == cs }
	bf := map[*types.Var]bool{}
	gen := func(a kit.Atom) bool {
		if ok, st := a.UpperBound(isSubj, b.sizeLike); ok && (st || !strict) {
			if a.Op == token.LSS || a.Op == token.LEQ {
				allFields(a.R, bf)
			} else {
				allFields(a.L, bf)
			}
			return true
		}
		// successful comma-ok map lookup with the subject as key
		if a.IsTrue(func(e *kit.Expr) bool {
			return e.Kind == "extract" && e.Idx == 1 && e.Args[0].Kind == "lookup" && e.Args[0].CommaOk && isSubj(e.Args[0].Args[1])
		}) {
			return true
		}
		// predicate helper that validates the argument
		return a.IsTrue(func(e *kit.Expr) bool {
			if e.Kind != "call" || e.Fn == nil || e.Fn.Blocks == nil {
				return false
			}
			for j, arg := range e.Args {
				if isSubj(arg) && b.validates(e.Fn, j) {
					return true
				}
			}
			return false
		})
	}
	// pre-scan to learn which fields the bounds mention (for kills)
	for _, blk := range fn.Blocks {
		if len(blk.Instrs) == 0 {
			continue
		}
		if ifi, ok := blk.Instrs[len(blk.Instrs)-1].(*ssa.If); ok {
			for _, tr := range []bool{true, false} {
				for _, a := range kit.EdgeAtoms(ifi.Cond, tr) {
					gen(a)
				}
			}
		}
	}
	var fields []*types.Var
	for f := range bf {
		fields = append(fields, f)
	}
	f := b.c.AtomFlow(fn, gen, func(ins ssa.Instruction) bool {
		if storesInto(ins, root) {
			if st, ok := ins.(*ssa.Store); ok {
				if _, isParam := st.Val.(*ssa.Parameter); isParam && st.Addr == root {
					return false
				}
			}
			return true
		}
		for _, g := range fields {
			if b.c.KillsField(ins, g) {
				return true
			}
		}
		return false
	})
	b.flows[key] = f
	return f
}

// validates: predicate p returns true only when its parameter j passed a
// bound / membership test.
func (b *c08Bounds) validates(p *ssa.Function, j int) bool {
	key := fmt.Sprintf("%p|%d", p, j)
	if v, ok := b.validMemo[key]; ok {
		return v
	}
	b.validMemo[key] = false
	if j >= len(p.Params) || p.Signature.Results().Len() != 1 {
		return false
	}
	subj := kit.Canon(p.Params[j])
	fl := b.boundFlow(p, subj, true)
	ok := true
	n := 0
	for _, r := range returnsOf(p) {
		var check func(v ssa.Value, onEdge func() bool, seen map[ssa.Value]bool)
		check = func(v ssa.Value, holds func() bool, seen map[ssa.Value]bool) {
			if kit.Canon(v).IsConstBool(false) {
				return
			}
			if phi, isPhi := v.(*ssa.Phi); isPhi && !seen[v] {
				seen[v] = true
				for i, e := range phi.Edges {
					pred := phi.Block().Preds[i]
					check(e, func() bool { return fl.OnEdge(pred, phi.Block()) }, seen)
				}
				return
			}
			n++
			if !holds() {
				ok = false
			}
		}
		check(r.Results[0], func() bool { return fl.Before(r) }, map[ssa.Value]bool{})
	}
	res := ok && n > 0
	b.validMemo[key] = res
	return res
}

// bounded decides whether operand v has the required fact at instruction at.
func (b *c08Bounds) bounded(fn *ssa.Function, v ssa.Value, at ssa.Instruction, strict bool, tp map[*ssa.Parameter]bool) (string, bool) {
	holds := func(x ssa.Value, st bool, point func(*kit.Flow) bool) bool {
		e := kit.Canon(x).Strip()
		if e.Kind == "const" {
			return false
		}
		return point(b.boundFlow(fn, e, st))
	}
	var dec func(x ssa.Value, point func(*kit.Flow) bool, depth int) (string, bool)
	dec = func(x ssa.Value, point func(*kit.Flow) bool, depth int) (string, bool) {
		ls := b.leavesOf(x, tp)
		if len(ls) == 0 {
			return "not peer-chosen", true
		}
		if holds(x, strict, point) {
			return kit.Canon(x).Strip().String() + " bounded", true
		}
		// every tainted leaf bounded (strictly)
		all := true
		var names []string
		for _, l := range ls {
			if l == x || !holds(l, true, point) {
				all = false
				break
			}
			names = append(names, b.leafName(l))
		}
		if all {
			return "leaf " + strings.Join(names, ",") + " bounded", true
		}
		// phi: each incoming value bounded on its edge
		for {
			if cv, ok := x.(*ssa.Convert); ok {
				x = cv.X
				continue
			}
			break
		}
		if phi, ok := x.(*ssa.Phi); ok && depth < 3 {
			for i, e := range phi.Edges {
				pred := phi.Block().Preds[i]
				if b.sizeLike(kit.Canon(e)) && !strict {
					continue
				}
				if _, ok := dec(e, func(f *kit.Flow) bool { return f.OnEdge(pred, phi.Block()) }, depth+1); !ok {
					return "", false
				}
			}
			return "every incoming value bounded", true
		}
		return "", false
	}
	return dec(v, func(f *kit.Flow) bool { return f.Before(at) }, 0)
}

func indexable(t types.Type) bool {
	switch u := t.Underlying().(type) {
	case *types.Slice, *types.Array:
		return true
	case *types.Pointer:
		_, ok := u.Elem().Underlying().(*types.Array)
		return ok
	case *types.Basic:
		return u.Info()&types.IsString != 0
	}
	return false
}

func (b *c08Bounds) isPanicBlock(blk *ssa.BasicBlock) bool {
	for _, ins := range blk.Instrs {
		switch x := ins.(type) {
		case *ssa.Panic:
			return true
		case *ssa.Call:
			if b.c.IsNoReturn(&x.Call) {
				return true
			}
		}
	}
	return false
}

// containsSrcField reports whether values of type t carry a tainted field.
func (b *c08Bounds) containsSrcField(t types.Type, depth int) bool {
	if depth > 3 {
		return false
	}
	if p, ok := t.Underlying().(*types.Pointer); ok {
		t = p.Elem()
	}
	st, ok := t.Underlying().(*types.Struct)
	if !ok {
		return false
	}
	for i := 0; i < st.NumFields(); i++ {
		if _, ok := b.src[st.Field(i)]; ok {
			return true
		}
		if _, isStruct := st.Field(i).Type().Underlying().(*types.Struct); isStruct && b.containsSrcField(st.Field(i).Type(), depth+1) {
			return true
		}
	}
	return false
}

func (b *c08Bounds) addUnit(fn *ssa.Function) {
	if fn == nil || fn.Blocks == nil || b.unitSeen[fn] {
		return
	}
	b.unitSeen[fn] = true
	b.units = append(b.units, fn)
}

// analyse lists the sinks of fn reached by tainted values, given the set of
// tainted parameters.
func (b *c08Bounds) analyse(fn *ssa.Function, tpIdx []int, depth int) []*c08Sink {
	sort.Ints(tpIdx)
	key := fmt.Sprintf("%p|%v", fn, tpIdx)
	if s, ok := b.memo[key]; ok {
		return s
	}
	if b.busy[key] || depth > 6 {
		return nil
	}
	b.busy[key] = true
	defer func() { b.busy[key] = false }()
	tp := map[*ssa.Parameter]bool{}
	for _, i := range tpIdx {
		if i < len(fn.Params) {
			tp[fn.Params[i]] = true
		}
	}
	var sinks []*c08Sink
	mk := func(ins ssa.Instruction, v ssa.Value, what string, strict bool) {
		ls := b.leavesOf(v, tp)
		if len(ls) == 0 {
			return
		}
		s := &c08Sink{Fn: fn, Ins: ins, Strict: strict, ParamOnly: true}
		var names []string
		seenP := map[int]bool{}
		for _, l := range ls {
			names = append(names, b.leafName(l))
			var p *ssa.Parameter
			switch x := l.(type) {
			case *ssa.Parameter:
				p = x
			case *ssa.UnOp:
				if _, isSrc := b.isSrcLoad(l); !isSrc {
					p = paramOfRoot(x.X)
				}
			}
			if p == nil || !tp[p] {
				s.ParamOnly = false
				continue
			}
			if i := paramIndex(p); !seenP[i] {
				seenP[i] = true
				s.Params = append(s.Params, i)
			}
		}
		sort.Strings(names)
		s.Leaves = strings.Join(uniqStrings(names), ",")
		s.What = what + " by " + s.Leaves
		s.Why, s.Guarded = b.bounded(fn, v, ins, strict, tp)
		sinks = append(sinks, s)
	}
	for _, blk := range fn.Blocks {
		for _, ins := range blk.Instrs {
			switch x := ins.(type) {
			case *ssa.IndexAddr:
				if indexable(x.X.Type()) {
					mk(ins, x.Index, "index", true)
				}
			case *ssa.Index:
				if indexable(x.X.Type()) {
					mk(ins, x.Index, "index", true)
				}
			case *ssa.Slice:
				if x.Low != nil {
					mk(ins, x.Low, "slice low bound", false)
				}
				if x.High != nil {
					mk(ins, x.High, "slice high bound", false)
				}
				if x.Max != nil {
					mk(ins, x.Max, "slice max bound", false)
				}
			case *ssa.MakeSlice:
				mk(ins, x.Len, "make length", false)
			case *ssa.If:
				if len(blk.Succs) != 2 {
					continue
				}
				p0, p1 := b.isPanicBlock(blk.Succs[0]), b.isPanicBlock(blk.Succs[1])
				if p0 == p1 {
					continue
				}
				if bo, ok := x.Cond.(*ssa.BinOp); ok {
					switch bo.Op {
					case token.LSS, token.LEQ, token.GTR, token.GEQ:
						mk(ins, bo.X, "panicking range check", true)
						mk(ins, bo.Y, "panicking range check", true)
					}
				}
			case ssa.CallInstruction:
				cc := x.Common()
				if _, isB := cc.Value.(*ssa.Builtin); isB {
					continue
				}
				callees := moduleCallees(b.c, x)
				if len(callees) == 0 {
					continue
				}
				nargs := len(cc.Args)
				if cc.IsInvoke() {
					nargs++
				}
				var tainted []int
				structArg := false
				for j := 0; j < nargs; j++ {
					a := argOf(cc, j)
					if a == nil {
						continue
					}
					if len(b.leavesOf(a, tp)) > 0 {
						tainted = append(tainted, j)
					} else if b.containsSrcField(a.Type(), 0) {
						structArg = true
					}
				}
				for _, callee := range callees {
					if structArg && depth < 3 {
						b.addUnit(callee)
					}
					if len(tainted) == 0 {
						continue
					}
					need := map[int]bool{} // arg index -> strict?
					for _, cs := range b.analyse(callee, tainted, depth+1) {
						if cs.Guarded || !cs.ParamOnly {
							continue
						}
						for _, pi := range cs.Params {
							need[pi] = need[pi] || cs.Strict
						}
					}
					var js []int
					for j := range need {
						js = append(js, j)
					}
					sort.Ints(js)
					for _, j := range js {
						mk(ins, argOf(cc, j), fmt.Sprintf("argument %d of %s (the callee indexes with it)", j, kit.FuncName(callee)), need[j])
					}
				}
			}
		}
	}
	b.memo[key] = sinks
	b.all = append(b.all, sinks...)
	return sinks
}

func uniqStrings(s []string) []string {
	var out []string
	for i, x := range s {
		if i == 0 || x != s[i-1] {
			out = append(out, x)
		}
	}
	return out
}

func runC08Bounds(c *kit.Ctx, k *keyer) {
	const pp = "internal/peerprotocol"
	b := &c08Bounds{c: c, src: map[*types.Var]string{}, memo: map[string][]*c08Sink{}, busy: map[string]bool{},
		flows: map[string]*kit.Flow{}, validMemo: map[string]bool{}, unitSeen: map[*ssa.Function]bool{}}
	for _, tf := range [][2]string{{"HaveMessage", "Index"}, {"RequestMessage", "Index"}, {"RequestMessage", "Begin"}, {"RequestMessage", "Length"},
		{"PieceMessage", "Index"}, {"PieceMessage", "Begin"}, {"ExtensionMetadataMessage", "Piece"}, {"ExtensionMetadataMessage", "TotalSize"}, {"PortMessage", "Port"}} {
		b.src[c.Field(pp, tf[0], tf[1])] = tf[0] + "." + tf[1]
	}
	b.fNumPcs = c.Field("internal/metainfo", "Info", "NumPieces")
	b.bfLen = c.FuncObj("internal/bitfield", "(*Bitfield).Len")

	// roots: every function of package torrent that reads a wire integer
	for _, fn := range c.ModuleFunctions() {
		if !inPkg(fn, c, "torrent") {
			continue
		}
		reads := false
		kit.Instrs(fn, func(ins ssa.Instruction) {
			if v, ok := ins.(ssa.Value); ok {
				if _, ok := b.isSrcLoad(v); ok {
					reads = true
				}
			}
		})
		if reads {
			b.addUnit(fn)
		}
	}
	nRoots := len(b.units)
	c.Floor("R08.3", "functions of package torrent that read a wire integer", nRoots, 3)
	for i := 0; i < len(b.units); i++ {
		b.analyse(b.units[i], nil, 0)
	}
	sort.SliceStable(b.all, func(i, j int) bool { return b.all[i].Ins.Pos() < b.all[j].Ins.Pos() })
	n := 0
	for _, s := range b.all {
		n++
		key := k.key(s.Fn, s.What)
		switch {
		case s.Guarded:
			c.OK("R08.3", key, posOf(s.Ins), "%s on every path before the use", s.Why)
		case s.ParamOnly:
			c.Present("R08.3", key, posOf(s.Ins), "not bounded here; the bound is required at every call site that passes a peer-chosen value (see the 'argument of' obligations)")
		default:
			c.Bad("R08.3", key, posOf(s.Ins), "peer-chosen value %s reaches %s without an upper bound against a length / piece count (or a membership test) on every path: an out-of-range value panics the process", s.Leaves, strings.SplitN(s.What, " by ", 2)[0])
		}
	}
	c.Floor("R08.3", "sinks reached by peer-chosen integers", n, 10)

	// ---- size agreement (K7): the quantities the bounds refer to agree by construction
	{
		fPieces := c.Field("torrent", "torrent", "pieces")
		newPieces := c.Func("internal/piece", "NewPieces")
		newPiecesObj := c.FuncObj("internal/piece", "NewPieces")
		for _, st := range fieldStores(c, fPieces) {
			e := kit.Canon(st.Val)
			key := k.key(st.Fn, "store torrent.pieces")
			if e.IsNil() {
				c.Present("R08.3", key, posOf(st.Store), "reset to nil")
				continue
			}
			c.Check(e.IsCallTo(newPiecesObj), "R08.3", key, posOf(st.Store), "torrent.pieces = piece.NewPieces(info, ..)", "torrent.pieces assigned from "+e.String()+": len(t.pieces) == info.NumPieces no longer follows")
		}
		okLen := false
		for _, r := range returnsOf(newPieces) {
			if len(r.Results) != 1 {
				continue
			}
			v := r.Results[0]
			if ms, ok := v.(*ssa.MakeSlice); ok && kit.Canon(ms.Len).Mentions(func(x *kit.Expr) bool { return x.IsField(b.fNumPcs) }) {
				okLen = true
			} else {
				okLen = false
				break
			}
		}
		c.Check(okLen, "R08.3", "piece.NewPieces/len==NumPieces", newPieces.Pos(), "NewPieces returns make([]Piece, info.NumPieces)", "NewPieces no longer returns a slice of exactly info.NumPieces pieces: index checks against NumPieces do not bound t.pieces")
		// picker table
		ppNew := c.Func("internal/piecepicker", "New")
		fPP := c.Field("internal/piecepicker", "PiecePicker", "pieces")
		okPP := false
		for _, st := range fieldStores(c, fPP) {
			if st.Fn != ppNew {
				okPP = false
				c.Bad("R08.3", k.key(st.Fn, "store PiecePicker.pieces"), posOf(st.Store), "picker piece table replaced outside its constructor")
				continue
			}
			if ms, ok := st.Val.(*ssa.MakeSlice); ok {
				le := kit.Canon(ms.Len).Strip()
				if le.Kind == "len" && le.Args[0].V == ssa.Value(ppNew.Params[0]) {
					okPP = true
				}
			}
		}
		c.Check(okPP, "R08.3", "piecepicker.New/len==len(pieces)", ppNew.Pos(), "picker table is make([]myPiece, len(pieces))", "picker table length is not len(pieces)")
		for _, s := range sortSites(c.CallSites(c.FuncObj("internal/piecepicker", "New"))) {
			a := kit.Canon(argOf(s.Instr.Common(), 0)).Strip()
			c.Check(a.IsField(fPieces), "R08.3", k.key(s.Fn, "piecepicker.New(pieces)"), posOf(s.Instr), "picker built over torrent.pieces", "picker built over "+a.String()+", not torrent.pieces")
		}
		// peer bitfield
		fPB := c.Field("internal/peer", "Peer", "Bitfield")
		bfNew := c.FuncObj("internal/bitfield", "New")
		nb := 0
		for _, st := range fieldStores(c, fPB) {
			nb++
			e := kit.Canon(st.Val)
			ok := e.IsCallTo(bfNew) && len(e.Args) == 1 && e.Args[0].Strip().IsField(b.fNumPcs)
			c.Check(ok, "R08.3", k.key(st.Fn, "store Peer.Bitfield"), posOf(st.Store), "peer bitfield = bitfield.New(info.NumPieces)", "peer bitfield assigned from "+e.String()+": HandleHave(pe, i) with i < NumPieces may panic in Bitfield.Set")
		}
		c.Floor("R08.3", "stores to Peer.Bitfield", nb, 2)
		// bitfield bytes length
		nbf := c.Func("internal/bitfield", "NewBytes")
		numBytes := c.FuncObj("internal/bitfield", "NumBytes")
		fBytes := c.Field("internal/bitfield", "Bitfield", "bytes")
		lenOK := c.AtomFlow(nbf, func(a kit.Atom) bool {
			if a.Op != token.EQL {
				return false
			}
			isLen := func(e *kit.Expr) bool {
				e = e.Strip()
				return e.Kind == "len" && e.Args[0].V == ssa.Value(nbf.Params[0])
			}
			isNB := func(e *kit.Expr) bool { return e.Strip().IsCallTo(numBytes) }
			return (isLen(a.L) && isNB(a.R)) || (isLen(a.R) && isNB(a.L))
		}, nil)
		ns := 0
		kit.Instrs(nbf, func(ins ssa.Instruction) {
			if _, ok := kit.StoresField(ins, fBytes); ok {
				ns++
				c.Check(lenOK.Before(ins), "R08.3", k.key(nbf, "construct Bitfield from peer bytes"), posOf(ins),
					"a Bitfield over caller-supplied bytes is built only under len(b) == NumBytes(length)", "bitfield.NewBytes builds a Bitfield without len(b) == NumBytes(length): a wrong-length bitfield message makes Test/Set index past the byte slice")
			}
		})
		c.Floor("R08.3", "Bitfield constructions in NewBytes", ns, 1)
	}
}

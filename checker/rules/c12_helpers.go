package rules

import (
	"go/constant"
	"go/token"
	"go/types"
	"strings"

	"golang.org/x/tools/go/ssa"

	"rainverif/checker/kit"
)

// ---- cells: locals that go/ssa keeps in memory ---------------------------
//
// A local (or parameter) that is captured by a closure or whose address is
// taken is an Alloc in the declaring function and a FreeVar in the closures.
// A "cell" is that Alloc; cellRoot maps any address value to it.

// bindingOf resolves a closure free variable to the value bound by the
// MakeClosure in the parent function (through nested closures).
func bindingOf(fv *ssa.FreeVar) ssa.Value {
	fn := fv.Parent()
	par := fn.Parent()
	if par == nil {
		return nil
	}
	idx := -1
	for i, f := range fn.FreeVars {
		if f == fv {
			idx = i
		}
	}
	var out ssa.Value
	kit.Instrs(par, func(ins ssa.Instruction) {
		if mc, ok := ins.(*ssa.MakeClosure); ok && mc.Fn == ssa.Value(fn) && idx >= 0 && idx < len(mc.Bindings) {
			out = mc.Bindings[idx]
		}
	})
	if f2, ok := out.(*ssa.FreeVar); ok {
		return bindingOf(f2)
	}
	return out
}

// cellRoot maps an address value to the cell it denotes.
func cellRoot(v ssa.Value) ssa.Value {
	if fv, ok := v.(*ssa.FreeVar); ok {
		if b := bindingOf(fv); b != nil {
			return b
		}
	}
	return v
}

// loadOfCell reports whether v is a load `*addr` of the given cell.
func loadOfCell(v ssa.Value, cell ssa.Value) bool {
	u, ok := v.(*ssa.UnOp)
	return ok && u.Op == token.MUL && cell != nil && cellRoot(u.X) == cell
}

// derefOfCell is loadOfCell on canonical expressions.
func derefOfCell(e *kit.Expr, cell ssa.Value) bool {
	e = e.Strip()
	return e != nil && e.V != nil && loadOfCell(e.V, cell)
}

type cellStore struct {
	Fn *ssa.Function
	St *ssa.Store
}

// cellStores lists the direct stores to a cell in fn and its closures.
func cellStores(fn *ssa.Function, cell ssa.Value) []cellStore {
	var out []cellStore
	for _, f := range kit.WithAnon(fn) {
		kit.Instrs(f, func(ins ssa.Instruction) {
			if st, ok := ins.(*ssa.Store); ok && cellRoot(st.Addr) == cell {
				out = append(out, cellStore{f, st})
			}
		})
	}
	return out
}

// cellEscapes reports whether the address of the cell is used other than
// by a direct load, a direct store or a closure binding (e.g. passed to a
// call, stored in a structure): then its stores cannot be enumerated.
func cellEscapes(fn *ssa.Function, cell ssa.Value) bool {
	esc := false
	for _, f := range kit.WithAnon(fn) {
		kit.Instrs(f, func(ins ssa.Instruction) {
			for _, op := range ins.Operands(nil) {
				if *op == nil || cellRoot(*op) != cell {
					continue
				}
				switch x := ins.(type) {
				case *ssa.UnOp:
					if x.Op == token.MUL {
						continue
					}
				case *ssa.Store:
					if x.Addr == *op && x.Val != *op {
						continue
					}
				case *ssa.MakeClosure, *ssa.DebugRef:
					continue
				}
				esc = true
			}
		})
	}
	return esc
}

// closuresStoreCell reports whether a closure of fn stores to the cell.
func closuresStoreCell(fn *ssa.Function, cell ssa.Value) bool {
	for _, s := range cellStores(fn, cell) {
		if s.Fn != fn {
			return true
		}
	}
	return false
}

// ---- immutable bool parameters --------------------------------------------

// boolParam is a bool parameter of a function together with its spill cell
// (when a closure captures it). Guards on it are only meaningful when it is
// never re-assigned: a re-assigned non-captured parameter becomes a new SSA
// value (so atoms no longer mention the Parameter and nothing is generated);
// a captured one is checked through the cell's store count.
type boolParam struct {
	Fn   *ssa.Function
	P    *ssa.Parameter
	Idx  int
	Cell *ssa.Alloc
}

func findParam(fn *ssa.Function, name string) (*ssa.Parameter, int) {
	for i, p := range fn.Params {
		if p.Name() == name {
			return p, i
		}
	}
	panic(kit.AnchorError{Msg: "parameter " + name + " of " + kit.FuncName(fn)})
}

func newBoolParam(fn *ssa.Function, name string) *boolParam {
	p, i := findParam(fn, name)
	if b, ok := p.Type().Underlying().(*types.Basic); !ok || b.Kind() != types.Bool {
		panic(kit.AnchorError{Msg: "parameter " + name + " of " + kit.FuncName(fn) + " is not a bool"})
	}
	bp := &boolParam{Fn: fn, P: p, Idx: i}
	if len(fn.Blocks) > 0 {
		for _, ins := range fn.Blocks[0].Instrs {
			if st, ok := ins.(*ssa.Store); ok && st.Val == ssa.Value(p) {
				if a, ok := st.Addr.(*ssa.Alloc); ok {
					bp.Cell = a
				}
			}
		}
	}
	return bp
}

// reassigned reports whether the (spilled) parameter is written after
// entry.
func (b *boolParam) reassigned() bool {
	if b.Cell == nil {
		return false
	}
	return len(cellStores(b.Fn, b.Cell)) != 1 || cellEscapes(b.Fn, b.Cell)
}

// is matches an expression that reads the parameter (in fn or a closure).
func (b *boolParam) is(e *kit.Expr) bool {
	e = e.Strip()
	if e == nil || e.V == nil {
		return false
	}
	if e.V == ssa.Value(b.P) {
		return true
	}
	return b.Cell != nil && loadOfCell(e.V, b.Cell)
}

// ---- nil-ness of returned errors -------------------------------------------

// errFacts decides, per function, whether an error value is certainly
// non-nil at a program point.
type errFacts struct {
	c     *kit.Ctx
	fn    *ssa.Function
	vals  map[ssa.Value]*kit.Flow
	cells map[*ssa.Alloc]*kit.Flow
}

func newErrFacts(c *kit.Ctx, fn *ssa.Function) *errFacts {
	return &errFacts{c: c, fn: fn, vals: map[ssa.Value]*kit.Flow{}, cells: map[*ssa.Alloc]*kit.Flow{}}
}

func isErrCtor(cc *ssa.CallCommon) bool {
	fn := cc.StaticCallee()
	if fn == nil || fn.Pkg == nil {
		return false
	}
	switch fn.Pkg.Pkg.Path() + "." + fn.Name() {
	case "errors.New", "fmt.Errorf":
		return true
	}
	return false
}

func termOf(b *ssa.BasicBlock) ssa.Instruction {
	if len(b.Instrs) == 0 {
		return nil
	}
	return b.Instrs[len(b.Instrs)-1]
}

// nonNil: the error value v is certainly non-nil when control is at `at`.
func (x *errFacts) nonNil(v ssa.Value, at ssa.Instruction, seen map[ssa.Value]bool) bool {
	if _, isPhi := v.(*ssa.Phi); isPhi && at != nil && x.valFlow(v).Before(at) {
		return true // the merged value itself was tested
	}
	switch t := v.(type) {
	case *ssa.Const:
		return !t.IsNil()
	case *ssa.MakeInterface:
		return true
	case *ssa.Call:
		if isErrCtor(&t.Call) {
			return true
		}
	case *ssa.Phi:
		if seen == nil {
			seen = map[ssa.Value]bool{}
		}
		if seen[v] {
			return true
		}
		seen[v] = true
		for i, e := range t.Edges {
			pred := t.Block().Preds[i]
			if _, isConst := e.(*ssa.Const); !isConst && x.valFlow(e).OnEdge(pred, t.Block()) {
				continue
			}
			if !x.nonNil(e, termOf(pred), seen) {
				return false
			}
		}
		return true
	case *ssa.UnOp:
		if a, ok := t.X.(*ssa.Alloc); ok && t.Op == token.MUL {
			return x.cellFlow(a).Before(t)
		}
	}
	if at == nil {
		return false
	}
	return x.valFlow(v).Before(at)
}

// valFlow: "SSA value v was tested != nil on every path to here".
func (x *errFacts) valFlow(v ssa.Value) *kit.Flow {
	fl := x.vals[v]
	if fl == nil {
		fl = x.c.AtomFlow(x.fn, func(a kit.Atom) bool {
			return a.IsNilCmp(false, func(e *kit.Expr) bool { return e.V == v })
		}, nil)
		x.vals[v] = fl
	}
	return fl
}

// cellFlow: "the error cell holds a non-nil value".
func (x *errFacts) cellFlow(a *ssa.Alloc) *kit.Flow {
	if fl, ok := x.cells[a]; ok {
		return fl
	}
	fn := a.Parent()
	closureWrites := closuresStoreCell(fn, a)
	kill := func(ins ssa.Instruction) bool {
		if storesInto(ins, a) {
			return true
		}
		if closureWrites {
			switch ins.(type) {
			case *ssa.Call, *ssa.RunDefers:
				return true
			}
		}
		return false
	}
	// loads tested by an If that are still current at the branch
	fresh := map[ssa.Value]bool{}
	for _, b := range fn.Blocks {
		ifi, ok := termOf(b).(*ssa.If)
		if !ok {
			continue
		}
		for _, truth := range []bool{true, false} {
			for _, at := range kit.EdgeAtoms(ifi.Cond, truth) {
				ld, ok := at.L.V.(*ssa.UnOp)
				if !ok || !loadOfCell(ld, a) || ld.Block() != b {
					continue
				}
				cur, after := true, false
				for _, ins := range b.Instrs {
					if ins == ssa.Instruction(ld) {
						after = true
						continue
					}
					if after && kill(ins) {
						cur = false
					}
				}
				if cur {
					fresh[ld] = true
				}
			}
		}
	}
	fl := &kit.Flow{P: x.c.Prog, Fn: fn}
	fl.Edge = func(at kit.Atom) bool {
		return at.IsNilCmp(false, func(e *kit.Expr) bool { return e.V != nil && fresh[e.V] })
	}
	fl.Instr = func(ins ssa.Instruction, in bool) bool {
		if st, ok := ins.(*ssa.Store); ok && st.Addr == ssa.Value(a) {
			switch v := st.Val.(type) {
			case *ssa.MakeInterface:
				return true
			case *ssa.Const:
				return !v.IsNil()
			case *ssa.Call:
				return isErrCtor(&v.Call)
			}
			return false
		}
		if in && kill(ins) {
			return false
		}
		return in
	}
	fl.Solve()
	x.cells[a] = fl
	return fl
}

// successReturns lists the returns of fn whose error result (index idx) may
// be nil. The recover block's return (after a recovered panic) is skipped.
func (x *errFacts) successReturns(idx int) []*ssa.Return {
	var out []*ssa.Return
	for _, r := range returnsOf(x.fn) {
		if r.Block() == x.fn.Recover || idx >= len(r.Results) {
			continue
		}
		if !x.nonNil(r.Results[idx], r, nil) {
			out = append(out, r)
		}
	}
	return out
}

// cellHolds: flow "cell a currently holds exactly the SSA value target".
func cellHolds(c *kit.Ctx, a *ssa.Alloc, target ssa.Value) *kit.Flow {
	fn := a.Parent()
	closureWrites := closuresStoreCell(fn, a)
	fl := &kit.Flow{P: c.Prog, Fn: fn}
	fl.Instr = func(ins ssa.Instruction, in bool) bool {
		if st, ok := ins.(*ssa.Store); ok && st.Addr == ssa.Value(a) {
			return st.Val == target
		}
		if in && storesInto(ins, a) {
			return false
		}
		if in && closureWrites {
			switch ins.(type) {
			case *ssa.Call, *ssa.RunDefers:
				return false
			}
		}
		return in
	}
	return fl.Solve()
}

// resultOf returns the SSA values that denote result idx of call (the call
// itself for single-result functions, else the Extracts).
func resultOf(call *ssa.Call, idx int) map[ssa.Value]bool {
	out := map[ssa.Value]bool{}
	if call.Call.Signature().Results().Len() == 1 {
		out[call] = true
		return out
	}
	for _, r := range *call.Referrers() {
		if ex, ok := r.(*ssa.Extract); ok && ex.Index == idx {
			out[ex] = true
		}
	}
	return out
}

// callSucceeded: flow "the call returned a nil error (result errIdx)", a
// fact about the past that is never killed. The error may be tested
// directly or after a round trip through a local error cell.
func callSucceeded(c *kit.Ctx, call *ssa.Call, errIdx int) *kit.Flow {
	fn := call.Parent()
	evs := resultOf(call, errIdx)
	holds := map[*ssa.Alloc]map[ssa.Value]*kit.Flow{}
	isErr := func(e *kit.Expr) bool {
		e = e.Strip()
		if e == nil || e.V == nil {
			return false
		}
		if evs[e.V] {
			return true
		}
		if u, ok := e.V.(*ssa.UnOp); ok && u.Op == token.MUL {
			if a, ok := u.X.(*ssa.Alloc); ok {
				for ev := range evs {
					if holds[a] == nil {
						holds[a] = map[ssa.Value]*kit.Flow{}
					}
					if holds[a][ev] == nil {
						holds[a][ev] = cellHolds(c, a, ev)
					}
					if holds[a][ev].Before(u) {
						return true
					}
				}
			}
		}
		return false
	}
	return c.AtomFlow(fn, func(a kit.Atom) bool { return a.IsNilCmp(true, isErr) }, nil)
}

// notYetExecuted: the flow "instruction site has not executed on any path to
// here" (entry true, false from site on). Built without callee summaries:
// site is usually a call to a module function, and a summary of the callee
// (which cannot contain site) would re-establish the fact right after it.
func notYetExecuted(c *kit.Ctx, fn *ssa.Function, site ssa.Instruction) *kit.Flow {
	fl := &kit.Flow{P: c.Prog, Fn: fn, Entry: true}
	fl.Instr = func(ins ssa.Instruction, in bool) bool {
		if ins == site {
			return false
		}
		return in
	}
	return fl.Solve()
}

// ---- CFG reachability -------------------------------------------------------

// reaches reports whether instruction b can execute after instruction a.
func reaches(a, b ssa.Instruction) bool {
	ba, bb := a.Block(), b.Block()
	if ba == bb {
		for _, ins := range ba.Instrs {
			if ins == a {
				return true // a first, b later in the same block
			}
			if ins == b {
				break
			}
		}
	}
	seen := map[*ssa.BasicBlock]bool{}
	work := append([]*ssa.BasicBlock(nil), ba.Succs...)
	for len(work) > 0 {
		x := work[len(work)-1]
		work = work[:len(work)-1]
		if seen[x] {
			continue
		}
		seen[x] = true
		if x == bb {
			return true
		}
		work = append(work, x.Succs...)
	}
	return false
}

// ---- bit provenance -----------------------------------------------------------

// bitOnlyUnder decides "flag value v contains `bit` only in executions in
// which `holds` is established", where holds is a fact about immutable
// inputs (so it may be evaluated at the use, at a phi edge or at the
// definition: any of them suffices).
func bitOnlyUnder(fn *ssa.Function, v ssa.Value, bit int64, at ssa.Instruction, holds *kit.Flow, seen map[ssa.Value]bool) bool {
	if at != nil && at.Parent() == holds.Fn && holds.Before(at) {
		return true
	}
	if seen == nil {
		seen = map[ssa.Value]bool{}
	}
	if seen[v] {
		return true
	}
	seen[v] = true
	defer delete(seen, v)
	constHas := func(k *ssa.Const) (bool, bool) {
		if k.Value == nil || k.Value.Kind() != constant.Int {
			return false, false
		}
		n, ok := constant.Int64Val(k.Value)
		return n&bit != 0, ok
	}
	switch x := v.(type) {
	case *ssa.Const:
		has, ok := constHas(x)
		return ok && !has
	case *ssa.Phi:
		for i, e := range x.Edges {
			pred := x.Block().Preds[i]
			if x.Parent() == holds.Fn && holds.OnEdge(pred, x.Block()) {
				continue // the fact is established on this very edge
			}
			if !bitOnlyUnder(fn, e, bit, termOf(pred), holds, seen) {
				return false
			}
		}
		return true
	case *ssa.BinOp:
		switch x.Op {
		case token.OR, token.XOR:
			return bitOnlyUnder(fn, x.X, bit, x, holds, seen) && bitOnlyUnder(fn, x.Y, bit, x, holds, seen)
		case token.AND:
			return bitOnlyUnder(fn, x.X, bit, x, holds, seen) || bitOnlyUnder(fn, x.Y, bit, x, holds, seen)
		case token.AND_NOT:
			if k, ok := x.Y.(*ssa.Const); ok {
				if has, ok := constHas(k); ok && has {
					return true
				}
			}
			return bitOnlyUnder(fn, x.X, bit, x, holds, seen)
		}
		return false
	case *ssa.Convert:
		return bitOnlyUnder(fn, x.X, bit, x, holds, seen)
	case *ssa.ChangeType:
		return bitOnlyUnder(fn, x.X, bit, x, holds, seen)
	case *ssa.UnOp:
		if x.Op == token.MUL {
			cell := cellRoot(x.X)
			a, ok := cell.(*ssa.Alloc)
			if !ok || cellEscapes(a.Parent(), a) {
				return false
			}
			for _, s := range cellStores(a.Parent(), a) {
				if s.Fn != fn {
					return false // written by another function: facts of fn do not apply there
				}
				if !bitOnlyUnder(fn, s.St.Val, bit, s.St, holds, seen) {
					return false
				}
			}
			return true // (zero value has no bits)
		}
	}
	return false
}

// ---- value origins (K5) -------------------------------------------------------

type origin struct {
	Kind  string // field, call, const, closureparam, nocaller, funcvalue, other
	Field *types.Var
	Base  string
	Call  *types.Func
	Idx   int
	Neg   bool
	Desc  string
	Pos   token.Pos
	In    *ssa.Function
}

func (o origin) String() string {
	n := ""
	if o.Neg {
		n = "!"
	}
	switch o.Kind {
	case "field":
		return n + strings.ReplaceAll(o.Base, "&", "") + "." + o.Field.Name()
	case "call":
		return n + "result #" + itoa(o.Idx) + " of " + o.Call.FullName()
	}
	return n + o.Kind + "(" + o.Desc + ")"
}

func itoa(i int) string {
	if i < 0 {
		return "-" + itoa(-i)
	}
	if i < 10 {
		return string(rune('0' + i))
	}
	return itoa(i/10) + string(rune('0'+i%10))
}

// origins follows a value backwards to the struct fields / call results /
// constants it is copied from: through `!`, conversions, phis, local cells,
// and parameters (to the corresponding argument of every call site, to the
// given depth). Anything else is reported as "other".
func origins(c *kit.Ctx, v ssa.Value, neg bool, depth int, seen map[ssa.Value]bool) []origin {
	if seen == nil {
		seen = map[ssa.Value]bool{}
	}
	if seen[v] {
		return nil
	}
	seen[v] = true
	inFn := func() *ssa.Function {
		if i, ok := v.(ssa.Instruction); ok {
			return i.Parent()
		}
		if p, ok := v.(*ssa.Parameter); ok {
			return p.Parent()
		}
		return nil
	}()
	other := func(d string) []origin {
		return []origin{{Kind: "other", Desc: d, Neg: neg, Pos: v.Pos(), In: inFn}}
	}
	switch x := v.(type) {
	case *ssa.Const:
		return []origin{{Kind: "const", Desc: x.String(), Neg: neg, In: inFn}}
	case *ssa.ChangeType:
		return origins(c, x.X, neg, depth, seen)
	case *ssa.Convert:
		return origins(c, x.X, neg, depth, seen)
	case *ssa.Phi:
		var out []origin
		for _, e := range x.Edges {
			out = append(out, origins(c, e, neg, depth, seen)...)
		}
		return out
	case *ssa.Field:
		e := kit.Canon(v)
		return []origin{{Kind: "field", Field: e.Field, Base: e.Base().String(), Neg: neg, Pos: v.Pos(), In: inFn}}
	case *ssa.UnOp:
		switch x.Op {
		case token.NOT:
			return origins(c, x.X, !neg, depth, seen)
		case token.MUL:
			if _, ok := x.X.(*ssa.FieldAddr); ok {
				e := kit.Canon(v)
				if e.Kind == "field" {
					return []origin{{Kind: "field", Field: e.Field, Base: e.Base().String(), Neg: neg, Pos: v.Pos(), In: inFn}}
				}
			}
			if a, ok := cellRoot(x.X).(*ssa.Alloc); ok {
				if cellEscapes(a.Parent(), a) {
					return other("local whose address escapes")
				}
				var out []origin
				st := cellStores(a.Parent(), a)
				if len(st) == 0 {
					return []origin{{Kind: "const", Desc: "zero value", Neg: neg, In: inFn}}
				}
				for _, s := range st {
					out = append(out, origins(c, s.St.Val, neg, depth, seen)...)
				}
				return out
			}
		}
	case *ssa.Extract:
		if call, ok := x.Tuple.(*ssa.Call); ok {
			if obj := kit.CalleeObj(&call.Call); obj != nil {
				return []origin{{Kind: "call", Call: obj, Idx: x.Index, Neg: neg, Pos: call.Pos(), In: inFn}}
			}
		}
	case *ssa.Call:
		if obj := kit.CalleeObj(&x.Call); obj != nil {
			return []origin{{Kind: "call", Call: obj, Idx: 0, Neg: neg, Pos: x.Pos(), In: inFn}}
		}
	case *ssa.Parameter:
		fn := x.Parent()
		if fn.Parent() != nil {
			return []origin{{Kind: "closureparam", Desc: x.Name() + " of " + kit.FuncName(fn), Neg: neg, Pos: x.Pos(), In: fn}}
		}
		obj, _ := fn.Object().(*types.Func)
		if obj == nil || depth <= 0 {
			return other("parameter " + x.Name() + " of " + kit.FuncName(fn) + " (depth)")
		}
		idx := -1
		for i, p := range fn.Params {
			if p == x {
				idx = i
			}
		}
		var out []origin
		for _, r := range c.FuncRefs(obj) {
			out = append(out, origin{Kind: "funcvalue", Desc: kit.FuncName(fn) + " taken as a value in " + kit.FuncName(r.Fn), Neg: neg, Pos: r.Fn.Pos(), In: r.Fn})
		}
		sites := sortSites(c.CallSites(obj))
		if len(sites) == 0 {
			out = append(out, origin{Kind: "nocaller", Desc: kit.FuncName(fn), Neg: neg, Pos: fn.Pos(), In: fn})
		}
		for _, s := range sites {
			a := argOf(s.Instr.Common(), idx)
			if a == nil {
				out = append(out, origin{Kind: "other", Desc: "argument missing", Neg: neg, Pos: posOf(s.Instr), In: s.Fn})
				continue
			}
			// each call site is an independent context: fresh seen set
			out = append(out, origins(c, a, neg, depth-1, nil)...)
		}
		return out
	}
	return other(kit.Canon(v).String())
}

// ---- type helpers ---------------------------------------------------------------

func ifaceOf(c *kit.Ctx, pkg, name string) *types.Interface {
	i, _ := c.Named(pkg, name).Underlying().(*types.Interface)
	if i == nil {
		panic(kit.AnchorError{Msg: pkg + "." + name + " is not an interface"})
	}
	return i
}

func ptrToNamed(t types.Type, n *types.Named) bool {
	p, ok := t.(*types.Pointer)
	if !ok {
		return false
	}
	m, ok := p.Elem().(*types.Named)
	return ok && m.Origin() == n
}

package rules

import (
	"go/token"
	"go/types"

	"golang.org/x/tools/go/ssa"

	"rainverif/checker/kit"
)

// Rules added after independently seeded changes showed a gap. Each is a
// structural necessary condition of the property it is registered under.

func init() {
	registerExtra("C10", runR10_5)
	registerExtra("C09", runR09_8)
	registerExtra("C08", runR09_8asC08)
	registerExtra("C06", runR06_5)
}

// ---- R10.5 a block that was stored always reaches the piece-completion test
//
// GotBlock stores the block and marks it done *before* it returns
// ErrBlockNotRequested or nil. If the handler leaves without evaluating
// pd.Done() after such a return, a block that completes the piece is lost:
// the piece is never written and the peer's downloader is never freed.
func runR10_5(c *kit.Ctx) {
	k := newKeyer()
	gotBlock := c.FuncObj("internal/piecedownloader", "(*PieceDownloader).GotBlock")
	gb := c.Func("internal/piecedownloader", "(*PieceDownloader).GotBlock")
	done := c.FuncObj("internal/piecedownloader", "(*PieceDownloader).Done")
	// classify GotBlock's error results: returned before or after the copy
	// (the copy may sit in a helper of GotBlock: callee summaries)
	copied := (&kit.Flow{P: c.Prog, Fn: gb, Instr: func(ins ssa.Instruction, in bool) bool {
		if isBuiltin(kit.CallOf(ins), "copy") {
			return true
		}
		return in
	}}).WithDeep(kit.DefaultDeep, nil).Solve()
	notSaved := map[types.Object]bool{} // sentinel errors returned before the block is stored
	for _, r := range returnsOf(gb) {
		e := kit.Canon(r.Results[0])
		if e.Kind == "deref" && e.Args[0].Kind == "global" && !copied.Before(r) {
			notSaved[e.Args[0].Obj] = true
		}
	}
	c.Floor("R10.5", "GotBlock error sentinels returned before the block is stored", len(notSaved), 2)
	// paths that drop the peer do not need the completion test: the downloader is closed with it
	closePeer := c.FuncObj("torrent", "(*torrent).closePeer")
	// pendingExits: the returns of fn reached with "a block was stored since
	// `open` and pd.Done() was not evaluated" (and the peer not dropped).
	pendingExits := func(fn *ssa.Function, open ssa.Instruction, edge func(kit.Atom) bool) []*ssa.Return {
		// the opening call itself must not be summarised (kit.Flow would replace
		// the "opened" value by the callee's summary of the value before it)
		var opened *ssa.Function
		if cc := kit.CallOf(open); cc != nil {
			opened = cc.StaticCallee()
		}
		fl := (&kit.Flow{P: c.Prog, Fn: fn, Entry: true, Edge: edge,
			Instr: func(ins ssa.Instruction, in bool) bool {
				if ins == open {
					return false
				}
				if kit.CallsAny(ins, done) {
					return true
				}
				return in
			}}).WithDeep(kit.DefaultDeep, func(g *ssa.Function) bool { return g != opened }).Solve()
		closed := c.Called(fn, closePeer)
		var out []*ssa.Return
		for _, r := range fl.FailingReturns() {
			if !closed.Before(r) {
				out = append(out, r)
			}
		}
		return out
	}
	// callersDischarge: the function that stored the block returns with the
	// completion test pending; then every static caller must evaluate it after
	// the call (the handler was split and the tail stayed in the caller).
	var callersDischarge func(fn *ssa.Function, up int) bool
	callersDischarge = func(fn *ssa.Function, up int) bool {
		sites := c.StaticCallSites(fn)
		if len(sites) == 0 || up <= 0 {
			return false
		}
		for _, s := range sites {
			if s == nil {
				return false
			}
			if len(pendingExits(s.Parent(), s, nil)) > 0 && !callersDischarge(s.Parent(), up-1) {
				return false
			}
		}
		return true
	}
	n := 0
	for _, s := range sortSites(c.CallSites(gotBlock)) {
		if !inPkg(s.Fn, c, "torrent") {
			continue
		}
		n++
		h := s.Fn
		call, isCall := s.Instr.(*ssa.Call)
		if !isCall {
			c.Bad("R10.5", k.key(h, "GotBlock result dropped"), posOf(s.Instr), "GotBlock is spawned / deferred: its result (stored or not) is never examined")
			continue
		}
		pend := pendingExits(h, call, func(a kit.Atom) bool {
			// err == <sentinel returned before the block is stored>: nothing was stored
			if a.Op != token.EQL || a.L.V != ssa.Value(call) {
				return false
			}
			r := a.R
			return r.Kind == "deref" && r.Args[0].Kind == "global" && notSaved[r.Args[0].Obj]
		})
		if len(pend) > 0 && !callersDischarge(h, 2) {
			for _, r := range pend {
				c.Bad("R10.5", k.key(h, "return after stored block"), posOf(r), "the handler can return after GotBlock stored the block (nil / ErrBlockNotRequested) without evaluating pd.Done(): a block that completes the piece is dropped, the piece is never written and the peer is never asked again")
			}
			continue
		}
		c.OK("R10.5", k.key(h, "stored block reaches Done()"), posOf(call), "every path after a stored block evaluates pd.Done() (or drops the peer)")
	}
	if n == 0 {
		c.Bad("R10.5", "torrent/GotBlock", gb.Pos(), "package torrent no longer calls PieceDownloader.GotBlock")
	}
}

// ---- R09.8 allowed-fast downloads are never recorded as choked
//
// The choke and unchoke arms must agree: an allowed-fast download keeps
// running while the peer chokes us, so neither the torrent's choked map nor
// the picker's Choked set may contain it (the unchoke arm breaks early for
// allowed-fast downloads and would never clear the entry; the picker then
// panics "peer snubbed while choked").
func runR09_8(c *kit.Ctx)      { runR09_8impl(c, "R09.8") }
func runR09_8asC08(c *kit.Ctx) { runR09_8impl(c, "R08.6") }

func runR09_8impl(c *kit.Ctx, rule string) {
	k := newKeyer()
	fAF := c.Field("internal/piecedownloader", "PieceDownloader", "AllowedFast")
	fChoked := c.Field("torrent", "torrent", "pieceDownloadersChoked")
	handleChoke := c.FuncObj("internal/piecepicker", "(*PiecePicker).HandleChoke")
	n := 0
	// the fact is evaluated at the recording site including the context of its
	// static callers: the recording may sit in a helper called under the test
	notAF := c.FieldBoolSpec(fAF, false, kit.DefaultDeep)
	for _, fn := range c.ModuleFunctions() {
		if !inPkg(fn, c, "torrent") {
			continue
		}
		kit.Instrs(fn, func(ins ssa.Instruction) {
			isSite := isMapUpdateOf(ins, fChoked) || kit.CallsAny(ins, handleChoke)
			if !isSite {
				return
			}
			n++
			c.Check(notAF.Holds(ins, 2), rule, k.key(fn, "record choked download"), posOf(ins),
				"a download is recorded as choked only under pd.AllowedFast==false", "an allowed-fast download can be recorded as choked: the unchoke arm never clears it (it breaks early for allowed-fast downloads) and the next snub hits the picker's 'peer snubbed while choked' panic")
		})
	}
	c.Floor(rule, "choked-download recording sites", n, 2)
}

// ---- R06.5 a possibly-nil *metainfo.Info is not dereferenced when resume data is loaded
//
// Resume records may lack the info dictionary (magnet torrents). Every
// dereference of a *metainfo.Info value that can be nil on some path (a phi
// with a nil edge) needs a dominating != nil test.
func runR06_5(c *kit.Ctx) {
	k := newKeyer()
	tInfo := c.Named("internal/metainfo", "Info")
	n := 0
	for _, fn := range c.ModuleFunctions() {
		if !inPkg(fn, c, "torrent") {
			continue
		}
		kit.Instrs(fn, func(ins ssa.Instruction) {
			fa, ok := ins.(*ssa.FieldAddr)
			if !ok || derefNamed(fa.X.Type()) != tInfo {
				return
			}
			phi, ok := fa.X.(*ssa.Phi)
			if !ok {
				return
			}
			hasNil := false
			for _, e := range phi.Edges {
				if kit.Canon(e).IsNil() {
					hasNil = true
				}
			}
			if !hasNil {
				return
			}
			n++
			nonNil := c.AtomFlow(fn, func(a kit.Atom) bool {
				return a.IsNilCmp(false, func(e *kit.Expr) bool { return e.V == ssa.Value(phi) })
			}, nil)
			c.Check(nonNil.Before(ins), "R06.5", k.key(fn, "deref possibly-nil Info"), posOf(ins),
				"possibly-nil *metainfo.Info dereferenced only under a != nil test", "a *metainfo.Info that is nil on some path (resume record without info dictionary) is dereferenced without a nil test: loading such a record crashes the client at start-up")
		})
	}
	c.Present("R06.5", "torrent/possibly-nil Info dereferences", 0, "%d dereferences of a possibly-nil *metainfo.Info examined", n)
}

func init() { registerExtra("C17", runR17_5caps) }

// ---- R17.5 (continued) address list and read cache stay within their caps
func runR17_5caps(c *kit.Ctx) {
	k := newKeyer()
	// address list: after inserts, every path either shows Len()-maxItems <= 0 or passes removeExcessItems
	{
		push := c.Func("internal/addrlist", "(*AddrList).Push")
		fMax := c.Field("internal/addrlist", "AddrList", "maxItems")
		remove := c.FuncObj("internal/addrlist", "(*AddrList).removeExcessItems")
		fl := (&kit.Flow{P: c.Prog, Fn: push, Entry: true,
			Edge: func(a kit.Atom) bool {
				z, ok := a.R.IntConst()
				if !ok || z != 0 || (a.Op != token.LEQ && a.Op != token.LSS) {
					return false
				}
				return a.L.Kind == "binop" && a.L.Op == token.SUB && a.L.Args[1].IsField(fMax)
			},
			Instr: func(ins ssa.Instruction, in bool) bool {
				if kit.CallsAny(ins, remove) {
					return true
				}
				if cc := kit.CallOf(ins); cc != nil && cc.StaticCallee() != nil && cc.StaticCallee().Name() == "ReplaceOrInsert" {
					return false
				}
				return in
			}}).Solve()
		c.Check(len(fl.FailingReturns()) == 0, "R17.5", kit.FuncName(push)+"/cap enforced after inserts", push.Pos(),
			"after inserting addresses every path shows Len()-maxItems <= 0 or passes removeExcessItems", "AddrList.Push can return with more than maxItems stored addresses (the cap test / removeExcessItems is skipped on some path)")
		// the limit is wired from the configuration
		newFn := c.FuncObj("internal/addrlist", "New")
		fCfg := c.Field("torrent", "Config", "MaxPeerAddresses")
		for _, s := range sortSites(c.CallSites(newFn)) {
			a := kit.Canon(s.Instr.Common().Args[0])
			c.Check(a.Strip().IsField(fCfg), "R17.5", k.key(s.Fn, "wire MaxPeerAddresses"), posOf(s.Instr),
				"address-list cap wired from Config.MaxPeerAddresses", "address-list cap "+a.String()+" is not Config.MaxPeerAddresses")
		}
	}
	// read cache: size grows only after makeRoom and only for values that fit
	{
		fSize := c.Field("internal/piececache", "Cache", "size")
		fMaxSize := c.Field("internal/piececache", "Cache", "maxSize")
		makeRoom := c.FuncObj("internal/piececache", "(*Cache).makeRoom")
		n := 0
		for _, st := range fieldStores(c, fSize) {
			v := kit.Canon(st.Val)
			if v.Kind != "binop" || v.Op != token.ADD {
				continue
			}
			n++
			roomMade := (&kit.Flow{P: c.Prog, Fn: st.Fn, Instr: func(ins ssa.Instruction, in bool) bool {
				if kit.CallsAny(ins, makeRoom) {
					return true
				}
				if _, ok := kit.StoresField(ins, fSize); ok && ins != ssa.Instruction(st.Store) {
					return false
				}
				return in
			}}).Solve()
			fits := c.AtomFlow(st.Fn, func(a kit.Atom) bool {
				ok, _ := a.UpperBound(func(e *kit.Expr) bool { return e.Strip().Kind == "len" }, func(e *kit.Expr) bool { return e.IsField(fMaxSize) })
				return ok
			}, nil)
			c.Check(roomMade.Before(st.Store) && fits.Before(st.Store), "R17.5", k.key(st.Fn, "cache grows"), posOf(st.Store),
				"cache size grows only after makeRoom and only for a value with len <= maxSize", "read cache size can grow without evicting first / for a value larger than the cache: the configured read-cache size is exceeded")
		}
		c.Floor("R17.5", "read-cache size increments", n, 1)
		// makeRoom evicts until the new value fits
		mr := c.Func("internal/piececache", "(*Cache).makeRoom")
		fitsOnExit := c.AtomFlow(mr, func(a kit.Atom) bool {
			// !(maxSize-size < len) on the loop exit edge
			return (a.Op == token.GEQ || a.Op == token.GTR) && a.L.Kind == "binop" && a.L.Op == token.SUB && a.L.Args[0].IsField(fMaxSize) && a.L.Args[1].IsField(fSize)
		}, nil)
		c.Check(len(fitsOnExit.FailingReturns()) == 0, "R17.5", kit.FuncName(mr)+"/evicts until it fits", mr.Pos(),
			"makeRoom returns only when maxSize-size >= len(value)", "makeRoom can return although the new value does not fit")
		newCache := c.FuncObj("internal/piececache", "New")
		fCfg := c.Field("torrent", "Config", "ReadCacheSize")
		for _, s := range sortSites(c.CallSites(newCache)) {
			a := kit.Canon(s.Instr.Common().Args[0])
			c.Check(a.Strip().IsField(fCfg), "R17.5", k.key(s.Fn, "wire ReadCacheSize"), posOf(s.Instr),
				"read-cache size wired from Config.ReadCacheSize", "read-cache size "+a.String()+" is not Config.ReadCacheSize")
		}
	}
}

package rules

import (
	"go/token"
	"go/types"

	"golang.org/x/tools/go/ssa"

	"rainverif/checker/kit"
)

// Rules added after independently seeded changes showed a gap. Each is a
// structural necessary condition of the property it is registered under.

func init() {
	registerExtra("C10", runR10_5)
	registerExtra("C09", runR09_8)
	registerExtra("C08", runR09_8asC08)
	registerExtra("C06", runR06_5)
}

// ---- R10.5 a block that was stored always reaches the piece-completion test
//
// GotBlock stores the block and marks it done *before* it returns
// ErrBlockNotRequested or nil. If the handler leaves without evaluating
// pd.Done() after such a return, a block that completes the piece is lost:
// the piece is never written and the peer's downloader is never freed.
func runR10_5(c *kit.Ctx) {
	k := newKeyer()
	h := c.Func("torrent", "(*torrent).handlePieceMessage")
	gotBlock := c.FuncObj("internal/piecedownloader", "(*PieceDownloader).GotBlock")
	gb := c.Func("internal/piecedownloader", "(*PieceDownloader).GotBlock")
	done := c.FuncObj("internal/piecedownloader", "(*PieceDownloader).Done")
	// classify GotBlock's error results: returned before or after the copy
	copied := (&kit.Flow{P: c.Prog, Fn: gb, Instr: func(ins ssa.Instruction, in bool) bool {
		if isBuiltin(kit.CallOf(ins), "copy") {
			return true
		}
		return in
	}}).Solve()
	notSaved := map[types.Object]bool{} // sentinel errors returned before the block is stored
	for _, r := range returnsOf(gb) {
		e := kit.Canon(r.Results[0])
		if e.Kind == "deref" && e.Args[0].Kind == "global" && !copied.Before(r) {
			notSaved[e.Args[0].Obj] = true
		}
	}
	c.Floor("R10.5", "GotBlock error sentinels returned before the block is stored", len(notSaved), 2)
	var call ssa.Value
	kit.Instrs(h, func(ins ssa.Instruction) {
		if kit.CallsAny(ins, gotBlock) {
			call = ins.(ssa.Value)
		}
	})
	if call == nil {
		c.Bad("R10.5", kit.FuncName(h)+"/GotBlock", h.Pos(), "handlePieceMessage no longer calls GotBlock")
		return
	}
	fl := (&kit.Flow{P: c.Prog, Fn: h, Entry: true,
		Edge: func(a kit.Atom) bool {
			// err == <sentinel returned before the block is stored>: nothing was stored
			if a.Op != token.EQL || a.L.V != call {
				return false
			}
			r := a.R
			return r.Kind == "deref" && r.Args[0].Kind == "global" && notSaved[r.Args[0].Obj]
		},
		Instr: func(ins ssa.Instruction, in bool) bool {
			if ins == call.(ssa.Instruction) {
				return false
			}
			if kit.CallsAny(ins, done) {
				return true
			}
			return in
		}}).Solve()
	// paths that drop the peer do not need the completion test: the downloader is closed with it
	closePeer := c.FuncObj("torrent", "(*torrent).closePeer")
	bad := 0
	for _, r := range fl.FailingReturns() {
		closed := c.Called(h, closePeer)
		if closed.Before(r) {
			continue
		}
		bad++
		c.Bad("R10.5", k.key(h, "return after stored block"), posOf(r), "handlePieceMessage can return after GotBlock stored the block (nil / ErrBlockNotRequested) without evaluating pd.Done(): a block that completes the piece is dropped, the piece is never written and the peer is never asked again")
	}
	if bad == 0 {
		c.OK("R10.5", kit.FuncName(h)+"/stored block reaches Done()", posOf(call.(ssa.Instruction)), "every path after a stored block evaluates pd.Done() (or drops the peer)")
	}
}

// ---- R09.8 allowed-fast downloads are never recorded as choked
//
// The choke and unchoke arms must agree: an allowed-fast download keeps
// running while the peer chokes us, so neither the torrent's choked map nor
// the picker's Choked set may contain it (the unchoke arm breaks early for
// allowed-fast downloads and would never clear the entry; the picker then
// panics "peer snubbed while choked").
func runR09_8(c *kit.Ctx)      { runR09_8impl(c, "R09.8") }
func runR09_8asC08(c *kit.Ctx) { runR09_8impl(c, "R08.6") }

func runR09_8impl(c *kit.Ctx, rule string) {
	k := newKeyer()
	fAF := c.Field("internal/piecedownloader", "PieceDownloader", "AllowedFast")
	fChoked := c.Field("torrent", "torrent", "pieceDownloadersChoked")
	handleChoke := c.FuncObj("internal/piecepicker", "(*PiecePicker).HandleChoke")
	n := 0
	for _, fn := range c.ModuleFunctions() {
		if !inPkg(fn, c, "torrent") {
			continue
		}
		var notAF *kit.Flow
		kit.Instrs(fn, func(ins ssa.Instruction) {
			isSite := isMapUpdateOf(ins, fChoked) || kit.CallsAny(ins, handleChoke)
			if !isSite {
				return
			}
			n++
			if notAF == nil {
				notAF = c.FieldBool(fn, fAF, false)
			}
			c.Check(notAF.Before(ins), rule, k.key(fn, "record choked download"), posOf(ins),
				"a download is recorded as choked only under pd.AllowedFast==false", "an allowed-fast download can be recorded as choked: the unchoke arm never clears it (it breaks early for allowed-fast downloads) and the next snub hits the picker's 'peer snubbed while choked' panic")
		})
	}
	c.Floor(rule, "choked-download recording sites", n, 2)
}

// ---- R06.5 a possibly-nil *metainfo.Info is not dereferenced when resume data is loaded
//
// Resume records may lack the info dictionary (magnet torrents). Every
// dereference of a *metainfo.Info value that can be nil on some path (a phi
// with a nil edge) needs a dominating != nil test.
func runR06_5(c *kit.Ctx) {
	k := newKeyer()
	tInfo := c.Named("internal/metainfo", "Info")
	n := 0
	for _, fn := range c.ModuleFunctions() {
		if !inPkg(fn, c, "torrent") {
			continue
		}
		kit.Instrs(fn, func(ins ssa.Instruction) {
			fa, ok := ins.(*ssa.FieldAddr)
			if !ok || derefNamed(fa.X.Type()) != tInfo {
				return
			}
			phi, ok := fa.X.(*ssa.Phi)
			if !ok {
				return
			}
			hasNil := false
			for _, e := range phi.Edges {
				if kit.Canon(e).IsNil() {
					hasNil = true
				}
			}
			if !hasNil {
				return
			}
			n++
			nonNil := c.AtomFlow(fn, func(a kit.Atom) bool {
				return a.IsNilCmp(false, func(e *kit.Expr) bool { return e.V == ssa.Value(phi) })
			}, nil)
			c.Check(nonNil.Before(ins), "R06.5", k.key(fn, "deref possibly-nil Info"), posOf(ins),
				"possibly-nil *metainfo.Info dereferenced only under a != nil test", "a *metainfo.Info that is nil on some path (resume record without info dictionary) is dereferenced without a nil test: loading such a record crashes the client at start-up")
		})
	}
	c.Present("R06.5", "torrent/possibly-nil Info dereferences", 0, "%d dereferences of a possibly-nil *metainfo.Info examined", n)
}

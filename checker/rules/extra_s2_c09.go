package rules

import (
	"go/token"
	"go/types"
	"sort"
	"strings"

	"golang.org/x/tools/go/ssa"

	"rainverif/checker/kit"
)

// Rules added after the second round of independently seeded changes (C09).

func init() {
	registerExtra("C09", runR09_9)
	registerExtra("C09", runR09_10)
}

// ---- R09.9 a running web-seed download observes the truncation of its range
//
// PiecePicker.WebseedStopAt -> URLDownloader.UpdateEnd is how the picker takes
// the tail of a web-seed range away (another web seed or a peer took it, or a
// peer completed a piece inside it). The pieces of [newEnd, oldEnd) are handed
// to somebody else at that moment, so the downloader goroutine must see the
// new value before it decides whether the piece it has just completed was the
// last one: every non-false value stored into PieceResult.Done is a comparison
// one side of which is built only from constants and *atomic loads of
// URLDownloader.End performed for this very piece* (a load executed after the
// previous piece was delivered), and the downloader goroutine never reads End
// in any other way.
func runR09_9(c *kit.Ctx) {
	k := newKeyer()
	const pkg = "internal/urldownloader"
	fEnd := c.Field(pkg, "URLDownloader", "End")
	fDone := c.Field(pkg, "PieceResult", "Done")
	run := c.Func(pkg, "(*URLDownloader).Run")

	stripConv := func(v ssa.Value) ssa.Value {
		for {
			switch x := v.(type) {
			case *ssa.Convert:
				v = x.X
				continue
			case *ssa.ChangeType:
				v = x.X
				continue
			}
			return v
		}
	}
	// endLoad: v is the result of an atomic load of URLDownloader.End, or of
	// an accessor every return of which is one.
	var endLoad func(v ssa.Value, depth int) bool
	endLoad = func(v ssa.Value, depth int) bool {
		call, ok := stripConv(v).(*ssa.Call)
		if !ok {
			return false
		}
		callee := call.Call.StaticCallee()
		if callee == nil {
			return false
		}
		if kit.FnPkgPath(callee) == "sync/atomic" && strings.HasPrefix(callee.Name(), "Load") && len(call.Call.Args) == 1 {
			return kit.Canon(call.Call.Args[0]).IsField(fEnd)
		}
		if depth >= 2 || callee.Blocks == nil || !kit.InModule(kit.FnPkgPath(callee)) {
			return false
		}
		rets := returnsOf(callee)
		for _, r := range rets {
			if len(r.Results) != 1 || !endLoad(r.Results[0], depth+1) {
				return false
			}
		}
		return len(rets) > 0
	}
	// freshSide: the operand is built from constants and End loads only (at
	// least one load); returns the load instructions.
	var freshSide func(v ssa.Value, loads *[]ssa.Instruction) bool
	freshSide = func(v ssa.Value, loads *[]ssa.Instruction) bool {
		v = stripConv(v)
		switch x := v.(type) {
		case *ssa.Const:
			return true
		case *ssa.BinOp:
			switch x.Op {
			case token.ADD, token.SUB, token.MUL:
				return freshSide(x.X, loads) && freshSide(x.Y, loads)
			}
			return false
		case *ssa.Call:
			if endLoad(x, 0) {
				*loads = append(*loads, x)
				return true
			}
		}
		return false
	}
	// doneValue: v (a bool) is false, or a comparison against a fresh End, or a
	// combination of such values; loads = the instructions of the examined
	// function at which End was (re)read.
	var doneValue func(v ssa.Value, loads *[]ssa.Instruction, depth int, seen map[ssa.Value]bool) bool
	doneValue = func(v ssa.Value, loads *[]ssa.Instruction, depth int, seen map[ssa.Value]bool) bool {
		if seen[v] {
			return true
		}
		seen[v] = true
		if kit.Canon(v).IsConstBool(false) {
			return true
		}
		switch x := v.(type) {
		case *ssa.BinOp:
			switch x.Op {
			case token.LSS, token.LEQ, token.GTR, token.GEQ, token.EQL, token.NEQ:
				var l []ssa.Instruction
				if freshSide(x.X, &l) && len(l) > 0 {
					*loads = append(*loads, l...)
					return true
				}
				l = nil
				if freshSide(x.Y, &l) && len(l) > 0 {
					*loads = append(*loads, l...)
					return true
				}
			}
			return false
		case *ssa.UnOp:
			switch x.Op {
			case token.NOT:
				return doneValue(x.X, loads, depth, seen)
			case token.MUL:
				// a local variable (named result captured by a closure, ...): every value stored into it
				a, ok := x.X.(*ssa.Alloc)
				if !ok {
					return false
				}
				n, good := 0, true
				kit.Instrs(a.Parent(), func(ins ssa.Instruction) {
					if st, ok := ins.(*ssa.Store); ok && st.Addr == ssa.Value(a) {
						n++
						if !doneValue(st.Val, loads, depth, seen) {
							good = false
						}
					}
				})
				return n > 0 && good
			}
			return false
		case *ssa.Phi:
			for _, e := range x.Edges {
				if !doneValue(e, loads, depth, seen) {
					return false
				}
			}
			return true
		case *ssa.Call:
			// a predicate helper ("was this the last piece?") every result of which qualifies:
			// End is read during the call
			callee := x.Call.StaticCallee()
			if callee == nil || callee.Blocks == nil || depth >= 2 || !kit.InModule(kit.FnPkgPath(callee)) {
				return false
			}
			rets := returnsOf(callee)
			for _, r := range rets {
				var inner []ssa.Instruction
				if len(r.Results) != 1 || !doneValue(r.Results[0], &inner, depth+1, map[ssa.Value]bool{}) {
					return false
				}
				if !kit.Canon(r.Results[0]).IsConstBool(false) && len(inner) == 0 {
					return false
				}
			}
			if len(rets) == 0 {
				return false
			}
			*loads = append(*loads, x)
			return true
		}
		return false
	}

	n := 0
	for _, st := range fieldStores(c, fDone) {
		if kit.Canon(st.Val).IsConstBool(false) {
			continue
		}
		n++
		st := st
		key := k.key(st.Fn, "PieceResult.Done from a fresh End")
		var loads []ssa.Instruction
		if !doneValue(st.Val, &loads, 0, map[ssa.Value]bool{}) || len(loads) == 0 {
			c.Bad("R09.9", key, posOf(st.Store), "the 'last piece of my range' decision %s stored into PieceResult.Done is not a comparison against an atomic load of URLDownloader.End made for this piece (it uses a copy taken earlier / a captured variable / a plain read): after WebseedStopAt/UpdateEnd truncated the range the downloader keeps fetching and delivering pieces that were handed to another source (overlapping web-seed ranges, pieces downloaded twice)", kit.Canon(st.Val))
			continue
		}
		isLoad := map[ssa.Instruction]bool{}
		for _, l := range loads {
			if l.Parent() == st.Fn {
				isLoad[l] = true
			}
		}
		fresh := (&kit.Flow{P: c.Prog, Fn: st.Fn, Instr: func(ins ssa.Instruction, in bool) bool {
			if isLoad[ins] {
				return true
			}
			if _, ok := kit.StoresField(ins, fDone); ok {
				return false // a piece was delivered: the next decision needs a new load
			}
			return in
		}}).Solve()
		c.Check(fresh.Before(st.Store), "R09.9", key, posOf(st.Store),
			"PieceResult.Done compares against URLDownloader.End loaded atomically after the previous piece was delivered",
			"URLDownloader.End is loaded once and re-used for several pieces (the load is not repeated between two deliveries): a truncation of the range by WebseedStopAt/UpdateEnd while the download runs is not seen, the downloader delivers pieces that now belong to another source")
	}
	c.Floor("R09.9", "non-false stores to PieceResult.Done", n, 1)

	// no other read of End in the downloader goroutine
	reach := c.Reach([]*ssa.Function{run}, true, nil)
	for _, a := range kit.WithAnon(run) {
		reach[a] = true
	}
	var fns []*ssa.Function
	for fn := range reach {
		if fn.Blocks != nil && kit.InModule(kit.FnPkgPath(fn)) {
			fns = append(fns, fn)
		}
	}
	sort.Slice(fns, func(i, j int) bool { return fns[i].String() < fns[j].String() })
	plain := 0
	for _, fn := range fns {
		kit.Instrs(fn, func(ins ssa.Instruction) {
			var base ssa.Value
			switch x := ins.(type) {
			case *ssa.UnOp:
				if x.Op == token.MUL {
					if fa, ok := x.X.(*ssa.FieldAddr); ok {
						base = fa
					}
				}
			case *ssa.Field:
				base = x
			}
			if base == nil || !kit.Canon(base).IsField(fEnd) {
				return
			}
			plain++
			c.Bad("R09.9", k.key(fn, "plain read of URLDownloader.End"), posOf(ins), "the downloader goroutine reads URLDownloader.End without the atomic load: UpdateEnd (event loop) truncating the range is not reliably seen")
		})
	}
	if plain == 0 {
		c.Present("R09.9", kit.FuncName(run)+"/End read atomically only", run.Pos(), "%d functions reachable from URLDownloader.Run: none reads End other than through the atomic load", len(fns))
	}
}

// ---- R09.10 a live set slice is iterated while elements are removed only if
// removal is in place
//
// handlePieceWriteDone ranges over the *live* slice of a piece's Requested set
// (PiecePicker.RequestedPeers returns Requested.Items) and its body reaches
// Requested.Remove for the element under the cursor (closePieceDownloader ->
// HandleCancelDownload). `range` keeps the original length and backing array,
// so every original element is visited exactly once only if Remove never
// writes a slot in front of the cursor: it may write the slot of the removed
// element (which is at or behind the cursor) and shorten the slice by one,
// nothing else (no shifting, no clearing of the vacated last slot). The rule
// finds every loop that indexes a slice originating from SliceSet.Items of a
// set field while its body can reach Remove on a set held in the same field,
// and then demands that shape of SliceSet.Remove. A loop over a copy
// (slices.Clone, append to a fresh slice) does not count.
func runR09_10(c *kit.Ctx) {
	k := newKeyer()
	itemsOrigin := c.Field("internal/sliceset", "SliceSet", "Items")
	ssRemove := c.FuncObj("internal/sliceset", "(*SliceSet).Remove")
	isItems := func(f *types.Var) bool { return f != nil && f.Origin() == itemsOrigin }

	// setFieldOf: the struct field holding the set whose Items v is (directly,
	// or through an accessor every return of which is that field's Items).
	var setFieldOf func(v ssa.Value, depth int) *types.Var
	setFieldOf = func(v ssa.Value, depth int) *types.Var {
		e := kit.Canon(v).Strip()
		if e == nil {
			return nil
		}
		if e.Kind == "field" && isItems(e.Field) {
			if b := e.Base(); b != nil && (b.Kind == "field" || b.Kind == "fieldaddr") {
				return b.Field
			}
			return nil
		}
		if e.Kind == "call" && e.Fn != nil && e.Fn.Blocks != nil && depth < 2 && kit.InModule(kit.FnPkgPath(e.Fn)) {
			var f *types.Var
			rets := returnsOf(e.Fn)
			for _, r := range rets {
				if len(r.Results) < 1 {
					return nil
				}
				g := setFieldOf(r.Results[0], depth+1)
				if g == nil || (f != nil && f != g) {
					return nil
				}
				f = g
			}
			return f
		}
		return nil
	}
	// removers[f]: module functions that call Remove on a set held in field f
	removers := map[*types.Var]map[*ssa.Function]bool{}
	for _, s := range c.CallSites(ssRemove) {
		r := kit.Canon(argOf(s.Instr.Common(), 0))
		if r.Kind == "field" || r.Kind == "fieldaddr" {
			if removers[r.Field] == nil {
				removers[r.Field] = map[*ssa.Function]bool{}
			}
			removers[r.Field][s.Fn] = true
		}
	}
	reachMemo := map[*ssa.Function]map[*ssa.Function]bool{}
	reaches := func(callee *ssa.Function, targets map[*ssa.Function]bool) bool {
		r, ok := reachMemo[callee]
		if !ok {
			r = c.Reach([]*ssa.Function{callee}, false, nil)
			reachMemo[callee] = r
		}
		for t := range targets {
			if r[t] {
				return true
			}
		}
		return false
	}
	loopOf := func(b *ssa.BasicBlock) map[*ssa.BasicBlock]bool {
		fwd := map[*ssa.BasicBlock]bool{}
		var walk func(x *ssa.BasicBlock)
		walk = func(x *ssa.BasicBlock) {
			for _, s := range x.Succs {
				if !fwd[s] {
					fwd[s] = true
					walk(s)
				}
			}
		}
		walk(b)
		if !fwd[b] {
			return nil // not in a cycle
		}
		bwd := map[*ssa.BasicBlock]bool{}
		var back func(x *ssa.BasicBlock)
		back = func(x *ssa.BasicBlock) {
			for _, p := range x.Preds {
				if !bwd[p] {
					bwd[p] = true
					back(p)
				}
			}
		}
		back(b)
		out := map[*ssa.BasicBlock]bool{}
		for x := range fwd {
			if bwd[x] {
				out[x] = true
			}
		}
		return out
	}

	type relying struct {
		fn  *ssa.Function
		ins ssa.Instruction
		f   *types.Var
	}
	var loops []relying
	seenLoop := map[ssa.Value]bool{}
	for _, fn := range c.ModuleFunctions() {
		kit.Instrs(fn, func(ins ssa.Instruction) {
			var x ssa.Value
			switch ia := ins.(type) {
			case *ssa.IndexAddr:
				x = ia.X
			case *ssa.Index:
				x = ia.X
			default:
				return
			}
			if _, isSlice := x.Type().Underlying().(*types.Slice); !isSlice || seenLoop[x] {
				return
			}
			f := setFieldOf(x, 0)
			if f == nil || len(removers[f]) == 0 {
				return
			}
			body := loopOf(ins.Block())
			if body == nil {
				return
			}
			// the slice value is fixed outside the loop (a `range` over it)
			if xi, ok := x.(ssa.Instruction); ok && body[xi.Block()] {
				return
			}
			hit := false
			for b := range body {
				for _, i2 := range b.Instrs {
					ci, ok := i2.(ssa.CallInstruction)
					if !ok || hit {
						continue
					}
					if _, isGo := i2.(*ssa.Go); isGo {
						continue
					}
					if kit.CalleeObj(ci.Common()) == ssRemove {
						r := kit.Canon(argOf(ci.Common(), 0))
						if (r.Kind == "field" || r.Kind == "fieldaddr") && r.Field == f {
							hit = true
						}
						continue
					}
					for _, callee := range c.Callees(ci) {
						if removers[f][callee] || reaches(callee, removers[f]) {
							hit = true
						}
					}
				}
			}
			if hit {
				seenLoop[x] = true
				loops = append(loops, relying{fn, ins, f})
			}
		})
	}
	sort.Slice(loops, func(i, j int) bool { return loops[i].ins.Pos() < loops[j].ins.Pos() })
	if len(loops) == 0 {
		c.Present("R09.10", "sliceset/no live iteration with removal", 0, "no loop indexes a live SliceSet.Items slice while its body can reach Remove on the same set field: the shape of Remove is free")
		return
	}
	var where []string
	for _, l := range loops {
		where = append(where, kit.FuncName(l.fn)+" ("+c.Pos(posOf(l.ins))+", set field "+l.f.Name()+")")
		c.Present("R09.10", k.key(l.fn, "live iteration over "+l.f.Name()+".Items with removal in the body"), posOf(l.ins),
			"the loop visits the live slice of the set while its body can reach %s.Remove: relies on in-place removal (obligations on SliceSet.Remove)", l.f.Name())
	}
	rely := strings.Join(where, "; ")

	// the shape of Remove (generic body and every instantiation)
	var bodies []*ssa.Function
	for fn := range c.AllFunctions() {
		if fn.Blocks == nil {
			continue
		}
		if o, ok := fn.Object().(*types.Func); ok && o.Origin() == ssRemove {
			bodies = append(bodies, fn)
		}
	}
	sort.Slice(bodies, func(i, j int) bool { return bodies[i].String() < bodies[j].String() })
	c.Floor("R09.10", "bodies of SliceSet.Remove", len(bodies), 1)
	reported := map[string]bool{}
	bad := func(pos token.Pos, what string) {
		if reported[what] {
			return
		}
		reported[what] = true
		c.Bad("R09.10", "sliceset.Remove/"+what, pos, "SliceSet.Remove %s, but %s iterates the live slice while removing the element under the cursor: elements in front of the cursor move (or vanish), so one download of a completed piece is not cancelled and another peer is processed twice (nil piece downloader / a still running download of a piece the client has)", what, rely)
	}
	mentionsItems := func(v ssa.Value) bool {
		return kit.Canon(v).Mentions(func(x *kit.Expr) bool { return (x.Kind == "field" || x.Kind == "fieldaddr") && isItems(x.Field) })
	}
	for _, g := range bodies {
		// the index of the removed element
		isIdx := func(v ssa.Value) bool {
			for {
				if cv, ok := v.(*ssa.Convert); ok {
					v = cv.X
					continue
				}
				break
			}
			call, ok := v.(*ssa.Call)
			if !ok || call.Call.StaticCallee() == nil {
				return false
			}
			callee := call.Call.StaticCallee()
			return kit.FnPkgPath(callee) == "slices" && strings.HasPrefix(callee.Name(), "Index") && len(call.Call.Args) >= 1 && mentionsItems(call.Call.Args[0])
		}
		kit.Instrs(g, func(ins ssa.Instruction) {
			switch x := ins.(type) {
			case *ssa.Store:
				if ia, ok := x.Addr.(*ssa.IndexAddr); ok && mentionsItems(ia.X) {
					if !isIdx(ia.Index) {
						bad(posOf(ins), "writes a slot other than the one of the removed element")
					}
					return
				}
				if fa, ok := x.Addr.(*ssa.FieldAddr); ok {
					if st := c09StructOfPtr(fa.X.Type()); st != nil && isItems(st.Field(fa.Field)) {
						sl, ok := x.Val.(*ssa.Slice)
						good := ok && sl.Low == nil && sl.Max == nil && sl.High != nil && mentionsItems(sl.X)
						if good {
							h := kit.Canon(sl.High).Strip()
							good = h.Kind == "binop" && h.Op == token.SUB && c09IntIs(h.Args[1], 1) && h.Args[0].Strip().Kind == "len" && h.Args[0].Strip().Args[0].Kind == "field" && isItems(h.Args[0].Strip().Args[0].Field)
						}
						if !good {
							bad(posOf(ins), "replaces Items by something else than Items[:len(Items)-1]")
						}
					}
				}
			case ssa.CallInstruction:
				cc := x.Common()
				uses := false
				for _, a := range cc.Args {
					if mentionsItems(a) {
						uses = true
					}
				}
				if !uses {
					return
				}
				if b, ok := cc.Value.(*ssa.Builtin); ok {
					if b.Name() == "len" || b.Name() == "cap" {
						return
					}
					bad(posOf(ins), "moves elements with the builtin "+b.Name())
					return
				}
				if callee := cc.StaticCallee(); callee != nil && kit.FnPkgPath(callee) == "slices" && (strings.HasPrefix(callee.Name(), "Index") || strings.HasPrefix(callee.Name(), "Contains")) {
					return
				}
				bad(posOf(ins), "hands Items to "+kit.Canon(cc.Value).String()+" (elements may move)")
			}
		})
	}
	if len(reported) == 0 {
		c.OK("R09.10", "sliceset.Remove/in-place single-slot removal", bodies[0].Pos(), "Remove writes only the slot of the removed element and shortens Items by one: slots in front of a cursor are never written (relied upon by %s)", rely)
	}
}

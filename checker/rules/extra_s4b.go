package rules

import (
	"go/token"
	"go/types"
	"strings"

	"golang.org/x/tools/go/ssa"

	"rainverif/checker/kit"
)

func init() {
	registerExtra("C18", runR18_8)
	registerExtra("C06", runR06_10)
	registerExtra("C06", runR06_11)
	registerExtra("C15", runR15_7)
}

// ---- R18.8 the live blocklist tree is replaced as a whole, never edited in place -----------
//
// Blocklist.tree is what every Blocked() query consults. A reload builds a new tree and swaps it
// in on success; if the live tree is cleared / filled in place, a reload that fails half way
// leaves a partial (or empty) list in force: addresses that must be blocked are contacted.
// (a) no function that can write a field of stree.Stree (or its nodes) receives &b.tree;
// (b) every store to Blocklist.tree happens after an error value was tested nil on the path.
func runR18_8(c *kit.Ctx) {
	k := newKeyer()
	fTree := c.Field("internal/blocklist", "Blocklist", "tree")
	streePkg := c.Pkg("internal/blocklist/stree")
	writesTree := map[*ssa.Function]bool{}
	mutates := func(fn *ssa.Function) bool {
		if fn == nil {
			return true
		}
		if v, ok := writesTree[fn]; ok {
			return v
		}
		res := false
		for f := range c.Reach([]*ssa.Function{fn}, false, nil) {
			if f.Pkg != streePkg {
				continue
			}
			kit.Instrs(f, func(ins ssa.Instruction) {
				st, ok := ins.(*ssa.Store)
				if !ok {
					return
				}
				switch a := st.Addr.(type) {
				case *ssa.FieldAddr:
					// a store into a field of a value reachable from the receiver / parameters
					if _, isAlloc := a.X.(*ssa.Alloc); !isAlloc {
						res = true
					}
				case *ssa.IndexAddr:
					res = true
				}
			})
		}
		writesTree[fn] = res
		return res
	}
	n := 0
	for _, fn := range c.ModuleFunctions() {
		fn := fn
		kit.Instrs(fn, func(ins ssa.Instruction) {
			fa, ok := ins.(*ssa.FieldAddr)
			if !ok {
				return
			}
			s := derefStructT(fa.X.Type())
			if s == nil || s.Field(fa.Field) != fTree {
				return
			}
			for _, r := range *fa.Referrers() {
				switch u := r.(type) {
				case *ssa.Store:
					if u.Addr != ssa.Value(fa) {
						c.Bad("R18.8", k.key(fn, "address of Blocklist.tree stored"), posOf(u), "the address of the live blocklist tree escapes: it can be edited in place")
						continue
					}
					n++
					tested := c.AtomFlow(fn, func(a kit.Atom) bool {
						return a.IsNilCmp(true, func(e *kit.Expr) bool {
							return e.V != nil && types.Identical(e.V.Type(), types.Universe.Lookup("error").Type())
						})
					}, nil)
					c.Check(tested.Before(u), "R18.8", k.key(fn, "replace Blocklist.tree"), posOf(u),
						"the live tree is replaced only after the load's error was tested nil", "Blocklist.tree is replaced on a path where the load may have failed: a failed reload leaves a partial list in force")
				case *ssa.UnOp, *ssa.DebugRef:
				case ssa.CallInstruction:
					cc := u.Common()
					callee := cc.StaticCallee()
					n++
					c.Check(callee != nil && !mutates(callee), "R18.8", k.key(fn, "call with &Blocklist.tree"), posOf(u),
						"&b.tree is only handed to functions that do not write the tree", "the live blocklist tree is edited in place ("+cc.String()+" can write it): while a reload is parsing — and for ever if it fails — queries see a partial or empty list and blocked addresses are contacted")
				default:
					c.Bad("R18.8", k.key(fn, "use of &Blocklist.tree"), posOf(r), "unrecognised use of the address of the live blocklist tree: %s", r.String())
				}
			}
		})
	}
	c.Floor("R18.8", "uses of &Blocklist.tree", n, 1)
}

// ---- R06.10 a value that comes with an error is used only after the error was tested ----------
//
// loadExistingTorrent & co. return (value, ..., error); when the record is rejected the value is
// nil. Any use of the value (storing it, appending it to a list, calling through it) on a path
// where the error of that same call has not been tested nil makes a rejected record crash the
// client later. Scope: call sites in package torrent of module functions whose first result is
// a pointer and whose last result is error. Passing the pair on (return) is fine.
func runR06_10(c *kit.Ctx) {
	k := newKeyer()
	errT := types.Universe.Lookup("error").Type()
	n := 0
	for _, fn := range c.ModuleFunctions() {
		if !inPkg(fn, c, "torrent") {
			continue
		}
		fn := fn
		kit.Instrs(fn, func(ins ssa.Instruction) {
			call, ok := ins.(*ssa.Call)
			if !ok {
				return
			}
			callee := call.Call.StaticCallee()
			if callee == nil || !kit.InModule(kit.FnPkgPath(callee)) {
				return
			}
			res := callee.Signature.Results()
			if res.Len() < 2 || !types.Identical(res.At(res.Len()-1).Type(), errT) {
				return
			}
			if _, isPtr := res.At(0).Type().Underlying().(*types.Pointer); !isPtr {
				return
			}
			var val, errV *ssa.Extract
			for _, r := range *call.Referrers() {
				if ex, ok := r.(*ssa.Extract); ok {
					if ex.Index == 0 {
						val = ex
					}
					if ex.Index == res.Len()-1 {
						errV = ex
					}
				}
			}
			if val == nil || errV == nil {
				return
			}
			// the error may be spilled into a variable (named result, captured by a deferred closure)
			spill := map[ssa.Value]bool{}
			for _, r := range *errV.Referrers() {
				if st, ok := r.(*ssa.Store); ok && st.Val == ssa.Value(errV) {
					spill[st.Addr] = true
				}
			}
			okErr := c.AtomFlow(fn, func(a kit.Atom) bool {
				if a.IsNilCmp(false, func(e *kit.Expr) bool { return e.V == ssa.Value(val) }) {
					return true // the value itself was tested non-nil
				}
				return a.IsNilCmp(true, func(e *kit.Expr) bool {
					if e.V == ssa.Value(errV) {
						return true
					}
					if ld, ok := e.V.(*ssa.UnOp); ok && ld.Op == token.MUL && spill[ld.X] {
						return true
					}
					return false
				})
			}, func(ins ssa.Instruction) bool {
				st, ok := ins.(*ssa.Store)
				return ok && spill[st.Addr] && st.Val != ssa.Value(errV)
			})
			for _, r := range *val.Referrers() {
				switch u := r.(type) {
				case *ssa.DebugRef, *ssa.Return, *ssa.Phi:
					continue
				case *ssa.Store:
					// `v, err = f()` into a local variable that lives in memory (captured by a
					// closure / address taken): a copy, not a use
					if al, ok := u.Addr.(*ssa.Alloc); ok && u.Val == ssa.Value(val) && al.Comment != "" && al.Comment != "complit" && al.Comment != "varargs" {
						continue
					}
				case *ssa.BinOp:
					if u.Op == token.EQL || u.Op == token.NEQ {
						continue
					}
				}
				ri, _ := r.(ssa.Instruction)
				if ri == nil || passesOn(fn, ri) {
					continue
				}
				n++
				c.Check(okErr.Before(ri), "R06.10", k.key(fn, "use of result of "+callee.Name()), posOf(ri),
					"result used only after the error of the same call was tested nil",
					"the value returned by "+callee.Name()+" is used ("+strings.TrimSpace(ri.String())+") on a path where the error returned with it has not been tested: for a rejected input the value is nil and the client crashes when it is used")
			}
		})
	}
	c.Floor("R06.10", "uses of (pointer, error) results in package torrent", n, 10)
}

// ---- R06.11 single-file length is not mixed with the file list ---------------------------------
//
// An info dictionary may carry both "length" and "files". Info.Length must then be the sum of the
// file list only (what the pieces are cut from); the decoded single-file length may reach
// Info.Length only on a path where the file list was tested empty.
func runR06_11(c *kit.Ctx) {
	k := newKeyer()
	fInfoLen := c.Field("internal/metainfo", "Info", "Length")
	fDecLen := c.Field("internal/metainfo", "infoType", "Length")
	fDecFiles := c.Field("internal/metainfo", "infoType", "Files")
	n := 0
	for _, st := range fieldStores(c, fInfoLen) {
		v := kit.Canon(st.Val)
		if !v.Mentions(func(e *kit.Expr) bool { return e.IsField(fDecLen) }) {
			continue
		}
		n++
		single := c.AtomFlow(st.Fn, func(a kit.Atom) bool {
			isLenFiles := func(e *kit.Expr) bool { return e.Kind == "len" && len(e.Args) > 0 && e.Args[0].IsField(fDecFiles) }
			if !isLenFiles(a.L) {
				return false
			}
			z, ok := a.R.IntConst()
			if !ok {
				return false
			}
			return (a.Op == token.EQL && z == 0) || (a.Op == token.LEQ && z == 0) || (a.Op == token.LSS && z == 1)
		}, nil)
		c.Check(single.Before(st.Store), "R06.11", k.key(st.Fn, "Info.Length from decoded length"), posOf(st.Store),
			"the decoded single-file length reaches Info.Length only when the file list is empty",
			"the decoded 'length' key reaches Info.Length on a path where 'files' may be non-empty: for a dictionary carrying both keys Info.Length is not the sum of the files, the piece/length validation no longer constrains the file list and piece construction runs past it")
	}
	c.Floor("R06.11", "stores of the decoded length into Info.Length", n, 1)
}

// ---- R15.7 one HTTP request per announce --------------------------------------------------------
//
// A tracker counts every request it receives: a transport-level retry inside HTTPTracker.Announce
// makes the tracker see the same started / completed event twice (or two announces milliseconds
// apart). In package httptracker a request may be sent only where no request has been sent yet on
// the path (no second send site, no send inside a loop).
func runR15_7(c *kit.Ctx) {
	k := newKeyer()
	do := c.FuncObj("net/http", "(*Client).Do")
	senders := map[*ssa.Function]bool{}
	var fns []*ssa.Function
	for _, fn := range c.ModuleFunctions() {
		if inPkg(fn, c, "internal/tracker/httptracker") {
			fns = append(fns, fn)
		}
	}
	isSend := func(ins ssa.Instruction) bool {
		cc := kit.CallOf(ins)
		if cc == nil {
			return false
		}
		if kit.CalleeObj(cc) == do {
			return true
		}
		if mc, ok := cc.Value.(*ssa.MakeClosure); ok {
			if f, ok := mc.Fn.(*ssa.Function); ok && senders[f] {
				return true
			}
		}
		if f := cc.StaticCallee(); f != nil && senders[f] {
			return true
		}
		// a closure held in a local variable
		if e := kit.Canon(cc.Value); e.Fn != nil && senders[e.Fn] {
			return true
		}
		return false
	}
	for changed := true; changed; {
		changed = false
		for _, fn := range fns {
			if senders[fn] {
				continue
			}
			kit.Instrs(fn, func(ins ssa.Instruction) {
				if !senders[fn] && isSend(ins) {
					senders[fn] = true
					changed = true
				}
			})
		}
	}
	n := 0
	for _, fn := range fns {
		if !senders[fn] {
			continue
		}
		fn := fn
		notSent := (&kit.Flow{P: c.Prog, Fn: fn, Entry: true, Instr: func(ins ssa.Instruction, in bool) bool {
			if isSend(ins) {
				return false
			}
			return in
		}}).Solve()
		kit.Instrs(fn, func(ins ssa.Instruction) {
			if _, isGo := ins.(*ssa.Go); isGo || !isSend(ins) {
				return
			}
			n++
			c.Check(notSent.Before(ins), "R15.7", k.key(fn, "send announce request"), posOf(ins),
				"no request has been sent yet on any path reaching this send", "an announce can put a second HTTP request on the wire (retry / loop): the tracker sees the same event twice or two announces back to back")
		})
	}
	c.Floor("R15.7", "request send sites in package httptracker", n, 1)
}

// passesOn: the instruction only hands the value on to the caller together with the error
// (`return f(x)` in a function with spilled named results, or boxed into an interface result).
func passesOn(fn *ssa.Function, ins ssa.Instruction) bool {
	switch x := ins.(type) {
	case *ssa.Return:
		return true
	case *ssa.Store:
		al, ok := x.Addr.(*ssa.Alloc)
		if !ok {
			return false
		}
		if al.Comment == "" {
			// spilled unnamed result (function with defer): only loaded to be returned
			for _, r := range *al.Referrers() {
				switch u := r.(type) {
				case *ssa.Store:
					if u.Addr != ssa.Value(al) {
						return false
					}
				case *ssa.UnOp:
					for _, r2 := range *u.Referrers() {
						if _, isRet := r2.(*ssa.Return); !isRet {
							return false
						}
					}
				case *ssa.DebugRef:
				default:
					return false
				}
			}
			return true
		}
		res := fn.Signature.Results()
		for i := 0; i < res.Len(); i++ {
			if res.At(i).Name() == al.Comment {
				return true
			}
		}
		return false
	case *ssa.MakeInterface:
		for _, r := range *x.Referrers() {
			ri, ok := r.(ssa.Instruction)
			if !ok || !passesOn(fn, ri) {
				return false
			}
		}
		return true
	case *ssa.ChangeInterface:
		for _, r := range *x.Referrers() {
			ri, ok := r.(ssa.Instruction)
			if !ok || !passesOn(fn, ri) {
				return false
			}
		}
		return true
	}
	return false
}

// ---- R13.8 a freed metadata-download slot is offered to the idle peers ----------------------------
//
// Mirror of R10.1(7) for the metadata phase of a magnet download: the number of concurrent
// metadata downloads is capped (ParallelMetadataDownloads); a peer that arrives while the slots are
// taken is only asked when startInfoDownloaders runs again. Every operation that frees a slot
// (closeInfoDownloader) in a live context must therefore be followed, on every path to the end of
// the handler, by startInfoDownloaders — in the function itself or in each of its callers; the
// teardown road (stop) is exempt.
func init() { registerExtra("C13", runR13_8) }

func runR13_8(c *kit.Ctx) {
	k := newKeyer()
	closeID := c.FuncObj("torrent", "(*torrent).closeInfoDownloader")
	startID := c.FuncObj("torrent", "(*torrent).startInfoDownloaders")
	stop := c.Func("torrent", "(*torrent).stop")
	teardown := c.Reach([]*ssa.Function{stop}, false, nil)
	fInfo := c.Field("torrent", "torrent", "info")
	isStart := func(ins ssa.Instruction) bool {
		// the slot is re-offered; or the metadata has just been adopted (nothing left to fetch);
		// or the torrent is being stopped
		if _, ok := kit.StoresField(ins, fInfo); ok {
			return true
		}
		cc := kit.CallOf(ins)
		return cc != nil && (kit.CalleeObj(cc) == startID || cc.StaticCallee() == stop)
	}
	var discharged func(fn *ssa.Function, after ssa.Instruction, depth int, trail *[]string) bool
	discharged = func(fn *ssa.Function, after ssa.Instruction, depth int, trail *[]string) bool {
		pend := c.Pending(fn, func(i ssa.Instruction) bool { return i == after }, isStart)
		if len(pend.FailingReturns()) == 0 {
			return true
		}
		if depth == 0 {
			*trail = append(*trail, kit.FuncName(fn))
			return false
		}
		sites := c.StaticCallSites(fn)
		if len(sites) == 0 {
			*trail = append(*trail, kit.FuncName(fn)+" (no static caller)")
			return false
		}
		for _, s := range sites {
			if s == nil {
				*trail = append(*trail, kit.FuncName(fn)+" (spawned)")
				return false
			}
			caller := s.Parent()
			for caller.Parent() != nil {
				caller = caller.Parent()
			}
			if caller == stop || (teardown[s.Parent()] && !liveCaller(c, s.Parent(), teardown)) {
				continue // teardown road
			}
			if !discharged(s.Parent(), s, depth-1, trail) {
				*trail = append(*trail, kit.FuncName(fn))
				return false
			}
		}
		return true
	}
	n := 0
	for _, s := range sortSites(c.CallSites(closeID)) {
		if _, isCall := s.Instr.(*ssa.Call); !isCall {
			continue
		}
		if s.Fn == stop || (teardown[s.Fn] && !liveCaller(c, s.Fn, teardown)) {
			continue
		}
		n++
		var trail []string
		ok := discharged(s.Fn, s.Instr, 3, &trail)
		c.Check(ok, "R13.8", k.key(s.Fn, "closeInfoDownloader=>startInfoDownloaders"), posOf(s.Instr),
			"a freed metadata-download slot is followed by startInfoDownloaders on every live path (here or in every caller)",
			"a metadata-download slot is freed (closeInfoDownloader) on a live path that ends without startInfoDownloaders ("+strings.Join(trail, " <- ")+"): an idle peer that could serve the metadata is not asked; when the peers holding the slots disconnect, a magnet download stalls although an honest peer is connected")
	}
	c.Floor("R13.8", "live closeInfoDownloader sites", n, 2)
}

// liveCaller: fn is reachable from stop() but also has a static caller outside that road.
func liveCaller(c *kit.Ctx, fn *ssa.Function, teardown map[*ssa.Function]bool) bool {
	for _, s := range c.StaticCallSites(fn) {
		if s == nil || !teardown[s.Parent()] {
			return true
		}
	}
	return false
}

package rules

import (
	"go/token"
	"go/types"
	"sort"

	"golang.org/x/tools/go/ssa"

	"rainverif/checker/kit"
)

// ---- K7 helper: dynamic types of an interface value ---------------------

// dynTypes enumerates the concrete types an interface-typed SSA value may
// carry, following the value backwards through phis, locals, struct fields
// filled by callees, slice fields filled by append, function results and
// channel hops (receive on a channel held in field F <- every send on a
// channel held in field F anywhere in the module).
type dynTypes struct {
	c        *kit.Ctx
	seen     map[ssa.Value]bool
	seenFld  map[*types.Var]bool
	Types    map[string]types.Type
	Where    map[string]token.Pos
	Unknown  []string
	UnkPos   []token.Pos
	chanSend map[*types.Var][]ssa.Value
}

func newDynTypes(c *kit.Ctx) *dynTypes {
	return &dynTypes{c: c, seen: map[ssa.Value]bool{}, seenFld: map[*types.Var]bool{},
		Types: map[string]types.Type{}, Where: map[string]token.Pos{}}
}

func typeKey(t types.Type) string {
	return types.TypeString(t, func(p *types.Package) string { return p.Name() })
}

func (d *dynTypes) add(t types.Type, pos token.Pos) {
	k := typeKey(t)
	if _, ok := d.Types[k]; !ok {
		d.Types[k] = t
		d.Where[k] = pos
	}
}

func (d *dynTypes) unk(v ssa.Value, why string) {
	d.Unknown = append(d.Unknown, why+" "+kit.Canon(v).String())
	pos := token.NoPos
	if i, ok := v.(ssa.Instruction); ok {
		pos = posOf(i)
	}
	d.UnkPos = append(d.UnkPos, pos)
}

func isIface(t types.Type) bool {
	_, ok := t.Underlying().(*types.Interface)
	return ok
}

func valPos(v ssa.Value) token.Pos {
	if i, ok := v.(ssa.Instruction); ok {
		return posOf(i)
	}
	return v.Pos()
}

func (d *dynTypes) walk(v ssa.Value, depth int) {
	if v == nil || d.seen[v] {
		return
	}
	d.seen[v] = true
	if depth > 14 {
		d.unk(v, "depth")
		return
	}
	if !isIface(v.Type()) {
		d.add(v.Type(), valPos(v))
		return
	}
	switch x := v.(type) {
	case *ssa.MakeInterface:
		d.add(x.X.Type(), valPos(x))
	case *ssa.Const:
		// nil interface: no dynamic type
	case *ssa.Phi:
		for _, e := range x.Edges {
			d.walk(e, depth+1)
		}
	case *ssa.ChangeInterface:
		d.walk(x.X, depth+1)
	case *ssa.ChangeType:
		d.walk(x.X, depth+1)
	case *ssa.TypeAssert:
		d.walk(x.X, depth+1)
	case *ssa.Extract:
		switch t := x.Tuple.(type) {
		case *ssa.Select:
			st := selectRecvState(t, x.Index)
			if st == nil {
				d.unk(v, "select result")
				return
			}
			d.fromChan(st.Chan, v, depth+1)
		case *ssa.UnOp:
			if t.Op == token.ARROW && x.Index == 0 {
				d.fromChan(t.X, v, depth+1)
				return
			}
			d.unk(v, "extract")
		case *ssa.TypeAssert:
			if x.Index == 0 {
				d.walk(t.X, depth+1)
				return
			}
			d.unk(v, "extract")
		default:
			d.unk(v, "tuple")
		}
	case *ssa.UnOp:
		switch x.Op {
		case token.ARROW:
			d.fromChan(x.X, v, depth+1)
		case token.MUL:
			switch a := x.X.(type) {
			case *ssa.Alloc:
				n := 0
				kit.Instrs(a.Parent(), func(ins ssa.Instruction) {
					if st, ok := ins.(*ssa.Store); ok && st.Addr == ssa.Value(a) {
						n++
						d.walk(st.Val, depth+1)
					}
				})
				if n == 0 {
					d.unk(v, "local without stores")
				}
			case *ssa.FieldAddr:
				st := structOfPtr(a.X.Type())
				if st == nil {
					d.unk(v, "field")
					return
				}
				d.fromField(st.Field(a.Field), a.X, x.Parent(), v, depth+1)
			case *ssa.IndexAddr:
				d.fromSlice(a.X, v, depth+1)
			default:
				d.unk(v, "load")
			}
		default:
			d.unk(v, "unop")
		}
	case *ssa.Field:
		st, _ := x.X.Type().Underlying().(*types.Struct)
		if st == nil {
			d.unk(v, "field")
			return
		}
		d.fromField(st.Field(x.Field), x.X, x.Parent(), v, depth+1)
	case *ssa.Parameter:
		// the value is handed to a helper: what every caller passes for it
		// (plain, go and defer calls; a function that escapes as a value has
		// callers that cannot be enumerated)
		fn := x.Parent()
		idx := paramIndex(x)
		obj, _ := fn.Object().(*types.Func)
		if obj == nil || idx < 0 || len(d.c.FuncRefs(obj)) > 0 {
			d.unk(v, "parameter of a function whose callers cannot be enumerated:")
			return
		}
		sites := d.c.CallSites(obj)
		if len(sites) == 0 {
			d.unk(v, "parameter of a function without callers:")
			return
		}
		for _, s := range sites {
			a := argOf(s.Instr.Common(), idx)
			if a == nil {
				d.unk(v, "parameter without argument at "+kit.FuncName(s.Fn)+":")
				continue
			}
			d.walk(a, depth+1)
		}
	case *ssa.Call:
		callee := x.Call.StaticCallee()
		if callee == nil || callee.Blocks == nil || callee.Signature.Results().Len() != 1 {
			d.unk(v, "result of")
			return
		}
		for _, r := range returnsOf(callee) {
			d.walk(r.Results[0], depth+1)
		}
	default:
		d.unk(v, "value")
	}
}

func structOfPtr(t types.Type) *types.Struct {
	if p, ok := t.Underlying().(*types.Pointer); ok {
		t = p.Elem()
	}
	st, _ := t.Underlying().(*types.Struct)
	return st
}

// selectRecvState maps the tuple index of a Select result to its receive
// state: (index, recvOk, r_0 ... r_n-1) with one r per receive state.
func selectRecvState(s *ssa.Select, idx int) *ssa.SelectState {
	k := idx - 2
	if k < 0 {
		return nil
	}
	for _, st := range s.States {
		if st.Dir != types.RecvOnly {
			continue
		}
		if k == 0 {
			return st
		}
		k--
	}
	return nil
}

// chanField resolves a channel expression to the struct field holding the
// channel: a field load, or a call of an accessor whose every return is a
// load of one field.
func (d *dynTypes) chanField(ch ssa.Value) *types.Var {
	e := kit.Canon(ch).Strip()
	if e.Kind == "field" {
		return e.Field
	}
	if e.Kind == "call" {
		var fns []*ssa.Function
		if e.Fn != nil {
			fns = []*ssa.Function{e.Fn}
		} else if ci, ok := ch.(ssa.CallInstruction); ok {
			fns = d.c.Callees(ci)
		}
		var f *types.Var
		for _, fn := range fns {
			if fn.Blocks == nil {
				return nil
			}
			for _, r := range returnsOf(fn) {
				if len(r.Results) != 1 {
					return nil
				}
				re := kit.Canon(r.Results[0]).Strip()
				if re.Kind != "field" || (f != nil && f != re.Field) {
					return nil
				}
				f = re.Field
			}
		}
		return f
	}
	return nil
}

// sendsOn lists the values sent (send statements and select send states) on
// channels held in field f, module-wide.
func (d *dynTypes) sendsOn(f *types.Var) []ssa.Value {
	if d.chanSend == nil {
		d.chanSend = map[*types.Var][]ssa.Value{}
		for _, fn := range d.c.ModuleFunctions() {
			kit.Instrs(fn, func(ins ssa.Instruction) {
				switch x := ins.(type) {
				case *ssa.Send:
					if g := d.chanField(x.Chan); g != nil {
						d.chanSend[g] = append(d.chanSend[g], x.X)
					}
				case *ssa.Select:
					for _, st := range x.States {
						if st.Dir == types.SendOnly {
							if g := d.chanField(st.Chan); g != nil {
								d.chanSend[g] = append(d.chanSend[g], st.Send)
							}
						}
					}
				}
			})
		}
	}
	return d.chanSend[f]
}

func (d *dynTypes) fromChan(ch ssa.Value, v ssa.Value, depth int) {
	f := d.chanField(ch)
	if f == nil {
		d.unk(v, "receive from unresolved channel")
		return
	}
	if d.seenFld[f] {
		return
	}
	d.seenFld[f] = true
	vals := d.sendsOn(f)
	if len(vals) == 0 {
		d.unk(v, "no sender found for channel field "+f.Name()+":")
		return
	}
	for _, s := range vals {
		d.walk(s, depth+1)
	}
}

// fromField: interface-typed struct field f read through base. If the
// struct is a local of the reading function, only the stores that can reach
// that local count (direct stores in the function, and stores to f inside
// the callees the local's address is passed to); otherwise every store to f
// in the module.
func (d *dynTypes) fromField(f *types.Var, base ssa.Value, fn *ssa.Function, v ssa.Value, depth int) {
	root := base
	for {
		if fa, ok := root.(*ssa.FieldAddr); ok {
			root = fa.X
			continue
		}
		break
	}
	if a, ok := root.(*ssa.Alloc); ok && fn != nil {
		n := 0
		var callees []*ssa.Function
		kit.Instrs(fn, func(ins ssa.Instruction) {
			if val, ok := kit.StoresField(ins, f); ok {
				if st := ins.(*ssa.Store); fieldRoot(st.Addr) == ssa.Value(a) {
					n++
					d.walk(val, depth+1)
				}
				return
			}
			if st, ok := ins.(*ssa.Store); ok && st.Addr == ssa.Value(a) {
				// whole-struct assignment: follow the assigned struct value
				n++
				d.fromStructValue(f, st.Val, v, depth+1)
				return
			}
			if ci, ok := ins.(ssa.CallInstruction); ok {
				for _, arg := range ci.Common().Args {
					if fieldRoot(arg) == ssa.Value(a) {
						callees = append(callees, d.c.Callees(ci)...)
					}
				}
			}
		})
		seenFn := map[*ssa.Function]bool{}
		var visit func(g *ssa.Function, lvl int)
		visit = func(g *ssa.Function, lvl int) {
			if g == nil || g.Blocks == nil || seenFn[g] || lvl > 2 {
				return
			}
			seenFn[g] = true
			kit.Instrs(g, func(ins ssa.Instruction) {
				if val, ok := kit.StoresField(ins, f); ok {
					n++
					d.walk(val, depth+1)
				}
				if ci, ok := ins.(*ssa.Call); ok {
					if sc := ci.Call.StaticCallee(); sc != nil && kit.InModule(kit.FnPkgPath(sc)) {
						visit(sc, lvl+1)
					}
				}
			})
		}
		for _, g := range callees {
			visit(g, 0)
		}
		if n == 0 {
			d.unk(v, "no store found for local field "+f.Name()+":")
		}
		return
	}
	if d.seenFld[f] {
		return
	}
	d.seenFld[f] = true
	sts := fieldStores(d.c, f)
	if len(sts) == 0 {
		d.unk(v, "no store found for field "+f.Name()+":")
	}
	for _, st := range sts {
		d.walk(st.Val, depth+1)
	}
}

// fromStructValue: field f of a struct *value* (load of another local, or a
// parameter).
func (d *dynTypes) fromStructValue(f *types.Var, sv ssa.Value, v ssa.Value, depth int) {
	if u, ok := sv.(*ssa.UnOp); ok && u.Op == token.MUL {
		if a, ok := u.X.(*ssa.Alloc); ok {
			d.fromField(f, a, a.Parent(), v, depth+1)
			return
		}
	}
	// unknown origin: every store in the module
	d.fromField(f, sv, nil, v, depth+1)
}

func fieldRoot(addr ssa.Value) ssa.Value {
	for {
		switch x := addr.(type) {
		case *ssa.FieldAddr:
			addr = x.X
			continue
		case *ssa.IndexAddr:
			addr = x.X
			continue
		}
		return addr
	}
}

// fromSlice: element of a slice. Supported: the slice is a load of field F
// whose stores are `F = append(F, vals...)` or nil.
func (d *dynTypes) fromSlice(sl ssa.Value, v ssa.Value, depth int) {
	e := kit.Canon(sl).Strip()
	if e.Kind != "field" {
		d.unk(v, "element of")
		return
	}
	f := e.Field
	if d.seenFld[f] {
		return
	}
	d.seenFld[f] = true
	for _, st := range fieldStores(d.c, f) {
		se := kit.Canon(st.Val)
		if se.IsNil() {
			continue
		}
		call, ok := st.Val.(*ssa.Call)
		if !ok || !isBuiltin(&call.Call, "append") || len(call.Call.Args) != 2 {
			d.unk(st.Val, "slice field "+f.Name()+" assigned from")
			continue
		}
		va, ok := call.Call.Args[1].(*ssa.Slice)
		if !ok {
			d.unk(call.Call.Args[1], "appended")
			continue
		}
		arr, ok := va.X.(*ssa.Alloc)
		if !ok {
			d.unk(va.X, "appended")
			continue
		}
		kit.Instrs(st.Fn, func(ins ssa.Instruction) {
			if s2, ok := ins.(*ssa.Store); ok {
				if ia, ok := s2.Addr.(*ssa.IndexAddr); ok && ia.X == ssa.Value(arr) {
					d.walk(s2.Val, depth+1)
				}
			}
		})
	}
}

func (d *dynTypes) keys() []string {
	var out []string
	for k := range d.Types {
		out = append(out, k)
	}
	sort.Strings(out)
	return out
}

// ---- K5 helper: origin of a value through parameters ---------------------

// originLeaves follows v backwards through conversions and, when it is a
// parameter, through every call site of the enclosing function.
func originLeaves(c *kit.Ctx, v ssa.Value, depth int) (leaves []*kit.Expr, ok bool) {
	for {
		switch x := v.(type) {
		case *ssa.Convert:
			v = x.X
			continue
		case *ssa.ChangeType:
			v = x.X
			continue
		}
		break
	}
	p, isParam := v.(*ssa.Parameter)
	if !isParam || depth > 6 {
		return []*kit.Expr{kit.Canon(v).Strip()}, true
	}
	fn := p.Parent()
	idx := -1
	for i, q := range fn.Params {
		if q == p {
			idx = i
		}
	}
	obj, _ := fn.Object().(*types.Func)
	if idx < 0 || obj == nil {
		return nil, false
	}
	if len(c.FuncRefs(obj)) > 0 {
		return nil, false // escapes as a function value: callers unknown
	}
	sites := c.CallSites(obj)
	if len(sites) == 0 {
		return nil, false
	}
	for _, s := range sites {
		a := argOf(s.Instr.Common(), idx)
		if a == nil {
			return nil, false
		}
		ls, ok := originLeaves(c, a, depth+1)
		if !ok {
			return nil, false
		}
		leaves = append(leaves, ls...)
	}
	return leaves, true
}

// paramOfRoot maps an SSA root to the parameter it stands for: the
// parameter itself, or the local a parameter is spilled into (`*t0 = pm`).
func paramOfRoot(v ssa.Value) *ssa.Parameter {
	switch x := v.(type) {
	case *ssa.Parameter:
		return x
	case *ssa.Alloc:
		var p *ssa.Parameter
		n := 0
		kit.Instrs(x.Parent(), func(ins ssa.Instruction) {
			if st, ok := ins.(*ssa.Store); ok && st.Addr == ssa.Value(x) {
				n++
				p, _ = st.Val.(*ssa.Parameter)
			}
		})
		if n == 1 {
			return p
		}
	}
	return nil
}

func paramIndex(p *ssa.Parameter) int {
	for i, q := range p.Parent().Params {
		if q == p {
			return i
		}
	}
	return -1
}

// exprRoot returns the root SSA value of an access path expression.
func exprRoot(e *kit.Expr) ssa.Value {
	for e != nil {
		switch e.Kind {
		case "field", "fieldaddr", "index", "indexaddr", "deref", "slice", "convert", "makeiface", "extract":
			e = e.Args[0]
			continue
		}
		return e.V
	}
	return nil
}

// allFields collects every struct field mentioned anywhere in e.
func allFields(e *kit.Expr, out map[*types.Var]bool) {
	if e == nil {
		return
	}
	if e.Field != nil {
		out[e.Field] = true
	}
	for _, a := range e.Args {
		allFields(a, out)
	}
}

// moduleCallees returns the possible callees of a call that have a body and
// belong to the module.
func moduleCallees(c *kit.Ctx, ci ssa.CallInstruction) []*ssa.Function {
	var out []*ssa.Function
	for _, f := range c.Callees(ci) {
		if f != nil && f.Blocks != nil && kit.InModule(kit.FnPkgPath(f)) {
			out = append(out, f)
		}
	}
	return out
}

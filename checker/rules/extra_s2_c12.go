package rules

import (
	"go/token"
	"go/types"

	"golang.org/x/tools/go/ssa"

	"rainverif/checker/kit"
)

// Rules added to C12 after the second round of independently seeded changes.
//
// R12.6 full reads. The MSE handshake consumes fixed-length fields from a
//	byte stream that may deliver them in any chunking. A bare r.Read(p) may
//	return fewer bytes than len(p); the rest of the field then stays in the
//	stream and is parsed as the next field. In package internal/mse a Read
//	method call is therefore legitimate only as the delegation inside a
//	method that itself implements io.Reader (its (n, err) is handed to the
//	caller, who loops); every other consumption of the stream goes through
//	io.ReadFull / io.ReadAtLeast / io.CopyN / binary.Read, which loop.
//
// R12.7 one reader/writer chain. mse.Conn embeds the raw net.Conn and the
//	Stream. After WrapConn the raw connection must be read and written only
//	by the Stream (through Stream.raw): Conn.Read / Conn.Write reach the
//	Stream's Read / Write on every path, Stream.Read reads r2 and
//	Stream.Write writes w on every path, and no Read/Write-family call (nor
//	any other escape of the value) is made on the embedded Conn.Conn field.
//	A read that bypasses the Stream skips the cipher and the initial payload
//	that HandshakeIncoming has already pulled off the wire into r2.
//
// R12.8 r2 is the current reader. Stream.Read serves from r2; updateCipher
//	may replace r (PlainText selected). At every nil-error return of the two
//	handshake functions r2 must have been assigned from a load of r after
//	which r cannot have been replaced.

func init() { registerExtra("C12", runC12S2) }

func runC12S2(c *kit.Ctx) {
	k := newKeyer()
	c12FullReads(c, k)
	c12OneChain(c, k)
	c12CurrentReader(c, k)
}

const c12MSE = "internal/mse"

// isReaderRead reports whether cc calls a method `Read([]byte) (int, error)`
// (interface invoke or static method call; package-level functions such as
// crypto/rand.Read are not stream reads).
func isReaderRead(cc *ssa.CallCommon) bool {
	if cc == nil {
		return false
	}
	var sig *types.Signature
	name := ""
	if cc.IsInvoke() {
		name = cc.Method.Name()
		sig, _ = cc.Method.Type().(*types.Signature)
	} else if fn := cc.StaticCallee(); fn != nil && fn.Signature.Recv() != nil {
		name = fn.Name()
		sig = fn.Signature
	} else if mc, ok := cc.Value.(*ssa.MakeClosure); ok {
		// bound method value called in place
		if fn, ok := mc.Fn.(*ssa.Function); ok && len(fn.FreeVars) == 1 {
			name = fn.Name()
			if len(name) > 6 && name[len(name)-6:] == "$bound" {
				name = name[:len(name)-6]
			}
			sig = fn.Signature
		}
	}
	return name == "Read" && isReadSig(sig)
}

func isReadSig(sig *types.Signature) bool {
	if sig == nil || sig.Params().Len() != 1 || sig.Results().Len() != 2 {
		return false
	}
	sl, ok := sig.Params().At(0).Type().Underlying().(*types.Slice)
	if !ok {
		return false
	}
	b, ok := sl.Elem().Underlying().(*types.Basic)
	if !ok || b.Kind() != types.Uint8 {
		return false
	}
	r0, ok := sig.Results().At(0).Type().Underlying().(*types.Basic)
	return ok && r0.Kind() == types.Int && types.Identical(sig.Results().At(1).Type(), types.Universe.Lookup("error").Type())
}

// isDelegatedRead: call is inside a method that itself is a Read([]byte)
// (int, error) and both results of the call are only returned.
func isDelegatedRead(call *ssa.Call) bool {
	fn := call.Parent()
	if fn.Name() != "Read" || fn.Signature.Recv() == nil || !isReadSig(fn.Signature) {
		return false
	}
	var onlyReturned func(v ssa.Value, depth int) bool
	onlyReturned = func(v ssa.Value, depth int) bool {
		refs := v.Referrers()
		if refs == nil || depth > 3 {
			return false
		}
		for _, r := range *refs {
			switch x := r.(type) {
			case *ssa.Return, *ssa.DebugRef:
			case *ssa.Extract:
				if !onlyReturned(x, depth+1) {
					return false
				}
			case *ssa.Phi:
				if !onlyReturned(x, depth+1) {
					return false
				}
			default:
				return false
			}
		}
		return true
	}
	return onlyReturned(call, 0)
}

func c12FullReads(c *kit.Ctx, k *keyer) {
	full := map[*types.Func]string{
		c.FuncObj("io", "ReadFull"):          "io.ReadFull",
		c.FuncObj("io", "ReadAtLeast"):       "io.ReadAtLeast",
		c.FuncObj("io", "CopyN"):             "io.CopyN",
		c.FuncObj("encoding/binary", "Read"): "binary.Read",
	}
	fRaw := c.Field(c12MSE, "Stream", "raw")
	fR := c.Field(c12MSE, "Stream", "r")
	onStream := func(v ssa.Value) bool {
		e := kit.Canon(v).Strip()
		return e.IsField(fRaw) || e.IsField(fR)
	}
	nDeleg, nFull := 0, 0
	for _, fn := range c.ModuleFunctions() {
		if !inPkg(fn, c, c12MSE) {
			continue
		}
		fn := fn
		kit.Instrs(fn, func(ins ssa.Instruction) {
			ci, ok := ins.(ssa.CallInstruction)
			if !ok {
				return
			}
			cc := ci.Common()
			if name, ok := full[kit.CalleeObj(cc)]; ok {
				for _, a := range cc.Args {
					if onStream(a) {
						nFull++
						c.Present("R12.6", k.key(fn, "stream consumed by "+name), posOf(ins), "handshake bytes consumed through %s (loops until the requested count is there)", name)
						break
					}
				}
				return
			}
			if !isReaderRead(cc) {
				return
			}
			key := k.key(fn, "Read call")
			call, isCall := ins.(*ssa.Call)
			if isCall && isDelegatedRead(call) {
				nDeleg++
				c.OK("R12.6", key, posOf(ins), "Read delegated by a method that itself implements io.Reader: (n, err) is returned to the caller unchanged")
				return
			}
			c.Bad("R12.6", key, posOf(ins), "bare %s.Read in %s: a single Read may return fewer bytes than requested, the rest of the field stays in the stream and is parsed as the next field (use io.ReadFull / io.CopyN / io.ReadAtLeast / binary.Read)", kit.Canon(argOf(cc, 0)), kit.FuncName(fn))
		})
	}
	c.Floor("R12.6", "Read delegations in io.Reader implementations of package mse", nDeleg, 2)
	c.Floor("R12.6", "looping consumers (ReadFull/ReadAtLeast/CopyN/binary.Read) of Stream.raw / Stream.r", nFull, 10)
}

// ioFamily: methods that move payload bytes.
var c12IOFamily = map[string]bool{"Read": true, "Write": true, "ReadFrom": true, "WriteTo": true, "WriteString": true, "ReadByte": true, "WriteByte": true}

func c12OneChain(c *kit.Ctx, k *keyer) {
	fConnConn := c.Field(c12MSE, "Conn", "Conn")
	fR2 := c.Field(c12MSE, "Stream", "r2")
	fW := c.Field(c12MSE, "Stream", "w")
	connRead := c.Func(c12MSE, "(*Conn).Read")
	connWrite := c.Func(c12MSE, "(*Conn).Write")
	streamRead := c.Func(c12MSE, "(*Stream).Read")
	streamWrite := c.Func(c12MSE, "(*Stream).Write")
	streamReadObj := c.FuncObj(c12MSE, "(*Stream).Read")
	streamWriteObj := c.FuncObj(c12MSE, "(*Stream).Write")

	// (a) delegation on every path
	callsObj := func(obj *types.Func) func(ssa.Instruction) bool {
		return func(ins ssa.Instruction) bool {
			call, ok := ins.(*ssa.Call)
			return ok && kit.CalleeObj(&call.Call) == obj
		}
	}
	methodOnField := func(name string, f *types.Var) func(ssa.Instruction) bool {
		return func(ins ssa.Instruction) bool {
			call, ok := ins.(*ssa.Call)
			if !ok {
				return false
			}
			cc := &call.Call
			n := ""
			if cc.IsInvoke() {
				n = cc.Method.Name()
			} else if fn := cc.StaticCallee(); fn != nil && fn.Signature.Recv() != nil {
				n = fn.Name()
			}
			return n == name && kit.Canon(argOf(cc, 0)).Mentions(func(e *kit.Expr) bool { return e.IsField(f) })
		}
	}
	for _, d := range []struct {
		fn     *ssa.Function
		target func(ssa.Instruction) bool
		what   string
	}{
		{connRead, callsObj(streamReadObj), "(*Stream).Read"},
		{connWrite, callsObj(streamWriteObj), "(*Stream).Write"},
		{streamRead, methodOnField("Read", fR2), "Stream.r2.Read"},
		{streamWrite, methodOnField("Write", fW), "Stream.w.Write"},
	} {
		c.Check(c.MustCallSummary(d.fn, d.target, 2), "R12.7", kit.FuncName(d.fn)+"/goes through the stream", d.fn.Pos(),
			"every returning path of "+kit.FuncName(d.fn)+" passes "+d.what,
			kit.FuncName(d.fn)+" can return without passing "+d.what+": bytes bypass the cipher / the reader chain (the initial payload buffered by HandshakeIncoming is lost)")
	}

	// (b) the embedded raw connection of mse.Conn is never used for I/O
	n := 0
	for _, fn := range c.ModuleFunctions() {
		fn := fn
		kit.Instrs(fn, func(ins ssa.Instruction) {
			u, ok := ins.(*ssa.UnOp)
			if !ok || u.Op != token.MUL || !kit.Canon(u).IsField(fConnConn) {
				return
			}
			n++
			key := k.key(fn, "use of mse.Conn.Conn")
			bad := ""
			var walk func(v ssa.Value, depth int)
			walk = func(v ssa.Value, depth int) {
				refs := v.Referrers()
				if refs == nil || depth > 3 {
					bad = "value leaves sight"
					return
				}
				for _, r := range *refs {
					switch x := r.(type) {
					case *ssa.DebugRef:
					case *ssa.ChangeInterface:
						walk(x, depth+1)
					case ssa.CallInstruction:
						cc := x.Common()
						if cc.IsInvoke() && cc.Value == v {
							passed := false
							for _, a := range cc.Args {
								if a == v {
									passed = true
								}
							}
							if c12IOFamily[cc.Method.Name()] {
								bad = "calls " + cc.Method.Name() + " on it"
							} else if passed {
								bad = "passes it to " + cc.Method.Name()
							}
							continue
						}
						bad = "passes it to " + c12CalleeName(cc)
					case *ssa.BinOp, *ssa.If:
					default:
						bad = "value escapes (" + r.String() + ")"
					}
				}
			}
			walk(u, 0)
			if bad == "" {
				c.OK("R12.7", key, posOf(ins), "embedded raw connection used only for non-I/O methods (Close, deadlines, addresses)")
			} else {
				c.Bad("R12.7", key, posOf(ins), "%s %s: the raw connection of a wrapped mse.Conn must be read and written only by its Stream (cipher and buffered initial payload would be bypassed)", kit.FuncName(fn), bad)
			}
		})
	}
	// (no floor: promoted non-I/O methods are called through synthetic wrappers that are not module functions)
	_ = n
}

func c12CalleeName(cc *ssa.CallCommon) string {
	if o := kit.CalleeObj(cc); o != nil {
		return o.FullName()
	}
	if cc.Value != nil {
		return cc.Value.Name()
	}
	return "<dynamic>"
}

func c12CurrentReader(c *kit.Ctx, k *keyer) {
	fR := c.Field(c12MSE, "Stream", "r")
	fR2 := c.Field(c12MSE, "Stream", "r2")
	isLoadR := func(v ssa.Value) bool {
		u, ok := v.(*ssa.UnOp)
		return ok && u.Op == token.MUL && kit.Canon(u).IsField(fR)
	}
	// loads of Stream.r that a value stored into r2 is built from
	var feeding func(v ssa.Value, depth int, out *[]ssa.Instruction)
	feeding = func(v ssa.Value, depth int, out *[]ssa.Instruction) {
		if depth > 6 {
			return
		}
		if isLoadR(v) {
			*out = append(*out, v.(ssa.Instruction))
			return
		}
		switch x := v.(type) {
		case *ssa.MakeInterface:
			feeding(x.X, depth+1, out)
		case *ssa.ChangeInterface:
			feeding(x.X, depth+1, out)
		case *ssa.ChangeType:
			feeding(x.X, depth+1, out)
		case *ssa.Phi:
			for _, e := range x.Edges {
				feeding(e, depth+1, out)
			}
		case *ssa.Call:
			for _, a := range x.Call.Args {
				feeding(a, depth+1, out)
			}
		case *ssa.Slice:
			// variadic argument: elements stored into the backing array
			if a, ok := x.X.(*ssa.Alloc); ok && a.Referrers() != nil {
				for _, r := range *a.Referrers() {
					if ia, ok := r.(*ssa.IndexAddr); ok && ia.Referrers() != nil {
						for _, r2 := range *ia.Referrers() {
							if st, ok := r2.(*ssa.Store); ok && st.Addr == ssa.Value(ia) {
								feeding(st.Val, depth+1, out)
							}
						}
					}
				}
			}
		}
	}
	unchangedSince := map[ssa.Instruction]*kit.Flow{}
	rUnchangedSince := func(ld ssa.Instruction) *kit.Flow {
		if fl, ok := unchangedSince[ld]; ok {
			return fl
		}
		fl := (&kit.Flow{P: c.Prog, Fn: ld.Parent(), Instr: func(ins ssa.Instruction, in bool) bool {
			if ins == ld {
				return true
			}
			if in && c.KillsField(ins, fR) {
				return false
			}
			return in
		}}).Solve()
		unchangedSince[ld] = fl
		return fl
	}
	// fact: r2 was assigned from r and r has not been replaced since
	current := func(fn *ssa.Function) *kit.Flow {
		return (&kit.Flow{P: c.Prog, Fn: fn, Instr: func(ins ssa.Instruction, in bool) bool {
			if v, ok := kit.StoresField(ins, fR2); ok {
				var lds []ssa.Instruction
				feeding(v, 0, &lds)
				if len(lds) == 0 {
					return false
				}
				for _, ld := range lds {
					if ld.Parent() != ins.Parent() || !rUnchangedSince(ld).Before(ins) {
						return false
					}
				}
				return true
			}
			if in && c.KillsField(ins, fR) {
				// the store to r2 inside a summarised callee is judged there
				if call, ok := ins.(*ssa.Call); ok {
					if g := call.Call.StaticCallee(); g != nil && g.Blocks != nil {
						stores := false
						c.InstrsDeep(g, 2, false, func(j ssa.Instruction) {
							if _, ok := kit.StoresField(j, fR2); ok {
								stores = true
							}
						})
						if stores {
							return in // decided by the callee summary
						}
					}
				}
				return false
			}
			return in
		}}).WithDeep(kit.DefaultDeep, nil).Solve()
	}
	nRet := 0
	for _, h := range []struct {
		name   string
		errIdx int
	}{{"(*Stream).HandshakeOutgoing", 1}, {"(*Stream).HandshakeIncoming", 0}} {
		fn := c.Func(c12MSE, h.name)
		fl := current(fn)
		for _, r := range newErrFacts(c, fn).successReturns(h.errIdx) {
			nRet++
			c.Check(fl.Before(r), "R12.8", k.key(fn, "r2 current at nil-error return"), posOf(r),
				"Stream.r2 was assigned from Stream.r and r cannot have been replaced (updateCipher) since that load",
				"at this nil-error return Stream.r2 is not (certainly) built from the current Stream.r: it was assigned before updateCipher could replace r (reads keep the old cipher), or not from r at all")
		}
	}
	c.Floor("R12.8", "nil-error returns of the handshake functions", nRet, 2)
	// r2 is assigned only by the handshake functions (and helpers they call)
	for _, st := range fieldStores(c, fR2) {
		c.Check(inPkg(st.Fn, c, c12MSE), "R12.8", k.key(st.Fn, "store Stream.r2"), posOf(st.Store),
			"Stream.r2 assigned inside package mse", "Stream.r2 (the reader Stream.Read serves from) is replaced outside package mse")
	}
}

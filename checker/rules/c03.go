package rules

import (
	"go/constant"
	"go/token"
	"go/types"
	"strings"

	"golang.org/x/tools/go/ssa"

	"rainverif/checker/kit"
)

func init() {
	register(&Property{
		ID: "C03",
		Explanation: "Decides the request-validation structure in front of every upload: (R03.1) every SendPiece call in package torrent is dominated by index<NumPieces, validPieceRequest(begin,length,pieces[index].Length)==true, piece.Done==true, and (ClientChoking==false or SentAllowedFast.Has(piece)), all about the same request value that is sent, and the data source is cachedpiece.New(&pieces[index]); (R03.2) validPieceRequest adds in uint64 after widening and requires length!=0; (R03.3) the reader delivers a RequestMessage only under Length<=MaxBlockSize, the writer's frame array holds 13+MaxBlockSize bytes and piece.BlockSize==MaxBlockSize; (R03.4) every io.ReaderAt implementation of the module obeys 'nil error => n==len(p)' which peerwriter.Piece.Read relies on; (R03.5) queued-upload counter discipline. NOT decided: equality of the bytes sent with the bytes on disk for all offsets/cache states (value-level).",
		RuleText:      commonRuleText,
		Assumptions:   append([]string{"io.ReadFull returns n==len(buf) when err==nil; copy returns min(len(dst),len(src))"}, commonAssumptions...),
		Run:           runC03,
		ArchSensitive: true,
	})
}

func runC03(c *kit.Ctx) {
	k := newKeyer()
	fReqIndex := c.Field("internal/peerprotocol", "RequestMessage", "Index")
	fReqBegin := c.Field("internal/peerprotocol", "RequestMessage", "Begin")
	fReqLength := c.Field("internal/peerprotocol", "RequestMessage", "Length")

	// ---- R03.1 validation dominates every upload
	{
		sendPiece := c.FuncObj("internal/peerconn", "(*Conn).SendPiece")
		validReq := c.FuncObj("torrent", "validPieceRequest")
		cpNew := c.FuncObj("internal/cachedpiece", "New")
		fNumPieces := c.Field("internal/metainfo", "Info", "NumPieces")
		fPieces := c.Field("torrent", "torrent", "pieces")
		fPLength := c.Field("internal/piece", "Piece", "Length")
		fDone := c.Field("internal/piece", "Piece", "Done")
		fChoking := c.Field("internal/peer", "Peer", "ClientChoking")
		fSentAF := c.Field("internal/peer", "Peer", "SentAllowedFast")
		n := 0
		for _, s := range sortSites(c.CallSites(sendPiece)) {
			if !inPkg(s.Fn, c, "torrent") {
				// the only other legitimate caller is none; peer package wrappers would show up here
				c.Bad("R03.1", k.key(s.Fn, "SendPiece"), posOf(s.Instr), "SendPiece called outside package torrent: request validation cannot be shown")
				continue
			}
			n++
			key := k.key(s.Fn, "SendPiece")
			req := rootOfLoad(argOf(s.Instr.Common(), 1))
			reqField := func(f *types.Var) func(*kit.Expr) bool {
				return func(e *kit.Expr) bool {
					e = e.Strip()
					return e.Kind == "field" && e.Field == f && e.Base().V == req
				}
			}
			isPiecesIdx := func(e *kit.Expr) bool { // t.pieces[req.Index]
				return (e.Kind == "index" || e.Kind == "indexaddr") && e.Args[0].IsField(fPieces) && reqField(fReqIndex)(e.Args[1])
			}
			idxOK := c.AtomFlow(s.Fn, func(a kit.Atom) bool {
				ok, strict := a.UpperBound(reqField(fReqIndex), func(e *kit.Expr) bool {
					e = e.Strip()
					return e.IsField(fNumPieces) || (e.Kind == "len" && e.Args[0].IsField(fPieces))
				})
				return ok && strict
			}, func(ins ssa.Instruction) bool {
				return c.KillsField(ins, fNumPieces) || c.KillsField(ins, fPieces) || storesInto(ins, req)
			})
			boundsOK := c.AtomFlow(s.Fn, func(a kit.Atom) bool {
				return a.IsTrue(func(e *kit.Expr) bool {
					return e.IsCallTo(validReq) && len(e.Args) == 3 && reqField(fReqBegin)(e.Args[0]) && reqField(fReqLength)(e.Args[1]) &&
						e.Args[2].IsField(fPLength) && isPiecesIdx(e.Args[2].Base())
				})
			}, func(ins ssa.Instruction) bool {
				return c.KillsField(ins, fPLength) || c.KillsField(ins, fPieces) || storesInto(ins, req)
			})
			doneOK := (&kit.Flow{P: c.Prog, Fn: s.Fn,
				Edge: func(a kit.Atom) bool {
					return a.IsTrue(func(e *kit.Expr) bool { return e.IsField(fDone) && isPiecesIdx(e.Base()) })
				},
				Instr: func(ins ssa.Instruction, in bool) bool {
					if in && (c.KillsField(ins, fDone) || storesInto(ins, req)) {
						return false
					}
					return in
				}}).Solve()
			cp := kit.Canon(argOf(s.Instr.Common(), 2)).Strip()
			var pieceArg *kit.Expr
			if cp.IsCallTo(cpNew) {
				pieceArg = cp.Args[0]
			}
			chokeOK := (&kit.Flow{P: c.Prog, Fn: s.Fn,
				Edge: func(a kit.Atom) bool {
					if a.IsFalse(func(e *kit.Expr) bool { return e.IsField(fChoking) }) {
						return true
					}
					return a.IsTrue(func(e *kit.Expr) bool {
						return e.Kind == "call" && e.Name == "Has" && len(e.Args) == 2 && e.Args[0].IsField(fSentAF) && isPiecesIdx(e.Args[1])
					})
				},
				Instr: func(ins ssa.Instruction, in bool) bool {
					if in && (c.KillsField(ins, fChoking) || storesInto(ins, req)) {
						return false
					}
					return in
				}}).Solve()
			switch {
			case !idxOK.Before(s.Instr):
				c.Bad("R03.1", key, posOf(s.Instr), "upload not dominated by request.Index < NumPieces")
			case !boundsOK.Before(s.Instr):
				c.Bad("R03.1", key, posOf(s.Instr), "upload not dominated by validPieceRequest(request.Begin, request.Length, pieces[request.Index].Length)==true")
			case !doneOK.Before(s.Instr):
				c.Bad("R03.1", key, posOf(s.Instr), "upload not dominated by pieces[request.Index].Done==true: unverified data could be served")
			case !chokeOK.Before(s.Instr):
				c.Bad("R03.1", key, posOf(s.Instr), "upload not dominated by ClientChoking==false or SentAllowedFast.Has(piece): a choked peer could be served")
			case pieceArg == nil || !isPiecesIdx(pieceArg):
				c.Bad("R03.1", key, posOf(s.Instr), "data source %s is not cachedpiece.New(&t.pieces[request.Index], ...)", cp)
			default:
				c.OK("R03.1", key, posOf(s.Instr), "SendPiece dominated by index bound, validPieceRequest, Done, choke/allowed-fast; source = &t.pieces[req.Index]")
			}
		}
		c.Floor("R03.1", "SendPiece call sites in package torrent", n, 2)
		for _, s := range c.FuncRefs(sendPiece) {
			c.Bad("R03.1", k.key(s.Fn, "ref SendPiece"), s.Fn.Pos(), "SendPiece taken as a value: call sites cannot be enumerated")
		}
		// Piece messages are only created by SendPiece
		tPWPiece := c.Named("internal/peerconn/peerwriter", "Piece")
		sp := c.Func("internal/peerconn", "(*Conn).SendPiece")
		for _, fn := range c.ModuleFunctions() {
			if fnIn(fn, sp) || inPkg(fn, c, "internal/peerconn/peerwriter") {
				continue
			}
			kit.Instrs(fn, func(ins ssa.Instruction) {
				if a, ok := ins.(*ssa.Alloc); ok && derefNamed(a.Type()) == tPWPiece {
					c.Bad("R03.1", k.key(fn, "build peerwriter.Piece"), posOf(ins), "peerwriter.Piece constructed outside Conn.SendPiece")
				}
			})
		}
	}

	// ---- R03.2 type of the bounds arithmetic
	{
		v := c.Func("torrent", "validPieceRequest")
		begin, length, plen := v.Params[0], v.Params[1], v.Params[2]
		nonZero := c.AtomFlow(v, func(a kit.Atom) bool {
			z, ok := a.R.IntConst()
			return a.Op == token.NEQ && a.L.V == ssa.Value(length) && ok && z == 0
		}, nil)
		isU64Of := func(e *kit.Expr, p *ssa.Parameter) bool {
			if e.Kind != "convert" || e.Args[0].V != ssa.Value(p) {
				return false
			}
			b, ok := e.V.Type().Underlying().(*types.Basic)
			return ok && b.Kind() == types.Uint64
		}
		n := 0
		for _, r := range returnsOf(v) {
			for _, src := range boolSources(r.Results[0]) {
				e := kit.Canon(src.V)
				if e.IsConstBool(false) {
					continue
				}
				n++
				key := k.key(v, "return-may-be-true")
				at := src.At
				if at == nil {
					at = r
				}
				shape := e.Kind == "binop" && e.Op == token.LEQ && e.Args[0].Kind == "binop" && e.Args[0].Op == token.ADD &&
					((isU64Of(e.Args[0].Args[0], begin) && isU64Of(e.Args[0].Args[1], length)) || (isU64Of(e.Args[0].Args[1], begin) && isU64Of(e.Args[0].Args[0], length))) &&
					isU64Of(e.Args[1], plen)
				switch {
				case !shape:
					c.Bad("R03.2", key, posOf(r), "validPieceRequest may return true from %s: not uint64(begin)+uint64(length) <= uint64(pieceLength) (a 32-bit add can wrap)", e)
				case !nonZero.Before(at):
					c.Bad("R03.2", key, posOf(r), "validPieceRequest may return true for length==0")
				default:
					c.OK("R03.2", key, posOf(r), "true only as uint64(begin)+uint64(length) <= uint64(pieceLength) under length != 0")
				}
			}
		}
		c.Floor("R03.2", "true-capable returns of validPieceRequest", n, 1)
	}

	// ---- R03.3 16 KiB cap
	{
		run := c.Func("internal/peerconn/peerreader", "(*PeerReader).Run")
		maxBlock := c.Const("internal/peerconn/peerreader", "MaxBlockSize")
		blockSize := c.Const("internal/piece", "BlockSize")
		mb, _ := constant.Int64Val(maxBlock.Val())
		bs, _ := constant.Int64Val(blockSize.Val())
		c.Check(mb == bs && mb == 16*1024, "R03.3", "const/MaxBlockSize==BlockSize", maxBlock.Pos(),
			"peerreader.MaxBlockSize == piece.BlockSize == 16384", "peerreader.MaxBlockSize and piece.BlockSize disagree or differ from 16 KiB")
		tReq := c.Named("internal/peerprotocol", "RequestMessage")
		n := 0
		// "lenOK(root)": the flow "root.Length <= MaxBlockSize" for a local
		// RequestMessage rooted at alloc `root` in fn; errAlloc (optional) is the
		// local error slot: "or the error is certainly non-nil" is accepted as
		// well (used for helpers that return (msg, err)).
		lenFlow := func(fn *ssa.Function, root ssa.Value, errAlloc ssa.Value, errIs func(*kit.Expr) bool) (*kit.Flow, func(ssa.Instruction) bool) {
			kills := func(i2 ssa.Instruction) bool {
				if st, ok := i2.(*ssa.Store); ok {
					if errAlloc != nil && st.Addr == errAlloc {
						return !kit.NonNilValue(st.Val)
					}
					if fa, ok := st.Addr.(*ssa.FieldAddr); ok && fa.X == root {
						return true
					}
					return st.Addr == root
				}
				if cc := kit.CallOf(i2); cc != nil {
					for _, a := range cc.Args {
						if a == root {
							return true
						}
						if mi2, ok := a.(*ssa.MakeInterface); ok && mi2.X == root {
							return true
						}
					}
				}
				return false
			}
			return (&kit.Flow{P: c.Prog, Fn: fn,
				Edge: func(a kit.Atom) bool {
					ok, _ := a.UpperBound(func(e *kit.Expr) bool {
						e = e.Strip()
						return e.Kind == "field" && e.Field == fReqLength && e.Base().V == root
					}, func(e *kit.Expr) bool {
						z, ok := e.Strip().IntConst()
						return ok && z <= mb
					})
					if ok {
						return true
					}
					if errAlloc != nil && a.IsNilCmp(false, func(e *kit.Expr) bool { return e.Kind == "deref" && e.Args[0].V == errAlloc }) {
						return true
					}
					if errIs != nil && a.IsNilCmp(false, errIs) {
						return true
					}
					return false
				},
				Instr: func(i2 ssa.Instruction, in bool) bool {
					if st, ok := i2.(*ssa.Store); ok && errAlloc != nil && st.Addr == errAlloc && kit.NonNilValue(st.Val) {
						// err = <certainly non-nil>: the message is not delivered by the caller
						return true
					}
					if kills(i2) {
						return false
					}
					return in
				}}).Solve(), kills
		}
		errType := types.Universe.Lookup("error").Type()
		// checkedByHelper: v = result #i of a call K to a module helper g whose
		// every return either carries a certainly non-nil error or returns a
		// message with Length <= MaxBlockSize, and the delivery is dominated by
		// "K's error result == nil".
		checkedByHelper := func(v ssa.Value, at ssa.Instruction) (bool, string) {
			ex, ok := v.(*ssa.Extract)
			if !ok {
				return false, ""
			}
			K, ok := ex.Tuple.(*ssa.Call)
			if !ok {
				return false, ""
			}
			g := K.Call.StaticCallee()
			if g == nil || g.Blocks == nil || !kit.InModule(pkgOf(g)) {
				return false, ""
			}
			res := g.Signature.Results()
			j := res.Len() - 1
			if j < 1 || !types.Identical(res.At(j).Type(), errType) || ex.Index == j {
				return false, ""
			}
			// (1) summary of g: on every return, for every value the error result
			// may carry (phi operands are judged on their incoming edge)
			for _, r := range returnsOf(g) {
				if len(r.Results) != res.Len() {
					return false, "helper " + kit.FuncName(g) + " has an unexpected return shape"
				}
				root := rootOfLoad(r.Results[ex.Index])
				if _, isAlloc := root.(*ssa.Alloc); !isAlloc {
					return false, "helper " + kit.FuncName(g) + " returns a message that is not a checked local"
				}
				type errSrc struct {
					v    ssa.Value
					pred *ssa.BasicBlock
				}
				srcs := []errSrc{{r.Results[j], nil}}
				if phi, ok := r.Results[j].(*ssa.Phi); ok && phi.Block() == r.Block() {
					srcs = nil
					for i, e := range phi.Edges {
						srcs = append(srcs, errSrc{e, phi.Block().Preds[i]})
					}
				}
				for _, sc := range srcs {
					ev := sc.v
					if kit.NonNilValue(ev) || isErrSentinel(kit.Canon(ev)) {
						continue // error return
					}
					var errAlloc ssa.Value
					var errIs func(*kit.Expr) bool
					if ea, isAlloc := rootOfLoad(ev).(*ssa.Alloc); isAlloc {
						errAlloc = ea
					} else if !kit.Canon(ev).IsNil() {
						errIs = func(e *kit.Expr) bool { return e.V == ev }
					}
					fl, kills := lenFlow(g, root, errAlloc, errIs)
					ok := false
					if sc.pred == nil {
						ok = fl.Before(r)
					} else {
						ok = fl.OnEdge(sc.pred, r.Block())
						for _, i2 := range r.Block().Instrs {
							if i2 == ssa.Instruction(r) {
								break
							}
							if kills(i2) {
								ok = false
							}
						}
					}
					if !ok {
						return false, "helper " + kit.FuncName(g) + " can return a message with Length > MaxBlockSize together with a nil error"
					}
				}
			}
			// (2) the caller delivers only under err == nil
			fn := K.Parent()
			var errEx []*ssa.Extract
			for _, r := range *K.Referrers() {
				if e2, ok := r.(*ssa.Extract); ok && e2.Index == j {
					errEx = append(errEx, e2)
				}
			}
			isErrEx := func(v ssa.Value) bool {
				for _, e2 := range errEx {
					if ssa.Value(e2) == v {
						return true
					}
				}
				return false
			}
			// slot flows: "alloc A currently holds K's error result"
			slot := map[ssa.Value]*kit.Flow{}
			for _, e2 := range errEx {
				for _, r := range *e2.Referrers() {
					if st, ok := r.(*ssa.Store); ok && st.Val == ssa.Value(e2) {
						A := st.Addr
						if _, isAlloc := A.(*ssa.Alloc); !isAlloc || slot[A] != nil {
							continue
						}
						slot[A] = (&kit.Flow{P: c.Prog, Fn: fn, Instr: func(i2 ssa.Instruction, in bool) bool {
							if i2 == ssa.Instruction(K) {
								return false
							}
							if st2, ok := i2.(*ssa.Store); ok && st2.Addr == A {
								return isErrEx(st2.Val)
							}
							return in
						}}).Solve()
					}
				}
			}
			errNil := (&kit.Flow{P: c.Prog, Fn: fn,
				Edge: func(a kit.Atom) bool {
					return a.IsNilCmp(true, func(e *kit.Expr) bool {
						if isErrEx(e.V) {
							return true
						}
						if e.Kind == "deref" {
							if fl := slot[e.Args[0].V]; fl != nil {
								if ld, ok := e.V.(ssa.Instruction); ok {
									return fl.Before(ld)
								}
							}
						}
						return false
					})
				},
				Instr: func(i2 ssa.Instruction, in bool) bool {
					if i2 == ssa.Instruction(K) {
						return false
					}
					return in
				}}).Solve()
			if !errNil.Before(at) {
				return false, "message returned by " + kit.FuncName(g) + " is delivered without testing that helper's error result"
			}
			return true, "checked by " + kit.FuncName(g) + " (Length <= MaxBlockSize or non-nil error on every return), delivered under err == nil"
		}
		kit.Instrs(run, func(ins ssa.Instruction) {
			mi, ok := ins.(*ssa.MakeInterface)
			if !ok || derefNamed(mi.X.Type()) != tReq {
				return
			}
			if _, isPtr := mi.X.Type().Underlying().(*types.Pointer); isPtr {
				return // &rm boxed for binary.Read, not a delivery
			}
			n++
			key := k.key(run, "deliver RequestMessage")
			// the arm may have been moved into a helper returning (msg, err)
			src := mi.X
			if ld, ok := src.(*ssa.UnOp); ok && ld.Op == token.MUL {
				if a, ok := ld.X.(*ssa.Alloc); ok {
					if v := singleStoredValue(a); v != nil {
						src = v
					}
				}
			}
			if _, isEx := src.(*ssa.Extract); isEx {
				ok, why := checkedByHelper(src, ins)
				if why == "" {
					why = "request message delivered from " + kit.Canon(mi.X).String() + ": cannot relate it to the length check"
				}
				c.Check(ok, "R03.3", key, posOf(ins), "RequestMessage "+why, why+": the writer's fixed frame buffer would be overrun / over-long blocks served")
				return
			}
			// the value boxed is a load of a local; find the alloc
			ld, _ := mi.X.(*ssa.UnOp)
			var alloc ssa.Value
			if ld != nil && ld.Op == token.MUL {
				alloc = ld.X
			}
			if alloc == nil {
				c.Bad("R03.3", key, posOf(ins), "request message delivered from %s: cannot relate it to the length check", kit.Canon(mi.X))
				return
			}
			fl, _ := lenFlow(run, alloc, nil, nil)
			c.Check(fl.Before(ins), "R03.3", key, posOf(ins),
				"RequestMessage delivered only under Length <= MaxBlockSize", "RequestMessage can be delivered with Length > MaxBlockSize: the writer's fixed frame buffer would be overrun / over-long blocks served")
		})
		c.Floor("R03.3", "RequestMessage deliveries in PeerReader.Run", n, 1)
		// writer frame array
		mw := c.Func("internal/peerconn/peerwriter", "(*PeerWriter).messageWriter")
		found := false
		newBuffer := c.FuncObj("bytes", "NewBuffer")
		var reaches func(v ssa.Value, depth int) bool
		reaches = func(v ssa.Value, depth int) bool {
			if depth > 4 || v.Referrers() == nil {
				return false
			}
			for _, r := range *v.Referrers() {
				switch x := r.(type) {
				case *ssa.Call:
					if kit.CalleeObj(&x.Call) == newBuffer {
						return true
					}
				case *ssa.Slice:
					if reaches(x, depth+1) {
						return true
					}
				case *ssa.Phi:
					if reaches(x, depth+1) {
						return true
					}
				}
			}
			return false
		}
		kit.Instrs(mw, func(ins ssa.Instruction) {
			if a, ok := ins.(*ssa.Alloc); ok {
				if at, ok := a.Type().Underlying().(*types.Pointer).Elem().Underlying().(*types.Array); ok && reaches(a, 0) {
					found = true
					c.Check(at.Len() >= 13+mb, "R03.3", kit.FuncName(mw)+"/frame-array", posOf(ins),
						"frame array backing bytes.NewBuffer holds 4+1+8+MaxBlockSize bytes (Piece.Read slices b[8:8+Length] of what ReadFrom hands it)", "writer frame array is smaller than 4+1+8+MaxBlockSize: Piece.Read would slice out of range for a full-size block")
				}
			}
		})
		if !found {
			c.Present("R03.3", kit.FuncName(mw)+"/frame-array", mw.Pos(), "no fixed frame array (buffer grows dynamically)")
		}
	}

	runReaderContract(c, k)

	// ---- R03.6 the read-cache key identifies torrent, piece and cache block
	{
		fPeerID := c.Field("torrent", "torrent", "peerID")
		cpNew := c.FuncObj("internal/cachedpiece", "New")
		newTorrent := c.Func("torrent", "newTorrent")
		prefixFn := c.Func("torrent", "(*torrent).copyPeerIDPrefix")
		// (a) the key prefix handed to cachedpiece.New is the torrent's own peer id
		n := 0
		for _, s := range sortSites(c.CallSites(cpNew)) {
			n++
			a := kit.Canon(s.Instr.Common().Args[3])
			isID := c.HoldsForValue(s.Instr.Common().Args[3], 2, func(v ssa.Value) bool { return kit.Canon(v).IsField(fPeerID) })
			c.Check(isID, "R03.6", k.key(s.Fn, "cache key prefix"), posOf(s.Instr),
				"cache key prefix is torrent.peerID", "read-cache key prefix "+a.String()+" is not the torrent's own peer id: blocks of different torrents can collide in the session-wide cache")
		}
		c.Floor("R03.6", "cachedpiece.New sites", n, 2)
		// (b) the peer id gets per-torrent entropy: its bytes are written only by
		// copyPeerIDPrefix (prefix) and by crypto/rand.Read in newTorrent
		randRead := c.FuncObj("crypto/rand", "Read")
		rnd := 0
		for _, fn := range c.ModuleFunctions() {
			kit.Instrs(fn, func(ins ssa.Instruction) {
				cc := kit.CallOf(ins)
				if cc == nil {
					return
				}
				var dst ssa.Value
				switch {
				case isBuiltin(cc, "copy"):
					dst = cc.Args[0]
				case kit.CalleeObj(cc) == randRead:
					dst = cc.Args[0]
				case cc.StaticCallee() != nil && strings.HasPrefix(cc.StaticCallee().Name(), "PutUint"):
					dst = cc.Args[len(cc.Args)-2]
				}
				if dst == nil || !kit.Canon(dst).Mentions(func(e *kit.Expr) bool { return e.IsField(fPeerID) }) {
					return
				}
				key := k.key(fn, "write torrent.peerID bytes")
				switch {
				case kit.CalleeObj(cc) == randRead && fn == newTorrent:
					rnd++
					c.OK("R03.6", key, posOf(ins), "random part of the peer id drawn per torrent (crypto/rand.Read in newTorrent)")
				case fn == prefixFn && isBuiltin(cc, "copy"):
					c.Present("R03.6", key, posOf(ins), "client prefix")
				default:
					c.Bad("R03.6", key, posOf(ins), "torrent.peerID bytes written from %s: the peer id is the only per-torrent component of the read-cache key (and the torrent's identity towards trackers); it must be drawn per torrent", kit.Canon(ins.(ssa.Value)))
				}
			})
		}
		c.Check(rnd >= 1, "R03.6", kit.FuncName(newTorrent)+"/per-torrent entropy", newTorrent.Pos(),
			"newTorrent fills the peer id suffix with crypto/rand.Read", "newTorrent no longer draws a per-torrent random peer id: the read-cache key does not separate torrents any more")
		// (c) the key also carries the piece index and the cache block number
		rb := c.TryFunc("internal/cachedpiece", "(*CachedPiece).readBlock")
		if rb == nil {
			rb = c.Func("internal/cachedpiece", "(*CachedPiece).ReadAt")
		}
		fCPid := c.Field("internal/cachedpiece", "CachedPiece", "peerID")
		fPIndex := c.Field("internal/piece", "Piece", "Index")
		hasID, hasIdx, hasBlk := false, false, false
		// inlined view: the key may be built in a helper (cacheKey(blk)); a value
		// that is the helper's parameter is followed to the arguments at its call sites
		c.InstrsDeep(rb, kit.DefaultDeep, false, func(ins ssa.Instruction) {
			cc := kit.CallOf(ins)
			if cc == nil {
				return
			}
			if isBuiltin(cc, "copy") && kit.Canon(cc.Args[1]).IsField(fCPid) {
				hasID = true
			}
			if cc.StaticCallee() != nil && cc.StaticCallee().Name() == "PutUint32" {
				av := cc.Args[len(cc.Args)-1]
				if c.HoldsForValue(av, 2, func(v ssa.Value) bool { return kit.Canon(v).IsField(fPIndex) }) {
					hasIdx = true
				} else if c.HoldsForValue(av, 2, func(v ssa.Value) bool {
					return kit.Canon(v).Mentions(func(e *kit.Expr) bool { return e.Kind == "binop" && e.Op == token.QUO })
				}) {
					hasBlk = true
				}
			}
		})
		c.Check(hasID && hasIdx && hasBlk, "R03.6", kit.FuncName(rb)+"/key components", rb.Pos(),
			"cache key = peer id ++ piece index ++ block number", "read-cache key lacks the peer id, the piece index or the cache block number")
	}

	// ---- R03.5 queue discipline
	{
		fCur := c.Field("internal/peerconn/peerwriter", "PeerWriter", "currentQueuedRequests")
		fMax := c.Field("internal/peerconn/peerwriter", "PeerWriter", "maxQueuedRequests")
		// field-keyed (function-agnostic) fact, evaluated with caller context: the
		// increment may sit in a helper called under the cap test
		under := &kit.Spec{P: c.Prog, Deep: kit.DefaultDeep,
			Edge: func(a kit.Atom) bool {
				ok, strict := a.UpperBound(func(e *kit.Expr) bool { return e.IsField(fCur) }, func(e *kit.Expr) bool { return e.IsField(fMax) })
				return ok && strict
			},
			Instr: func(ins ssa.Instruction, in bool) bool {
				if _, st := kit.StoresField(ins, fCur); st {
					return false
				}
				if _, st := kit.StoresField(ins, fMax); st {
					return false
				}
				return in
			}}
		n := 0
		for _, st := range fieldStores(c, fCur) {
			v := kit.Canon(st.Val)
			if v.Kind == "binop" && v.Op == token.ADD {
				n++
				c.Check(under.Holds(st.Store, 2), "R03.5", k.key(st.Fn, "queue upload"), posOf(st.Store),
					"upload queued only under currentQueuedRequests < maxQueuedRequests", "queued-upload counter incremented without the cap test")
			}
		}
		c.Floor("R03.5", "increments of currentQueuedRequests", n, 1)
	}
}

// runReaderContract checks R03.4 on every ReadAt(p []byte, off int64) (int,
// error) method defined in the module.
func runReaderContract(c *kit.Ctx, k *keyer) {
	n := 0
	for _, fn := range c.ModuleFunctions() {
		if fn.Name() != "ReadAt" || fn.Signature.Recv() == nil || fn.Parent() != nil {
			continue
		}
		sig := fn.Signature
		if sig.Params().Len() != 2 || sig.Results().Len() != 2 {
			continue
		}
		if _, ok := sig.Params().At(0).Type().Underlying().(*types.Slice); !ok {
			continue
		}
		n++
		pParam := fn.Params[1] // after receiver
		isLenP := func(e *kit.Expr) bool {
			e = e.Strip()
			return e.Kind == "len" && e.Args[0].V == ssa.Value(pParam)
		}
		for _, r := range returnsOf(fn) {
			key := k.key(fn, "return")
			nv, ev := r.Results[0], r.Results[1]
			// error certainly non-nil?
			ee := kit.Canon(ev)
			if !ee.IsNil() {
				sameSlot := func(x *kit.Expr) bool {
					return x.V == ev || (x.Kind == "deref" && ee.Kind == "deref" && x.Args[0].V != nil && x.Args[0].V == ee.Args[0].V)
				}
				nonNil := c.AtomFlow(fn, func(a kit.Atom) bool {
					return a.IsNilCmp(false, sameSlot)
				}, func(ins ssa.Instruction) bool {
					if ee.Kind != "deref" {
						return false
					}
					if st, ok := ins.(*ssa.Store); ok {
						return st.Addr == ee.Args[0].V
					}
					_, isCall := ins.(*ssa.Call) // the slot may be captured by a closure
					return isCall
				})
				if nonNil.Before(r) || kit.NonNilValue(ev) || isErrSentinel(ee) {
					c.Present("R03.4", key, posOf(r), "error return (err != nil on this path)")
					continue
				}
			}
			ne := kit.Canon(nv)
			ok := false
			why := ""
			switch {
			case isLenP(ne):
				ok, why = true, "n = len(p)"
			case ne.Kind == "extract" && ne.Idx == 0 && ne.Args[0].Kind == "call" && ne.Args[0].Fn != nil && ne.Args[0].Fn.Pkg != nil &&
				ne.Args[0].Fn.Pkg.Pkg.Path() == "io" && ne.Args[0].Name == "ReadFull" && ne.Args[0].Args[1].V == ssa.Value(pParam) &&
				ee.Kind == "extract" && ee.Idx == 1 && ee.Args[0].V == ne.Args[0].V:
				ok, why = true, "n, err = io.ReadFull(_, p)"
			default:
				full := c.AtomFlow(fn, func(a kit.Atom) bool {
					// n >= len(p)  (from !(n < len(p)))
					ok, _ := a.UpperBound(isLenP, func(x *kit.Expr) bool { return x.V == nv })
					if ok {
						return true
					}
					return a.Op == token.EQL && ((a.L.V == nv && isLenP(a.R)) || (a.R.V == nv && isLenP(a.L)))
				}, nil)
				if full.Before(r) {
					ok, why = true, "n >= len(p) on this path"
				}
			}
			if ok {
				c.OK("R03.4", key, posOf(r), "nil-error return with %s", why)
			} else {
				c.Bad("R03.4", key, posOf(r), "ReadAt may return n=%s < len(p) with a nil error: the consumer (peerwriter.Piece.Read) frames a short block", ne)
			}
		}
	}
	c.Floor("R03.4", "ReadAt implementations in the module", n, 3)
}

// singleStoredValue returns the value of the only store into the local a
// when a is otherwise only loaded (no field stores, no escaping address), or
// nil.
func singleStoredValue(a *ssa.Alloc) ssa.Value {
	var val ssa.Value
	for _, r := range *a.Referrers() {
		switch x := r.(type) {
		case *ssa.Store:
			if x.Addr != ssa.Value(a) || val != nil {
				return nil
			}
			val = x.Val
		case *ssa.UnOp:
			if x.Op != token.MUL {
				return nil
			}
		case *ssa.DebugRef:
		default:
			return nil
		}
	}
	return val
}

// rootOfLoad maps a load of a local (alloc) to the alloc itself, so that
// facts about fields of the local and the value passed on can be related.
func rootOfLoad(v ssa.Value) ssa.Value {
	if u, ok := v.(*ssa.UnOp); ok && u.Op == token.MUL {
		if a, ok := u.X.(*ssa.Alloc); ok {
			return a
		}
	}
	return v
}

// storesInto reports whether ins writes into the local rooted at root
// (direct store, field/element store, or passing its address to a call).
func storesInto(ins ssa.Instruction, root ssa.Value) bool {
	if _, ok := root.(*ssa.Alloc); !ok {
		return false
	}
	var addrRoot func(v ssa.Value) ssa.Value
	addrRoot = func(v ssa.Value) ssa.Value {
		switch x := v.(type) {
		case *ssa.FieldAddr:
			return addrRoot(x.X)
		case *ssa.IndexAddr:
			return addrRoot(x.X)
		}
		return v
	}
	switch x := ins.(type) {
	case *ssa.Store:
		return addrRoot(x.Addr) == root
	case ssa.CallInstruction:
		for _, a := range x.Common().Args {
			if addrRoot(a) == root {
				return true
			}
			if mi, ok := a.(*ssa.MakeInterface); ok && addrRoot(mi.X) == root {
				return true
			}
		}
	}
	return false
}

// isErrSentinel recognises a load of a package-level error variable
// (io.EOF, ErrBlockInvalid, ...): assumed non-nil.
func isErrSentinel(e *kit.Expr) bool {
	if e.Kind == "deref" && e.Args[0].Kind == "global" {
		if v, ok := e.Args[0].Obj.(*types.Var); ok {
			return types.Identical(v.Type(), types.Universe.Lookup("error").Type())
		}
	}
	return false
}

package rules

import (
	"go/types"
	"strings"

	"golang.org/x/tools/go/ssa"

	"rainverif/checker/kit"
)

// R18.6 the address list re-numbers its entries after every re-ordering
// (second seeding round: the loop that re-assigns peerAddr.index after
// sorting peerByTime by timestamp was dropped as "redundant"; filterNils
// assigns indexes too, but runs before the sort. With stale indexes a later
// Pop nils the wrong slot: the dialled address stays queued, a live one drops
// out of the time-ordered slice but stays in the priority tree, the bound is
// exceeded or the wrong address evicted).
//
// Must-flow per function of package addrlist: "indexes are fresh" is true at
// entry, killed by a sorting call on AddrList.peerByTime, regenerated on
// entering a loop that walks peerByTime and stores peerAddr.index (or by a
// call to a helper that always runs such a loop); it must hold at every return.

func init() { registerExtra("C18", runR18_6) }

func runR18_6(c *kit.Ctx) {
	k := newKeyer()
	fByTime := c.Field("internal/addrlist", "AddrList", "peerByTime")
	fIndex := c.Field("internal/addrlist", "peerAddr", "index")

	onCycle := func(b *ssa.BasicBlock) map[*ssa.BasicBlock]bool {
		// blocks of the strongly connected region containing b (empty if b is on no cycle)
		fwd := map[*ssa.BasicBlock]bool{}
		var st []*ssa.BasicBlock
		st = append(st, b.Succs...)
		for len(st) > 0 {
			x := st[len(st)-1]
			st = st[:len(st)-1]
			if fwd[x] {
				continue
			}
			fwd[x] = true
			st = append(st, x.Succs...)
		}
		if !fwd[b] {
			return nil
		}
		bwd := map[*ssa.BasicBlock]bool{}
		st = append(st, b.Preds...)
		for len(st) > 0 {
			x := st[len(st)-1]
			st = st[:len(st)-1]
			if bwd[x] {
				continue
			}
			bwd[x] = true
			st = append(st, x.Preds...)
		}
		scc := map[*ssa.BasicBlock]bool{}
		for x := range fwd {
			if bwd[x] {
				scc[x] = true
			}
		}
		return scc
	}
	// refresh loop headers of a function
	headers := func(fn *ssa.Function) map[*ssa.BasicBlock]bool {
		out := map[*ssa.BasicBlock]bool{}
		kit.Instrs(fn, func(ins ssa.Instruction) {
			if _, ok := kit.StoresField(ins, fIndex); !ok {
				return
			}
			scc := onCycle(ins.Block())
			if scc == nil {
				return
			}
			walks := false
			for b := range scc {
				for _, i2 := range b.Instrs {
					if v, ok := i2.(ssa.Value); ok && kit.Canon(v).Mentions(func(e *kit.Expr) bool { return e.IsField(fByTime) }) {
						walks = true
					}
				}
			}
			// the slice may be loaded before the loop (range evaluates it once)
			if !walks {
				for _, b := range fn.Blocks {
					for _, i2 := range b.Instrs {
						if ia, ok := i2.(*ssa.IndexAddr); ok && scc[ia.Block()] && kit.Canon(ia.X).Mentions(func(e *kit.Expr) bool { return e.IsField(fByTime) }) {
							walks = true
						}
					}
				}
			}
			if !walks {
				return
			}
			for b := range scc {
				for _, p := range b.Preds {
					if !scc[p] {
						out[b] = true
					}
				}
			}
		})
		return out
	}
	alwaysRefreshes := map[*ssa.Function]bool{}
	var pkgFns []*ssa.Function
	for _, fn := range c.ModuleFunctions() {
		if inPkg(fn, c, "internal/addrlist") && fn.Blocks != nil {
			pkgFns = append(pkgFns, fn)
		}
	}
	for _, fn := range pkgFns {
		hs := headers(fn)
		if len(hs) == 0 {
			continue
		}
		ok := true
		for _, r := range returnsOf(fn) {
			dom := false
			for h := range hs {
				if h.Dominates(r.Block()) {
					dom = true
				}
			}
			if !dom {
				ok = false
			}
		}
		alwaysRefreshes[fn] = ok
	}
	isSort := func(ins ssa.Instruction) bool {
		cc := kit.CallOf(ins)
		if cc == nil || cc.StaticCallee() == nil {
			return false
		}
		f := cc.StaticCallee()
		pk := kit.FnPkgPath(f)
		if pk != "sort" && pk != "slices" {
			return false
		}
		if !strings.Contains(f.Name(), "Sort") && !strings.Contains(f.Name(), "Stable") && f.Name() != "Reverse" && f.Name() != "Slice" {
			return false
		}
		for _, a := range cc.Args {
			if kit.Canon(a).Mentions(func(e *kit.Expr) bool { return e.IsField(fByTime) }) {
				return true
			}
		}
		return false
	}
	nSort := 0
	for _, fn := range pkgFns {
		has := false
		kit.Instrs(fn, func(ins ssa.Instruction) {
			if isSort(ins) {
				has = true
				nSort++
			}
		})
		if !has {
			continue
		}
		hs := headers(fn)
		fresh := (&kit.Flow{P: c.Prog, Fn: fn, Entry: true, Instr: func(ins ssa.Instruction, in bool) bool {
			if isSort(ins) {
				return false
			}
			if b := ins.Block(); hs[b] && len(b.Instrs) > 0 && b.Instrs[0] == ins {
				return true
			}
			if call, ok := ins.(*ssa.Call); ok {
				if g := call.Call.StaticCallee(); g != nil && alwaysRefreshes[g] {
					return true
				}
			}
			return in
		}}).Solve()
		c.Check(len(fresh.FailingReturns()) == 0, "R18.6", k.key(fn, "indexes re-assigned after sort"), fn.Pos(),
			"every path from a re-ordering of AddrList.peerByTime to a return re-assigns peerAddr.index of all entries", "AddrList.peerByTime is re-ordered and a return is reachable without re-assigning peerAddr.index: Pop/replace use the stale index, the time-ordered slice and the priority tree diverge (wrong address evicted or dialled twice, panic 'not in sync')")
	}
	c.Floor("R18.6", "re-orderings of AddrList.peerByTime", nSort, 1)
	_ = types.Typ
}

package rules

import (
	"go/token"
	"go/types"
	"strings"

	"golang.org/x/tools/go/ssa"

	"rainverif/checker/kit"
)

// Rules added after the second round of independently seeded changes (C08).

func init() { registerExtra("C08", runR08_7) }

// ---- R08.7 the address list's two containers stay linked
//
// AddrList keeps every address twice: in the btree peerByPriority and in the
// slice peerByTime; peerAddr.index is the back pointer from the tree item to
// its slot (`d.peerByTime[prev.index] = p` when an address is replaced,
// `d.peerByTime[p.index] = nil` in Pop). The list is fed with peer-chosen
// content (PEX, trackers, DHT); a stale index makes a later replace / pop hit
// a foreign slot, the containers diverge and Push panics ("addr list data
// structures not in sync") inside the torrent's event loop.
//
// Structural necessary condition: wherever a non-nil *peerAddr p is placed
// into a slot of a []*peerAddr (append, or store to an element), p.index is
// assigned in the same straight-line region: before the function returns,
// before the enclosing loop starts its next iteration (whose replace branch
// reads the index of an item placed earlier in the same call), before
// p.index is read and before another function of the package runs - or it
// was assigned just before the placement. A fresh item (allocated in the
// function) must also have been handed to the btree before it is placed.
// NOT decided: that the assigned value is the slot's index (value level).
func runR08_7(c *kit.Ctx) {
	k := newKeyer()
	const pkg = "internal/addrlist"
	tItem := c.Named(pkg, "peerAddr")
	fIndex := c.Field(pkg, "peerAddr", "index")
	c.Field(pkg, "AddrList", "peerByTime") // anchors
	c.Field(pkg, "AddrList", "peerByPriority")

	isItemPtr := func(t types.Type) bool {
		p, ok := t.Underlying().(*types.Pointer)
		if !ok {
			return false
		}
		n, ok := p.Elem().(*types.Named)
		return ok && n.Obj() == tItem.Obj()
	}
	isItemSlice := func(t types.Type) bool {
		s, ok := t.Underlying().(*types.Slice)
		return ok && isItemPtr(s.Elem())
	}
	storesIndexOf := func(ins ssa.Instruction, p ssa.Value) bool {
		st, ok := ins.(*ssa.Store)
		if !ok {
			return false
		}
		fa, ok := st.Addr.(*ssa.FieldAddr)
		if !ok || fa.X != p {
			return false
		}
		s := c09StructOfPtr(fa.X.Type())
		return s != nil && s.Field(fa.Field) == fIndex
	}
	loadsIndexOf := func(ins ssa.Instruction, p ssa.Value) bool {
		u, ok := ins.(*ssa.UnOp)
		if !ok || u.Op != token.MUL {
			return false
		}
		fa, ok := u.X.(*ssa.FieldAddr)
		if !ok || fa.X != p {
			return false
		}
		s := c09StructOfPtr(fa.X.Type())
		return s != nil && s.Field(fa.Field) == fIndex
	}
	isInsertOf := func(ins ssa.Instruction, p ssa.Value) bool {
		call, ok := ins.(*ssa.Call)
		if !ok {
			return false
		}
		callee := call.Call.StaticCallee()
		if callee == nil || callee.Name() != "ReplaceOrInsert" || !strings.HasSuffix(kit.FnPkgPath(callee), "google/btree") {
			return false
		}
		for _, a := range call.Call.Args {
			for {
				if mi, ok := a.(*ssa.MakeInterface); ok {
					a = mi.X
					continue
				}
				break
			}
			if a == p {
				return true
			}
		}
		return false
	}

	type placement struct {
		ins  ssa.Instruction
		p    ssa.Value
		what string
	}
	n := 0
	for _, fn := range c.ModuleFunctions() {
		if !inPkg(fn, c, pkg) {
			continue
		}
		var places []placement
		kit.Instrs(fn, func(ins ssa.Instruction) {
			switch x := ins.(type) {
			case *ssa.Call:
				if !isBuiltin(&x.Call, "append") || !isItemSlice(x.Type()) || len(x.Call.Args) != 2 {
					return
				}
				sl, ok := x.Call.Args[1].(*ssa.Slice)
				if !ok {
					return
				}
				arr, ok := sl.X.(*ssa.Alloc)
				if !ok {
					return // append(a, b...): elements are placed elsewhere
				}
				kit.Instrs(fn, func(i2 ssa.Instruction) {
					if st, ok := i2.(*ssa.Store); ok {
						if ia, ok := st.Addr.(*ssa.IndexAddr); ok && ia.X == ssa.Value(arr) && !kit.Canon(st.Val).IsNil() {
							places = append(places, placement{ins, st.Val, "append"})
						}
					}
				})
			case *ssa.Store:
				ia, ok := x.Addr.(*ssa.IndexAddr)
				if !ok || !isItemSlice(ia.X.Type()) || kit.Canon(x.Val).IsNil() {
					return
				}
				places = append(places, placement{ins, x.Val, "slot store"})
			}
		})
		for _, pl := range places {
			pl := pl
			n++
			key := k.key(fn, "placement ("+pl.what+") assigns index")
			// assigned just before the placement (no other placement of it in between)?
			before := (&kit.Flow{P: c.Prog, Fn: fn, Instr: func(ins ssa.Instruction, in bool) bool {
				if storesIndexOf(ins, pl.p) {
					return true
				}
				for _, o := range places {
					if o.ins == ins && o.p == pl.p && ins != pl.ins {
						return false
					}
				}
				return in
			}}).Solve()
			var why string
			if !before.Before(pl.ins) {
				pend := (&kit.Flow{P: c.Prog, Fn: fn, Entry: true, Instr: func(ins ssa.Instruction, in bool) bool {
					if storesIndexOf(ins, pl.p) {
						return true
					}
					if ins == pl.ins {
						return false
					}
					return in
				}}).Solve()
				if fr := pend.FailingReturns(); len(fr) > 0 {
					why = "the function can return (" + c.Pos(posOf(fr[0])) + ") without assigning it"
				}
				for _, b := range fn.Blocks {
					if why != "" {
						break
					}
					for _, s := range b.Succs {
						if s.Dominates(b) && !pend.OnEdge(b, s) {
							why = "the enclosing loop can start its next iteration without assigning it"
						}
					}
					for _, ins := range b.Instrs {
						if why != "" {
							break
						}
						if pend.Before(ins) {
							continue
						}
						if loadsIndexOf(ins, pl.p) {
							why = "its index is read (" + c.Pos(posOf(ins)) + ") before it is assigned"
						}
						if call, ok := ins.(*ssa.Call); ok {
							if callee := call.Call.StaticCallee(); callee != nil && callee.Blocks != nil && inPkg(callee, c, pkg) {
								why = "another function of the address list (" + callee.Name() + ", " + c.Pos(posOf(ins)) + ") runs before it is assigned"
							}
						}
					}
				}
			}
			if why != "" {
				c.Bad("R08.7", key, posOf(pl.ins), "an address item is placed into the time-ordered slice but its index back pointer is not assigned in the same step: %s. A later replace / pop of that address (same address twice in one PEX/tracker response) overwrites or clears a foreign slot, slice and btree diverge and Push panics 'addr list data structures not in sync' in the event loop", why)
				continue
			}
			// a fresh item reaches the btree before it is placed
			if _, fresh := pl.p.(*ssa.Alloc); fresh {
				inserted := (&kit.Flow{P: c.Prog, Fn: fn, Instr: func(ins ssa.Instruction, in bool) bool {
					return in || isInsertOf(ins, pl.p)
				}}).Solve()
				if !inserted.Before(pl.ins) {
					c.Bad("R08.7", key, posOf(pl.ins), "a new address item is placed into the time-ordered slice without having been inserted into the priority btree on every path: the two containers hold different sets and Push panics 'addr list data structures not in sync'")
					continue
				}
			}
			c.OK("R08.7", key, posOf(pl.ins), "the placed item's index is assigned before the function returns, the loop iterates, the index is read or another list function runs")
		}
	}
	c.Floor("R08.7", "placements of an address item into a []*peerAddr", n, 2)
}

package rules

import (
	"fmt"
	"go/constant"
	"go/token"
	"go/types"
	"sort"
	"strings"

	"golang.org/x/tools/go/ssa"

	"rainverif/checker/kit"
)

func init() {
	register(&Property{
		ID:          "C11",
		Explanation: "Decides agreement of the finite wire tables of the peer protocol between writer, reader and a BEP 3/5/6/9/10/11 reference embedded in the checker: (R11.1) message ids - the constant returned by ID() of every type implementing peerprotocol.Message, the MessageID constants, and the type delivered by the reader under each `id == k` fact agree with each other and with the reference; every sendable type has a reader arm; (R11.2) field layout - (offset,width,field) triples of the PutUintN calls of every fixed-layout Read method, the returned count and io.EOF, big-endian order, equal the encoding/binary layout of the struct the reader fills under that id and the reference layout; the reader consumes from the stream exactly what the reference prescribes per id (nothing / one binary.Read / length-1 bytes / header + length-9 bytes; arms moved into same-package helpers are followed: stream reads in the helper count for the id of the call site, a by-value length parameter stands for the argument, returned messages for the delivered value) and delivers the value it read; (R11.3) framing - every Write on the peer connection in package peerwriter, in whatever function it is, is either the 4-zero-byte keep-alive or the framed write; the function that makes the framed write reserves 5 bytes in an empty buffer (a buffer parameter is followed to its call sites), stores uint32(1+m) big-endian at [0:4] with m the count returned by the WriteTo/ReadFrom that serialised the same message, stores msg.ID() at [4], writes the same buffer; keep-alive is four zero bytes; the reader strips exactly one id byte from the frame length; (R11.4) handshake - struct order/widths 20/8/20/20 of writeHandshake equal the io.ReadFull sequence of readHandshake1+2 and the reference, pstr is the reference constant and is verified by the reader; (R11.5) extension protocol - advertised m dictionary vs UnmarshalBinary dispatch vs reference keys, bencode keys, origin of every outgoing ExtendedMessageID (peer's handshake map under the matching key, or 0 for the handshake), metadata payloads with data are passed by value, WriteTo's returned count covers every byte it writes; (R11.6) countUploadBytes is called, wherever the call is, only with the n of the framed conn.Write of the same function under msg.(Piece) of the message written, and subtracts 4+1+8. NOT decided: byte-exact round trip for all field values and all fragmentations of the stream (bufio, encoding/binary, bytes.Buffer and bencode are trusted).",
		RuleText:    commonRuleText,
		Assumptions: append([]string{"encoding/binary.Read/Write lay out exported fixed-size struct fields in declaration order without padding; bytes.Buffer.ReadFrom(r) appends r.Read output until io.EOF and returns the byte count; the reference id/layout tables embedded in c11.go transcribe BEP 3, 5, 6, 9, 10, 11 correctly"}, commonAssumptions...),
		Run:         runC11,
	})
}

// ---- embedded reference (independent of rain) ---------------------------

type c11RefField struct {
	Name  string
	Width int
}

type c11RefMsg struct {
	ID       int64
	Const    string        // name of the MessageID constant in rain
	BEP      string        // where the id is specified
	Types    []string      // "pkg.Type" of rain types that carry this id on the wire
	Deliver  string        // "pkg.Type" delivered by the reader ("" = the protocol type itself, "payload" = extension payload)
	Layout   []c11RefField // fixed part of the payload
	Variable bool          // payload continues with (frame length - 1 - fixed) raw bytes
}

const (
	c11PP = "internal/peerprotocol"
	c11PW = "internal/peerconn/peerwriter"
	c11PR = "internal/peerconn/peerreader"
)

var c11IBL = []c11RefField{{"Index", 4}, {"Begin", 4}, {"Length", 4}}

var c11Ref = []c11RefMsg{
	{ID: 0, Const: "Choke", BEP: "BEP 3", Types: []string{c11PP + ".ChokeMessage"}},
	{ID: 1, Const: "Unchoke", BEP: "BEP 3", Types: []string{c11PP + ".UnchokeMessage"}},
	{ID: 2, Const: "Interested", BEP: "BEP 3", Types: []string{c11PP + ".InterestedMessage"}},
	{ID: 3, Const: "NotInterested", BEP: "BEP 3", Types: []string{c11PP + ".NotInterestedMessage"}},
	{ID: 4, Const: "Have", BEP: "BEP 3", Types: []string{c11PP + ".HaveMessage"}, Layout: []c11RefField{{"Index", 4}}},
	{ID: 5, Const: "Bitfield", BEP: "BEP 3", Types: []string{c11PP + ".BitfieldMessage"}, Variable: true},
	{ID: 6, Const: "Request", BEP: "BEP 3", Types: []string{c11PP + ".RequestMessage"}, Layout: c11IBL},
	{ID: 7, Const: "Piece", BEP: "BEP 3", Types: []string{c11PP + ".PieceMessage", c11PW + ".Piece", c11PR + ".Piece"}, Deliver: c11PR + ".Piece",
		Layout: []c11RefField{{"Index", 4}, {"Begin", 4}}, Variable: true},
	{ID: 8, Const: "Cancel", BEP: "BEP 3", Types: []string{c11PP + ".CancelMessage"}, Layout: c11IBL},
	{ID: 9, Const: "Port", BEP: "BEP 5", Types: []string{c11PP + ".PortMessage"}, Layout: []c11RefField{{"Port", 2}}},
	{ID: 13, Const: "Suggest", BEP: "BEP 6", Layout: []c11RefField{{"Index", 4}}},
	{ID: 14, Const: "HaveAll", BEP: "BEP 6", Types: []string{c11PP + ".HaveAllMessage"}},
	{ID: 15, Const: "HaveNone", BEP: "BEP 6", Types: []string{c11PP + ".HaveNoneMessage"}},
	{ID: 16, Const: "Reject", BEP: "BEP 6", Types: []string{c11PP + ".RejectMessage"}, Layout: c11IBL},
	{ID: 17, Const: "AllowedFast", BEP: "BEP 6", Types: []string{c11PP + ".AllowedFastMessage"}, Layout: []c11RefField{{"Index", 4}}},
	{ID: 20, Const: "Extension", BEP: "BEP 10", Types: []string{c11PP + ".ExtensionMessage"}, Deliver: "payload", Variable: true},
}

func c11RefByID(id int64) *c11RefMsg {
	for i := range c11Ref {
		if c11Ref[i].ID == id {
			return &c11Ref[i]
		}
	}
	return nil
}

func c11LayoutString(l []c11RefField) string {
	var s []string
	for _, f := range l {
		s = append(s, fmt.Sprintf("%s:%d", f.Name, f.Width))
	}
	return "[" + strings.Join(s, " ") + "]"
}

func c11SameLayout(a, b []c11RefField) bool {
	if len(a) != len(b) {
		return false
	}
	for i := range a {
		if a[i] != b[i] {
			return false
		}
	}
	return true
}

func c11LayoutWidth(l []c11RefField) int {
	n := 0
	for _, f := range l {
		n += f.Width
	}
	return n
}

// ---- shared environment ---------------------------------------------------

type c11WEntry struct {
	T        *types.Named
	Name     string // "pkg.Type" module relative
	ID       int64
	HasID    bool
	IDFn     *ssa.Function
	Promoted bool
}

type c11Env struct {
	tMessageID *types.Named
	msgIface   *types.Interface
	refType    map[*types.Named]*c11RefMsg // rain type -> reference row
	w          []*c11WEntry
	rd         *c11Reader
	wlayout    map[*types.Named][]c11RefField // writer-side layout per W type (fixed part)
}

func c11TypeName(n *types.Named) string {
	if n == nil {
		return "<unnamed>"
	}
	if n.Obj().Pkg() == nil {
		return n.Obj().Name()
	}
	return strings.TrimPrefix(n.Obj().Pkg().Path(), kit.ModPath+"/") + "." + n.Obj().Name()
}

func c11Named(c *kit.Ctx, q string) *types.Named {
	i := strings.LastIndex(q, ".")
	return c.Named(q[:i], q[i+1:])
}

func c11Fail(format string, a ...any) {
	panic(kit.AnchorError{Msg: fmt.Sprintf(format, a...)})
}

func runC11(c *kit.Ctx) {
	k := newKeyer()
	env := &c11Env{
		tMessageID: c.Named(c11PP, "MessageID"),
		refType:    map[*types.Named]*c11RefMsg{},
		wlayout:    map[*types.Named][]c11RefField{},
	}
	env.msgIface, _ = c.Named(c11PP, "Message").Underlying().(*types.Interface)
	if env.msgIface == nil {
		c11Fail("peerprotocol.Message is not an interface")
	}
	for i := range c11Ref {
		for _, q := range c11Ref[i].Types {
			env.refType[c11Named(c, q)] = &c11Ref[i]
		}
	}
	env.rd = c11AnalyseReader(c, env)

	c11MessageIDs(c, k, env)    // R11.1
	c11Layouts(c, k, env)       // R11.2
	c11Framing(c, k, env)       // R11.3 (c11b.go)
	c11Handshake(c, k)          // R11.4 (c11b.go)
	c11Extension(c, k, env)     // R11.5 (c11b.go)
	c11UploadCounter(c, k, env) // R11.6 (c11b.go)
}

// ---- small SSA helpers ----------------------------------------------------

// c11Static describes the static callee of a call: package path, receiver
// type name ("" for functions) and name.
func c11Static(cc *ssa.CallCommon) (pkg, recv, name string) {
	if cc == nil || cc.IsInvoke() {
		return
	}
	fn := cc.StaticCallee()
	if fn == nil {
		return
	}
	if fn.Pkg != nil {
		pkg = fn.Pkg.Pkg.Path()
	} else if o := fn.Object(); o != nil && o.Pkg() != nil {
		pkg = o.Pkg().Path()
	}
	if r := fn.Signature.Recv(); r != nil {
		t := r.Type()
		if p, ok := t.(*types.Pointer); ok {
			t = p.Elem()
		}
		if n, ok := t.(*types.Named); ok {
			recv = n.Obj().Name()
		}
	}
	return pkg, recv, fn.Name()
}

func c11IsStatic(cc *ssa.CallCommon, pkg, recv, name string) bool {
	p, r, n := c11Static(cc)
	return p == pkg && r == recv && n == name
}

// c11IsBigEndian: v is (an interface boxing of) a load of
// encoding/binary.BigEndian.
func c11IsBigEndian(v ssa.Value) bool {
	if mi, ok := v.(*ssa.MakeInterface); ok {
		v = mi.X
	}
	u, ok := v.(*ssa.UnOp)
	if !ok || u.Op != token.MUL {
		return false
	}
	g, ok := u.X.(*ssa.Global)
	return ok && g.Name() == "BigEndian" && g.Pkg != nil && g.Pkg.Pkg.Path() == "encoding/binary"
}

func c11ConstInt(v ssa.Value) (int64, bool) {
	for {
		switch x := v.(type) {
		case *ssa.Convert:
			v = x.X
			continue
		case *ssa.ChangeType:
			v = x.X
			continue
		case *ssa.Const:
			if x.Value != nil && x.Value.Kind() == constant.Int {
				return constant.Int64Val(x.Value)
			}
		}
		return 0, false
	}
}

func c11StripConv(v ssa.Value) ssa.Value {
	for {
		switch x := v.(type) {
		case *ssa.Convert:
			v = x.X
		case *ssa.ChangeType:
			v = x.X
		default:
			return v
		}
	}
}

// c11LoadOf returns the alloc a value is a plain load of, or nil.
func c11LoadOf(v ssa.Value) *ssa.Alloc {
	if u, ok := v.(*ssa.UnOp); ok && u.Op == token.MUL {
		a, _ := u.X.(*ssa.Alloc)
		return a
	}
	return nil
}

// c11BoxedAlloc returns A for `make any <- *T (A)`.
func c11BoxedAlloc(v ssa.Value) *ssa.Alloc {
	if mi, ok := v.(*ssa.MakeInterface); ok {
		v = mi.X
	}
	a, _ := v.(*ssa.Alloc)
	return a
}

func c11ElemType(a *ssa.Alloc) types.Type {
	return a.Type().Underlying().(*types.Pointer).Elem()
}

// c11Flatten lays a type out the way encoding/binary does: declaration
// order, no padding, nested structs and embedded fields flattened; arrays
// are one leaf.
func c11Flatten(t types.Type, name string) (out []c11RefField, ok bool) {
	switch u := t.Underlying().(type) {
	case *types.Basic:
		w := 0
		switch u.Kind() {
		case types.Bool, types.Int8, types.Uint8:
			w = 1
		case types.Int16, types.Uint16:
			w = 2
		case types.Int32, types.Uint32, types.Float32:
			w = 4
		case types.Int64, types.Uint64, types.Float64:
			w = 8
		default:
			return nil, false
		}
		return []c11RefField{{name, w}}, true
	case *types.Array:
		el, ok := c11Flatten(u.Elem(), name)
		if !ok {
			return nil, false
		}
		return []c11RefField{{name, c11LayoutWidth(el) * int(u.Len())}}, true
	case *types.Struct:
		for i := 0; i < u.NumFields(); i++ {
			f := u.Field(i)
			if !f.Exported() && f.Name() != "_" {
				if _, isStruct := f.Type().Underlying().(*types.Struct); !isStruct || !f.Embedded() {
					return nil, false // binary.Read panics/fails on unexported fields
				}
			}
			sub, ok := c11Flatten(f.Type(), f.Name())
			if !ok {
				return nil, false
			}
			out = append(out, sub...)
		}
		return out, true
	}
	return nil, false
}

// ---- id facts ---------------------------------------------------------------

// c11IDFacts holds one must-flow per constant k for the fact `id == k`.
type c11IDFacts struct {
	Ks    []int64
	flows map[int64]*kit.Flow
}

func c11NewIDFacts(c *kit.Ctx, fn *ssa.Function, isID func(*kit.Expr) bool, kill func(ssa.Instruction) bool) *c11IDFacts {
	f := &c11IDFacts{flows: map[int64]*kit.Flow{}}
	seen := map[int64]bool{}
	for _, b := range fn.Blocks {
		if len(b.Instrs) == 0 {
			continue
		}
		ifi, ok := b.Instrs[len(b.Instrs)-1].(*ssa.If)
		if !ok {
			continue
		}
		for _, tr := range []bool{true, false} {
			for _, a := range kit.EdgeAtoms(ifi.Cond, tr) {
				if a.Op != token.EQL || !isID(a.L.Strip()) {
					continue
				}
				if kk, ok := a.R.Strip().IntConst(); ok && !seen[kk] {
					seen[kk] = true
					f.Ks = append(f.Ks, kk)
				}
			}
		}
	}
	sort.Slice(f.Ks, func(i, j int) bool { return f.Ks[i] < f.Ks[j] })
	for _, kk := range f.Ks {
		kk := kk
		f.flows[kk] = c.AtomFlow(fn, func(a kit.Atom) bool {
			if a.Op != token.EQL || !isID(a.L.Strip()) {
				return false
			}
			v, ok := a.R.Strip().IntConst()
			return ok && v == kk
		}, kill)
	}
	return f
}

// At returns the ids k for which `id == k` holds on every path to ins.
func (f *c11IDFacts) At(ins ssa.Instruction) []int64 {
	var out []int64
	for _, kk := range f.Ks {
		if f.flows[kk].Before(ins) {
			out = append(out, kk)
		}
	}
	return out
}

// ---- reader analysis (shared by R11.1, R11.2, R11.3) -----------------------

type c11Arm struct {
	ID      int64
	IDs     []int64
	Src     ssa.Value
	At      ssa.Instruction // point of Run at which the id facts are evaluated
	T       *types.Named    // delivered dynamic type
	Payload *ssa.Alloc      // ExtensionMessage alloc whose Payload is delivered
	PayAt   ssa.Instruction // the load of Payload (in the function that owns the alloc)
}

type c11Consumer struct {
	Call   *ssa.Call
	Ctx    []*ssa.Call // call chain from Run down to the function containing Call (empty: in Run)
	IDs    []int64
	Kind   string     // binary.Read | io.ReadFull | readPiece | io.CopyN | other
	Target *ssa.Alloc // binary.Read destination
	Buf    ssa.Value  // io.ReadFull buffer
	Len    ssa.Value  // readPiece / CopyN length
	BigEnd bool
}

type c11Dec struct {
	st            *ssa.Store
	c             int64
	done, notDone *kit.Flow
}

type c11Reader struct {
	run       *ssa.Function
	idAlloc   *ssa.Alloc
	lenAlloc  *ssa.Alloc
	idRead    *ssa.Call
	lenRead   *ssa.Call
	facts     *c11IDFacts
	arms      []c11Arm
	consumers []c11Consumer
	decs      []*c11Dec
	oddStores []*ssa.Store
	sends     int
}

func c11AnalyseReader(c *kit.Ctx, env *c11Env) *c11Reader {
	rd := &c11Reader{run: c.Func(c11PR, "(*PeerReader).Run")}
	run := rd.run
	fMessages := c.Field(c11PR, "PeerReader", "messages")
	fR := c.Field(c11PR, "PeerReader", "r")
	readPiece := c.FuncObj(c11PR, "(*PeerReader).readPiece")
	binRead := c.FuncObj("encoding/binary", "Read")
	readFull := c.FuncObj("io", "ReadFull")
	copyN := c.FuncObj("io", "CopyN")

	isR := func(v ssa.Value) bool { return kit.Canon(v).Strip().IsField(fR) }

	// frame header variables: destinations of binary.Read
	kit.Instrs(run, func(ins ssa.Instruction) {
		call, ok := ins.(*ssa.Call)
		if !ok || kit.CalleeObj(&call.Call) != binRead || len(call.Call.Args) != 3 {
			return
		}
		a := c11BoxedAlloc(call.Call.Args[2])
		if a == nil {
			return
		}
		el := c11ElemType(a)
		if n, ok := el.(*types.Named); ok && n == env.tMessageID {
			if rd.idAlloc != nil && rd.idAlloc != a {
				c11Fail("PeerReader.Run reads two message id variables")
			}
			rd.idAlloc, rd.idRead = a, call
		} else if b, ok := el.(*types.Basic); ok && b.Kind() == types.Uint32 {
			if rd.lenAlloc != nil && rd.lenAlloc != a {
				c11Fail("PeerReader.Run reads two frame length variables")
			}
			rd.lenAlloc, rd.lenRead = a, call
		}
	})
	if rd.idAlloc == nil || rd.lenAlloc == nil {
		c11Fail("PeerReader.Run: frame length (uint32) / message id (MessageID) destinations of binary.Read not found")
	}
	isID := func(e *kit.Expr) bool {
		return e != nil && e.Kind == "deref" && e.Args[0].V == ssa.Value(rd.idAlloc)
	}
	rd.facts = c11NewIDFacts(c, run, isID, func(ins ssa.Instruction) bool { return storesInto(ins, rd.idAlloc) })

	// length bookkeeping
	isLenRead := func(ins ssa.Instruction) bool {
		if st, ok := ins.(*ssa.Store); ok && st.Addr == ssa.Value(rd.lenAlloc) {
			return false
		}
		return storesInto(ins, rd.lenAlloc)
	}
	kit.Instrs(run, func(ins ssa.Instruction) {
		st, ok := ins.(*ssa.Store)
		if !ok || st.Addr != ssa.Value(rd.lenAlloc) {
			return
		}
		if b, ok := st.Val.(*ssa.BinOp); ok && b.Op == token.SUB && c11LoadOf(b.X) == rd.lenAlloc {
			if cv, ok := c11ConstInt(b.Y); ok {
				rd.decs = append(rd.decs, &c11Dec{st: st, c: cv})
				return
			}
		}
		if cst, ok := st.Val.(*ssa.Const); ok && cst.Value != nil && constant.Sign(cst.Value) == 0 {
			return // zero initialisation of the declaration
		}
		rd.oddStores = append(rd.oddStores, st)
	})
	for _, d := range rd.decs {
		d := d
		d.done = (&kit.Flow{P: c.Prog, Fn: run, Instr: func(ins ssa.Instruction, in bool) bool {
			if ins == ssa.Instruction(d.st) {
				return true
			}
			if isLenRead(ins) {
				return false
			}
			return in
		}}).Solve()
		d.notDone = (&kit.Flow{P: c.Prog, Fn: run, Entry: true, Instr: func(ins ssa.Instruction, in bool) bool {
			if ins == ssa.Instruction(d.st) {
				return false
			}
			if isLenRead(ins) {
				return true
			}
			return in
		}}).Solve()
	}

	// delivered values
	deliver := func(v ssa.Value) {
		rd.sends++
		for _, s := range boolSources(v) {
			at := s.At
			if x, ok := s.V.(ssa.Instruction); ok && x.Parent() == run {
				switch s.V.(type) {
				case *ssa.MakeInterface, *ssa.UnOp:
					at = x
				}
			}
			var ids []int64
			if at != nil {
				ids = rd.facts.At(at)
			}
			// an arm that was moved into a helper returns its message: look
			// through the helper's returns (error paths return zero values)
			for _, o := range c11ValueOrigins(s.V, 2) {
				arm := c11Arm{Src: o, At: at, ID: -1, IDs: ids}
				switch x := o.(type) {
				case *ssa.MakeInterface:
					arm.T = derefNamed(x.X.Type())
					if _, isPtr := x.X.Type().Underlying().(*types.Pointer); isPtr {
						arm.T = nil
					}
				case *ssa.UnOp:
					if fa, ok := x.X.(*ssa.FieldAddr); ok && x.Op == token.MUL {
						if a, ok := fa.X.(*ssa.Alloc); ok && kit.Canon(x).Field != nil && kit.Canon(x).Field.Name() == "Payload" {
							arm.Payload = a
							arm.PayAt = x
						}
					}
				}
				if len(arm.IDs) == 1 {
					arm.ID = arm.IDs[0]
				}
				rd.arms = append(rd.arms, arm)
			}
		}
	}
	kit.Instrs(run, func(ins ssa.Instruction) {
		switch x := ins.(type) {
		case *ssa.Send:
			if kit.Canon(x.Chan).IsField(fMessages) {
				deliver(x.X)
			}
		case *ssa.Select:
			for _, st := range x.States {
				if st.Dir == types.SendOnly && kit.Canon(st.Chan).IsField(fMessages) {
					deliver(st.Send)
				}
			}
		}
	})

	// stream consumers: in Run and, as an inlined view, in the same-package
	// helpers an arm calls (readPiece is a primitive: its size is its argument)
	var scan func(fn *ssa.Function, ctx []*ssa.Call, depth int)
	scan = func(fn *ssa.Function, ctx []*ssa.Call, depth int) {
		kit.Instrs(fn, func(ins ssa.Instruction) {
			call, ok := ins.(*ssa.Call)
			if !ok {
				return
			}
			cc := &call.Call
			obj := kit.CalleeObj(cc)
			usesR := false
			for _, a := range cc.Args {
				if isR(a) {
					usesR = true
				}
			}
			if cc.IsInvoke() && isR(cc.Value) {
				usesR = true
			}
			if !usesR && obj != readPiece {
				if g := cc.StaticCallee(); g != nil && g.Blocks != nil && depth > 0 && g != run && pkgOf(g) == pkgOf(run) {
					busy := false
					for _, x := range ctx {
						if x.Call.StaticCallee() == g {
							busy = true
						}
					}
					if !busy {
						scan(g, append(append([]*ssa.Call{}, ctx...), call), depth-1)
					}
				}
				return
			}
			top := ssa.Instruction(call)
			if len(ctx) > 0 {
				top = ctx[0]
			}
			co := c11Consumer{Call: call, Ctx: ctx, Kind: "other", IDs: rd.facts.At(top)}
			switch {
			case obj == binRead && len(cc.Args) == 3:
				co.Kind = "binary.Read"
				co.Target = c11BoxedAlloc(cc.Args[2])
				co.BigEnd = c11IsBigEndian(cc.Args[1])
			case obj == readFull && len(cc.Args) == 2:
				co.Kind = "io.ReadFull"
				co.Buf = cc.Args[1]
			case obj == readPiece:
				co.Kind = "readPiece"
				co.Len = argOf(cc, 1)
			case obj == copyN && len(cc.Args) == 3:
				co.Kind = "io.CopyN"
				co.Len = cc.Args[2]
			}
			rd.consumers = append(rd.consumers, co)
		})
	}
	scan(run, nil, 2)
	return rd
}

// c11ValueOrigins looks through the results of module functions with a body:
// a value that is result i of a static call stands for the values returned
// at index i by the callee (phis expanded, zero-value constants of error
// paths dropped). Any other value stands for itself.
func c11ValueOrigins(v ssa.Value, depth int) []ssa.Value {
	var call *ssa.Call
	idx := 0
	switch x := v.(type) {
	case *ssa.Extract:
		call, _ = x.Tuple.(*ssa.Call)
		idx = x.Index
	case *ssa.Call:
		if x.Call.Signature().Results().Len() == 1 {
			call = x
		}
	}
	if call == nil || depth <= 0 {
		return []ssa.Value{v}
	}
	g := call.Call.StaticCallee()
	if g == nil || g.Blocks == nil || g.Pkg == nil || !kit.InModule(g.Pkg.Pkg.Path()) {
		return []ssa.Value{v}
	}
	var out []ssa.Value
	for _, r := range returnsOf(g) {
		if r.Block() == g.Recover || idx >= len(r.Results) {
			continue
		}
		for _, s := range boolSources(r.Results[idx]) {
			if k, ok := s.V.(*ssa.Const); ok && (k.Value == nil || k.IsNil()) {
				continue // zero value returned together with an error
			}
			out = append(out, c11ValueOrigins(s.V, depth-1)...)
		}
	}
	if len(out) == 0 {
		return []ssa.Value{v}
	}
	return out
}

// lenOff evaluates v as (frame length - off): conversions, `x - const`, and
// loads of the length variable after the decrement stores that must have
// executed since the frame length was read.
func (rd *c11Reader) lenOff(v ssa.Value, ctx []*ssa.Call) (int64, bool) {
	var off int64
	for {
		v = c11StripConv(v)
		if b, ok := v.(*ssa.BinOp); ok && b.Op == token.SUB {
			if cv, ok := c11ConstInt(b.Y); ok {
				off += cv
				v = b.X
				continue
			}
		}
		// a by-value parameter of a helper is the argument at the call site
		if p, ok := v.(*ssa.Parameter); ok && len(ctx) > 0 {
			site := ctx[len(ctx)-1]
			idx := -1
			for i, q := range p.Parent().Params {
				if q == p {
					idx = i
				}
			}
			if site.Call.StaticCallee() == p.Parent() && idx >= 0 && idx < len(site.Call.Args) {
				v = site.Call.Args[idx]
				ctx = ctx[:len(ctx)-1]
				continue
			}
		}
		break
	}
	if c11LoadOf(v) != rd.lenAlloc {
		return 0, false
	}
	ld := v.(*ssa.UnOp)
	for _, d := range rd.decs {
		switch {
		case d.done.Before(ld):
			off += d.c
		case d.notDone.Before(ld):
		default:
			return 0, false
		}
	}
	return off, true
}

// makeLen follows a buffer value to the make([]byte, L) that created it:
// either directly or through a field of a local struct stored once.
func c11MakeLen(fn *ssa.Function, buf ssa.Value) (ssa.Value, bool) {
	if ms, ok := buf.(*ssa.MakeSlice); ok {
		return ms.Len, true
	}
	u, ok := buf.(*ssa.UnOp)
	if !ok || u.Op != token.MUL {
		return nil, false
	}
	fa, ok := u.X.(*ssa.FieldAddr)
	if !ok {
		return nil, false
	}
	var found ssa.Value
	n := 0
	kit.Instrs(fn, func(ins ssa.Instruction) {
		st, ok := ins.(*ssa.Store)
		if !ok {
			return
		}
		fa2, ok := st.Addr.(*ssa.FieldAddr)
		if !ok || fa2.X != fa.X || fa2.Field != fa.Field {
			return
		}
		n++
		if ms, ok := st.Val.(*ssa.MakeSlice); ok {
			found = ms.Len
		}
	})
	if n == 1 && found != nil {
		return found, true
	}
	return nil, false
}

// ---- R11.1 message ids -----------------------------------------------------

func c11MessageIDs(c *kit.Ctx, k *keyer, env *c11Env) {
	// constants vs reference
	nConst := 0
	for _, r := range c11Ref {
		cst := c.Const(c11PP, r.Const)
		v, ok := constant.Int64Val(cst.Val())
		nConst++
		c.Check(ok && v == r.ID, "R11.1", "const/"+r.Const, cst.Pos(),
			fmt.Sprintf("peerprotocol.%s == %d (%s)", r.Const, r.ID, r.BEP),
			fmt.Sprintf("peerprotocol.%s = %s but %s assigns id %d", r.Const, cst.Val().ExactString(), r.BEP, r.ID))
	}
	c.Floor("R11.1", "MessageID constants compared with the reference", nConst, 16)
	if b, ok := env.tMessageID.Underlying().(*types.Basic); !ok || b.Kind() != types.Uint8 {
		c.Bad("R11.1", "type/MessageID", env.tMessageID.Obj().Pos(), "MessageID is not a uint8: the id would not be one byte on the wire")
	} else {
		c.Present("R11.1", "type/MessageID", env.tMessageID.Obj().Pos(), "MessageID is one byte (uint8)")
	}

	// table W
	var paths []string
	for path := range c.SSAPkgs {
		if kit.InModule(path) {
			paths = append(paths, path)
		}
	}
	sort.Strings(paths)
	for _, path := range paths {
		pk := c.All[path]
		if pk == nil {
			continue
		}
		sc := pk.Types.Scope()
		for _, name := range sc.Names() {
			tn, ok := sc.Lookup(name).(*types.TypeName)
			if !ok || tn.IsAlias() {
				continue
			}
			n, ok := tn.Type().(*types.Named)
			if !ok || n.TypeParams().Len() > 0 {
				continue
			}
			if _, isIface := n.Underlying().(*types.Interface); isIface {
				continue
			}
			if !types.Implements(n, env.msgIface) && !types.Implements(types.NewPointer(n), env.msgIface) {
				continue
			}
			e := &c11WEntry{T: n, Name: c11TypeName(n)}
			sel := c.SSA.MethodSets.MethodSet(types.NewPointer(n)).Lookup(pk.Types, "ID")
			if sel == nil {
				sel = c.SSA.MethodSets.MethodSet(types.NewPointer(n)).Lookup(nil, "ID")
			}
			if sel != nil {
				e.Promoted = len(sel.Index()) > 1
				if obj, ok := sel.Obj().(*types.Func); ok {
					e.IDFn = c.SSA.FuncValue(obj)
				}
			}
			if e.IDFn != nil && e.IDFn.Blocks != nil {
				vals := map[int64]bool{}
				konst := true
				for _, r := range returnsOf(e.IDFn) {
					if v, ok := c11ConstInt(r.Results[0]); ok {
						vals[v] = true
					} else {
						konst = false
					}
				}
				if konst && len(vals) == 1 {
					for v := range vals {
						e.ID, e.HasID = v, true
					}
				}
			}
			env.w = append(env.w, e)
		}
	}
	ids := map[int64]bool{}
	for _, e := range env.w {
		key := "W/" + e.Name
		pos := e.T.Obj().Pos()
		if e.IDFn != nil {
			pos = e.IDFn.Pos()
		}
		ref := env.refType[e.T]
		switch {
		case !e.HasID:
			c.Bad("R11.1", key, pos, "ID() of %s does not return a single constant: the id written at frame byte 4 cannot be tabulated", e.Name)
		case ref == nil && c11RefByID(e.ID) != nil && len(c11RefByID(e.ID).Types) == 0:
			// an id of the reference that no rain type claimed so far
			// (Suggest): bind it, R11.2 checks its layout
			env.refType[e.T] = c11RefByID(e.ID)
			ids[e.ID] = true
			c.OK("R11.1", key, pos, "%s.ID() == %d, bound to the reference row %s (%s)", e.Name, e.ID, c11RefByID(e.ID).Const, c11RefByID(e.ID).BEP)
		case ref == nil:
			if r2 := c11RefByID(e.ID); r2 != nil {
				c.Bad("R11.1", key, pos, "%s carries id %d which the reference (%s) assigns to %v: not a type of the reference table", e.Name, e.ID, r2.BEP, r2.Types)
			} else {
				c.Bad("R11.1", key, pos, "%s carries id %d which is not an id of BEP 3/5/6/10", e.Name, e.ID)
			}
		case ref.ID != e.ID:
			how := ""
			if e.Promoted {
				how = " (ID() is promoted from an embedded message)"
			}
			c.Bad("R11.1", key, pos, "%s.ID() returns %d%s but %s assigns id %d to this message", e.Name, e.ID, how, ref.BEP, ref.ID)
		default:
			ids[e.ID] = true
			c.OK("R11.1", key, pos, "%s.ID() == %d == reference (%s)", e.Name, e.ID, ref.BEP)
		}
	}
	c.Floor("R11.1", "distinct ids carried by types implementing peerprotocol.Message", len(ids), 15)

	// table R
	rd := env.rd
	c.Floor("R11.1", "sends on PeerReader.messages", rd.sends, 1)
	armByID := map[int64][]c11Arm{}
	for _, a := range rd.arms {
		what := "deliver"
		if a.T != nil {
			what = "deliver " + c11TypeName(a.T)
		} else if a.Payload != nil {
			what = "deliver extension payload"
		}
		key := k.key(rd.run, what)
		pos := c11PosNear(a.At, rd.run)
		switch {
		case a.T == nil && a.Payload == nil:
			c.Bad("R11.1", key, pos, "the reader delivers %s whose dynamic type cannot be tabulated", kit.Canon(a.Src))
			continue
		case len(a.IDs) != 1:
			c.Bad("R11.1", key, pos, "the reader delivers %s under ids %v: not under exactly one `id == k` fact", what, a.IDs)
			continue
		}
		ref := c11RefByID(a.ID)
		if ref == nil {
			c.Bad("R11.1", key, pos, "reader arm for id %d which is not an id of BEP 3/5/6/10", a.ID)
			continue
		}
		armByID[a.ID] = append(armByID[a.ID], a)
		want := ""
		got := ""
		switch {
		case ref.Deliver == "payload":
			want = "Payload of a peerprotocol.ExtensionMessage filled by UnmarshalBinary"
			if a.Payload != nil && derefNamed(a.Payload.Type()) == c11Named(c, c11PP+".ExtensionMessage") && c11UnmarshalledBefore(c, a.Payload, a.PayAt) {
				got = want
			} else {
				got = what
			}
		case ref.Deliver != "":
			want = ref.Deliver
			got = c11TypeName(a.T)
		default:
			got = c11TypeName(a.T)
			want = "a type bound to id " + fmt.Sprint(ref.ID)
			if len(ref.Types) > 0 {
				want = ref.Types[0]
			}
			if env.refType[a.T] == ref {
				want = got
			}
		}
		c.Check(want == got && want != "", "R11.1", key, pos,
			fmt.Sprintf("under id == %d (%s) the reader delivers %s", a.ID, ref.Const, got),
			fmt.Sprintf("under id == %d (%s) the reader delivers %s, the reference and the writer table say %s", a.ID, ref.Const, got, want))
	}
	c.Floor("R11.1", "reader arms (delivered values with a determined id)", len(armByID), 15)
	// every sendable type has a reader arm
	for _, e := range env.w {
		if !e.HasID {
			continue
		}
		key := "R-arm-for/" + e.Name
		if len(armByID[e.ID]) == 0 {
			c.Bad("R11.1", key, e.T.Obj().Pos(), "%s is sent with id %d but the reader delivers nothing under id == %d (the message would be discarded by the peer running the same code)", e.Name, e.ID, e.ID)
		} else {
			c.OK("R11.1", key, c11PosNear(armByID[e.ID][0].At, rd.run), "id %d of %s has a reader arm", e.ID, e.Name)
		}
	}
	// reader Piece wraps the protocol header type
	if tp := c11Named(c, c11PR+".Piece"); tp != nil {
		st, _ := tp.Underlying().(*types.Struct)
		ok := st != nil && st.NumFields() > 0 && st.Field(0).Embedded() && derefNamed(st.Field(0).Type()) == c11Named(c, c11PP+".PieceMessage")
		c.Check(ok, "R11.1", "type/peerreader.Piece", tp.Obj().Pos(), "peerreader.Piece embeds peerprotocol.PieceMessage", "peerreader.Piece does not embed peerprotocol.PieceMessage: the delivered piece carries no protocol header")
	}
}

// c11PosNear returns the position of ins or of the nearest preceding
// instruction of its block that has one (implicit conversions have none).
func c11PosNear(ins ssa.Instruction, fn *ssa.Function) token.Pos {
	if ins == nil {
		return fn.Pos()
	}
	if ins.Pos().IsValid() {
		return ins.Pos()
	}
	b := ins.Block()
	idx := -1
	for i, x := range b.Instrs {
		if x == ins {
			idx = i
		}
	}
	for i := idx; i >= 0; i-- {
		if p := b.Instrs[i].Pos(); p.IsValid() {
			return p
		}
		if cc, ok := b.Instrs[i].(ssa.CallInstruction); ok && cc.Common().Pos().IsValid() {
			return cc.Common().Pos()
		}
	}
	return posOf(ins)
}

// c11UnmarshalledBefore: (*ExtensionMessage).UnmarshalBinary(a, ...) is
// called on the alloc and dominates at.
func c11UnmarshalledBefore(c *kit.Ctx, a *ssa.Alloc, at ssa.Instruction) bool {
	um := c.FuncObj(c11PP, "(*ExtensionMessage).UnmarshalBinary")
	ok := false
	kit.Instrs(a.Parent(), func(ins ssa.Instruction) {
		if call, isCall := ins.(*ssa.Call); isCall && kit.CalleeObj(&call.Call) == um && argOf(&call.Call, 0) == ssa.Value(a) && kit.Dominates(call, at) {
			ok = true
		}
	})
	return ok
}

// ---- R11.2 field layout ----------------------------------------------------

type c11Triple struct {
	Off, Width int
	Field      string
	Pos        token.Pos
}

// c11WriterLayout extracts the (offset,width,field) triples a Read method
// writes into its buffer parameter.
type c11WL struct {
	Fn       *ssa.Function
	Triples  []c11Triple
	Problems []string
	RetConst []int64 // constant return counts
	RetVals  []ssa.Value
	EOFOK    bool
	Other    []ssa.Instruction // other uses of b (slices passed elsewhere, copy, element stores)
}

func c11ExtractWriter(fn *ssa.Function) *c11WL {
	wl := &c11WL{Fn: fn, EOFOK: true}
	if len(fn.Params) < 2 {
		wl.Problems = append(wl.Problems, "Read has no buffer parameter")
		return wl
	}
	recv, b := fn.Params[0], fn.Params[1]
	// receiver spill
	var spill *ssa.Alloc
	kit.Instrs(fn, func(ins ssa.Instruction) {
		if st, ok := ins.(*ssa.Store); ok && st.Val == ssa.Value(recv) {
			if a, ok := st.Addr.(*ssa.Alloc); ok {
				spill = a
			}
		}
	})
	fieldOfRecv := func(v ssa.Value) (string, bool) {
		e := kit.Canon(v)
		if e.Kind != "field" {
			return "", false
		}
		leaf := e.Field.Name()
		for e.Kind == "field" || e.Kind == "fieldaddr" {
			e = e.Args[0]
		}
		if e.Kind == "deref" {
			e = e.Args[0]
		}
		if e.V == ssa.Value(recv) || (spill != nil && e.V == ssa.Value(spill)) {
			return leaf, true
		}
		return "", false
	}
	if b.Referrers() != nil {
		for _, r := range *b.Referrers() {
			sl, ok := r.(*ssa.Slice)
			if !ok {
				if _, isDbg := r.(*ssa.DebugRef); !isDbg {
					wl.Other = append(wl.Other, r)
				}
				continue
			}
			for _, r2 := range *sl.Referrers() {
				call, ok := r2.(*ssa.Call)
				if !ok {
					wl.Other = append(wl.Other, r2)
					continue
				}
				pkg, rt, name := c11Static(&call.Call)
				if pkg != "encoding/binary" || !strings.HasPrefix(name, "PutUint") || len(call.Call.Args) != 3 || call.Call.Args[1] != ssa.Value(sl) {
					wl.Other = append(wl.Other, r2)
					continue
				}
				if rt != "bigEndian" || !c11IsBigEndian(call.Call.Args[0]) {
					wl.Problems = append(wl.Problems, fmt.Sprintf("%s.%s is not big-endian (network order)", rt, name))
				}
				bits := 0
				fmt.Sscanf(strings.TrimPrefix(name, "PutUint"), "%d", &bits)
				lo, hi := int64(0), int64(-1)
				if sl.Low != nil {
					v, ok := c11ConstInt(sl.Low)
					if !ok {
						wl.Problems = append(wl.Problems, "non-constant slice bound of the buffer")
					}
					lo = v
				}
				if sl.High != nil {
					if v, ok := c11ConstInt(sl.High); ok {
						hi = v
					}
				}
				if hi < 0 {
					wl.Problems = append(wl.Problems, fmt.Sprintf("%s destination has no constant upper bound", name))
					hi = lo + int64(bits/8)
				}
				if hi-lo != int64(bits/8) {
					wl.Problems = append(wl.Problems, fmt.Sprintf("%s writes %d bytes into b[%d:%d]", name, bits/8, lo, hi))
				}
				fld, ok := fieldOfRecv(call.Call.Args[2])
				if !ok {
					fld = "?" + kit.Canon(call.Call.Args[2]).String()
					wl.Problems = append(wl.Problems, fmt.Sprintf("b[%d:%d] is filled from %s which is not a field of the message", lo, hi, kit.Canon(call.Call.Args[2])))
				}
				wl.Triples = append(wl.Triples, c11Triple{int(lo), bits / 8, fld, call.Pos()})
			}
		}
	}
	sort.Slice(wl.Triples, func(i, j int) bool { return wl.Triples[i].Off < wl.Triples[j].Off })
	off := 0
	for _, t := range wl.Triples {
		if t.Off != off {
			wl.Problems = append(wl.Problems, fmt.Sprintf("field %s written at offset %d, expected %d (gap or overlap)", t.Field, t.Off, off))
		}
		off = t.Off + t.Width
	}
	for _, r := range returnsOf(fn) {
		if len(r.Results) != 2 {
			continue
		}
		if v, ok := c11ConstInt(r.Results[0]); ok {
			wl.RetConst = append(wl.RetConst, v)
		} else {
			wl.RetVals = append(wl.RetVals, r.Results[0])
		}
		e := kit.Canon(r.Results[1])
		isEOF := e.Kind == "deref" && e.Args[0].Kind == "global" && e.Args[0].Name == "EOF"
		if !isEOF { // a nil error makes bytes.Buffer.ReadFrom call Read again
			wl.EOFOK = false
		}
	}
	return wl
}

func (wl *c11WL) layout() []c11RefField {
	var out []c11RefField
	for _, t := range wl.Triples {
		out = append(out, c11RefField{t.Field, t.Width})
	}
	return out
}

func c11ReadMethod(c *kit.Ctx, n *types.Named) *ssa.Function {
	for _, t := range []types.Type{n, types.NewPointer(n)} {
		ms := c.SSA.MethodSets.MethodSet(t)
		for i := 0; i < ms.Len(); i++ {
			if ms.At(i).Obj().Name() == "Read" {
				if obj, ok := ms.At(i).Obj().(*types.Func); ok {
					if fn := c.SSA.FuncValue(obj); fn != nil && fn.Blocks != nil {
						return fn
					}
				}
			}
		}
	}
	return nil
}

func c11Layouts(c *kit.Ctx, k *keyer, env *c11Env) {
	rd := env.rd
	tPWPiece := c11Named(c, c11PW+".Piece")
	nW := 0
	for _, e := range env.w {
		ref := env.refType[e.T]
		if ref == nil || (ref.Variable && len(ref.Layout) == 0) {
			continue // bitfield / extension: raw bytes, no table
		}
		key := "writer/" + e.Name
		fn := c11ReadMethod(c, e.T)
		if fn == nil {
			c.Bad("R11.2", key, e.T.Obj().Pos(), "%s has no Read method with a body", e.Name)
			continue
		}
		nW++
		wl := c11ExtractWriter(fn)
		env.wlayout[e.T] = wl.layout()
		want := ref.Layout
		total := int64(c11LayoutWidth(want))
		var bad []string
		bad = append(bad, wl.Problems...)
		if !c11SameLayout(wl.layout(), want) {
			bad = append(bad, fmt.Sprintf("writer lays out %s, %s prescribes %s", c11LayoutString(wl.layout()), ref.BEP, c11LayoutString(want)))
		}
		if e.T == tPWPiece {
			bad = append(bad, c11PieceBody(c, wl, int(total))...)
		} else {
			for _, o := range wl.Other {
				bad = append(bad, fmt.Sprintf("buffer also used by %s at %s: bytes outside the layout table", o, c.Pos(posOf(o))))
			}
			if len(wl.RetVals) > 0 || len(wl.RetConst) == 0 {
				bad = append(bad, "Read does not return a constant byte count")
			}
			for _, v := range wl.RetConst {
				if v != total {
					bad = append(bad, fmt.Sprintf("Read returns %d but the fields written occupy %d bytes (the frame length is computed from this count)", v, total))
				}
			}
			if !wl.EOFOK {
				bad = append(bad, "Read does not return io.EOF with the last bytes: bytes.Buffer.ReadFrom would call it again")
			}
		}
		if len(bad) > 0 {
			c.Bad("R11.2", key, fn.Pos(), "%s (via %s): %s", e.Name, kit.FuncName(fn), strings.Join(bad, "; "))
		} else {
			c.OK("R11.2", key, fn.Pos(), "%s (via %s) writes %s big-endian, returns %d, io.EOF == reference (%s)", e.Name, kit.FuncName(fn), c11LayoutString(want), total, ref.BEP)
		}
	}
	c.Floor("R11.2", "fixed-layout Read methods tabulated", nW, 14)

	// reader side: what each arm consumes from the stream
	armSrc := map[int64][]c11Arm{}
	for _, a := range rd.arms {
		if a.ID >= 0 {
			armSrc[a.ID] = append(armSrc[a.ID], a)
		}
	}
	byID := map[int64][]c11Consumer{}
	for _, co := range rd.consumers {
		key := k.key(rd.run, "consume "+co.Kind)
		pos := posOf(co.Call)
		switch {
		case len(co.IDs) == 1:
			byID[co.IDs[0]] = append(byID[co.IDs[0]], co)
		case len(co.IDs) > 1:
			c.Bad("R11.2", key, pos, "stream read under contradictory id facts %v", co.IDs)
		case co.Call == rd.lenRead || co.Call == rd.idRead:
			// frame header, R11.3
		case co.Kind == "io.CopyN":
			off, ok := rd.lenOff(co.Len, co.Ctx)
			c.Check(ok && off == 1, "R11.2", key, pos, "unknown ids are skipped by discarding frame length - 1 bytes",
				fmt.Sprintf("unknown ids are skipped by discarding frame length - %d bytes (must be length - 1: the id byte is already consumed); the stream desynchronises", off))
		default:
			c.Bad("R11.2", key, pos, "%s reads from the peer stream outside any `id == k` arm: bytes not accounted for by the layout table", kit.Canon(co.Call))
		}
	}
	nR := 0
	var idsSorted []int64
	for id := range armSrc {
		idsSorted = append(idsSorted, id)
	}
	sort.Slice(idsSorted, func(i, j int) bool { return idsSorted[i] < idsSorted[j] })
	for _, id := range idsSorted {
		ref := c11RefByID(id)
		if ref == nil {
			continue // reported by R11.1
		}
		nR++
		key := fmt.Sprintf("reader/id=%d(%s)", id, ref.Const)
		cons := byID[id]
		arm := armSrc[id][0]
		pos := c11PosNear(arm.At, rd.run)
		var bad []string
		hdr := c11LayoutWidth(ref.Layout)
		// expected consumer sequence
		var fixed *c11Consumer
		var rest []c11Consumer
		for i := range cons {
			if cons[i].Kind == "binary.Read" && fixed == nil {
				fixed = &cons[i]
			} else {
				rest = append(rest, cons[i])
			}
		}
		if len(ref.Layout) > 0 {
			if fixed == nil {
				bad = append(bad, fmt.Sprintf("no binary.Read of the %d-byte fixed part %s", hdr, c11LayoutString(ref.Layout)))
			} else {
				if !fixed.BigEnd {
					bad = append(bad, "binary.Read not in binary.BigEndian order")
				}
				if fixed.Target == nil {
					bad = append(bad, "binary.Read destination is not a local message struct")
				} else {
					tt := c11ElemType(fixed.Target)
					fl, ok := c11Flatten(tt, "")
					if !ok || !c11SameLayout(fl, ref.Layout) {
						bad = append(bad, fmt.Sprintf("reader decodes %s as %s, %s prescribes %s", types.TypeString(tt, nil), c11LayoutString(fl), ref.BEP, c11LayoutString(ref.Layout)))
					}
					for _, e := range env.w {
						if e.HasID && e.ID == id {
							if wlay, ok := env.wlayout[e.T]; ok && !c11SameLayout(wlay, fl) {
								bad = append(bad, fmt.Sprintf("writer %s lays out %s but the reader decodes %s", e.Name, c11LayoutString(wlay), c11LayoutString(fl)))
							}
						}
					}
					// delivered value is the value read
					for _, a := range armSrc[id] {
						if !c11DeliversAlloc(a, fixed.Target) {
							bad = append(bad, "the delivered message is not the struct filled by binary.Read")
						}
					}
				}
			}
		} else if fixed != nil {
			rest = append(rest, *fixed)
		}
		switch {
		case !ref.Variable:
			for _, r := range rest {
				bad = append(bad, fmt.Sprintf("extra stream read %s at %s: %s has a %d-byte payload", r.Kind, c.Pos(posOf(r.Call)), ref.Const, hdr))
			}
		case len(rest) != 1:
			bad = append(bad, fmt.Sprintf("expected exactly one read of the variable part (frame length - %d bytes), found %d", 1+hdr, len(rest)))
		default:
			r := rest[0]
			var lv ssa.Value
			switch r.Kind {
			case "io.ReadFull":
				if l, ok := c11MakeLen(r.Call.Parent(), r.Buf); ok {
					lv = l
				}
			case "readPiece":
				lv = r.Len
			}
			if lv == nil {
				bad = append(bad, fmt.Sprintf("variable part read by %s with a size that cannot be related to the frame length", r.Kind))
			} else if off, ok := rd.lenOff(lv, r.Ctx); !ok {
				bad = append(bad, fmt.Sprintf("size %s of the variable part cannot be related to the frame length", kit.Canon(lv)))
			} else if off != int64(1+hdr) {
				bad = append(bad, fmt.Sprintf("variable part read as frame length - %d bytes, must be length - %d (1 id byte + %d header bytes)", off, 1+hdr, hdr))
			}
			// what is delivered holds the bytes read
			for _, a := range armSrc[id] {
				if msg := c11DeliversBuffer(c, rd, a, r); msg != "" {
					bad = append(bad, msg)
				}
			}
		}
		if len(bad) > 0 {
			c.Bad("R11.2", key, pos, "%s", strings.Join(bad, "; "))
		} else {
			desc := "nothing"
			if len(ref.Layout) > 0 {
				desc = "binary.Read(BigEndian) of " + c11LayoutString(ref.Layout)
			}
			if ref.Variable {
				desc += fmt.Sprintf(" + frame length - %d raw bytes", 1+hdr)
			}
			c.OK("R11.2", key, pos, "under id == %d the reader consumes %s and delivers what it read (%s)", id, desc, ref.BEP)
		}
	}
	c.Floor("R11.2", "reader arms whose stream consumption was tabulated", nR, 15)
}

// c11PieceBody checks the variable part of peerwriter.Piece.Read: block
// bytes are read into b[hdr : hdr+Length] from offset Begin and the count is
// n + hdr.
func c11PieceBody(c *kit.Ctx, wl *c11WL, hdr int) []string {
	var bad []string
	var readAt *ssa.Call
	for _, o := range wl.Other {
		call, ok := o.(*ssa.Call)
		if ok && call.Call.IsInvoke() && call.Call.Method.Name() == "ReadAt" && readAt == nil {
			readAt = call
			continue
		}
		bad = append(bad, fmt.Sprintf("buffer also used by %s", o))
	}
	if readAt == nil {
		return append(bad, "no Data.ReadAt into the buffer after the header")
	}
	sl, _ := readAt.Call.Args[0].(*ssa.Slice)
	if sl == nil {
		return append(bad, "ReadAt destination is not a slice of the buffer")
	}
	lo, _ := c11ConstInt(sl.Low)
	if sl.Low == nil || lo != int64(hdr) {
		bad = append(bad, fmt.Sprintf("block bytes start at b[%d], the header occupies %d bytes", lo, hdr))
	}
	hi := kit.Canon(sl.High).Strip()
	okHi := false
	if hi != nil && hi.Kind == "binop" && hi.Op == token.ADD {
		for i := 0; i < 2; i++ {
			cv, isC := hi.Args[i].Strip().IntConst()
			o := hi.Args[1-i].Strip()
			if isC && cv == int64(hdr) && o.Kind == "field" && o.Field.Name() == "Length" {
				okHi = true
			}
		}
	}
	if !okHi {
		bad = append(bad, fmt.Sprintf("block bytes end at b[%s], must be b[%d+Length]", hi, hdr))
	}
	off := kit.Canon(readAt.Call.Args[1]).Strip()
	if off.Kind != "field" || off.Field.Name() != "Begin" {
		bad = append(bad, fmt.Sprintf("block read from piece offset %s, must be Begin", off))
	}
	if len(wl.RetConst) > 0 {
		bad = append(bad, "Read returns a constant count")
	}
	for _, v := range wl.RetVals {
		e := kit.Canon(v)
		ok := false
		if e.Kind == "binop" && e.Op == token.ADD {
			for i := 0; i < 2; i++ {
				cv, isC := e.Args[i].Strip().IntConst()
				o := e.Args[1-i].Strip()
				if isC && cv == int64(hdr) && o.Kind == "extract" && o.Idx == 0 && o.Args[0].V == ssa.Value(readAt) {
					ok = true
				}
			}
		}
		if !ok {
			bad = append(bad, fmt.Sprintf("Read returns %s, must be n(ReadAt) + %d", e, hdr))
		}
	}
	return bad
}

// c11DeliversAlloc: the arm's value is a load of target, or a local
// composite one of whose fields is stored from a load of target.
func c11DeliversAlloc(a c11Arm, target *ssa.Alloc) bool {
	mi, ok := a.Src.(*ssa.MakeInterface)
	if !ok {
		return false
	}
	os := c11ValueOrigins(mi.X, 2)
	for _, o := range os {
		if !c11HoldsAlloc(c11LoadOf(o), target) {
			return false
		}
	}
	return len(os) > 0
}

// c11HoldsAlloc: src is target, or a local composite one of whose fields is
// stored from a load of target.
func c11HoldsAlloc(src, target *ssa.Alloc) bool {
	if src == nil {
		return false
	}
	if src == target {
		return true
	}
	found := false
	for _, r := range *src.Referrers() {
		if fa, ok := r.(*ssa.FieldAddr); ok {
			for _, r2 := range *fa.Referrers() {
				if st, ok := r2.(*ssa.Store); ok && st.Addr == ssa.Value(fa) && c11LoadOf(st.Val) == target {
					found = true
				}
			}
		}
	}
	return found
}

// c11DeliversBuffer relates the delivered value with the variable-part
// read r; returns a complaint or "".
func c11DeliversBuffer(c *kit.Ctx, rd *c11Reader, a c11Arm, r c11Consumer) string {
	switch r.Kind {
	case "io.ReadFull":
		if a.Payload != nil {
			// UnmarshalBinary(em, buf) over the same buffer
			um := c.FuncObj(c11PP, "(*ExtensionMessage).UnmarshalBinary")
			ok := false
			kit.Instrs(a.Payload.Parent(), func(ins ssa.Instruction) {
				if call, isCall := ins.(*ssa.Call); isCall && call.Parent() == r.Call.Parent() && kit.CalleeObj(&call.Call) == um &&
					argOf(&call.Call, 0) == ssa.Value(a.Payload) && argOf(&call.Call, 1) == r.Buf && kit.Dominates(r.Call, call) {
					ok = true
				}
			})
			if !ok {
				return "UnmarshalBinary is not applied to the buffer that was read from the stream"
			}
			return ""
		}
		mi, ok := a.Src.(*ssa.MakeInterface)
		if !ok {
			return "delivered value is not a message struct"
		}
		u, _ := r.Buf.(*ssa.UnOp)
		for _, o := range c11ValueOrigins(mi.X, 2) {
			src := c11LoadOf(o)
			if src == nil || u == nil {
				return "delivered value cannot be related to the buffer read"
			}
			fa, _ := u.X.(*ssa.FieldAddr)
			if fa == nil || fa.X != ssa.Value(src) {
				return "the buffer read from the stream is not a field of the delivered message"
			}
		}
		return ""
	case "readPiece":
		mi, ok := a.Src.(*ssa.MakeInterface)
		if !ok {
			return "delivered value is not a message struct"
		}
		for _, o := range c11ValueOrigins(mi.X, 2) {
			src := c11LoadOf(o)
			if src == nil {
				return "delivered piece is not a local composite"
			}
			found := false
			for _, rr := range *src.Referrers() {
				if fa, ok := rr.(*ssa.FieldAddr); ok {
					for _, r2 := range *fa.Referrers() {
						if st, ok := r2.(*ssa.Store); ok && st.Addr == ssa.Value(fa) {
							if ex, ok := st.Val.(*ssa.Extract); ok && ex.Index == 0 && ex.Tuple == ssa.Value(r.Call) {
								found = true
							}
						}
					}
				}
			}
			if !found {
				return "the delivered piece does not carry the buffer returned by readPiece"
			}
		}
		return ""
	}
	return "variable part read by " + r.Kind
}

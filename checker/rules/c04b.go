package rules

import (
	"go/token"
	"go/types"
	"strings"

	"golang.org/x/tools/go/ssa"

	"rainverif/checker/kit"
)

// Additional C04 rules that came out of independently seeded changes.

// runC04Extra is called from runC04.
func runC04Extra(c *kit.Ctx, k *keyer) {
	T := func(name string) *ssa.Function { return c.Func("torrent", "(*torrent)."+name) }
	TO := func(name string) *types.Func { return c.FuncObj("torrent", "(*torrent)."+name) }

	// ---- R04.8 no announcer / acceptor is started while Stopping or Stopped
	{
		status := TO("status")
		stopping := c.Const("torrent", "Stopping").Val().ExactString()
		stopped := c.Const("torrent", "Stopped").Val().ExactString()
		// functions that are by construction only executed in a running state:
		// start() itself (sets errC before), the completion handlers of workers that
		// stop() joins, and startAnnouncers (whose own callers are checked).
		running := map[*ssa.Function]bool{T("start"): true, T("handleAllocationDone"): true, T("handleVerificationDone"): true, T("handleMetadataMessage"): true}
		starters := []*types.Func{TO("startNewAnnouncer"), TO("startAnnouncers"), TO("startAcceptor")}
		// a helper extracted from those functions is running-only too: all of its
		// static call sites are in running-only functions
		var runningOnly func(fn *ssa.Function, depth int) bool
		runningOnly = func(fn *ssa.Function, depth int) bool {
			if running[fn] {
				return true
			}
			if depth <= 0 {
				return false
			}
			sites := c.StaticCallSites(fn)
			if len(sites) == 0 {
				return false
			}
			for _, site := range sites {
				if site == nil || !runningOnly(site.Parent(), depth-1) {
					return false
				}
			}
			return true
		}
		n := 0
		for _, st := range starters {
			for _, s := range sortSites(c.CallSites(st)) {
				n++
				key := k.key(s.Fn, "call "+st.Name())
				if runningOnly(s.Fn, 3) || (s.Fn == T("startAnnouncers") && st.Name() == "startNewAnnouncer") {
					c.Present("R04.8", key, posOf(s.Instr), "%s called from %s, which only runs in a started torrent", st.Name(), s.Fn.Name())
					continue
				}
				notState := func(state string) *kit.Flow {
					return c.AtomFlow(s.Fn, func(a kit.Atom) bool {
						return a.Op == token.NEQ && a.L.IsCallTo(status) && a.R.Kind == "const" && a.R.Const != nil && a.R.Const.ExactString() == state
					}, nil)
				}
				ok := notState(stopping).Before(s.Instr) && notState(stopped).Before(s.Instr)
				c.Check(ok, "R04.8", key, posOf(s.Instr),
					st.Name()+" guarded by status() != Stopping && status() != Stopped", st.Name()+" can run while the torrent is Stopping or Stopped: an announcer/acceptor is started after stop() tore everything down (Stopped with live activity; the next start skips the original trackers)")
			}
		}
		c.Floor("R04.8", "announcer/acceptor start sites", n, 4)
	}

	// ---- R04.9 a worker that stop() joins never blocks on a send without its cancel escape
	{
		n := 0
		seenT := map[*types.Named]bool{}
		for _, fn := range c.ModuleFunctions() {
			if !inPkg(fn, c, "torrent") {
				continue
			}
			kit.Instrs(fn, func(ins ssa.Instruction) {
				g, ok := ins.(*ssa.Go)
				if !ok {
					return
				}
				callee := g.Call.StaticCallee()
				if callee == nil || callee.Name() != "Run" || callee.Signature.Recv() == nil {
					return
				}
				recvT := derefNamed(callee.Signature.Recv().Type())
				if recvT == nil || seenT[recvT] || recvT.Obj().Pkg() == nil || !kit.InModule(recvT.Obj().Pkg().Path()) {
					return
				}
				if recvT.Obj().Name() == "torrent" || recvT.Obj().Name() == "Session" {
					return
				}
				seenT[recvT] = true
				// cancel channels: fields closed by Close()/Stop() of the type
				cancel := map[*types.Var]bool{}
				for _, mname := range []string{"Close", "Stop"} {
					for _, t := range []types.Type{recvT, types.NewPointer(recvT)} {
						sel := c.SSA.MethodSets.MethodSet(t).Lookup(recvT.Obj().Pkg(), mname)
						if sel == nil {
							continue
						}
						m := c.SSA.MethodValue(sel)
						if m == nil || m.Blocks == nil {
							continue
						}
						kit.Instrs(m, func(i2 ssa.Instruction) {
							if cc := kit.CallOf(i2); isBuiltin(cc, "close") {
								if e := kit.Canon(cc.Args[0]); e.Kind == "field" {
									cancel[e.Field] = true
								}
							}
						})
					}
				}
				if len(cancel) == 0 {
					return // not joinable through a close channel (reported by R04.3 if it matters)
				}
				// everything the worker goroutine executes inside its own package
				pkgPath := recvT.Obj().Pkg().Path()
				reach := c.Reach([]*ssa.Function{callee}, false, func(f *ssa.Function) bool { return kit.FnPkgPath(f) != pkgPath })
				for f := range reach {
					if f.Blocks == nil || kit.FnPkgPath(f) != pkgPath {
						continue
					}
					// values that are a cancel channel or a context derived from one
					isCancel := func(v ssa.Value) bool {
						e := kit.Canon(v)
						if e.Kind == "field" && cancel[e.Field] {
							return true
						}
						if e.Kind == "call" && e.Name == "Done" {
							return true // ctx.Done(): contexts in workers are derived from closeC (ctxutil.FromChan)
						}
						return false
					}
					kit.Instrs(f, func(i2 ssa.Instruction) {
						switch x := i2.(type) {
						case *ssa.Send:
							// sends on a channel made in this function with capacity >= 1 cannot block
							if mc, ok := x.Chan.(*ssa.MakeChan); ok {
								if sz, ok := kit.ConstInt(mc.Size); ok && sz >= 1 {
									return
								}
							}
							if e := kit.Canon(x.Chan); e.Kind == "field" && alwaysBuffered(c, e.Field) {
								return // reply channel always made with capacity >= 1 by the requester
							}
							n++
							c.Bad("R04.9", k.key(f, "blocking send"), posOf(i2), "worker %s sends on %s without a cancel escape: when the event loop (the receiver) is inside %s.Close() waiting for the worker, both block for ever", recvT.Obj().Name(), kit.Canon(x.Chan), recvT.Obj().Name())
						case *ssa.Select:
							if !x.Blocking {
								return
							}
							hasSend, hasEscape := false, false
							for _, st := range x.States {
								if st.Dir == types.SendOnly {
									hasSend = true
								} else if isCancel(st.Chan) {
									hasEscape = true
								}
							}
							if !hasSend {
								return
							}
							n++
							c.Check(hasEscape, "R04.9", k.key(f, "select send"), posOf(i2),
								"blocking send of worker "+recvT.Obj().Name()+" can be abandoned through its close channel", "worker "+recvT.Obj().Name()+" has a blocking select-send without an arm on its close channel: stop() -> Close() waits for the worker while the worker waits for the loop")
						}
					})
				}
			})
		}
		c.Floor("R04.9", "worker sends examined", n, 8)
	}
	_ = strings.TrimSpace
}

var bufferedMemo = map[*types.Var]int{}

// alwaysBuffered: every make(chan) stored into field f in the module has a
// constant capacity >= 1 (and there is at least one).
func alwaysBuffered(c *kit.Ctx, f *types.Var) bool {
	if v, ok := bufferedMemo[f]; ok {
		return v == 1
	}
	n, ok := 0, true
	for _, st := range fieldStores(c, f) {
		mc, isMake := st.Val.(*ssa.MakeChan)
		if !isMake {
			ok = false
			continue
		}
		if sz, isConst := kit.ConstInt(mc.Size); !isConst || sz < 1 {
			ok = false
		}
		n++
	}
	res := 2
	if ok && n > 0 {
		res = 1
	}
	bufferedMemo[f] = res
	return res == 1
}

package rules

import (
	"go/constant"
	"go/token"
	"go/types"
	"strings"

	"golang.org/x/tools/go/ssa"

	"rainverif/checker/kit"
)

// ---- cells: locals that go/ssa keeps in memory --------------------------
//
// A variable captured by a closure (err, port, success, spec ...) is an
// Alloc in the declaring function and a FreeVar (pointer to the same cell)
// in the closure. The helpers below relate the two views.

// c14Cell maps a pointer value to the Alloc it denotes, looking through the
// free variables of closures (binding of the MakeClosure that creates the
// closure). Anything else is returned unchanged.
func c14Cell(v ssa.Value) ssa.Value {
	for i := 0; i < 8; i++ {
		fv, ok := v.(*ssa.FreeVar)
		if !ok {
			return v
		}
		fn := fv.Parent()
		par := fn.Parent()
		if par == nil {
			return v
		}
		idx := -1
		for j, x := range fn.FreeVars {
			if x == fv {
				idx = j
			}
		}
		var bound ssa.Value
		for _, g := range kit.WithAnon(par) {
			kit.Instrs(g, func(ins ssa.Instruction) {
				if mc, ok := ins.(*ssa.MakeClosure); ok && mc.Fn == ssa.Value(fn) && idx >= 0 && idx < len(mc.Bindings) {
					bound = mc.Bindings[idx]
				}
			})
		}
		if bound == nil {
			return v
		}
		v = bound
	}
	return v
}

// c14CellStores lists every store into the cell a, in the declaring
// function and in every closure that captures it.
func c14CellStores(a *ssa.Alloc) []*ssa.Store {
	var out []*ssa.Store
	for _, g := range kit.WithAnon(a.Parent()) {
		kit.Instrs(g, func(ins ssa.Instruction) {
			if st, ok := ins.(*ssa.Store); ok && c14Cell(st.Addr) == ssa.Value(a) {
				out = append(out, st)
			}
		})
	}
	return out
}

// c14Trace looks through loads of single-assignment cells (captured
// parameters, `port := strconv.Itoa(..)` captured by the transaction
// closure, spilled parameters): the value the load certainly yields.
func c14Trace(v ssa.Value) ssa.Value {
	for i := 0; i < 16; i++ {
		switch x := v.(type) {
		case *ssa.UnOp:
			if x.Op != token.MUL {
				return v
			}
			a, ok := c14Cell(x.X).(*ssa.Alloc)
			if !ok {
				return v
			}
			st := c14CellStores(a)
			if len(st) != 1 {
				return v
			}
			v = st[0].Val
		case *ssa.ChangeType:
			v = x.X
		default:
			return v
		}
	}
	return v
}

// c14Held returns the value most recently stored into the cell that `load`
// reads, when that store is in the same block (the `err = f(); if err != nil`
// shape); nil otherwise.
func c14Held(load ssa.Value) ssa.Value {
	u, ok := load.(*ssa.UnOp)
	if !ok || u.Op != token.MUL {
		return nil
	}
	if _, ok := u.X.(*ssa.Alloc); !ok {
		return nil
	}
	var held ssa.Value
	for _, ins := range u.Block().Instrs {
		if ins == ssa.Instruction(u) {
			return held
		}
		if st, ok := ins.(*ssa.Store); ok && st.Addr == u.X {
			held = st.Val
		}
	}
	return nil
}

// c14Subject is the value an atom operand talks about: the operand itself,
// or - for a load of a multi-assignment cell - the value stored just before.
func c14Subject(e *kit.Expr) ssa.Value {
	if e == nil {
		return nil
	}
	if e.Kind == "deref" {
		if h := c14Held(e.V); h != nil {
			return h
		}
	}
	return e.V
}

// c14ExtractOf returns the Extract of tuple call `call` at index idx (nil
// if the component is unused).
func c14ExtractOf(call ssa.Value, idx int) ssa.Value {
	if call == nil || call.Referrers() == nil {
		return nil
	}
	for _, r := range *call.Referrers() {
		if ex, ok := r.(*ssa.Extract); ok && ex.Index == idx {
			return ex
		}
	}
	return nil
}

// ---- dominating edge conditions -----------------------------------------

func lastInstr(b *ssa.BasicBlock) ssa.Instruction {
	if len(b.Instrs) == 0 {
		return nil
	}
	return b.Instrs[len(b.Instrs)-1]
}

// c14DomAtoms returns the branch atoms that certainly hold on entry to b:
// for every dominator d ending in `if`, the atoms of the outgoing edge whose
// target is entered only through that edge and dominates b. Atoms over pure
// SSA values stay valid; atoms over loads are the caller's business.
func c14DomAtoms(b *ssa.BasicBlock) []kit.Atom {
	var out []kit.Atom
	for d := b.Idom(); d != nil; d = d.Idom() {
		ifi, ok := lastInstr(d).(*ssa.If)
		if !ok || d.Succs[0] == d.Succs[1] {
			continue
		}
		for i, s := range d.Succs {
			if len(s.Preds) == 1 && (s == b || s.Dominates(b)) {
				out = append(out, kit.EdgeAtoms(ifi.Cond, i == 0)...)
			}
		}
	}
	return out
}

// c14Nilness decides whether v (an interface or pointer value) is certainly
// non-nil (+1) or certainly nil (-1) when control is in block at; 0 unknown.
func c14Nilness(v ssa.Value, at *ssa.BasicBlock, depth int) int {
	if v == nil || depth > 4 {
		return 0
	}
	switch x := v.(type) {
	case *ssa.Const:
		if x.Value == nil {
			return -1
		}
		return 0
	case *ssa.MakeInterface, *ssa.Alloc, *ssa.MakeClosure, *ssa.FieldAddr:
		return +1
	case *ssa.Call:
		if fn := x.Call.StaticCallee(); fn != nil && fn.Pkg != nil {
			switch fn.Pkg.Pkg.Path() + "." + fn.Name() {
			case "errors.New", "fmt.Errorf":
				return +1
			}
		}
	case *ssa.Phi:
		r := 2
		for i, e := range x.Edges {
			n := c14Nilness(e, x.Block().Preds[i], depth+1)
			if r == 2 {
				r = n
			} else if r != n {
				return 0
			}
		}
		if r != 2 && r != 0 {
			return r
		}
	}
	if at == nil {
		return 0
	}
	for _, a := range c14DomAtoms(at) {
		is := func(e *kit.Expr) bool { return e != nil && e.V == v }
		if a.IsNilCmp(false, is) {
			return +1
		}
		if a.IsNilCmp(true, is) {
			return -1
		}
	}
	return 0
}

// ---- must-facts about one cell --------------------------------------------

// c14CellFact is the must-flow "the cell holds a value satisfying P" for a
// cell of fn: established by the zero value (if zero), by a store whose
// value satisfies holds(), and by a branch on a fresh load of the cell
// (edge()); killed by every other store and by a non-deferred call of a
// closure that captures the cell.
func c14CellFact(c *kit.Ctx, fn *ssa.Function, cell *ssa.Alloc, zero bool, holds func(st *ssa.Store) bool, edge func(a kit.Atom) bool) *kit.Flow {
	onCell := func(a kit.Atom) bool {
		if a.L == nil || a.L.Kind != "deref" || len(a.L.Args) == 0 || a.L.Args[0].V != ssa.Value(cell) {
			return false
		}
		// the load must be the last access of the cell in its block
		u, ok := a.L.V.(*ssa.UnOp)
		if !ok {
			return false
		}
		after := false
		for _, ins := range u.Block().Instrs {
			if ins == ssa.Instruction(u) {
				after = true
				continue
			}
			if st, ok := ins.(*ssa.Store); ok && after && st.Addr == ssa.Value(cell) {
				return false
			}
		}
		return edge(a)
	}
	fl := &kit.Flow{P: c.Prog, Fn: fn, Edge: onCell}
	fl.Instr = func(ins ssa.Instruction, in bool) bool {
		switch x := ins.(type) {
		case *ssa.Alloc:
			if x == cell {
				return zero
			}
		case *ssa.Store:
			if x.Addr == ssa.Value(cell) {
				return holds(x)
			}
		case *ssa.Call, *ssa.Go:
			cc := kit.CallOf(ins)
			if mc, ok := cc.Value.(*ssa.MakeClosure); ok {
				for _, b := range mc.Bindings {
					if b == ssa.Value(cell) {
						return false
					}
				}
			}
			for _, a := range cc.Args {
				if a == ssa.Value(cell) {
					return false
				}
			}
		}
		return in
	}
	return fl.Solve()
}

// ---- misc -------------------------------------------------------------------

// c14FullName renders the static callee of a call as "pkgpath.Func" or
// "pkgpath.(T).Method" (pointer receivers rendered as "(*T)").
func c14FullName(cc *ssa.CallCommon) string {
	if cc == nil {
		return ""
	}
	if cc.IsInvoke() {
		return "invoke." + cc.Method.Name()
	}
	if b, ok := cc.Value.(*ssa.Builtin); ok {
		return "builtin." + b.Name()
	}
	fn := cc.StaticCallee()
	if fn == nil {
		return ""
	}
	o, _ := fn.Object().(*types.Func)
	if o == nil || o.Pkg() == nil {
		return fn.String()
	}
	sig := o.Type().(*types.Signature)
	if sig.Recv() == nil {
		return o.Pkg().Path() + "." + o.Name()
	}
	rt := sig.Recv().Type()
	ptr := ""
	if p, ok := rt.(*types.Pointer); ok {
		rt = p.Elem()
		ptr = "*"
	}
	name := rt.String()
	if n, ok := rt.(*types.Named); ok {
		name = n.Obj().Name()
	}
	return o.Pkg().Path() + ".(" + ptr + name + ")." + o.Name()
}

func c14ConstString(v ssa.Value) (string, bool) {
	for {
		switch x := v.(type) {
		case *ssa.Convert:
			v = x.X
			continue
		case *ssa.ChangeType:
			v = x.X
			continue
		case *ssa.Const:
			if x.Value != nil && x.Value.Kind() == constant.String {
				return constant.StringVal(x.Value), true
			}
		}
		return "", false
	}
}

func c14TypeStr(t types.Type) string {
	return types.TypeString(t, func(p *types.Package) string { return p.Name() })
}

// c14RootFn returns the outermost enclosing function.
func c14RootFn(fn *ssa.Function) *ssa.Function {
	for fn.Parent() != nil {
		fn = fn.Parent()
	}
	return fn
}

// c14StructFields lists the fields of a named struct.
func c14StructFields(n *types.Named) []*types.Var {
	st, _ := n.Underlying().(*types.Struct)
	var out []*types.Var
	for i := 0; st != nil && i < st.NumFields(); i++ {
		out = append(out, st.Field(i))
	}
	return out
}

// c14FieldOf finds the (unique) load of a field of struct type `of` inside
// the expression tree of e.
func c14FieldOf(e *kit.Expr, of *types.Named) *types.Var {
	var found *types.Var
	fields := map[*types.Var]bool{}
	for _, f := range c14StructFields(of) {
		fields[f] = true
	}
	e.Mentions(func(x *kit.Expr) bool {
		if (x.Kind == "field" || x.Kind == "fieldaddr") && fields[x.Field] && found == nil {
			found = x.Field
		}
		return false
	})
	return found
}

func c14Join(ss []string) string { return strings.Join(ss, ", ") }

// ---- inlined views across helpers ---------------------------------------------

// c14RawCopyArg recognises a call of a module helper that returns a fresh
// copy of one of its byte-slice parameters (make + copy + return) and returns
// the corresponding argument; nil otherwise.
func c14RawCopyArg(call *ssa.Call) ssa.Value {
	h := call.Call.StaticCallee()
	if h == nil || h.Blocks == nil || !kit.InModule(pkgOf(h)) || h.Signature.Results().Len() != 1 {
		return nil
	}
	pj := -1
	for _, r := range returnsOf(h) {
		if r.Block() == h.Recover {
			continue
		}
		rv := c14Trace(r.Results[0])
		if _, ok := rv.(*ssa.MakeSlice); !ok {
			return nil
		}
		found := -1
		kit.Instrs(h, func(ins ssa.Instruction) {
			c, ok := ins.(*ssa.Call)
			if !ok || c14FullName(&c.Call) != "builtin.copy" || c14Trace(c.Call.Args[0]) != rv {
				return
			}
			if p, ok := c14Trace(c.Call.Args[1]).(*ssa.Parameter); ok {
				for j, q := range h.Params {
					if q == p {
						found = j
					}
				}
			}
		})
		if found < 0 || (pj >= 0 && pj != found) {
			return nil
		}
		pj = found
	}
	if pj < 0 || pj >= len(call.Call.Args) {
		return nil
	}
	return call.Call.Args[pj]
}

// c14ReadWalk extracts the rows "key -> Spec field, decoder" of Resumer.Read
// from an inlined view of its helpers: at a plain call of a same-package
// function the callee is visited with its parameters bound to the (resolved)
// arguments, so `readBool(b, Keys.Started, &spec.Started)` yields the same row
// as the statements written out.
type c14ReadWalk struct {
	t           *c14Tables
	get         *types.Func
	isSpecField map[*types.Var]bool
	R           map[string][]c14Row
	visited     map[*ssa.Function]bool
	stack       map[*ssa.Function]bool
}

func (w *c14ReadWalk) resolve(v ssa.Value, env map[ssa.Value]ssa.Value) ssa.Value {
	for i := 0; i < 8 && v != nil; i++ {
		v = c14Trace(v)
		if a, ok := env[v]; ok {
			v = a
			continue
		}
		break
	}
	return v
}

func (w *c14ReadWalk) getKey(v ssa.Value, env map[ssa.Value]ssa.Value) (string, bool) {
	call, ok := w.resolve(v, env).(*ssa.Call)
	if !ok || kit.CalleeObj(&call.Call) != w.get {
		return "", false
	}
	key, _, ok := w.t.keyOf(w.resolve(argOf(&call.Call, 1), env))
	return key, ok
}

// specFieldAddr: the Spec field an address denotes (directly, or a pointer
// parameter bound to &spec.F, possibly boxed in an interface).
func (w *c14ReadWalk) specFieldAddr(addr ssa.Value, env map[ssa.Value]ssa.Value) *types.Var {
	for i := 0; i < 4 && addr != nil; i++ {
		addr = w.resolve(addr, env)
		if mi, ok := addr.(*ssa.MakeInterface); ok {
			addr = mi.X
			continue
		}
		break
	}
	fa, ok := addr.(*ssa.FieldAddr)
	if !ok {
		return nil
	}
	if f := kit.Canon(fa).Field; f != nil && w.isSpecField[f] {
		return f
	}
	return nil
}

func (w *c14ReadWalk) walk(fn *ssa.Function, env map[ssa.Value]ssa.Value, depth int) {
	if w.stack[fn] {
		return
	}
	w.stack[fn] = true
	defer delete(w.stack, fn)
	w.visited[fn] = true
	add := func(key string, f *types.Var, codec c14Codec, ins ssa.Instruction) {
		w.R[key] = append(w.R[key], c14Row{Key: key, Field: f, Codec: codec, Fn: fn, Ins: ins})
	}
	kit.Instrs(fn, func(ins ssa.Instruction) {
		switch x := ins.(type) {
		case *ssa.Store:
			f := w.specFieldAddr(x.Addr, env)
			if f == nil {
				return
			}
			codec, in := c14Dec(x.Val)
			if key, ok := w.getKey(in, env); ok {
				add(key, f, codec, ins)
			}
		case *ssa.Call:
			switch c14FullName(&x.Call) {
			case "builtin.copy":
				f := kit.Canon(x.Call.Args[0])
				if f.Kind == "field" && w.isSpecField[f.Field] {
					if key, ok := w.getKey(x.Call.Args[1], env); ok {
						add(key, f.Field, c14Codec{"raw", c14TypeStr(f.Field.Type())}, ins)
					}
				}
				return
			case "encoding/json.Unmarshal":
				if f := w.specFieldAddr(x.Call.Args[1], env); f != nil {
					if key, ok := w.getKey(x.Call.Args[0], env); ok {
						add(key, f, c14Codec{"json", c14TypeStr(f.Type())}, ins)
					}
				}
				return
			}
			h := x.Call.StaticCallee()
			if depth <= 0 || h == nil || h.Blocks == nil || pkgOf(h) != pkgOf(fn) || c14RawCopyArg(x) != nil {
				return
			}
			env2 := map[ssa.Value]ssa.Value{}
			for i, p := range h.Params {
				if i < len(x.Call.Args) {
					env2[p] = w.resolve(x.Call.Args[i], env)
				}
			}
			w.walk(h, env2, depth-1)
		}
	})
}

// c14CtorID returns the id value (in the frame of the function that holds tv)
// a torrent value was constructed with: tv is result 0 of a newTorrent call
// (id = argument 1), or of a wrapper whose every non-nil result 0 is the
// torrent of a newTorrent call made with one of the wrapper's parameters as
// id. nil: unknown.
func c14CtorID(tv ssa.Value, newTorrent *types.Func, depth int) ssa.Value {
	ex, ok := tv.(*ssa.Extract)
	if !ok || ex.Index != 0 {
		return nil
	}
	call, ok := ex.Tuple.(*ssa.Call)
	if !ok {
		return nil
	}
	if kit.CalleeObj(&call.Call) == newTorrent {
		return c14Trace(call.Call.Args[1])
	}
	h := call.Call.StaticCallee()
	if depth <= 0 || h == nil || h.Blocks == nil || !kit.InModule(pkgOf(h)) {
		return nil
	}
	pj := -1
	for _, r := range returnsOf(h) {
		if r.Block() == h.Recover || len(r.Results) == 0 {
			continue
		}
		rv := c14Trace(r.Results[0])
		if k, isConst := rv.(*ssa.Const); isConst && k.Value == nil {
			continue // failure exit
		}
		p, ok := c14CtorID(rv, newTorrent, depth-1).(*ssa.Parameter)
		if !ok {
			return nil
		}
		j := -1
		for i, q := range h.Params {
			if q == p {
				j = i
			}
		}
		if j < 0 || (pj >= 0 && pj != j) {
			return nil
		}
		pj = j
	}
	if pj < 0 || pj >= len(call.Call.Args) {
		return nil
	}
	return c14Trace(call.Call.Args[pj])
}

// c14Prog gives the free-standing codec peelers access to the call-site index.
var c14Prog *kit.Prog

// c14ArgsOf lists the arguments passed for parameter p at every static call
// site of its function; nil when some use of the function has an unknown
// calling context.
func c14ArgsOf(p *ssa.Parameter) []ssa.Value {
	fn := p.Parent()
	if c14Prog == nil || fn == nil {
		return nil
	}
	idx := -1
	for i, q := range fn.Params {
		if q == p {
			idx = i
		}
	}
	var out []ssa.Value
	for _, site := range c14Prog.StaticCallSites(fn) {
		call, _ := site.(*ssa.Call)
		if call == nil || idx < 0 || idx >= len(call.Call.Args) {
			return nil
		}
		out = append(out, call.Call.Args[idx])
	}
	return out
}

// c14Bind maps the parameters of h to the canonical expressions of the
// arguments of `call` (a static call of h), in the caller's frame.
func c14Bind(h *ssa.Function, call *ssa.Call) map[ssa.Value]*kit.Expr {
	m := map[ssa.Value]*kit.Expr{}
	for i, p := range h.Params {
		if i < len(call.Call.Args) {
			m[p] = kit.Canon(call.Call.Args[i])
		}
	}
	return m
}

// c14Subst rewrites an expression of a helper into the caller's frame:
// parameter leaves are replaced by the bound argument expressions. Loads of
// single-assignment cells holding a parameter (captured parameters) are
// replaced as well.
func c14Subst(e *kit.Expr, bind map[ssa.Value]*kit.Expr) *kit.Expr {
	if e == nil || len(bind) == 0 {
		return e
	}
	if e.V != nil {
		if r, ok := bind[e.V]; ok {
			return r
		}
		if e.Kind == "deref" {
			if r, ok := bind[c14Trace(e.V)]; ok {
				return r
			}
		}
	}
	if len(e.Args) == 0 {
		return e
	}
	cp := *e
	cp.Args = make([]*kit.Expr, len(e.Args))
	for i, a := range e.Args {
		cp.Args[i] = c14Subst(a, bind)
	}
	return &cp
}

// c14Ctor is the construction of a torrent inside an adder.
type c14Ctor struct {
	outer *ssa.Call               // the call in the adder: newTorrent, or a wrapper of it
	inner *ssa.Call               // the newTorrent call
	bind  map[ssa.Value]*kit.Expr // wrapper parameters -> argument expressions (nil: direct)
}

// c14FindCtor finds the torrent construction of F: a direct newTorrent call,
// or a call of a same-package wrapper whose every non-nil result 0 is the
// torrent of its single newTorrent call.
func c14FindCtor(F *ssa.Function, newTorrent *types.Func, not *ssa.Function) *c14Ctor {
	var out *c14Ctor
	kit.Instrs(F, func(ins ssa.Instruction) {
		call, ok := ins.(*ssa.Call)
		if !ok || out != nil {
			return
		}
		if kit.CalleeObj(&call.Call) == newTorrent {
			out = &c14Ctor{outer: call, inner: call}
			return
		}
		h := call.Call.StaticCallee()
		if h == nil || h.Blocks == nil || h == F || h == not || pkgOf(h) != pkgOf(F) {
			return
		}
		var inner *ssa.Call
		n := 0
		kit.Instrs(h, func(i2 ssa.Instruction) {
			if c2, ok := i2.(*ssa.Call); ok && kit.CalleeObj(&c2.Call) == newTorrent {
				inner = c2
				n++
			}
		})
		if n != 1 {
			return
		}
		for _, r := range returnsOf(h) {
			if r.Block() == h.Recover || len(r.Results) == 0 {
				continue
			}
			rv := c14Trace(r.Results[0])
			if k, isConst := rv.(*ssa.Const); isConst && k.Value == nil {
				continue
			}
			ex, ok := rv.(*ssa.Extract)
			if !ok || ex.Index != 0 || ex.Tuple != ssa.Value(inner) {
				return
			}
		}
		out = &c14Ctor{outer: call, inner: inner, bind: c14Bind(h, call)}
	})
	return out
}

package rules

import (
	"go/constant"
	"go/token"
	"go/types"
	"sort"
	"strings"

	"golang.org/x/tools/go/ssa"

	"rainverif/checker/kit"
)

// ---- R15.4 event discipline -------------------------------------------------

func c15Events(c *kit.Ctx, k *keyer, s *c15Slots) {
	const ann = "internal/announcer"
	run := c.Func(ann, "(*PeriodicalAnnouncer).Run")
	doAnn := c.Func(ann, "(*PeriodicalAnnouncer).doAnnounce")
	paAnn := c.Func(ann, "(*PeriodicalAnnouncer).announce")
	annFn := c.Func(ann, "announce")
	stopRun := c.Func(ann, "(*StopAnnouncer).Run")
	newStop := c.Func(ann, "NewStopAnnouncer")
	fCompletedC := c.Field(ann, "PeriodicalAnnouncer", "completedC")
	fResponseC := c.Field(ann, "PeriodicalAnnouncer", "responseC")
	fErrC := c.Field(ann, "PeriodicalAnnouncer", "errC")
	fHasAnnounced := c.Field(ann, "PeriodicalAnnouncer", "HasAnnounced")
	fTracker := c.Field(ann, "PeriodicalAnnouncer", "Tracker")
	tEvent := c.Named("internal/tracker", "Event")
	ev := func(n string) int64 {
		v, _ := constant.Int64Val(c.Const("internal/tracker", n).Val())
		return v
	}
	evCompleted, evStarted, evStopped := ev("EventCompleted"), ev("EventStarted"), ev("EventStopped")
	doAnnObj := doAnn.Object().(*types.Func)

	// (a) the first announce of a run says "started"
	evIdx := c15ParamIndex(doAnn, "event")
	announced := c.Called(run, doAnnObj)
	var completedSites []ssa.Instruction
	nFirst, nSites := 0, 0
	for _, site := range sortSites(c.CallSites(doAnnObj)) {
		nSites++
		key := k.key(site.Fn, "doAnnounce")
		if site.Fn != run {
			c.Bad("R15.4", key, posOf(site.Instr), "announce started outside the state machine of PeriodicalAnnouncer.Run: the event order per tracker is no longer decided by one loop")
			continue
		}
		e, isConst := kit.ConstInt(argOf(site.Instr.Common(), evIdx))
		first := !announced.Before(site.Instr)
		switch {
		case !isConst:
			c.Bad("R15.4", key, posOf(site.Instr), "event of this announce is not a constant (%s)", kit.Canon(argOf(site.Instr.Common(), evIdx)))
		case first && e != evStarted:
			c.Bad("R15.4", key, posOf(site.Instr), "this announce can be the first of a run and carries event %d, not EventStarted", e)
		case first:
			nFirst++
			c.OK("R15.4", key, posOf(site.Instr), "only announce reachable without a previous one; carries EventStarted")
		case e == evStopped:
			c.Bad("R15.4", key, posOf(site.Instr), "the periodical announcer sends EventStopped (only the stop announcer, which filters on HasAnnounced, may)")
		case e == evCompleted:
			completedSites = append(completedSites, site.Instr)
			c.OK("R15.4", key, posOf(site.Instr), "preceded by the started announce on every path; event completed is checked below")
		default:
			c.OK("R15.4", key, posOf(site.Instr), "preceded by the started announce on every path (event %d)", e)
		}
	}
	c.Floor("R15.4", "doAnnounce sites in Run", nSites, 3)
	c.Floor("R15.4", "first (started) announce", nFirst, 1)

	// announces leave the state machine only through doAnnounce -> announce -> Tracker.Announce
	chain := 0
	for _, site := range c.CallSites(paAnn.Object().(*types.Func)) {
		chain++
		_, isGo := site.Instr.(*ssa.Go)
		c.Check(site.Fn == doAnn && isGo, "R15.4", k.key(site.Fn, "spawn announce"), posOf(site.Instr), "announce goroutine spawned by doAnnounce", "(*PeriodicalAnnouncer).announce is called outside doAnnounce: an announce bypasses the event state machine")
	}
	for _, site := range c.CallSites(annFn.Object().(*types.Func)) {
		chain++
		c.Check(site.Fn == paAnn, "R15.4", k.key(site.Fn, "call announce"), posOf(site.Instr), "announce() called from (*PeriodicalAnnouncer).announce", "announce() is called outside (*PeriodicalAnnouncer).announce: an announce bypasses the event state machine")
	}
	for _, o := range []*types.Func{paAnn.Object().(*types.Func), annFn.Object().(*types.Func), doAnnObj} {
		for _, r := range c.FuncRefs(o) {
			c.Bad("R15.4", k.key(r.Fn, "function value "+o.Name()), r.Fn.Pos(), "%s is used as a function value: its callers cannot be enumerated", o.Name())
		}
	}
	c.Floor("R15.4", "announce chain call sites", chain, 2)
	chain = c15Forward(c, k, "R15.4", doAnn, "event", paAnn, "event")
	chain += c15Forward(c, k, "R15.4", paAnn, "event", annFn, "e")
	c.Floor("R15.4", "event forwarded unchanged", chain, 2)
	// announce(): request literal carries the event parameter; replies are classified by err
	{
		ei := c15ParamIndex(annFn, "e")
		n := 0
		kit.Instrs(annFn, func(ins ssa.Instruction) {
			if v, ok := kit.StoresField(ins, s.fReqEvent); ok {
				n++
				c.Check(c15IsParam(v, annFn, ei), "R15.4", k.key(annFn, "AnnounceRequest.Event"), posOf(ins), "request event is the parameter e", "request event is "+kit.Canon(v).String()+", not the event decided by the state machine")
			}
		})
		c.Floor("R15.4", "AnnounceRequest.Event stores in announce()", n, 1)
		isErrOfAnnounce := func(e *kit.Expr) bool {
			return e.Kind == "extract" && e.Idx == 1 && e.Args[0].IsCallTo(s.trackerAnnounce)
		}
		errNil := c.AtomFlow(annFn, func(a kit.Atom) bool { return a.IsNilCmp(true, isErrOfAnnounce) }, nil)
		ri := c15ParamIndex(annFn, "responseC")
		ns := 0
		kit.Instrs(annFn, func(ins ssa.Instruction) {
			var chans, vals []ssa.Value
			switch x := ins.(type) {
			case *ssa.Send:
				chans, vals = append(chans, x.Chan), append(vals, x.X)
			case *ssa.Select:
				for _, st := range x.States {
					if st.Dir == types.SendOnly {
						chans, vals = append(chans, st.Chan), append(vals, st.Send)
					}
				}
			}
			for i, ch := range chans {
				if !c15IsParam(ch, annFn, ri) {
					continue
				}
				ns++
				v := kit.Canon(vals[i])
				okVal := v.Kind == "extract" && v.Idx == 0 && v.Args[0].IsCallTo(s.trackerAnnounce)
				c.Check(errNil.Before(ins) && okVal, "R15.4", k.key(annFn, "deliver response"), posOf(ins),
					"response delivered only under err == nil and is the tracker's reply", "a reply can be delivered on responseC although Tracker.Announce failed (HasAnnounced would be set for a tracker that never accepted an announce)")
			}
		})
		c.Floor("R15.4", "response deliveries in announce()", ns, 1)
		// channels wired from the announcer's own fields
		for _, w := range []struct {
			p string
			f *types.Var
		}{{"responseC", fResponseC}, {"errC", fErrC}} {
			pi := c15ParamIndex(annFn, w.p)
			for _, site := range c.CallSites(annFn.Object().(*types.Func)) {
				v := kit.Canon(argOf(site.Instr.Common(), pi))
				c.Check(v.IsField(w.f), "R15.4", k.key(site.Fn, "wire "+w.p), posOf(site.Instr), w.p+" is "+v.String(), "announce() receives "+v.String()+" as "+w.p)
			}
		}
	}

	// (b) completed only in the completedC arm, at most once
	complArms := c15RecvArms(run, fCompletedC)
	var blocking []c15SelectArm
	for _, a := range complArms {
		if a.Sel.Blocking {
			blocking = append(blocking, a)
		}
	}
	inCompl := c15ArmFlow(c, run, blocking)
	isNilStore := func(ins ssa.Instruction) (isStore, isNil bool) {
		v, ok := kit.StoresField(ins, fCompletedC)
		if !ok {
			return false, false
		}
		return true, kit.Canon(v).IsNil()
	}
	for _, site := range completedSites {
		site := site
		key := k.key(run, "completed announce")
		if !inCompl.Before(site) {
			c.Bad("R15.4", key, posOf(site), "EventCompleted is announced outside the `case <-a.completedC` arm: completed can be sent although the download did not finish during this run, or repeatedly")
			continue
		}
		// forward: every path from the announce to the next select / return passes completedC = nil
		fwd := &kit.Flow{P: c.Prog, Fn: run, Entry: true}
		fwd.Instr = func(ins ssa.Instruction, in bool) bool {
			if ins == site {
				return false
			}
			if st, isNil := isNilStore(ins); st {
				return isNil
			}
			return in
		}
		fwd.Solve()
		okFwd := len(fwd.FailingReturns()) == 0
		kit.Instrs(run, func(ins ssa.Instruction) {
			if _, ok := ins.(*ssa.Select); ok && !fwd.Before(ins) {
				okFwd = false
			}
		})
		// or: nil-ed inside the arm before the announce
		bwd := &kit.Flow{P: c.Prog, Fn: run}
		bwd.Instr = func(ins ssa.Instruction, in bool) bool {
			if _, ok := ins.(*ssa.Select); ok {
				return false
			}
			if st, isNil := isNilStore(ins); st {
				return isNil
			}
			return in
		}
		bwd.Solve()
		c.Check(okFwd || bwd.Before(site), "R15.4", key, posOf(site),
			"in the completedC arm; a.completedC = nil on every path before the loop selects again (at most one completed per run)",
			"after announcing EventCompleted the loop can select on completedC again without a.completedC = nil: a closed channel fires every iteration and completed is sent repeatedly")
	}
	c.Floor("R15.4", "completed announce sites", len(completedSites), 1)
	// before the first announce an already closed completedC is disarmed
	{
		var pre []c15SelectArm
		for _, a := range complArms {
			if !a.Sel.Blocking && len(a.Sel.States) == 1 {
				pre = append(pre, a)
			}
		}
		fl := &kit.Flow{P: c.Prog, Fn: run}
		isPreIdx := func(e *kit.Expr) bool {
			if e.Kind != "extract" || e.Idx != 0 {
				return false
			}
			for _, a := range pre {
				if e.Args[0].V == ssa.Value(a.Sel) {
					return true
				}
			}
			return false
		}
		fl.Edge = func(a kit.Atom) bool {
			n, ok := a.R.IntConst()
			return ok && n == 0 && a.Op == token.NEQ && isPreIdx(a.L) // default taken: nothing was pending
		}
		fl.Instr = func(ins ssa.Instruction, in bool) bool {
			if sel, ok := ins.(*ssa.Select); ok {
				for _, a := range pre {
					if a.Sel == sel {
						return false
					}
				}
			}
			if st, isNil := isNilStore(ins); st {
				return isNil
			}
			return in
		}
		fl.Solve()
		n := 0
		for _, site := range c.CallSites(doAnnObj) {
			if site.Fn == run && !announced.Before(site.Instr) {
				n++
				c.Check(len(pre) > 0 && fl.Before(site.Instr), "R15.4", k.key(run, "disarm closed completedC"), posOf(site.Instr),
					"before the first announce: non-blocking receive on completedC, and completedC = nil if it was already closed",
					"the first announce is not preceded by disarming an already closed completedC: a torrent that was complete when started would announce completed")
			}
		}
		c.Floor("R15.4", "disarm check sites", n, 1)
	}
	// completedC is stored only nil in Run (the channel itself comes from the constructor)
	for _, st := range fieldStores(c, fCompletedC) {
		if st.Fn == run && !kit.Canon(st.Val).IsNil() {
			c.Bad("R15.4", k.key(run, "re-arm completedC"), posOf(st.Store), "completedC is re-armed inside Run: completed can be sent more than once")
		}
	}

	// (c) event literals
	nStop := 0
	for _, fn := range c.ModuleFunctions() {
		fn := fn
		kit.Instrs(fn, func(ins ssa.Instruction) {
			if cv, ok := ins.(*ssa.Convert); ok && types.Identical(cv.Type(), tEvent) {
				c.Bad("R15.4", k.key(fn, "event from integer"), posOf(ins), "a tracker.Event is produced by converting %s: event literals cannot be enumerated", kit.Canon(cv.X))
			}
			for _, op := range ins.Operands(nil) {
				kc, ok := (*op).(*ssa.Const)
				if !ok || !types.Identical(kc.Type(), tEvent) || kc.Value == nil {
					continue
				}
				v, _ := constant.Int64Val(kc.Value)
				switch v {
				case evStopped:
					nStop++
					c.Check(c15OnlyUsedFrom(c, fn, stopRun, 2), "R15.4", k.key(fn, "EventStopped literal"), posOf(ins), "EventStopped literal inside StopAnnouncer.Run (or a helper only it calls / spawns)",
						"EventStopped literal outside StopAnnouncer.Run and the helpers only it uses: stopped can be sent to a tracker without the HasAnnounced filter")
				case evCompleted, evStarted:
					if _, isIf := ins.(*ssa.BinOp); isIf {
						continue // comparison
					}
					name := map[int64]string{evCompleted: "EventCompleted", evStarted: "EventStarted"}[v]
					if fn != run || !kit.CallsAny(ins, doAnnObj) {
						c.Bad("R15.4", k.key(fn, name+" literal"), posOf(ins), "%s literal used outside the doAnnounce calls of PeriodicalAnnouncer.Run", name)
					}
				}
			}
		})
	}
	c.Floor("R15.4", "EventStopped literals", nStop, 1)

	// (d) stop list built under HasAnnounced
	{
		ti := c15ParamIndex(newStop, "trackers")
		n := 0
		for _, site := range sortSites(c.CallSites(newStop.Object().(*types.Func))) {
			seen := map[ssa.Value]bool{}
			var walk func(v ssa.Value, fn *ssa.Function, depth int)
			walk = func(v ssa.Value, fn *ssa.Function, depth int) {
				if seen[v] {
					return
				}
				seen[v] = true
				switch x := v.(type) {
				case *ssa.Phi:
					for _, e := range x.Edges {
						walk(e, fn, depth)
					}
					return
				case *ssa.MakeSlice:
					return
				case *ssa.Const:
					return
				case *ssa.Slice:
					if _, ok := x.X.(*ssa.Alloc); ok {
						return
					}
					walk(x.X, fn, depth)
					return
				case *ssa.Call:
					if callee := x.Call.StaticCallee(); callee != nil && callee.Blocks != nil && kit.InModule(pkgOf(callee)) && depth < 3 {
						// extracted helper that builds the list
						for _, r := range returnsOf(callee) {
							if len(r.Results) == 1 {
								walk(r.Results[0], callee, depth+1)
							}
						}
						return
					}
					if b, ok := x.Call.Value.(*ssa.Builtin); ok && b.Name() == "append" && len(x.Call.Args) == 2 {
						walk(x.Call.Args[0], fn, depth)
						n++
						key := k.key(fn, "stop list append")
						elems, ok := c15VarargElems(x.Call.Args[1])
						if !ok {
							c.Bad("R15.4", key, posOf(x), "trackers are appended to the stop list in bulk (%s), not one by one under HasAnnounced", kit.Canon(x.Call.Args[1]))
							return
						}
						for _, ev := range elems {
							e := kit.Canon(ev).Strip()
							if !e.IsField(fTracker) {
								c.Bad("R15.4", key, posOf(x), "stop list receives %s, which is not the Tracker of a periodical announcer", e)
								continue
							}
							base := e.Base().String()
							has := c.AtomFlow(fn, func(a kit.Atom) bool {
								return a.IsTrue(func(x *kit.Expr) bool { return x.IsField(fHasAnnounced) && x.Base().String() == base })
							}, func(ins ssa.Instruction) bool { return c.KillsField(ins, fHasAnnounced) })
							c.Check(has.Before(x), "R15.4", key, posOf(x), "tracker appended only under "+base+".HasAnnounced == true",
								"a tracker is put on the stop list without "+base+".HasAnnounced == true: stopped is sent to a tracker that never accepted an announce")
						}
						return
					}
				}
				n++
				c.Bad("R15.4", k.key(fn, "stop list source"), posOf(site.Instr), "stop list comes from %s, not from a list filtered on HasAnnounced", kit.Canon(v))
			}
			walk(argOf(site.Instr.Common(), ti), site.Fn, 0)
		}
		c.Floor("R15.4", "stop list appends", n, 1)
	}

	// (e) HasAnnounced set only by a successful reply
	{
		respArms := c15RecvArms(run, fResponseC)
		inResp := c15ArmFlow(c, run, respArms)
		// "control is inside the response arm of Run's select" at ins: in Run
		// itself, or in a helper (no select of its own) all of whose call sites
		// are inside that arm
		var inRespArm func(ins ssa.Instruction, depth int) bool
		inRespArm = func(ins ssa.Instruction, depth int) bool {
			fn := ins.Parent()
			if fn == run {
				return inResp.Before(ins)
			}
			if depth <= 0 || fn.Parent() != nil {
				return false
			}
			hasSelect := false
			kit.Instrs(fn, func(j ssa.Instruction) {
				if _, ok := j.(*ssa.Select); ok {
					hasSelect = true
				}
			})
			sites := c.StaticCallSites(fn)
			if hasSelect || len(sites) == 0 {
				return false
			}
			for _, site := range sites {
				if site == nil || !inRespArm(site, depth-1) {
					return false
				}
			}
			return true
		}
		n := 0
		for _, st := range fieldStores(c, fHasAnnounced) {
			n++
			key := k.key(st.Fn, "store HasAnnounced")
			switch {
			case !c15OnlyUsedFrom(c, st.Fn, run, 2):
				c.Bad("R15.4", key, posOf(st.Store), "HasAnnounced is written outside PeriodicalAnnouncer.Run (and the helpers only it calls)")
			case !inRespArm(st.Store, 2):
				c.Bad("R15.4", key, posOf(st.Store), "HasAnnounced is set outside the `case resp := <-a.responseC` arm: a tracker that never replied successfully would receive stopped")
			default:
				c.OK("R15.4", key, posOf(st.Store), "HasAnnounced stored (%s) only in the response arm", kit.Canon(st.Val))
			}
		}
		c.Floor("R15.4", "HasAnnounced stores", n, 1)
	}
}

// c15VarargElems returns the elements of the implicit slice of a variadic
// call `f(xs, a, b)`: a slice over a fresh array whose elements are stored
// once each.
func c15VarargElems(v ssa.Value) ([]ssa.Value, bool) {
	sl, ok := v.(*ssa.Slice)
	if !ok {
		return nil, false
	}
	a, ok := sl.X.(*ssa.Alloc)
	if !ok || a.Referrers() == nil {
		return nil, false
	}
	var out []ssa.Value
	for _, r := range *a.Referrers() {
		switch x := r.(type) {
		case *ssa.IndexAddr:
			if x.Referrers() == nil {
				return nil, false
			}
			for _, r2 := range *x.Referrers() {
				st, ok := r2.(*ssa.Store)
				if !ok || st.Addr != ssa.Value(x) {
					return nil, false
				}
				out = append(out, st.Val)
			}
		case *ssa.Slice, *ssa.DebugRef:
		default:
			return nil, false
		}
	}
	return out, len(out) > 0
}

// ---- R15.5 tracker-controlled durations are clamped ------------------------

// c15DurClass describes where a duration value comes from: trk = tracker
// controlled source fields that contribute; raw = those that reach the value
// without a positivity check / client-minimum replacement (with the reason).
type c15DurClass struct {
	trk map[*types.Var]bool
	raw map[*types.Var]string
}

func (d c15DurClass) union(o c15DurClass) c15DurClass {
	r := c15DurClass{map[*types.Var]bool{}, map[*types.Var]string{}}
	for _, x := range []c15DurClass{d, o} {
		for f := range x.trk {
			r.trk[f] = true
		}
		for f, w := range x.raw {
			r.raw[f] = w
		}
	}
	return r
}

func (d c15DurClass) clamped() c15DurClass {
	r := c15DurClass{map[*types.Var]bool{}, map[*types.Var]string{}}
	for f := range d.trk {
		r.trk[f] = true
	}
	return r
}

func (d c15DurClass) degraded(why string) c15DurClass {
	r := d.union(c15DurClass{})
	for f := range d.trk {
		if _, ok := r.raw[f]; !ok {
			r.raw[f] = why
		}
	}
	return r
}

type c15Dur struct {
	c        *kit.Ctx
	sources  map[*types.Var]string
	unknown  *types.Var
	pos      map[*ssa.Function]map[*types.Var]*kit.Flow
	visited  map[ssa.Instruction]bool
	busyVal  map[ssa.Value]bool
	busyFld  map[*types.Var]bool
	readers  map[*types.Var]map[*ssa.Function]bool
	readMemo map[*types.Var]map[*ssa.Function]bool
}

func (d *c15Dur) posFlow(fn *ssa.Function, f *types.Var) *kit.Flow {
	if d.pos[fn] == nil {
		d.pos[fn] = map[*types.Var]*kit.Flow{}
	}
	if fl, ok := d.pos[fn][f]; ok {
		return fl
	}
	fl := d.c.AtomFlow(fn, func(a kit.Atom) bool {
		return c15Positive(a, func(e *kit.Expr) bool { return e.IsField(f) })
	}, func(ins ssa.Instruction) bool { return d.c.KillsField(ins, f) })
	d.pos[fn][f] = fl
	return fl
}

func c15IsTimeish(t types.Type) bool {
	if b, ok := t.Underlying().(*types.Basic); ok && b.Info()&types.IsNumeric != 0 {
		return true
	}
	if n, ok := t.(*types.Named); ok && n.Obj().Pkg() != nil && n.Obj().Pkg().Path() == "time" && n.Obj().Name() == "Time" {
		return true
	}
	return false
}

func (d *c15Dur) unknownClass(v ssa.Value) c15DurClass {
	return c15DurClass{map[*types.Var]bool{d.unknown: true}, map[*types.Var]string{d.unknown: "cannot classify " + kit.Canon(v).String()}}
}

func (d *c15Dur) paramClass(p *ssa.Parameter, depth int) c15DurClass {
	fn := p.Parent()
	exported := fn.Parent() == nil && fn.Object() != nil && fn.Object().Exported()
	if exported {
		return c15DurClass{} // supplied by the client code (configuration)
	}
	idx := c15ParamIndexOf(p)
	res := c15DurClass{}
	for _, e := range d.c.CallersOf(fn) {
		if e.Site == nil {
			continue
		}
		cc := e.Site.Common()
		i := idx
		if cc.IsInvoke() {
			i--
		}
		if i < 0 || i >= len(cc.Args) {
			continue
		}
		res = res.union(d.classify(cc.Args[i], depth+1))
	}
	return res
}

func (d *c15Dur) fieldClass(f *types.Var, depth int) c15DurClass {
	if d.busyFld[f] {
		return c15DurClass{}
	}
	d.busyFld[f] = true
	defer delete(d.busyFld, f)
	res := c15DurClass{}
	for _, st := range fieldStores(d.c, f) {
		cl := d.classify(st.Val, depth+1)
		if len(cl.raw) > 0 && d.repaired(st, f, depth) {
			cl = cl.clamped()
		}
		for g, w := range cl.raw {
			if !strings.Contains(w, " -> ") {
				cl.raw[g] = w + " -> stored into " + f.Name() + " at " + d.c.Pos(posOf(st.Store))
			}
		}
		res = res.union(cl)
	}
	return res
}

// repaired: after the store st of an unclamped value into proxy field f, f
// is made positive (checked, or overwritten by a clamped value) before the
// enclosing function returns or calls anything that may read f.
func (d *c15Dur) repaired(st fieldStore, f *types.Var, depth int) bool {
	fn := st.Fn
	fl := &kit.Flow{P: d.c.Prog, Fn: fn, Entry: true}
	fl.Edge = func(a kit.Atom) bool { return c15Positive(a, func(e *kit.Expr) bool { return e.IsField(f) }) }
	fl.Instr = func(ins ssa.Instruction, in bool) bool {
		if ins == ssa.Instruction(st.Store) {
			return false
		}
		if v, ok := kit.StoresField(ins, f); ok {
			return len(d.classify(v, depth+1).raw) == 0
		}
		return in
	}
	fl.Solve()
	if len(fl.FailingReturns()) > 0 {
		return false
	}
	ok := true
	kit.Instrs(fn, func(ins ssa.Instruction) {
		ci, isCall := ins.(ssa.CallInstruction)
		if !isCall || !ok {
			return
		}
		if d.mayRead(ci, f) && !fl.Before(ins) {
			ok = false
		}
	})
	return ok
}

func (d *c15Dur) mayRead(ci ssa.CallInstruction, f *types.Var) bool {
	if d.readers[f] == nil {
		d.readers[f] = map[*ssa.Function]bool{}
		for _, fn := range d.c.ModuleFunctions() {
			fn := fn
			kit.Instrs(fn, func(ins ssa.Instruction) {
				if u, ok := ins.(*ssa.UnOp); ok && u.Op == token.MUL && kit.Canon(u).IsField(f) {
					d.readers[f][fn] = true
				}
			})
		}
		d.readMemo[f] = map[*ssa.Function]bool{}
	}
	for _, callee := range d.c.Callees(ci) {
		r, ok := d.readMemo[f][callee]
		if !ok {
			for fn := range d.c.Reach([]*ssa.Function{callee}, true, nil) {
				if d.readers[f][fn] {
					r = true
					break
				}
			}
			d.readMemo[f][callee] = r
		}
		if r {
			return true
		}
	}
	return false
}

func (d *c15Dur) classify(v ssa.Value, depth int) c15DurClass {
	if depth > 24 {
		return d.unknownClass(v)
	}
	if d.busyVal[v] {
		return c15DurClass{}
	}
	d.busyVal[v] = true
	defer delete(d.busyVal, v)
	switch x := v.(type) {
	case *ssa.Const, *ssa.Global, *ssa.Function:
		return c15DurClass{}
	case *ssa.Convert:
		return d.classify(x.X, depth+1)
	case *ssa.ChangeType:
		return d.classify(x.X, depth+1)
	case *ssa.Phi:
		res := c15DurClass{}
		for _, e := range x.Edges {
			res = res.union(d.classify(e, depth+1))
		}
		return res
	case *ssa.BinOp:
		res := d.classify(x.X, depth+1).union(d.classify(x.Y, depth+1))
		if x.Op == token.SUB {
			return res.degraded("a difference of tracker-controlled durations can be <= 0")
		}
		return res
	case *ssa.Parameter:
		return d.paramClass(x, depth)
	case *ssa.Extract:
		if call, ok := x.Tuple.(*ssa.Call); ok {
			return d.callClass(call, x.Index, depth)
		}
	case *ssa.Call:
		return d.callClass(x, 0, depth)
	case *ssa.Field:
		st, _ := x.X.Type().Underlying().(*types.Struct)
		if st != nil {
			return d.loadClass(x, st.Field(x.Field), depth)
		}
	case *ssa.UnOp:
		if x.Op == token.SUB {
			return d.classify(x.X, depth+1).degraded("negated")
		}
		if x.Op != token.MUL {
			break
		}
		switch a := x.X.(type) {
		case *ssa.FieldAddr:
			_, f := c15StructOf(a)
			if f != nil {
				return d.loadClass(x, f, depth)
			}
		case *ssa.Alloc:
			_, sts := c15StoresOfLocal(x)
			res := c15DurClass{}
			for _, st := range sts {
				res = res.union(d.classify(st.Val, depth+1))
			}
			return res
		case *ssa.Global:
			return c15DurClass{}
		case *ssa.FreeVar:
			// captured variable: the stores in the defining function
			if par := a.Parent().Parent(); par != nil {
				for i, fv := range a.Parent().FreeVars {
					if fv != a {
						continue
					}
					res := c15DurClass{}
					found := false
					kit.Instrs(par, func(ins ssa.Instruction) {
						mc, ok := ins.(*ssa.MakeClosure)
						if !ok || mc.Fn != ssa.Value(a.Parent()) || i >= len(mc.Bindings) {
							return
						}
						if al, ok := mc.Bindings[i].(*ssa.Alloc); ok && al.Referrers() != nil {
							for _, r := range *al.Referrers() {
								if st, ok := r.(*ssa.Store); ok && st.Addr == ssa.Value(al) {
									found = true
									res = res.union(d.classify(st.Val, depth+1))
								}
							}
						}
					})
					if found {
						return res
					}
				}
			}
		}
	}
	return d.unknownClass(v)
}

// loadClass classifies a load of struct field f at instruction at.
func (d *c15Dur) loadClass(at ssa.Instruction, f *types.Var, depth int) c15DurClass {
	fn := at.Parent()
	positive := d.posFlow(fn, f).Before(at)
	if name, ok := d.sources[f]; ok {
		d.visited[at] = true
		cl := c15DurClass{map[*types.Var]bool{f: true}, map[*types.Var]string{}}
		if !positive {
			cl.raw[f] = name + " loaded at " + d.c.Pos(posOf(at)) + " without a `> 0` check"
		}
		return cl
	}
	cl := d.fieldClass(f, depth) // always walked: marks the sources behind f as visited
	if positive {
		return cl.clamped()
	}
	return cl
}

func (d *c15Dur) callClass(call *ssa.Call, result int, depth int) c15DurClass {
	cc := &call.Call
	if b, ok := cc.Value.(*ssa.Builtin); ok {
		var cls []c15DurClass
		for _, a := range cc.Args {
			cls = append(cls, d.classify(a, depth+1))
		}
		res := c15DurClass{}
		anyClean := false
		for _, cl := range cls {
			res = res.union(cl)
			if len(cl.raw) == 0 {
				anyClean = true
			}
		}
		if b.Name() == "max" && anyClean {
			return res.clamped() // max(x, clamped-or-client value)
		}
		return res
	}
	if fn := cc.StaticCallee(); fn != nil && fn.Blocks != nil && kit.InModule(pkgOf(fn)) {
		res := c15DurClass{}
		for _, r := range returnsOf(fn) {
			if result < len(r.Results) {
				res = res.union(d.classify(r.Results[result], depth+1))
			}
		}
		return res
	}
	// external / dynamic call: derived from its duration-like arguments
	res := c15DurClass{}
	for _, a := range cc.Args {
		if c15IsTimeish(a.Type()) {
			res = res.union(d.classify(a, depth+1))
		}
	}
	return res
}

func c15Durations(c *kit.Ctx, k *keyer, s *c15Slots) {
	const ann = "internal/announcer"
	d := &c15Dur{c: c, sources: map[*types.Var]string{}, pos: map[*ssa.Function]map[*types.Var]*kit.Flow{},
		visited: map[ssa.Instruction]bool{}, busyVal: map[ssa.Value]bool{}, busyFld: map[*types.Var]bool{},
		readers: map[*types.Var]map[*ssa.Function]bool{}, readMemo: map[*types.Var]map[*ssa.Function]bool{}}
	d.unknown = types.NewVar(token.NoPos, nil, "<unclassified>", types.Typ[types.Int64])
	d.sources[c.Field("internal/tracker", "AnnounceResponse", "Interval")] = "tracker.AnnounceResponse.Interval"
	d.sources[c.Field("internal/tracker", "AnnounceResponse", "MinInterval")] = "tracker.AnnounceResponse.MinInterval"
	d.sources[c.Field("internal/tracker", "Error", "RetryIn")] = "tracker.Error.RetryIn"
	name := func(f *types.Var) string {
		if n, ok := d.sources[f]; ok {
			return n
		}
		return f.Name()
	}
	// sinks: everything that arms a timer in the announcer package
	sinks := []struct {
		pkg, fn string
		arg     int
	}{
		{"time", "(*Timer).Reset", 1}, {"time", "(*Ticker).Reset", 1}, {"time", "NewTimer", 0}, {"time", "NewTicker", 0},
		{"time", "After", 0}, {"time", "AfterFunc", 0}, {"time", "Sleep", 0}, {"time", "Tick", 0},
	}
	nSinks, nPairs := 0, 0
	reached := map[*types.Var]bool{}
	for _, sk := range sinks {
		obj := c.FuncObj(sk.pkg, sk.fn)
		for _, site := range sortSites(c.CallSites(obj)) {
			if !inPkg(site.Fn, c, ann) {
				continue
			}
			nSinks++
			cl := d.classify(argOf(site.Instr.Common(), sk.arg), 0)
			if len(cl.trk) == 0 {
				c.Present("R15.5", k.key(site.Fn, "arm timer (client value)"), posOf(site.Instr), "%s argument %s is not derived from a tracker reply", sk.fn, kit.Canon(argOf(site.Instr.Common(), sk.arg)))
				continue
			}
			var fs []*types.Var
			for f := range cl.trk {
				fs = append(fs, f)
			}
			sort.Slice(fs, func(i, j int) bool { return name(fs[i]) < name(fs[j]) })
			for _, f := range fs {
				nPairs++
				reached[f] = true
				key := k.key(site.Fn, "timer <- "+name(f))
				if why, bad := cl.raw[f]; bad {
					c.Bad("R15.5", key, posOf(site.Instr), "%s reaches %s without a positivity clamp or replacement by the client minimum (%s): a reply with a zero or negative value arms the timer at <= 0 and the client re-announces back-to-back", name(f), sk.fn, why)
				} else {
					c.OK("R15.5", key, posOf(site.Instr), "%s reaches %s only under a `> 0` fact (or replaced by the client minimum)", name(f), sk.fn)
				}
			}
		}
	}
	c.Floor("R15.5", "timer-arming calls in internal/announcer", nSinks, 2)
	c.Floor("R15.5", "(timer, tracker duration) pairs (Interval, MinInterval, RetryIn)", nPairs, 3)
	for f, n := range d.sources {
		if !reached[f] {
			c.Bad("R15.5", "source "+n, f.Pos(), "%s does not reach any analysed timer: the rule lost track of how the reply's duration is used", n)
		}
	}
	// every other use of a source field outside the transports is compare-only / logging
	transports := map[string]bool{c.Pkg("internal/tracker").Pkg.Path(): true, c.Pkg("internal/tracker/httptracker").Pkg.Path(): true, c.Pkg("internal/tracker/udptracker").Pkg.Path(): true}
	for _, fn := range c.ModuleFunctions() {
		fn := fn
		if transports[pkgOf(fn)] {
			continue
		}
		kit.Instrs(fn, func(ins ssa.Instruction) {
			v, ok := ins.(ssa.Value)
			if !ok || d.visited[ins] {
				return
			}
			e := kit.Canon(v)
			if e.Kind != "field" {
				return
			}
			n, isSrc := d.sources[e.Field]
			if !isSrc || v.Referrers() == nil {
				return
			}
			for _, r := range *v.Referrers() {
				switch x := r.(type) {
				case *ssa.DebugRef, *ssa.MakeInterface:
				case *ssa.BinOp:
					switch x.Op {
					case token.EQL, token.NEQ, token.LSS, token.LEQ, token.GTR, token.GEQ:
					default:
						c.Bad("R15.5", k.key(fn, "unanalysed use of "+n), posOf(ins), "%s is used in arithmetic outside the analysed timer paths", n)
					}
				default:
					c.Bad("R15.5", k.key(fn, "unanalysed use of "+n), posOf(ins), "%s flows to %T outside the analysed timer paths", n, r)
				}
			}
		})
	}
}

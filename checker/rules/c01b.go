package rules

import (
	"go/token"
	"go/types"

	"golang.org/x/tools/go/ssa"

	"rainverif/checker/kit"
)

// verifiedWrite holds the two function-agnostic facts "pw.HashOK==true" and
// "pw.Error==nil". They are evaluated with caller context (Spec.Holds), so a
// sink may sit in a helper called from the write-done handler after the
// checks.
type verifiedWrite struct{ hashOK, errNil *kit.Spec }

func newVerifiedWrite(c *kit.Ctx, fHashOK, fError *types.Var) *verifiedWrite {
	return &verifiedWrite{c.FieldBoolSpec(fHashOK, true, kit.DefaultDeep), c.FieldNilSpec(fError, true, kit.DefaultDeep)}
}

func (v *verifiedWrite) hash(ins ssa.Instruction) bool { return v.hashOK.Holds(ins, 2) }
func (v *verifiedWrite) err(ins ssa.Instruction) bool  { return v.errNil.Holds(ins, 2) }

func isBuiltin(cc *ssa.CallCommon, name string) bool {
	if cc == nil {
		return false
	}
	b, ok := cc.Value.(*ssa.Builtin)
	return ok && b.Name() == name
}

func runC01Marks(c *kit.Ctx, k *keyer, fHashOK, fError *types.Var, verifyHash *types.Func) {
	fTBitfield := c.Field("torrent", "torrent", "bitfield")
	fVBitfield := c.Field("internal/verifier", "Verifier", "Bitfield")
	fPeerBitfield := c.Field("internal/peer", "Peer", "Bitfield")
	fDone := c.Field("internal/piece", "Piece", "Done")
	fIndex := c.Field("internal/piece", "Piece", "Index")
	bfSet := c.FuncObj("internal/bitfield", "(*Bitfield).Set")
	bfTest := c.FuncObj("internal/bitfield", "(*Bitfield).Test")
	bfClear := c.FuncObj("internal/bitfield", "(*Bitfield).Clear")
	bfNew := c.FuncObj("internal/bitfield", "New")
	bfNewBytes := c.FuncObj("internal/bitfield", "NewBytes")
	bfPkg := c.Pkg("internal/bitfield").Pkg.Path()
	newTorrent := c.Func("torrent", "newTorrent")
	vw := newVerifiedWrite(c, fHashOK, fError)
	// the index is the written piece's Index, directly or as the argument bound
	// to a helper's parameter at every call site
	isPieceIndex := func(v ssa.Value) bool {
		return c.HoldsForValue(v, 2, func(x ssa.Value) bool { return kit.Canon(x).IsField(fIndex) })
	}

	// flow "t.bitfield.Test(x) == true" with x rendered; returns checker
	// for a given index expression string.
	testTrue := func(fn *ssa.Function, idx *kit.Expr) *kit.Flow {
		return c.AtomFlow(fn, func(a kit.Atom) bool {
			return a.IsTrue(func(e *kit.Expr) bool {
				return e.IsCallTo(bfTest) && e.Args[0].IsField(fTBitfield) && sameIndex(e.Args[1], idx)
			})
		}, func(ins ssa.Instruction) bool {
			if kit.CallsAny(ins, bfClear) {
				return true
			}
			_, st := kit.StoresField(ins, fTBitfield)
			return st
		})
	}

	// (a) Set sites
	nT, nV := 0, 0
	for _, s := range sortSites(c.CallSites(bfSet)) {
		if pkgOf(s.Fn) == bfPkg {
			continue
		}
		recv := kit.Canon(argOf(s.Instr.Common(), 0))
		idx := kit.Canon(argOf(s.Instr.Common(), 1))
		switch {
		case recv.IsField(fTBitfield):
			nT++
			key := k.key(s.Fn, "Set torrent.bitfield")
			if !vw.hash(s.Instr) {
				c.Bad("R01.4", key, posOf(s.Instr), "torrent bitfield bit set without HashOK==true on every path")
			} else if !vw.err(s.Instr) {
				c.Bad("R01.4", key, posOf(s.Instr), "torrent bitfield bit set without the write result Error==nil on every path")
			} else if !isPieceIndex(argOf(s.Instr.Common(), 1)) {
				c.Bad("R01.4", key, posOf(s.Instr), "bit index %s is not the written piece's Index", idx)
			} else {
				c.OK("R01.4", key, posOf(s.Instr), "Set(%s) under pw.HashOK==true && pw.Error==nil", idx)
			}
		case recv.IsField(fVBitfield):
			nV++
			key := k.key(s.Fn, "Set Verifier.Bitfield")
			var base ssa.Value
			if idx.IsField(fIndex) {
				base = idx.Base().V
			}
			fl := c.AtomFlow(s.Fn, func(a kit.Atom) bool {
				return a.IsTrue(func(e *kit.Expr) bool {
					return e.IsCallTo(verifyHash) && base != nil && e.Args[0].V == base
				})
			}, nil)
			if fl.Before(s.Instr) {
				c.OK("R01.4", key, posOf(s.Instr), "verifier sets bit %s only under VerifyHash(same piece)==true", idx)
			} else {
				c.Bad("R01.4", key, posOf(s.Instr), "verifier sets a bit without VerifyHash==true for that piece")
			}
		case recv.IsField(fPeerBitfield):
			c.Present("R01.4", k.key(s.Fn, "Set Peer.Bitfield"), posOf(s.Instr), "remote peer's bitfield (not ours)")
		case recv.IsCallTo(bfNew) || (recv.Kind == "extract" && recv.Args[0].IsCallTo(bfNewBytes)):
			c.Present("R01.4", k.key(s.Fn, "Set local"), posOf(s.Instr), "function-local bitfield from bitfield.New")
		default:
			c.Bad("R01.4", k.key(s.Fn, "Set unknown-owner"), posOf(s.Instr), "Bitfield.Set on %s: owner unknown, hash gate cannot be shown", recv)
		}
	}
	c.Floor("R01.4", "Set on torrent.bitfield", nT, 1)
	c.Floor("R01.4", "Set on Verifier.Bitfield", nV, 1)

	// (b) stores to torrent.bitfield
	nS := 0
	for _, st := range fieldStores(c, fTBitfield) {
		nS++
		key := k.key(st.Fn, "store torrent.bitfield")
		v := kit.Canon(st.Val)
		switch {
		case v.IsNil():
			c.Present("R01.4", key, posOf(st.Store), "bitfield dropped (nil)")
		case v.IsCallTo(bfNew):
			c.Present("R01.4", key, posOf(st.Store), "fresh empty bitfield")
		case v.IsField(fVBitfield):
			c.OK("R01.4", key, posOf(st.Store), "bitfield produced by the verifier")
		case st.Fn == newTorrent && v.Kind == "param":
			c.Present("R01.4", key, posOf(st.Store), "constructor argument (resume data, see C05)")
		default:
			c.Bad("R01.4", key, posOf(st.Store), "torrent.bitfield assigned from %s: not nil / bitfield.New / Verifier.Bitfield / constructor argument", v)
		}
	}
	c.Floor("R01.4", "stores to torrent.bitfield", nS, 4)
	// other mutators of the torrent's bitfield (Clear etc.) are harmless for
	// this property (they under-claim); writers into its bytes:
	for _, fn := range c.ModuleFunctions() {
		if pkgOf(fn) == bfPkg {
			continue
		}
		checkNoByteWritesInto(c, k, "R01.4", fn, func(e *kit.Expr) bool {
			return e.Mentions(func(x *kit.Expr) bool { return x.IsField(fTBitfield) })
		})
	}

	// (c) stores of true to Piece.Done
	nD := 0
	for _, st := range fieldStores(c, fDone) {
		nD++
		key := k.key(st.Fn, "store Piece.Done")
		v := kit.Canon(st.Val)
		switch {
		case v.IsConstBool(false):
			c.Present("R01.4", key, posOf(st.Store), "Done cleared")
		case v.IsCallTo(bfTest) && v.Args[0].IsField(fTBitfield):
			c.OK("R01.4", key, posOf(st.Store), "Done copied from torrent.bitfield.Test(%s)", v.Args[1])
		case v.IsConstBool(true):
			if vw.hash(st.Store) && vw.err(st.Store) {
				c.OK("R01.4", key, posOf(st.Store), "Done=true under pw.HashOK==true && pw.Error==nil")
				break
			}
			idx := indexOfAddr(st.Store.Addr)
			if idx != nil && testTrue(st.Fn, idx).Before(st.Store) {
				c.OK("R01.4", key, posOf(st.Store), "Done=true under torrent.bitfield.Test(%s)==true", idx)
				break
			}
			c.Bad("R01.4", key, posOf(st.Store), "Piece.Done set to true without a verified write result or a set bit in the torrent bitfield")
		default:
			c.Bad("R01.4", key, posOf(st.Store), "Piece.Done assigned from %s", v)
		}
	}
	c.Floor("R01.4", "stores to Piece.Done", nD, 3)

	// (d) Have messages
	fHaveIdx := c.Field("internal/peerprotocol", "HaveMessage", "Index")
	tAllowedFast := c.Named("internal/peerprotocol", "AllowedFastMessage")
	nH := 0
	setCalled := &kit.Spec{P: c.Prog, Deep: kit.DefaultDeep, Instr: func(ins ssa.Instruction, in bool) bool {
		if kit.CallsAny(ins, bfSet) && kit.Canon(argOf(kit.CallOf(ins), 0)).IsField(fTBitfield) {
			return true
		}
		return in
	}}
	for _, st := range fieldStores(c, fHaveIdx) {
		if literalOnlyNestedIn(st.Store.Addr, tAllowedFast) {
			continue // AllowedFastMessage embeds HaveMessage: not a have announcement
		}
		nH++
		key := k.key(st.Fn, "build HaveMessage")
		idx := kit.Canon(st.Val)
		if vw.hash(st.Store) && vw.err(st.Store) && setCalled.Holds(st.Store, 2) && isPieceIndex(st.Val) {
			c.OK("R01.4", key, posOf(st.Store), "Have{%s} built after bitfield.Set under a verified write result", idx)
		} else if testTrue(st.Fn, idx).Before(st.Store) {
			c.OK("R01.4", key, posOf(st.Store), "Have{%s} built under torrent.bitfield.Test(same index)==true", idx)
		} else {
			c.Bad("R01.4", key, posOf(st.Store), "Have message built for a piece not shown to be in the torrent bitfield")
		}
	}
	c.Floor("R01.4", "HaveMessage constructions", nH, 2)

	// ---- R01.5 corrupt source closed and banned
	{
		h := c.Func("torrent", "(*torrent).handlePieceWriteDone")
		closePeer := c.FuncObj("torrent", "(*torrent).closePeer")
		disable := c.FuncObj("torrent", "(*torrent).disableSource")
		fBanned := c.Field("torrent", "torrent", "bannedPeerIPs")
		openOnCorrupt := func(a kit.Atom) bool {
			return a.IsFalse(func(e *kit.Expr) bool { return e.IsField(fHashOK) })
		}
		mk := func(gen func(ssa.Instruction) bool) *kit.Flow {
			// function-agnostic callbacks (callee objects / fields): the corrupt
			// branch may live in a helper (callee summaries)
			return (&kit.Flow{P: c.Prog, Fn: h, Entry: true, EdgeKill: openOnCorrupt,
				Instr: func(ins ssa.Instruction, in bool) bool {
					if gen(ins) {
						return true
					}
					return in
				}}).WithDeep(kit.DefaultDeep, nil).Solve()
		}
		closed := mk(func(ins ssa.Instruction) bool { return kit.CallsAny(ins, closePeer, disable) })
		banned := mk(func(ins ssa.Instruction) bool {
			if kit.CallsAny(ins, disable) {
				return true
			}
			mu, ok := ins.(*ssa.MapUpdate)
			return ok && kit.Canon(mu.Map).IsField(fBanned)
		})
		// the corrupt edge must exist
		hasEdge := false
		c.InstrsDeep(h, kit.DefaultDeep, false, func(ins ssa.Instruction) {
			if ifi, ok := ins.(*ssa.If); ok {
				for _, tr := range []bool{true, false} {
					for _, a := range kit.EdgeAtoms(ifi.Cond, tr) {
						if openOnCorrupt(a) {
							hasEdge = true
						}
					}
				}
			}
		})
		if !hasEdge {
			c.Bad("R01.5", kit.FuncName(h)+"/corrupt-branch", h.Pos(), "handlePieceWriteDone has no branch on HashOK==false: corrupt sources are not handled")
		} else {
			c.Check(len(closed.FailingReturns()) == 0, "R01.5", kit.FuncName(h)+"/corrupt-source-closed", h.Pos(),
				"every path from HashOK==false to return passes closePeer or disableSource (or crashes)",
				"a path from HashOK==false reaches return without closing the peer / disabling the web seed")
			c.Check(len(banned.FailingReturns()) == 0, "R01.5", kit.FuncName(h)+"/corrupt-peer-banned", h.Pos(),
				"every path from HashOK==false to return passes the bannedPeerIPs insert or disableSource (or crashes)",
				"a path from HashOK==false reaches return without banning the peer IP")
		}
		// the banned key is the IP of the closed peer
		c.InstrsDeep(h, kit.DefaultDeep, false, func(ins ssa.Instruction) {
			if mu, ok := ins.(*ssa.MapUpdate); ok && kit.Canon(mu.Map).IsField(fBanned) {
				ke := kit.Canon(mu.Key)
				ok := ke.Kind == "call" && ke.Name == "IP"
				c.Check(ok, "R01.5", k.key(ins.Parent(), "ban key"), posOf(ins), "ban key is "+ke.String(), "ban key "+ke.String()+" is not the source peer's IP()")
			}
		})
	}
}

// literalOnlyNestedIn reports whether addr is a field address of a struct
// that only exists as a nested part of a value of type outer: either
// &outer.inner.f directly, or a temporary composite literal whose every load
// is stored into a field of an outer value.
func literalOnlyNestedIn(addr ssa.Value, outer *types.Named) bool {
	fa, ok := addr.(*ssa.FieldAddr)
	if !ok {
		return false
	}
	switch x := fa.X.(type) {
	case *ssa.FieldAddr:
		return derefNamed(x.X.Type()) == outer
	case *ssa.Alloc:
		loads := 0
		for _, r := range *x.Referrers() {
			u, ok := r.(*ssa.UnOp)
			if !ok || u.Op != token.MUL {
				if _, isFA := r.(*ssa.FieldAddr); isFA {
					continue
				}
				return false
			}
			for _, r2 := range *u.Referrers() {
				st, ok := r2.(*ssa.Store)
				if !ok || st.Val != ssa.Value(u) {
					return false
				}
				dst, ok := st.Addr.(*ssa.FieldAddr)
				if !ok || derefNamed(dst.X.Type()) != outer {
					return false
				}
				loads++
			}
		}
		return loads > 0
	}
	return false
}

func derefNamed(t types.Type) *types.Named {
	if p, ok := t.Underlying().(*types.Pointer); ok {
		t = p.Elem()
	}
	n, _ := t.(*types.Named)
	return n
}

// indexOfAddr returns the index expression i of an address like
// &x[i].f, or nil.
func indexOfAddr(addr ssa.Value) *kit.Expr {
	e := kit.Canon(addr)
	for e != nil {
		switch e.Kind {
		case "indexaddr", "index":
			return e.Args[1]
		case "fieldaddr", "field", "deref":
			e = e.Args[0]
		default:
			return nil
		}
	}
	return nil
}

// sameIndex compares two index expressions structurally (same SSA value or
// same rendering).
func sameIndex(a, b *kit.Expr) bool {
	if a == nil || b == nil {
		return false
	}
	a, b = a.Strip(), b.Strip()
	if a.V != nil && a.V == b.V {
		return true
	}
	return a.String() == b.String() && a.Kind != "other" && a.Kind != "phi" || (a.Kind == "phi" && a.V == b.V)
}

func runC01Rest(c *kit.Ctx, k *keyer, fHashOK *types.Var) {
	// ---- R01.6 block acceptance gate
	{
		got := c.Func("internal/piecedownloader", "(*PieceDownloader).GotBlock")
		findBlock := c.FuncObj("internal/piecedownloader", "(*PieceDownloader).findBlock")
		fb := c.Func("internal/piecedownloader", "(*PieceDownloader).findBlock")
		fDoneMap := c.Field("internal/piecedownloader", "PieceDownloader", "done")
		fBlocks := c.Field("internal/piecedownloader", "PieceDownloader", "blocks")
		fBuf := c.Field("internal/piecedownloader", "PieceDownloader", "Buffer")
		begin := got.Params[1]
		data := got.Params[2]
		found := c.AtomFlow(got, func(a kit.Atom) bool {
			return a.IsTrue(func(e *kit.Expr) bool {
				return e.IsCallTo(findBlock) && len(e.Args) == 3 && e.Args[1].V == ssa.Value(begin) &&
					e.Args[2].Strip().Kind == "len" && e.Args[2].Strip().Args[0].V == ssa.Value(data)
			})
		}, nil)
		notDone := c.AtomFlow(got, func(a kit.Atom) bool {
			return a.IsFalse(func(e *kit.Expr) bool {
				return e.Kind == "extract" && e.Idx == 1 && e.Args[0].Kind == "lookup" &&
					e.Args[0].Args[0].IsField(fDoneMap) && e.Args[0].Args[1].V == ssa.Value(begin)
			})
		}, func(ins ssa.Instruction) bool {
			mu, ok := ins.(*ssa.MapUpdate)
			return ok && kit.Canon(mu.Map).IsField(fDoneMap)
		})
		n := 0
		for _, fn := range c.ModuleFunctions() {
			if !inPkg(fn, c, "internal/piecedownloader") {
				continue
			}
			kit.Instrs(fn, func(ins ssa.Instruction) {
				cc := kit.CallOf(ins)
				if !isBuiltin(cc, "copy") {
					return
				}
				dst := kit.Canon(cc.Args[0])
				if !dst.Mentions(func(e *kit.Expr) bool { return e.IsField(fBuf) }) {
					return
				}
				n++
				key := k.key(fn, "copy into piece buffer")
				if fn != got {
					c.Bad("R01.6", key, posOf(ins), "piece buffer written outside GotBlock")
					return
				}
				switch {
				case !found.Before(ins):
					c.Bad("R01.6", key, posOf(ins), "block copied into the piece buffer without findBlock(begin,len(data))==true")
				case !notDone.Before(ins):
					c.Bad("R01.6", key, posOf(ins), "block copied although it may already be in done (duplicate overwrite)")
				case !(dst.Kind == "slice" && dst.Args[1] != nil && dst.Args[1].V == ssa.Value(begin)):
					c.Bad("R01.6", key, posOf(ins), "copy destination %s does not start at begin", dst)
				case kit.Canon(cc.Args[1]).V != ssa.Value(data):
					c.Bad("R01.6", key, posOf(ins), "copy source is not the received data")
				default:
					c.OK("R01.6", key, posOf(ins), "copy(%s, data) under findBlock(begin,len(data))==true and begin not in done", dst)
				}
			})
		}
		c.Floor("R01.6", "copies into the piece buffer", n, 1)
		// findBlock summary: true only if key present and stored length == argument
		nb := 0
		for _, r := range returnsOf(fb) {
			for _, src := range boolSources(r.Results[0]) {
				e := kit.Canon(src.V)
				if e.IsConstBool(false) {
					continue
				}
				nb++
				key := k.key(fb, "return-may-be-true")
				at := src.At
				if at == nil {
					at = r
				}
				isLookup := func(x *kit.Expr, idx int) bool {
					return x.Kind == "extract" && x.Idx == idx && x.Args[0].Kind == "lookup" &&
						x.Args[0].Args[0].IsField(fBlocks) && x.Args[0].Args[1].V == ssa.Value(fb.Params[1])
				}
				shape := e.Kind == "binop" && e.Op == token.EQL &&
					((isLookup(e.Args[0], 0) && e.Args[1].V == ssa.Value(fb.Params[2])) || (isLookup(e.Args[1], 0) && e.Args[0].V == ssa.Value(fb.Params[2])))
				present := c.AtomFlow(fb, func(a kit.Atom) bool {
					return a.IsTrue(func(x *kit.Expr) bool { return isLookup(x, 1) })
				}, nil)
				if shape && present.Before(at) {
					c.OK("R01.6", key, posOf(r), "findBlock true only when blocks[begin] exists and equals length")
				} else {
					c.Bad("R01.6", key, posOf(r), "findBlock may return true from %s without 'begin is a block start and length matches'", e)
				}
			}
		}
		c.Floor("R01.6", "true-capable returns of findBlock", nb, 1)
		// d.blocks written only at construction
		for _, fn := range c.ModuleFunctions() {
			kit.Instrs(fn, func(ins ssa.Instruction) {
				if mu, ok := ins.(*ssa.MapUpdate); ok && kit.Canon(mu.Map).IsField(fBlocks) {
					c.Bad("R01.6", k.key(fn, "update blocks"), posOf(ins), "block table mutated after construction")
				}
			})
		}
	}

	// ---- R01.7 one write at a time
	{
		fWriting := c.Field("internal/piece", "Piece", "Writing")
		fPMC := c.Field("torrent", "torrent", "pieceMessagesC")
		fWSC := c.Field("torrent", "torrent", "webseedPieceResultC")
		runObj := c.FuncObj("internal/piecewriter", "(*PieceWriter).Run")
		tSuspendChan := derefNamed(fPMC.Type()).Origin()
		// "channel ch is suspended": function-agnostic (keyed on the channel field
		// and the method name), so it is evaluated with callee summaries and, at a
		// spawn that sits in a helper, with caller context.
		suspendInstr := func(ch *types.Var, gen, kill string) func(ssa.Instruction, bool) bool {
			return func(ins ssa.Instruction, in bool) bool {
				// inside the body of the killing method itself (reached through a
				// callee summary of the call, whose result would otherwise override
				// the kill below): the fact is gone, whichever channel it is
				if pf := ins.Parent(); pf.Name() == kill && pf.Signature.Recv() != nil && derefNamed(pf.Signature.Recv().Type()) != nil &&
					derefNamed(pf.Signature.Recv().Type()).Origin() == tSuspendChan {
					return false
				}
				cc := kit.CallOf(ins)
				if cc == nil || cc.IsInvoke() || cc.StaticCallee() == nil || len(cc.Args) == 0 {
					return in
				}
				if _, isGo := ins.(*ssa.Go); isGo {
					return in
				}
				if !kit.Canon(cc.Args[0]).IsField(ch) {
					return in
				}
				switch cc.StaticCallee().Name() {
				case gen:
					return true
				case kill:
					return false
				}
				return in
			}
		}
		suspendFlow := func(fn *ssa.Function, ch *types.Var, gen, kill string) *kit.Flow {
			return (&kit.Flow{P: c.Prog, Fn: fn, Instr: suspendInstr(ch, gen, kill)}).WithDeep(kit.DefaultDeep, nil).Solve()
		}
		wSpec := c.FieldBoolSpec(fWriting, true, kit.DefaultDeep)
		s1Spec := &kit.Spec{P: c.Prog, Deep: kit.DefaultDeep, Instr: suspendInstr(fPMC, "Suspend", "Resume")}
		s2Spec := &kit.Spec{P: c.Prog, Deep: kit.DefaultDeep, Instr: suspendInstr(fWSC, "Suspend", "Resume")}
		nSp := 0
		for _, s := range sortSites(c.CallSites(runObj)) {
			if _, isGo := s.Instr.(*ssa.Go); !isGo {
				continue
			}
			nSp++
			key := k.key(s.Fn, "spawn writer")
			switch {
			case !wSpec.Holds(s.Instr, 2):
				c.Bad("R01.7", key, posOf(s.Instr), "writer spawned without piece.Writing=true on every path")
			case !s1Spec.Holds(s.Instr, 2):
				c.Bad("R01.7", key, posOf(s.Instr), "writer spawned without suspending pieceMessagesC: a second write can start")
			case !s2Spec.Holds(s.Instr, 2):
				c.Bad("R01.7", key, posOf(s.Instr), "writer spawned without suspending webseedPieceResultC: a second write can start")
			default:
				c.OK("R01.7", key, posOf(s.Instr), "Writing=true and both result channels suspended before the writer starts")
			}
		}
		c.Floor("R01.7", "writer spawns", nSp, 2)
		// crash guard: every Writing=true store, wherever it sits, happens under Writing==false
		notW := c.FieldBoolSpec(fWriting, false, kit.DefaultDeep)
		nW := 0
		for _, st := range fieldStores(c, fWriting) {
			if !kit.Canon(st.Val).IsConstBool(true) {
				continue
			}
			nW++
			c.Check(notW.Holds(st.Store, 2), "R01.7", k.key(st.Fn, "Writing=true"), posOf(st.Store),
				"Writing set only when it was false (double-write guard)", "Writing=true stored without the Writing==false guard")
		}
		c.Floor("R01.7", "Writing=true stores", nW, 1)
		h := c.Func("torrent", "(*torrent).handlePieceWriteDone")
		r1 := suspendFlow(h, fPMC, "Resume", "Suspend")
		r2 := suspendFlow(h, fWSC, "Resume", "Suspend")
		wf := c.FieldBool(h, fWriting, false)
		c.Check(len(r1.FailingReturns()) == 0 && len(r2.FailingReturns()) == 0, "R01.7", kit.FuncName(h)+"/resume", h.Pos(),
			"write-done handler resumes both channels on every path", "write-done handler can return without resuming a suspended channel (torrent stalls)")
		c.Check(len(wf.FailingReturns()) == 0, "R01.7", kit.FuncName(h)+"/writing-cleared", h.Pos(),
			"Writing=false on every path of the write-done handler", "write-done handler can return with Writing still true")
		// Suspend of these channels only in the two spawn functions
	}

	// ---- R01.8 stale web-seed result dropped
	{
		h := c.Func("torrent", "(*torrent).handleWebseedPieceResult")
		fDone := c.Field("internal/piece", "Piece", "Done")
		runObj := c.FuncObj("internal/piecewriter", "(*PieceWriter).Run")
		// every writer spawn reached from the web-seed result handler (directly or
		// through helpers, evaluated in this handler's calling context) happens
		// under Done==false
		nd := c.FieldBoolSpec(fDone, false, kit.DefaultDeep)
		n := 0
		nd.VisitDown(h, false, 3, func(ins ssa.Instruction, before bool) {
			if g, ok := ins.(*ssa.Go); ok && kit.CalleeObj(&g.Call) == runObj {
				n++
				c.Check(before, "R01.8", k.key(ins.Parent(), "spawn writer (web seed)"), posOf(ins),
					"web-seed result written only under piece.Done==false", "web-seed result for an already-Done piece may be written again")
			}
		})
		c.Floor("R01.8", "web-seed writer spawns", n, 1)
	}

	// ---- R01.9 pool buffers are zeroed
	{
		get := c.Func("internal/bufferpool", "(*Pool).Get")
		fData := c.Field("internal/bufferpool", "Buffer", "Data")
		ok := c.MustCallSummary(get, func(ins ssa.Instruction) bool {
			cc := kit.CallOf(ins)
			return isBuiltin(cc, "clear") && kit.Canon(cc.Args[0]).IsField(fData)
		}, 2)
		c.Check(ok, "R01.9", kit.FuncName(get)+"/cleared", get.Pos(),
			"every path through Pool.Get passes clear(Buffer.Data)", "Pool.Get can return a buffer whose Data was not cleared (padding regions would hash as garbage / stale bytes reach disk)")
		// Buffer.Data is only assigned inside package bufferpool
		for _, st := range fieldStores(c, fData) {
			if !inPkg(st.Fn, c, "internal/bufferpool") {
				c.Bad("R01.9", k.key(st.Fn, "store Buffer.Data"), posOf(st.Store), "Buffer.Data re-assigned outside bufferpool")
			}
		}
	}
}

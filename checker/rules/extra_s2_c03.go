package rules

import (
	"golang.org/x/tools/go/ssa"

	"rainverif/checker/kit"
)

// R03.7 the allowed-fast grant set equals the set advertised on the wire.
//
// The request handler serves a choked peer only for pieces in
// Peer.SentAllowedFast (R03.1 shows the gate consults the set with
// &t.pieces[request.Index]). That gate is only as good as the set: a piece
// recorded in SentAllowedFast must be the piece whose index is put into an
// AllowedFast message for the same peer in the same step. Two sites agree on
// one value:
//
//	SentAllowedFast.Add(&pieces[I])      -- the grant the handler consults
//	AllowedFastMessage{Have{Index: J}}   -- the grant the peer is told
//
// and I and J must be the same value (same SSA value / same access path,
// looking through conversions). Either site may sit in a helper taking the
// index as a parameter: a parameter is followed to the argument at every
// static call site, and the two sites are compared in a function that both
// resolve to.

func init() { registerExtra("C03", runR03_7) }

// idxAlt is one way of reading an index value: in function fn it is value v.
type idxAlt struct {
	fn *ssa.Function
	v  ssa.Value
}

// stripConv removes integer conversions / type changes.
func stripConv(v ssa.Value) ssa.Value {
	for {
		switch x := v.(type) {
		case *ssa.Convert:
			v = x.X
		case *ssa.ChangeType:
			v = x.X
		default:
			return v
		}
	}
}

// idxLevels returns the readings of index value v of function fn: level 0 is
// (fn, v) itself; when v is a parameter, level k+1 holds the arguments bound
// to it at every static call site (nil when the callers cannot be enumerated).
func idxLevels(c *kit.Ctx, fn *ssa.Function, v ssa.Value, up int) [][]idxAlt {
	v = stripConv(v)
	levels := [][]idxAlt{{{fn, v}}}
	cur := levels[0]
	for i := 0; i < up; i++ {
		var next []idxAlt
		ok := true
		for _, a := range cur {
			args, isPar := c.ArgsOfParam(a.v)
			if !isPar {
				ok = false
				break
			}
			sites := c.StaticCallSites(a.fn)
			for j, arg := range args {
				next = append(next, idxAlt{sites[j].Parent(), stripConv(arg)})
			}
		}
		if !ok || len(next) == 0 {
			break
		}
		levels = append(levels, next)
		cur = next
	}
	return levels
}

// sameReading: every reading of a has an equal reading in b (same function,
// same value or same access path).
func sameReading(a, b []idxAlt) bool {
	for _, x := range a {
		found := false
		for _, y := range b {
			if x.fn == y.fn && sameIndex(kit.Canon(x.v), kit.Canon(y.v)) {
				found = true
			}
		}
		if !found {
			return false
		}
	}
	return len(a) > 0
}

func runR03_7(c *kit.Ctx) {
	k := newKeyer()
	fSentAF := c.Field("internal/peer", "Peer", "SentAllowedFast")
	fHaveIdx := c.Field("internal/peerprotocol", "HaveMessage", "Index")
	tAllowedFast := c.Named("internal/peerprotocol", "AllowedFastMessage")

	// the advertised indexes: HaveMessage.Index initialisers nested in an
	// AllowedFastMessage
	type adv struct {
		st     fieldStore
		levels [][]idxAlt
	}
	var advs []adv
	for _, st := range fieldStores(c, fHaveIdx) {
		if !literalOnlyNestedIn(st.Store.Addr, tAllowedFast) {
			continue
		}
		advs = append(advs, adv{st, idxLevels(c, st.Fn, st.Val, 2)})
	}
	c.Floor("R03.7", "AllowedFastMessage constructions", len(advs), 1)

	// the recorded grants: SliceSet.Add on Peer.SentAllowedFast
	n := 0
	for _, fn := range c.ModuleFunctions() {
		kit.Instrs(fn, func(ins ssa.Instruction) {
			cc := kit.CallOf(ins)
			if cc == nil || cc.IsInvoke() || cc.StaticCallee() == nil || cc.StaticCallee().Name() != "Add" || len(cc.Args) < 2 {
				return
			}
			if !kit.Canon(cc.Args[0]).IsField(fSentAF) {
				return
			}
			n++
			key := k.key(fn, "SentAllowedFast.Add")
			pe := kit.Canon(cc.Args[1])
			if pe.Kind != "indexaddr" || pe.Args[1].V == nil {
				c.Bad("R03.7", key, posOf(ins), "piece recorded as allowed-fast (%s) is not an element &pieces[i]: it cannot be related to the index announced to the peer", pe)
				return
			}
			mine := idxLevels(c, fn, pe.Args[1].V, 2)
			for _, a := range advs {
				for _, la := range mine {
					for _, lb := range a.levels {
						if sameReading(la, lb) {
							c.OK("R03.7", key, posOf(ins), "piece recorded in SentAllowedFast is pieces[%s], the index put into the AllowedFast message built in %s", pe.Args[1], kit.FuncName(a.st.Fn))
							return
						}
					}
				}
			}
			c.Bad("R03.7", key, posOf(ins), "piece recorded in SentAllowedFast is pieces[%s], but no AllowedFast message is built for that index: the set the request handler consults differs from the set announced to the peer (a choked peer is served pieces it was never granted)", pe.Args[1])
		})
	}
	c.Floor("R03.7", "SentAllowedFast.Add sites", n, 1)
}

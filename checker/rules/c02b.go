package rules

// C02, relational clauses decided by affine-relation analysis (kit/affine.go).
//
// R02.6  block offsets: in the block split (package piece) every time data bytes
//        are appended to the current block (Block.Length grows) the block's
//        Begin + Length equals the piece cursor (the cell Begin is assigned from):
//        the bytes of a block sit exactly at [Begin, Begin+Length) of the piece.
// R02.7  write cursor: in filesection.Piece.Write the slice handed to WriteAt for
//        a section starts at (sum of the lengths of all earlier sections) in the
//        buffer that was passed in, padding sections included.

import (
	"fmt"
	"go/token"
	"go/types"
	"sort"
	"strings"

	"golang.org/x/tools/go/ssa"

	"rainverif/checker/kit"
)

func fieldAddrOf(v ssa.Value, f *types.Var) (*ssa.FieldAddr, bool) {
	fa, ok := v.(*ssa.FieldAddr)
	if !ok {
		return nil, false
	}
	st := derefStructT(fa.X.Type())
	if st == nil || st.Field(fa.Field) != f {
		return nil, false
	}
	return fa, true
}

type affVerdict struct {
	pos      token.Pos
	fn       *ssa.Function
	ok       bool
	contexts int
	failCtx  string
	residual string
	nonlin   bool
}

// R02.8: every store that gives Block.Length a non-zero value (package piece) happens under
// sec.Padding == false for some section tested on the path: a block is never made of bytes whose
// section was not looked at (a "fast path" that splits p.Length blindly covers padding bytes).
func runC02PadAware(c *kit.Ctx, k *keyer) {
	fLen := c.Field("internal/piece", "Block", "Length")
	fSecPadding := c.Field("internal/filesection", "FileSection", "Padding")
	notPad := c.FieldBoolSpec(fSecPadding, false, kit.DefaultDeep)
	n := 0
	for _, st := range fieldStores(c, fLen) {
		if !inPkg(st.Fn, c, "internal/piece") {
			continue
		}
		if z, ok := kit.Canon(st.Val).IntConst(); ok && z == 0 {
			continue
		}
		n++
		c.Check(notPad.Holds(st.Store, 2), "R02.8", k.key(st.Fn, "Block.Length set"), posOf(st.Store),
			"Block.Length receives bytes only under sec.Padding==false", "a block is given a length without the section's Padding flag having been tested false on the path: blocks can cover padding bytes (requested from peers although padding is never transferred)")
	}
	c.Floor("R02.8", "non-zero stores to Block.Length in package piece", n, 1)
}

func runC02Affine(c *kit.Ctx, k *keyer) {
	runC02PadAware(c, k)
	// ------------------------------------------------------------------ R02.6
	{
		root := c.Func("internal/piece", "(*Piece).calculateBlocks")
		fBegin := c.Field("internal/piece", "Block", "Begin")
		fLen := c.Field("internal/piece", "Block", "Length")

		// pass 1: which cell is the cursor of which block cell (Begin := load(cursor))
		cursors := map[string]map[string]bool{} // block cell -> cursor cells
		p1 := &kit.Affine{}
		p1.Check = func(a *kit.Affine, fr *kit.AffFrame, ins ssa.Instruction, st *kit.AffState) {
			s, ok := ins.(*ssa.Store)
			if !ok {
				return
			}
			fa, ok := fieldAddrOf(s.Addr, fBegin)
			if !ok {
				return
			}
			blk := fr.Loc(a, fa.X)
			ld, ok := s.Val.(*ssa.UnOp)
			if blk == "" || !ok || ld.Op != token.MUL {
				return
			}
			if cur := fr.Loc(a, ld.X); cur != "" {
				if cursors[blk] == nil {
					cursors[blk] = map[string]bool{}
				}
				cursors[blk][cur] = true
			}
		}
		p1.Run(root)

		// pass 2: the obligation at every growth of Block.Length
		verdicts := map[ssa.Instruction]*affVerdict{}
		var order []ssa.Instruction
		p2 := &kit.Affine{}
		p2.Check = func(a *kit.Affine, fr *kit.AffFrame, ins ssa.Instruction, st *kit.AffState) {
			s, ok := ins.(*ssa.Store)
			if !ok {
				return
			}
			fa, ok := fieldAddrOf(s.Addr, fLen)
			if !ok {
				return
			}
			blk := fr.Loc(a, fa.X)
			if blk == "" {
				return
			}
			// growth: the stored value is (old Length) + something
			bo, ok := s.Val.(*ssa.BinOp)
			if !ok || bo.Op != token.ADD {
				return
			}
			grows := false
			for _, op := range []ssa.Value{bo.X, bo.Y} {
				if ld, ok := op.(*ssa.UnOp); ok && ld.Op == token.MUL {
					if fa2, ok := fieldAddrOf(ld.X, fLen); ok && fr.Loc(a, fa2.X) == blk {
						grows = true
					}
				}
			}
			if !grows {
				return
			}
			v := verdicts[ins]
			if v == nil {
				v = &affVerdict{pos: s.Pos(), fn: s.Parent(), ok: true}
				verdicts[ins] = v
				order = append(order, ins)
			}
			v.contexts++
			var curs []string
			for cur := range cursors[blk] {
				curs = append(curs, cur)
			}
			sort.Strings(curs)
			if len(curs) == 0 {
				v.ok = false
				v.failCtx = fr.Stack()
				v.residual = "Block.Begin is never assigned from a cursor cell"
				return
			}
			for _, cur := range curs {
				begin := kit.AffVar(blk + "." + fBegin.Name())
				oldLen := kit.AffVar(blk + "." + fLen.Name())
				newLen := a.Expr(s.Val)
				dOld := begin.Add(oldLen).Sub(kit.AffVar(cur))
				dNew := begin.Add(newLen).Sub(kit.AffVar(cur))
				if st.Entails(dOld) || st.Entails(dNew) {
					continue
				}
				v.ok = false
				v.failCtx = fr.Stack()
				r := st.Reduce(dOld)
				v.residual = fmt.Sprintf("Begin+Length-cursor reduces to %s, not 0", r)
				for _, x := range r.Vars() {
					if st.NonLin[x] {
						v.nonlin = true
					}
				}
			}
		}
		p2.Run(root)
		n := 0
		for _, ins := range order {
			v := verdicts[ins]
			n++
			key := k.key(v.fn, "Block.Length grows")
			switch {
			case v.ok:
				c.OK("R02.6", key, v.pos, "affine invariant Begin+Length == piece cursor holds whenever data is appended to the current block (%d inline context(s), %d cursor cell(s))", v.contexts, len(cursors))
			case v.nonlin:
				c.Unknown("R02.6", key, v.pos, "cannot decide Begin+Length == cursor: a non-affine operation is involved (%s; context %s)", v.residual, v.failCtx)
			default:
				c.Bad("R02.6", key, v.pos, "data bytes are appended to a block whose Begin+Length is not the piece cursor on some path (%s; context %s): the block does not cover the bytes it is made of — e.g. a padding section that starts exactly at a block boundary leaves Begin stale, so the block requested from peers starts inside the padding and the data after it is never requested", v.residual, v.failCtx)
			}
		}
		c.Floor("R02.6", "growth sites of Block.Length analysed", n, 1)
		c.Stats["affine_steps"] += p1.Steps + p2.Steps
	}

	// ------------------------------------------------------------------ R02.7
	{
		root := c.Func("internal/filesection", "(Piece).Write")
		writeAt := c.FuncObj("io", "WriterAt.WriteAt")
		fSecLen := c.Field("internal/filesection", "FileSection", "Length")
		tSec := c.Named("internal/filesection", "FileSection")
		if len(root.Params) < 2 {
			c.Unknown("R02.7", kit.FuncName(root)+"/signature", root.Pos(), "Piece.Write has no buffer parameter")
			return
		}
		buf := root.Params[1]
		// the range loop over the receiver: header block = block of the rangeindex phi
		var header *ssa.BasicBlock
		var elem ssa.Value // the section of the current iteration (struct value)
		kit.Instrs(root, func(ins ssa.Instruction) {
			if phi, ok := ins.(*ssa.Phi); ok && phi.Comment == "rangeindex" && header == nil {
				header = phi.Block()
			}
		})
		if header != nil {
			kit.Instrs(root, func(ins ssa.Instruction) {
				if ld, ok := ins.(*ssa.UnOp); ok && ld.Op == token.MUL && elem == nil && derefNamed(ld.Type()) == tSec {
					if ia, ok := ld.X.(*ssa.IndexAddr); ok && ia.X == ssa.Value(root.Params[0]) {
						elem = ld
					}
				}
			})
		}
		if header == nil || elem == nil {
			// not a range loop over the receiver any more: the ghost sum cannot be attached
			c.Unknown("R02.7", kit.FuncName(root)+"/range loop", root.Pos(), "no range loop over the receiver's sections found in Piece.Write")
			return
		}
		const G = "g:sumOfEarlierSections"
		dominatedBy := func(b, h *ssa.BasicBlock) bool { return h.Dominates(b) }
		an := &kit.Affine{NilErrLen: map[*types.Func]int{writeAt: 1}}
		an.GhostEdge = func(a *kit.Affine, fr *kit.AffFrame, from, to *ssa.BasicBlock, st *kit.AffState) {
			if fr.Fn != root || to != header {
				return
			}
			if dominatedBy(from, header) { // back edge: one more section is behind us
				st.Assign(G, kit.AffVar(G).Add(kit.AffVar(a.FieldOf(elem, fSecLen.Name()))))
			} else {
				st.Assign(G, kit.AffConst(0))
			}
		}
		type res struct {
			ok  bool
			why string
			nl  bool
		}
		results := map[ssa.Instruction]*res{}
		var order []ssa.Instruction
		an.Check = func(a *kit.Affine, fr *kit.AffFrame, ins ssa.Instruction, st *kit.AffState) {
			call, ok := ins.(*ssa.Call)
			if !ok || kit.CalleeObj(call.Common()) != writeAt {
				return
			}
			args := call.Call.Args
			if len(args) < 1 {
				return
			}
			r := results[ins]
			if r == nil {
				r = &res{ok: true}
				results[ins] = r
				order = append(order, ins)
			}
			d := kit.AffVar(a.Off(args[0])).Sub(kit.AffVar(a.Off(buf))).Sub(kit.AffVar(G))
			if !st.Entails(d) {
				r.ok = false
				red := st.Reduce(d)
				r.why = fmt.Sprintf("offset(written slice) - offset(b) - sum(earlier section lengths) reduces to %s, not 0", red)
				for _, x := range red.Vars() {
					if st.NonLin[x] {
						r.nl = true
					}
				}
			}
		}
		an.Run(root)
		n := 0
		for _, ins := range order {
			r := results[ins]
			n++
			key := k.key(ins.Parent(), "WriteAt buffer offset")
			switch {
			case r.ok:
				c.OK("R02.7", key, ins.Pos(), "affine invariant: the slice written for a section starts at the sum of the lengths of all earlier sections (padding included) of the buffer passed to Write; nil error => full write (io.WriterAt contract)")
			case r.nl:
				c.Unknown("R02.7", key, ins.Pos(), "cannot decide the buffer offset of the section write: a non-affine operation is involved (%s)", r.why)
			default:
				c.Bad("R02.7", key, ins.Pos(), "the bytes written for a section are not taken from that section's position in the piece buffer on some path (%s): after a padding section (or a short write) later files receive bytes of the wrong offset", r.why)
			}
		}
		c.Floor("R02.7", "WriteAt sites in Piece.Write analysed", n, 1)
		c.Stats["affine_steps"] += an.Steps
	}
	_ = strings.TrimSpace
}

// R03.8 (registered from C03): in (*CachedPiece).ReadAt every sub-read that fills a tail of p
// is asked for the piece offset that corresponds to that tail: offsetArg - off == start(sliceArg) - start(p).
func runC03Affine(c *kit.Ctx, k *keyer) {
	root := c.Func("internal/cachedpiece", "(*CachedPiece).ReadAt")
	if len(root.Params) < 3 {
		c.Unknown("R03.8", kit.FuncName(root)+"/signature", root.Pos(), "ReadAt does not have (p []byte, off int64) parameters")
		return
	}
	buf, off := root.Params[1], root.Params[2]
	type res struct {
		ok, nl bool
		why    string
	}
	results := map[ssa.Instruction]*res{}
	var order []ssa.Instruction
	an := &kit.Affine{}
	an.Check = func(a *kit.Affine, fr *kit.AffFrame, ins ssa.Instruction, st *kit.AffState) {
		call, ok := ins.(*ssa.Call)
		if !ok || fr.Fn != root {
			return
		}
		callee := call.Call.StaticCallee()
		if callee == nil || !kit.InModule(kit.FnPkgPath(callee)) {
			return
		}
		var sl, of ssa.Value
		for _, arg := range call.Call.Args {
			if _, isS := arg.Type().Underlying().(*types.Slice); isS && sl == nil {
				sl = arg
			}
			if b, isB := arg.Type().Underlying().(*types.Basic); isB && b.Kind() == types.Int64 && of == nil {
				of = arg
			}
		}
		if sl == nil || of == nil {
			return
		}
		r := results[ins]
		if r == nil {
			r = &res{ok: true}
			results[ins] = r
			order = append(order, ins)
		}
		d := a.Expr(of).Sub(kit.AffVar(a.Reg(off))).Sub(kit.AffVar(a.Off(sl)).Sub(kit.AffVar(a.Off(buf))))
		if !st.Entails(d) {
			r.ok = false
			red := st.Reduce(d)
			r.why = fmt.Sprintf("(offset argument - off) - (start of slice argument - start of p) reduces to %s, not 0", red)
			for _, x := range red.Vars() {
				if st.NonLin[x] {
					r.nl = true
				}
			}
		}
	}
	an.Run(root)
	n := 0
	for _, ins := range order {
		r := results[ins]
		n++
		key := k.key(root, "sub-read offset")
		switch {
		case r.ok:
			c.OK("R03.8", key, ins.Pos(), "affine invariant: the piece offset asked of the sub-read advances in lockstep with the position in p that it fills")
		case r.nl:
			c.Unknown("R03.8", key, ins.Pos(), "cannot decide the lockstep of read offset and buffer position: a non-affine operation is involved (%s)", r.why)
		default:
			c.Bad("R03.8", key, ins.Pos(), "a sub-read fills p at one position with bytes of another piece offset on some path (%s): a request that crosses a read-cache block is answered with the wrong bytes", r.why)
		}
	}
	c.Floor("R03.8", "sub-read calls in CachedPiece.ReadAt analysed", n, 1)
	c.Stats["affine_steps"] += an.Steps
}

func init() {
	registerExtra("C03", func(c *kit.Ctx) { runC03Affine(c, newKeyer()) })
}

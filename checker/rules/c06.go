package rules

import (
	"go/token"
	"go/types"
	"strings"

	"golang.org/x/tools/go/ssa"

	"rainverif/checker/kit"
)

func init() {
	register(&Property{
		ID:          "C06",
		Explanation: "Decides validate-before-use for the numbers decoded from an info dictionary and that no parse bypasses the limits: (R06.1) every signed integer field of the struct that bencode.DecodeBytes fills inside metainfo.NewInfo (resolved from the decode destination type: infoType.Length, file.Length) is, wherever it is added into an accumulator or stored into an exported Info/File field, covered by a must-fact v >= 0 - either on the very value or, for values read in a later loop, as the universal fact established by a complete range loop whose every iteration passes the test - or (single-file length) by the two-sided delta bound on the field it is stored to; (R06.2) the success return of NewInfo is dominated by PieceLength != 0, len(Pieces) % sha1.Size == 0, len(Pieces)/sha1.Size != 0 and 0 <= int64(PieceLength)*int64(NumPieces) - Length < int64(PieceLength) with the product formed in int64, and Info.PieceLength / NumPieces / pieces are stored from exactly the validated expressions; (R06.3) metainfo.NewInfo is called outside its package only by Session.parseInfo, metainfo.New inside package torrent only by Session.parseMetaInfo, both succeed only under NumPieces <= config.MaxPieces, the reader given to parseMetaInfo is io.LimitReader(_, config.MaxTorrentSize), torrent.info is assigned only from parseInfo / parseMetaInfo results (three parse entry points) and Info's / File's numeric fields are written only as part of NewInfo (NewInfo itself or a helper of package metainfo that only NewInfo calls); must-facts are evaluated across helper boundaries (a validation loop in a helper called earlier on every path, or in the caller of the helper that consumes the value, counts; an argument of newTorrent that is a helper's parameter is judged at the helper's call sites); (R06.4) torrent.pieces is installed only under len(pieces) != 0 and every spawn of Verifier.Run (which indexes pieces[0]) requires len(t.pieces) != 0. NOT decided: termination and work bound of piece.NewPieces as such (R06.1 is its necessary condition), robustness of zeebo/bencode for all byte strings, memory use.",
		RuleText:    commonRuleText,
		Assumptions: append([]string{"a universal fact over a decoded slice is established only by a range loop over exactly that slice whose every back edge carries the element fact, and is killed by any store to a field on the access path (any base) and by calls that may perform one"}, commonAssumptions...),
		Run:         runC06,
	})
}

// decodedFields lists the fields (recursively through slices / arrays /
// pointers of module structs) of struct type t that satisfy pred.
func decodedFields(t types.Type, pred func(*types.Var) bool, seen map[types.Type]bool, out *[]*types.Var) {
	for {
		switch u := t.Underlying().(type) {
		case *types.Pointer:
			t = u.Elem()
			continue
		case *types.Slice:
			t = u.Elem()
			continue
		case *types.Array:
			t = u.Elem()
			continue
		}
		break
	}
	st, ok := t.Underlying().(*types.Struct)
	if !ok || seen[t] {
		return
	}
	seen[t] = true
	for i := 0; i < st.NumFields(); i++ {
		f := st.Field(i)
		if pred(f) {
			*out = append(*out, f)
		}
		decodedFields(f.Type(), pred, seen, out)
	}
}

func isSignedInt(t types.Type) bool {
	b, ok := t.Underlying().(*types.Basic)
	return ok && b.Info()&types.IsInteger != 0 && b.Info()&types.IsUnsigned == 0
}

// decodeDest returns the local that bencode.DecodeBytes fills in fn.
func decodeDest(c *kit.Ctx, fn *ssa.Function) (*ssa.Alloc, ssa.Instruction) {
	dec := c.FuncObj("github.com/zeebo/bencode", "DecodeBytes")
	var dst *ssa.Alloc
	var at ssa.Instruction
	kit.Instrs(fn, func(ins ssa.Instruction) {
		if !kit.IsCall(ins, dec) || dst != nil {
			return
		}
		v := ins.(*ssa.Call).Call.Args[1]
		if mi, ok := v.(*ssa.MakeInterface); ok {
			v = mi.X
		}
		if a, ok := v.(*ssa.Alloc); ok {
			dst, at = a, ins
		}
	})
	return dst, at
}

func isSuccessReturn(r *ssa.Return) bool {
	if len(r.Results) < 2 {
		return false
	}
	last := kit.Canon(r.Results[len(r.Results)-1])
	return last.IsNil() && !kit.Canon(r.Results[0]).IsNil()
}

func arithOp(op token.Token) bool {
	switch op {
	case token.ADD, token.SUB, token.MUL, token.QUO, token.REM, token.SHL, token.SHR, token.AND, token.OR, token.XOR, token.AND_NOT:
		return true
	}
	return false
}

// nonNegSubject: atom `x >= c` (c >= 0) or `x > c` (c >= -1) on a loaded
// field value x.
func nonNegSubject(a kit.Atom) ssa.Value {
	k, ok := a.R.IntConst()
	if !ok || a.L == nil || a.L.Kind != "field" {
		return nil
	}
	if (a.Op == token.GEQ && k >= 0) || (a.Op == token.GTR && k >= -1) {
		return a.L.V
	}
	return nil
}

func runC06(c *kit.Ctx) {
	k := newKeyer()
	newInfo := c.Func("internal/metainfo", "NewInfo")
	newInfoObj := c.FuncObj("internal/metainfo", "NewInfo")
	fPL := c.Field("internal/metainfo", "Info", "PieceLength")
	fNP := c.Field("internal/metainfo", "Info", "NumPieces")
	fLen := c.Field("internal/metainfo", "Info", "Length")
	fPad := c.Field("internal/metainfo", "Info", "Padding")
	fPiecesOut := c.Field("internal/metainfo", "Info", "pieces")
	fFileLen := c.Field("internal/metainfo", "File", "Length")
	infoT := c.Named("internal/metainfo", "Info")
	fileT := c.Named("internal/metainfo", "File")

	dst, _ := decodeDest(c, newInfo)
	if dst == nil {
		panic(kit.AnchorError{Msg: "bencode.DecodeBytes destination in metainfo.NewInfo"})
	}
	rootT := derefNamed(dst.Type())
	if rootT == nil {
		panic(kit.AnchorError{Msg: "decode destination of metainfo.NewInfo is not a named struct"})
	}
	rootField := func(name string) *types.Var {
		st := rootT.Underlying().(*types.Struct)
		for i := 0; i < st.NumFields(); i++ {
			if st.Field(i).Name() == name {
				return st.Field(i)
			}
		}
		panic(kit.AnchorError{Msg: "field " + rootT.Obj().Name() + "." + name})
	}
	fInPL := rootField("PieceLength")
	fInPieces := rootField("Pieces")

	// ---- R06.2 the four validations dominate success (computed first: R06.1
	// uses the delta bound)
	sha1Size := constIntOf(c, "crypto/sha1", "Size")
	isLenPieces := func(e *kit.Expr) bool { return e != nil && e.Kind == "len" && e.Args[0].IsField(fInPieces) }
	isPiecesOp := func(e *kit.Expr, op token.Token) bool {
		if e == nil || e.Kind != "binop" || e.Op != op || !isLenPieces(e.Args[0]) {
			return false
		}
		n, ok := e.Args[1].IntConst()
		return ok && n == sha1Size
	}
	isInt64 := func(v ssa.Value) bool {
		b, ok := v.Type().Underlying().(*types.Basic)
		return ok && b.Kind() == types.Int64
	}
	convOf := func(e *kit.Expr, f *types.Var) bool {
		return e != nil && e.Kind == "convert" && isInt64(e.V) && e.Args[0].IsField(f)
	}
	isDelta := func(e *kit.Expr) bool {
		if e == nil || e.Kind != "binop" || e.Op != token.SUB || !isInt64(e.V) || !e.Args[1].IsField(fLen) {
			return false
		}
		m := e.Args[0]
		if m.Kind != "binop" || m.Op != token.MUL || !isInt64(m.V) {
			return false
		}
		return (convOf(m.Args[0], fPL) && convOf(m.Args[1], fNP)) || (convOf(m.Args[0], fNP) && convOf(m.Args[1], fPL))
	}
	killAny := func(fs ...*types.Var) func(ssa.Instruction) bool {
		return func(ins ssa.Instruction) bool {
			for _, f := range fs {
				if c.KillsField(ins, f) {
					return true
				}
			}
			return false
		}
	}
	plNZ := c.AtomFlow(newInfo, func(a kit.Atom) bool {
		z, ok := a.R.IntConst()
		return ok && z == 0 && a.L.IsField(fInPL) && (a.Op == token.NEQ || a.Op == token.GTR)
	}, killAny(fInPL))
	modOK := c.AtomFlow(newInfo, func(a kit.Atom) bool {
		z, ok := a.R.IntConst()
		return ok && z == 0 && a.Op == token.EQL && isPiecesOp(a.L, token.REM)
	}, killAny(fInPieces))
	npNZ := c.AtomFlow(newInfo, func(a kit.Atom) bool {
		z, ok := a.R.IntConst()
		return ok && z == 0 && (a.Op == token.NEQ || a.Op == token.GTR) && isPiecesOp(a.L, token.QUO)
	}, killAny(fInPieces))
	dLo := c.AtomFlow(newInfo, func(a kit.Atom) bool {
		z, ok := a.R.IntConst()
		return ok && z == 0 && a.Op == token.GEQ && isDelta(a.L)
	}, killAny(fLen, fPL, fNP))
	dHi := c.AtomFlow(newInfo, func(a kit.Atom) bool {
		ok, strict := a.UpperBound(isDelta, func(e *kit.Expr) bool { return convOf(e, fPL) })
		return ok && strict
	}, killAny(fLen, fPL, fNP))
	deltaAtSuccess := true
	nSucc := 0
	for _, r := range returnsOf(newInfo) {
		if !isSuccessReturn(r) {
			continue
		}
		nSucc++
		for _, f := range []struct {
			name string
			fl   *kit.Flow
			bad  string
		}{
			{"PieceLength != 0", plNZ, "NewInfo can succeed with piece length 0 (division by zero / endless piece loop downstream)"},
			{"len(Pieces) % sha1.Size == 0", modOK, "NewInfo can succeed with a pieces string that is not a multiple of the hash size"},
			{"len(Pieces)/sha1.Size != 0", npNZ, "NewInfo can succeed with zero pieces"},
			{"PieceLength*NumPieces - Length >= 0", dLo, "NewInfo can succeed with total length above the piece data (delta >= 0 not established on an int64 product)"},
			{"PieceLength*NumPieces - Length < PieceLength", dHi, "NewInfo can succeed with total length a whole piece short (delta < PieceLength not established on an int64 product)"},
		} {
			ok := f.fl.Before(r)
			if !ok && strings.HasPrefix(f.name, "PieceLength*") {
				deltaAtSuccess = false
			}
			c.Check(ok, "R06.2", k.key(newInfo, "success requires "+f.name), posOf(r), "success return dominated by "+f.name, f.bad)
		}
	}
	c.Floor("R06.2", "success returns of NewInfo", nSucc, 1)
	// the Info fields hold exactly the validated expressions
	nSt := 0
	for _, chk := range []struct {
		f    *types.Var
		ok   func(e *kit.Expr) bool
		what string
	}{
		{fPL, func(e *kit.Expr) bool { return e.IsField(fInPL) }, "the decoded piece length"},
		{fNP, func(e *kit.Expr) bool { return e.Kind == "convert" && isPiecesOp(e.Args[0], token.QUO) }, "uint32(len(Pieces)/sha1.Size)"},
		{fPiecesOut, func(e *kit.Expr) bool { return e.IsField(fInPieces) }, "the decoded pieces string"},
	} {
		for _, st := range fieldStores(c, chk.f) {
			if !inPkg(st.Fn, c, "internal/metainfo") {
				c.Bad("R06.3", k.key(st.Fn, "store Info."+chk.f.Name()), posOf(st.Store), "Info.%s written outside package metainfo: a second constructor that bypasses NewInfo's validation", chk.f.Name())
				continue
			}
			nSt++
			e := kit.Canon(st.Val)
			c.Check(c.OnlyCalledFrom(st.Fn, newInfo, 2) && chk.ok(e), "R06.2", k.key(st.Fn, "store Info."+chk.f.Name()), posOf(st.Store),
				"Info."+chk.f.Name()+" = "+chk.what+" (the validated expression)", "Info."+chk.f.Name()+" = "+e.String()+" is not "+chk.what+": the validations speak about a different value")
		}
	}
	c.Floor("R06.2", "stores of Info.PieceLength/NumPieces/pieces", nSt, 3)

	// ---- R06.1 decoded signed lengths are range-checked
	{
		var srcs []*types.Var
		decodedFields(rootT, func(f *types.Var) bool { return isSignedInt(f.Type()) }, map[types.Type]bool{}, &srcs)
		c.Floor("R06.1", "signed integer fields of the decode destination", len(srcs), 2)
		isOut := func(f *types.Var) bool {
			for _, n := range []*types.Named{infoT, fileT} {
				st := n.Underlying().(*types.Struct)
				for i := 0; i < st.NumFields(); i++ {
					if st.Field(i) == f {
						return true
					}
				}
			}
			return false
		}
		// interprocedural: a validation loop in a helper called earlier on every
		// path, or in the caller of the helper that consumes the value, counts
		deep := c.NewDeepFacts(nonNegSubject, func(fn *ssa.Function) bool { return inPkg(fn, c, "internal/metainfo") })
		nSink := 0
		for _, sf := range srcs {
			for _, ld := range c.FieldLoads(sf) {
				ldIns := ld.(ssa.Instruction)
				fn := ldIns.Parent()
				srcName := fieldOwner(c, sf) + "." + sf.Name()
				seen := map[ssa.Value]bool{}
				var walk func(v ssa.Value)
				need := func(at ssa.Instruction, what, bad string) {
					nSink++
					key := k.key(fn, what+" "+srcName)
					if deep.Holds(ld, at) {
						c.OK("R06.1", key, posOf(at), "%s %s: %s >= 0 is a must-fact here (test on the value, or universal fact of a complete validation loop)", what, srcName, srcName)
					} else {
						c.Bad("R06.1", key, posOf(at), "%s decoded %s, which is not bounded below on every path (%s)", what, srcName, bad)
					}
				}
				walk = func(v ssa.Value) {
					if seen[v] || v.Referrers() == nil {
						return
					}
					seen[v] = true
					for _, r := range *v.Referrers() {
						switch x := r.(type) {
						case *ssa.Convert, *ssa.ChangeType, *ssa.Phi:
							walk(r.(ssa.Value))
						case *ssa.BinOp:
							if arithOp(x.Op) {
								need(x, "arithmetic on", "a negative entry passes because only the sum is checked: files [{length -L, attr p}, {length 2L}] with one piece of length L is accepted and piece.NewPieces then never terminates inside the torrent event loop")
							}
						case *ssa.UnOp:
							if x.Op == token.SUB {
								need(x, "negation of", "unchecked")
							}
						case *ssa.Store:
							if x.Val != v {
								continue
							}
							switch a := x.Addr.(type) {
							case *ssa.Alloc:
								for _, rr := range *a.Referrers() {
									if u, ok := rr.(*ssa.UnOp); ok && u.Op == token.MUL {
										walk(u)
									}
								}
							case *ssa.FieldAddr:
								g := kit.Canon(a).Field
								if g == nil || !isOut(g) {
									continue // copy inside the decoded struct
								}
								if g == fLen && fn == newInfo && deltaAtSuccess && !deep.Holds(ld, x) {
									nSink++
									c.OK("R06.1", k.key(fn, "store Info.Length = "+srcName), posOf(x),
										"Info.Length = %s is bounded on both sides by the delta check before success (0 <= PieceLength*NumPieces - Length < PieceLength, R06.2)", srcName)
									continue
								}
								need(x, "store into "+fieldOwner(c, g)+"."+g.Name()+" of", "the value reaches piece.NewPieces / the allocator as a file length")
							default:
								need(x, "store through pointer of", "unchecked")
							}
						case *ssa.Return:
							need(x, "return of", "unchecked")
						case ssa.CallInstruction:
							for _, callee := range c.Callees(x) {
								if callee.Blocks != nil && kit.InModule(kit.FnPkgPath(callee)) {
									need(x, "argument to "+callee.Name()+" of", "unchecked")
									break
								}
							}
						}
					}
				}
				walk(ld)
			}
		}
		c.Floor("R06.1", "uses of decoded signed lengths (arithmetic / stores into Info, File)", nSink, 4)
		// second order: File.Length copied from Info.Length only after the delta check;
		// every writer of the exported length fields runs as part of NewInfo (NewInfo
		// itself or a helper of package metainfo that only NewInfo calls)
		deltaSpec := func(gen func(a kit.Atom) bool) *kit.Spec {
			kill := killAny(fLen, fPL, fNP)
			return &kit.Spec{P: c.Prog, Deep: kit.DefaultDeep, Edge: gen, Instr: func(ins ssa.Instruction, in bool) bool {
				if in && kill(ins) {
					return false
				}
				return in
			}}
		}
		dLoS := deltaSpec(func(a kit.Atom) bool {
			z, ok := a.R.IntConst()
			return ok && z == 0 && a.Op == token.GEQ && isDelta(a.L)
		})
		dHiS := deltaSpec(func(a kit.Atom) bool {
			ok, strict := a.UpperBound(isDelta, func(e *kit.Expr) bool { return convOf(e, fPL) })
			return ok && strict
		})
		for _, f := range []*types.Var{fFileLen, fLen, fPad} {
			for _, st := range fieldStores(c, f) {
				key := k.key(st.Fn, "store "+fieldOwner(c, f)+"."+f.Name())
				if !inPkg(st.Fn, c, "internal/metainfo") || !c.OnlyCalledFrom(st.Fn, newInfo, 2) {
					c.Bad("R06.1", key, posOf(st.Store), "%s.%s written outside metainfo.NewInfo (and its private helpers): length not validated", fieldOwner(c, f), f.Name())
					continue
				}
				e := kit.Canon(st.Val).Strip()
				if e.IsField(fLen) && f != fLen {
					c.Check(dLoS.Holds(st.Store, 2) && dHiS.Holds(st.Store, 2), "R06.1", key, posOf(st.Store),
						fieldOwner(c, f)+"."+f.Name()+" = Info.Length after the delta check", fieldOwner(c, f)+"."+f.Name()+" copied from Info.Length before the delta check")
				} else {
					c.Present("R06.1", key, posOf(st.Store), "written as part of NewInfo (value covered by the use obligations above)")
				}
			}
		}
	}

	// ---- R06.3 no parse bypasses the limits
	{
		parseInfo := c.Func("torrent", "(*Session).parseInfo")
		parseInfoObj := c.FuncObj("torrent", "(*Session).parseInfo")
		parseMI := c.Func("torrent", "(*Session).parseMetaInfo")
		parseMIObj := c.FuncObj("torrent", "(*Session).parseMetaInfo")
		miNew := c.FuncObj("internal/metainfo", "New")
		fMaxPieces := c.Field("torrent", "Config", "MaxPieces")
		fMaxSize := c.Field("torrent", "Config", "MaxTorrentSize")
		limitReader := c.FuncObj("io", "LimitReader")
		fTInfo := c.Field("torrent", "torrent", "info")
		fMIInfo := c.Field("internal/metainfo", "MetaInfo", "Info")
		newTorrent := c.Func("torrent", "newTorrent")
		newTorrentObj := c.FuncObj("torrent", "newTorrent")

		n := 0
		for _, s := range sortSites(c.CallSites(newInfoObj)) {
			key := k.key(s.Fn, "call metainfo.NewInfo")
			switch {
			case inPkg(s.Fn, c, "internal/metainfo"):
				c.Present("R06.3", key, posOf(s.Instr), "inside package metainfo (metainfo.New)")
			case s.Fn == parseInfo:
				n++
				c.Present("R06.3", key, posOf(s.Instr), "Session.parseInfo")
			default:
				c.Bad("R06.3", key, posOf(s.Instr), "metainfo.NewInfo called outside Session.parseInfo: the piece-count limit (config.MaxPieces) is bypassed")
			}
		}
		for _, s := range sortSites(c.CallSites(miNew)) {
			if !inPkg(s.Fn, c, "torrent") {
				continue
			}
			key := k.key(s.Fn, "call metainfo.New")
			if s.Fn == parseMI {
				n++
				c.Present("R06.3", key, posOf(s.Instr), "Session.parseMetaInfo")
			} else {
				c.Bad("R06.3", key, posOf(s.Instr), "metainfo.New called in package torrent outside Session.parseMetaInfo: the piece-count limit is bypassed")
			}
		}
		for _, o := range []*types.Func{newInfoObj, miNew} {
			for _, s := range c.FuncRefs(o) {
				c.Bad("R06.3", k.key(s.Fn, "ref "+o.Name()), s.Fn.Pos(), "%s taken as a value: its callers cannot be enumerated", o.Name())
			}
		}
		c.Floor("R06.3", "limited parsers (parseInfo, parseMetaInfo)", n, 2)

		// both succeed only under NumPieces <= MaxPieces, about the returned value
		for _, pf := range []struct {
			fn  *ssa.Function
			src *types.Func
		}{{parseInfo, newInfoObj}, {parseMI, miNew}} {
			ns := 0
			for _, r := range returnsOf(pf.fn) {
				if !isSuccessReturn(r) {
					continue
				}
				ns++
				ret := r.Results[0]
				rc := kit.Canon(ret)
				key := k.key(pf.fn, "success requires NumPieces <= MaxPieces")
				if !(rc.Kind == "extract" && rc.Idx == 0 && rc.Args[0].IsCallTo(pf.src)) {
					c.Bad("R06.3", key, posOf(r), "%s returns %s, not the result of %s", pf.fn.Name(), rc, pf.src.Name())
					continue
				}
				capOK := c.AtomFlow(pf.fn, func(a kit.Atom) bool {
					ok, _ := a.UpperBound(func(e *kit.Expr) bool {
						e = e.Strip()
						return e.IsField(fNP) && e.Mentions(func(x *kit.Expr) bool { return x.V == ret })
					}, func(e *kit.Expr) bool { return e.Strip().IsField(fMaxPieces) })
					return ok
				}, killAny(fNP, fMaxPieces))
				c.Check(capOK.Before(r), "R06.3", key, posOf(r), "returns the parsed value only under NumPieces <= config.MaxPieces",
					pf.fn.Name()+" can succeed with NumPieces > config.MaxPieces: an info dictionary with an arbitrary piece count is accepted (memory / work not bounded by the limit)")
			}
			c.Floor("R06.3", "success returns of "+pf.fn.Name(), ns, 1)
		}
		// the reader is size-limited
		nr := 0
		for _, s := range sortSites(c.CallSites(parseMIObj)) {
			nr++
			arg := kit.Canon(argOf(s.Instr.Common(), 1))
			ok := arg.IsCallTo(limitReader) && len(arg.Args) == 2 && arg.Args[1].Strip().IsField(fMaxSize)
			c.Check(ok, "R06.3", k.key(s.Fn, "reader of parseMetaInfo"), posOf(s.Instr), "reader is io.LimitReader(_, config.MaxTorrentSize)",
				"parseMetaInfo reads "+arg.String()+": not limited by config.MaxTorrentSize, a torrent body of any size is decoded into memory")
		}
		c.Floor("R06.3", "parseMetaInfo call sites", nr, 1)

		// torrent.info only from the limited parsers
		// a value handed to a helper is judged at the helper's call sites
		viaCallers := func(v ssa.Value, d int, f func(arg ssa.Value, d int) (string, bool)) (string, bool, bool) {
			prm, isParam := v.(*ssa.Parameter)
			if !isParam {
				return "", false, false
			}
			fn := prm.Parent()
			idx := -1
			for i, q := range fn.Params {
				if q == prm {
					idx = i
				}
			}
			sites := c.StaticCallSites(fn)
			if idx < 0 || len(sites) == 0 {
				return "parameter " + prm.Name() + " of " + fn.Name() + " (no static call site)", false, true
			}
			var parts []string
			for _, site := range sites {
				call, _ := site.(*ssa.Call)
				if call == nil || idx >= len(call.Call.Args) {
					return "parameter " + prm.Name() + " of " + fn.Name() + " (called in an unknown context)", false, true
				}
				s, ok := f(call.Call.Args[idx], d+1)
				if !ok {
					return s, false, true
				}
				parts = append(parts, s)
			}
			return strings.Join(parts, "|"), true, true
		}
		var miOrigin func(v ssa.Value, d int) (string, bool)
		miOrigin = func(v ssa.Value, d int) (string, bool) {
			if d > 6 {
				return "too deep", false
			}
			v = c14Trace(v)
			e := kit.Canon(v)
			if e.Kind == "extract" && e.Idx == 0 && e.Args[0].IsCallTo(parseMIObj) {
				return "parseMetaInfo", true
			}
			if s, ok, isParam := viaCallers(v, d, miOrigin); isParam {
				return s, ok
			}
			return e.String(), false
		}
		var origin func(v ssa.Value, d int) (string, bool)
		origin = func(v ssa.Value, d int) (string, bool) {
			if d > 6 {
				return "too deep", false
			}
			v = c14Trace(v)
			e := kit.Canon(v)
			switch {
			case e.IsNil():
				return "nil", true
			case e.Kind == "extract" && e.Idx == 0 && e.Args[0].IsCallTo(parseInfoObj):
				return "parseInfo", true
			case e.Kind == "fieldaddr" && e.Field == fMIInfo:
				if fa, ok := v.(*ssa.FieldAddr); ok {
					return miOrigin(fa.X, d+1)
				}
			}
			if ph, ok := v.(*ssa.Phi); ok {
				var parts []string
				for _, ed := range ph.Edges {
					s, ok := origin(ed, d+1)
					if !ok {
						return s, false
					}
					parts = append(parts, s)
				}
				return strings.Join(parts, "|"), true
			}
			if s, ok, isParam := viaCallers(v, d, origin); isParam {
				return s, ok
			}
			// result of a module helper (parseInfoAndBitfield(spec)): judged at the
			// helper's returns
			{
				call, idx := (*ssa.Call)(nil), 0
				switch x := v.(type) {
				case *ssa.Call:
					call = x
				case *ssa.Extract:
					call, _ = x.Tuple.(*ssa.Call)
					idx = x.Index
				}
				if call != nil {
					if h := call.Call.StaticCallee(); h != nil && h.Blocks != nil && kit.InModule(pkgOf(h)) && inPkg(h, c, "torrent") {
						var parts []string
						for _, r := range returnsOf(h) {
							if r.Block() == h.Recover || idx >= len(r.Results) {
								continue
							}
							s, ok := origin(r.Results[idx], d+1)
							if !ok {
								return s, false
							}
							parts = append(parts, s)
						}
						if len(parts) > 0 {
							return strings.Join(parts, "|"), true
						}
					}
				}
			}
			return e.String(), false
		}
		entries := 0
		infoParam := -1
		for i, p := range newTorrent.Params {
			if n := derefNamed(p.Type()); n == infoT {
				infoParam = i
			}
		}
		if infoParam < 0 {
			panic(kit.AnchorError{Msg: "*metainfo.Info parameter of newTorrent"})
		}
		for _, st := range fieldStores(c, fTInfo) {
			key := k.key(st.Fn, "store torrent.info")
			if st.Fn == newTorrent {
				c.Check(st.Val == ssa.Value(newTorrent.Params[infoParam]), "R06.3", key, posOf(st.Store), "constructor stores its info parameter (origins checked at the call sites)", "constructor stores something else than its info parameter")
				continue
			}
			o, ok := origin(st.Val, 0)
			if ok && o != "nil" {
				entries++
			}
			c.Check(ok, "R06.3", key, posOf(st.Store), "torrent.info = result of "+o, "torrent.info = "+o+": an Info that did not pass Session.parseInfo / parseMetaInfo (piece-count limit) is adopted")
		}
		for _, s := range sortSites(c.CallSites(newTorrentObj)) {
			key := k.key(s.Fn, "info argument of newTorrent")
			o, ok := origin(s.Instr.Common().Args[infoParam], 0)
			if ok && o != "nil" {
				entries++
			}
			c.Check(ok, "R06.3", key, posOf(s.Instr), "info argument is "+o, "info argument "+o+" does not come from Session.parseInfo / parseMetaInfo")
		}
		c.Floor("R06.3", "parse entry points (add, load, metadata from peers)", entries, 3)
	}

	// ---- R06.4 zero pieces refused before use
	{
		fPieces := c.Field("torrent", "torrent", "pieces")
		vRun := c.FuncObj("internal/verifier", "(*Verifier).Run")
		lenNZ := func(fn *ssa.Function, subj func(e *kit.Expr) bool, kill func(ssa.Instruction) bool) *kit.Flow {
			return c.AtomFlow(fn, func(a kit.Atom) bool {
				z, ok := a.R.IntConst()
				return ok && z == 0 && (a.Op == token.NEQ || a.Op == token.GTR) && a.L.Kind == "len" && subj(a.L.Args[0])
			}, kill)
		}
		n := 0
		for _, st := range fieldStores(c, fPieces) {
			key := k.key(st.Fn, "store torrent.pieces")
			if kit.Canon(st.Val).IsNil() {
				c.Present("R06.4", key, posOf(st.Store), "reset to nil")
				continue
			}
			n++
			val := st.Val
			fl := lenNZ(st.Fn, func(e *kit.Expr) bool { return e.V == val }, nil)
			c.Check(fl.Before(st.Store), "R06.4", key, posOf(st.Store), "t.pieces installed only under len(pieces) != 0",
				"t.pieces may be installed empty: verifier.Run indexes pieces[0] and the picker divides by the piece count")
		}
		c.Floor("R06.4", "installs of torrent.pieces", n, 1)
		m := 0
		for _, s := range sortSites(c.CallSites(vRun)) {
			m++
			key := k.key(s.Fn, "spawn Verifier.Run")
			arg := kit.Canon(argOf(s.Instr.Common(), 1))
			if !arg.IsField(fPieces) {
				c.Bad("R06.4", key, posOf(s.Instr), "Verifier.Run is given %s, not t.pieces", arg)
				continue
			}
			fl := lenNZ(s.Fn, func(e *kit.Expr) bool { return e.IsField(fPieces) }, killAny(fPieces))
			c.Check(fl.Before(s.Instr), "R06.4", key, posOf(s.Instr), "Verifier.Run spawned only under len(t.pieces) != 0",
				"Verifier.Run may be spawned with zero pieces: it indexes pieces[0] (index out of range in a goroutine crashes the process)")
		}
		c.Floor("R06.4", "spawn sites of Verifier.Run", m, 1)
	}
}

// fieldOwner returns the name of the struct type that declares f (searching
// the module packages' scopes), or "struct".
func fieldOwner(c *kit.Ctx, f *types.Var) string {
	if f.Pkg() == nil {
		return "struct"
	}
	sc := f.Pkg().Scope()
	for _, n := range sc.Names() {
		tn, ok := sc.Lookup(n).(*types.TypeName)
		if !ok {
			continue
		}
		st, ok := tn.Type().Underlying().(*types.Struct)
		if !ok {
			continue
		}
		for i := 0; i < st.NumFields(); i++ {
			if st.Field(i) == f {
				return tn.Name()
			}
		}
	}
	return "struct"
}

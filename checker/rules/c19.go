package rules

import (
	"go/types"

	"golang.org/x/tools/go/ssa"

	"rainverif/checker/kit"
)

func init() {
	register(&Property{
		ID: "C19",
		Explanation: "Decides that every PEX / DHT / magnet-export site is private-guarded: (R19.1) StartPEX requires info!=nil && !Private; every handleNewPeers(_, peersource.PEX) call requires (info==nil || !Private); (R19.2) NewDHTAnnouncer and the DHT announce request require (info==nil || !Private); Magnet.String in Magnet() requires not(info!=nil && Private); fetched private metadata is refused (R13.4, repeated here); (R19.3) the private branches of copyPeerIDPrefix / getClientVersion / getTrackerUserAgent return the Config.Private* values and every tracker construction passes a flag originating from Info.Private. NOT decided: value-level parsing of the private flag's encodings; the DHT receive side is deliberately not demanded (results exist only for hashes this session asked for).",
		RuleText:    commonRuleText,
		Assumptions: commonAssumptions,
		Run:         runC19,
	})
}

// notPrivateFlow: fact "t.info == nil || !t.info.Private" (either disjunct
// established on every path).
func notPrivateFlow(c *kit.Ctx, fn *ssa.Function, fInfo, fPrivate *types.Var, allowNilInfo bool) *kit.Flow {
	return (&kit.Flow{P: c.Prog, Fn: fn,
		Edge: func(a kit.Atom) bool {
			if allowNilInfo && a.IsNilCmp(true, func(e *kit.Expr) bool { return e.IsField(fInfo) }) {
				return true
			}
			return a.IsFalse(func(e *kit.Expr) bool { return e.IsField(fPrivate) && e.Base().IsField(fInfo) })
		},
		Instr: func(ins ssa.Instruction, in bool) bool {
			if in && (c.KillsField(ins, fInfo) || c.KillsField(ins, fPrivate)) {
				return false
			}
			return in
		}}).Solve()
}

func runC19(c *kit.Ctx) {
	k := newKeyer()
	fInfo := c.Field("torrent", "torrent", "info")
	fPrivate := c.Field("internal/metainfo", "Info", "Private")

	// ---- R19.1 PEX
	{
		startPEX := c.FuncObj("internal/peer", "(*Peer).StartPEX")
		n := 0
		for _, s := range sortSites(c.CallSites(startPEX)) {
			n++
			key := k.key(s.Fn, "StartPEX")
			np := notPrivateFlow(c, s.Fn, fInfo, fPrivate, false)
			hasInfo := c.FieldNil(s.Fn, fInfo, false)
			c.Check(np.Before(s.Instr) && hasInfo.Before(s.Instr), "R19.1", key, posOf(s.Instr),
				"PEX sender started only under info!=nil && !info.Private", "PEX sender may start for a private torrent (or before the private flag is known)")
		}
		c.Floor("R19.1", "StartPEX sites", n, 1)

		handleNewPeers := c.FuncObj("torrent", "(*torrent).handleNewPeers")
		pexConst := c.Const("internal/peersource", "PEX")
		m := 0
		for _, s := range sortSites(c.CallSites(handleNewPeers)) {
			src := kit.Canon(argOf(s.Instr.Common(), 2)).Strip()
			if !(src.Kind == "const" && src.Const != nil && src.Const.ExactString() == pexConst.Val().ExactString()) {
				if src.Kind != "const" {
					// source passed through: fine only if the caller forwards its own parameter
					c.Present("R19.1", k.key(s.Fn, "handleNewPeers dynamic source"), posOf(s.Instr), "source is %s (not the PEX constant)", src)
				}
				continue
			}
			m++
			key := k.key(s.Fn, "handleNewPeers(PEX)")
			np := notPrivateFlow(c, s.Fn, fInfo, fPrivate, true)
			c.Check(np.Before(s.Instr), "R19.1", key, posOf(s.Instr),
				"addresses received by peer exchange are used only under info==nil || !info.Private", "a private torrent acts on peer-exchange addresses (incoming PEX is not private-guarded)")
		}
		c.Floor("R19.1", "handleNewPeers(PEX) sites", m, 2)
	}

	// ---- R19.2 DHT, magnet
	{
		newDHT := c.FuncObj("internal/announcer", "NewDHTAnnouncer")
		n := 0
		for _, s := range sortSites(c.CallSites(newDHT)) {
			n++
			np := notPrivateFlow(c, s.Fn, fInfo, fPrivate, true)
			c.Check(np.Before(s.Instr), "R19.2", k.key(s.Fn, "NewDHTAnnouncer"), posOf(s.Instr),
				"DHT announcer created only under info==nil || !info.Private", "a private torrent may be announced to the DHT")
		}
		c.Floor("R19.2", "NewDHTAnnouncer sites", n, 1)
		// the DHT announcer is the only road to a DHT peers request for this torrent
		announceDHT := c.FuncObj("torrent", "(*torrent).announceDHT")
		refs := 0
		for _, s := range c.FuncRefs(announceDHT) {
			refs++
			c.Check(inPkg(s.Fn, c, "torrent") && s.Fn.Name() == "startAnnouncers", "R19.2", k.key(s.Fn, "ref announceDHT"), s.Fn.Pos(),
				"announceDHT handed only to the DHT announcer in startAnnouncers", "announceDHT used outside the guarded DHT announcer start")
		}
		for _, s := range c.CallSites(announceDHT) {
			c.Bad("R19.2", k.key(s.Fn, "call announceDHT"), posOf(s.Instr), "announceDHT called directly, bypassing the private guard")
		}
		c.Floor("R19.2", "announceDHT references", refs, 1)

		magnetFn := c.Func("torrent", "(*torrent).Magnet")
		mstr := c.FuncObj("internal/magnet", "(*Magnet).String")
		np := notPrivateFlow(c, magnetFn, fInfo, fPrivate, true)
		m := 0
		for _, s := range sortSites(c.CallSites(mstr)) {
			if !inPkg(s.Fn, c, "torrent") {
				continue
			}
			m++
			if s.Fn != magnetFn {
				c.Bad("R19.2", k.key(s.Fn, "Magnet.String"), posOf(s.Instr), "magnet link rendered outside (*torrent).Magnet: private guard not shown")
				continue
			}
			c.Check(np.Before(s.Instr), "R19.2", k.key(s.Fn, "Magnet.String"), posOf(s.Instr),
				"magnet link exported only under info==nil || !info.Private", "magnet link of a private torrent may be exported")
		}
		c.Floor("R19.2", "magnet export sites", m, 1)

		// fetched private metadata refused
		notPriv := c.FieldBoolSpec(fPrivate, false, kit.DefaultDeep)
		for _, st := range fieldStores(c, fInfo) {
			if st.Fn.Name() == "newTorrent" {
				continue
			}
			c.Check(notPriv.Holds(st.Store, 2), "R19.2", k.key(st.Fn, "adopt metadata"), posOf(st.Store),
				"metadata from a magnet link adopted only under Private==false", "private metadata fetched through a magnet link is adopted")
		}
		// ... and is not persisted either: a stored info dictionary is loaded as an ordinary
		// (private) torrent by the next session start
		writeInfo := c.FuncObj("internal/resumer/boltdbresumer", "(*Resumer).WriteInfo")
		nw := 0
		for _, s := range sortSites(c.CallSites(writeInfo)) {
			if !inPkg(s.Fn, c, "torrent") {
				continue
			}
			nw++
			c.Check(notPriv.Holds(s.Instr, 2), "R19.2", k.key(s.Fn, "persist fetched metadata"), posOf(s.Instr),
				"fetched metadata is written to the resume database only under Private==false", "private metadata fetched through a magnet link is written to the resume database before it is refused: after a restart it is loaded and downloaded as an ordinary torrent")
		}
		c.Floor("R19.2", "Resumer.WriteInfo sites in package torrent", nw, 1)
	}

	// ---- R19.3 private identity
	{
		type idf struct {
			fn      *ssa.Function
			cfg     *types.Var
			byParam bool
		}
		cases := []idf{
			{c.Func("torrent", "(*torrent).copyPeerIDPrefix"), c.Field("torrent", "Config", "PrivatePeerIDPrefix"), false},
			{c.Func("torrent", "(*torrent).getClientVersion"), c.Field("torrent", "Config", "PrivateExtensionHandshakeClientVersion"), false},
			{c.Func("torrent", "(*Session).getTrackerUserAgent"), c.Field("torrent", "Config", "TrackerHTTPPrivateUserAgent"), true},
		}
		for _, cs := range cases {
			var isPriv *kit.Flow
			if cs.byParam {
				param := cs.fn.Params[1]
				isPriv = c.AtomFlow(cs.fn, func(a kit.Atom) bool { return a.IsTrue(func(e *kit.Expr) bool { return e.V == ssa.Value(param) }) }, nil)
			} else {
				isPriv = c.FieldBool(cs.fn, fPrivate, true)
			}
			privRet, pubRet := 0, 0
			for _, r := range returnsOf(cs.fn) {
				res := kit.Canon(r.Results[0])
				mentions := res.Mentions(func(e *kit.Expr) bool { return e.IsField(cs.cfg) })
				key := k.key(cs.fn, "return")
				if isPriv.Before(r) {
					privRet++
					c.Check(mentions, "R19.3", key, posOf(r), "private branch returns Config."+cs.cfg.Name(), "private branch of "+cs.fn.Name()+" does not use Config."+cs.cfg.Name()+" (returns "+res.String()+")")
				} else {
					pubRet++
					c.Check(!mentions, "R19.3", key, posOf(r), "public branch does not use the private identity", "non-private path of "+cs.fn.Name()+" returns the private identity")
				}
			}
			c.Floor("R19.3", cs.fn.Name()+" private returns", privRet, 1)
			c.Floor("R19.3", cs.fn.Name()+" public returns", pubRet, 1)
		}
		// flag wiring
		fromPrivate := func(v ssa.Value) bool {
			ok := true
			seen := map[ssa.Value]bool{}
			var walk func(v ssa.Value)
			walk = func(v ssa.Value) {
				if seen[v] {
					return
				}
				seen[v] = true
				switch x := v.(type) {
				case *ssa.Phi:
					for _, e := range x.Edges {
						walk(e)
					}
				case *ssa.Const:
					if !kit.Canon(x).IsConstBool(false) {
						ok = false
					}
				case *ssa.Parameter:
					// forwarded flag parameter named by its callers' checks
					if x.Parent().Name() != "parseTrackers" {
						ok = false
					}
				default:
					if !kit.Canon(v).IsField(fPrivate) {
						ok = false
					}
				}
			}
			walk(v)
			return ok
		}
		n := 0
		for _, obj := range []*types.Func{c.FuncObj("torrent", "(*Session).parseTrackers"), c.FuncObj("torrent", "(*Session).getTrackerUserAgent")} {
			for _, s := range sortSites(c.CallSites(obj)) {
				n++
				arg := s.Instr.Common().Args[len(s.Instr.Common().Args)-1]
				// a constant false is only acceptable where the function never learns the flag
				if kit.Canon(arg).IsConstBool(false) {
					knows := false
					kit.Instrs(s.Fn, func(ins ssa.Instruction) {
						if v, ok := ins.(ssa.Value); ok && kit.Canon(v).IsField(fPrivate) {
							knows = true
						}
					})
					if knows {
						n++
						c.Bad("R19.3", k.key(s.Fn, "private flag to "+obj.Name()), posOf(s.Instr), "constant false passed as private flag to %s although %s reads Info.Private (flag evaluated before the metainfo is parsed): a private torrent gets the public identity", obj.Name(), kit.FuncName(s.Fn))
						continue
					}
				}
				c.Check(fromPrivate(arg), "R19.3", k.key(s.Fn, "private flag to "+obj.Name()), posOf(s.Instr),
					"private flag originates from Info.Private (false when metadata is unknown)", "private flag passed to "+obj.Name()+" ("+kit.Canon(arg).String()+") does not originate from Info.Private")
			}
		}
		c.Floor("R19.3", "tracker construction flag sites", n, 4)
	}
}

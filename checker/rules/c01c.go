package rules

import (
	"go/constant"
	"go/token"
	"go/types"
	"sort"

	"golang.org/x/tools/go/ssa"

	"rainverif/checker/kit"
)

// R01.11 ownership of the web-seed piece buffer.
//
// A URLDownloader fills a pooled buffer and hands it to the torrent loop inside
// a PieceResult; from then on the buffer belongs to the receiver (the piece
// writer hashes and writes it in another goroutine). Releasing it to the pool
// afterwards lets the next pool.Get clear and refill it while it is being
// hashed or written: an honest source is accused, or unverified bytes reach the
// file and the bit is set.
//
// Typestate of "the" piece buffer of a downloader run (one bit, must-owned):
//
//	pool.Get stored into a Buffer variable   -> owned
//	Buffer stored into PieceResult.Buffer    -> not owned (handed over)
//	Buffer.Release()                         -> requires owned; then not owned
//
// evaluated over the top-level functions of package urldownloader with their
// closures inlined by summaries. Closures that return bool are summarised per
// returned constant (state on `return true` paths / on `return false` paths), and
// a branch on the result of such a call refines the state accordingly: this is
// what lets "returns false => the buffer was released or handed over; returns true
// => still owned" be checked without correlating flags.

func init() { registerExtra("C01", runR01_11) }

type ownSummary struct {
	onTrue, onFalse, onOther bool
	// which kinds of results the function can return
	canTrue, canFalse, canOther bool
}

type ownAnalysis struct {
	c        *kit.Ctx
	k        *keyer
	tBuffer  types.Type
	fResBuf  *types.Var
	poolGet  *types.Func
	release  *types.Func
	memo     map[ownKey]*ownSummary
	busy     map[ownKey]bool
	reported map[ssa.Instruction]bool
	checked  map[ssa.Instruction]bool
	nRelease int
	nHand    int
}

type ownKey struct {
	fn    *ssa.Function
	entry bool
}

func runR01_11(c *kit.Ctx) {
	a := &ownAnalysis{c: c, k: newKeyer(),
		tBuffer:  c.Named("internal/bufferpool", "Buffer"),
		fResBuf:  c.Field("internal/urldownloader", "PieceResult", "Buffer"),
		poolGet:  c.FuncObj("internal/bufferpool", "(*Pool).Get"),
		release:  c.FuncObj("internal/bufferpool", "(Buffer).Release"),
		memo:     map[ownKey]*ownSummary{},
		busy:     map[ownKey]bool{},
		reported: map[ssa.Instruction]bool{},
		checked:  map[ssa.Instruction]bool{},
	}
	var roots []*ssa.Function
	for _, fn := range c.ModuleFunctions() {
		if fn.Parent() == nil && fn.Blocks != nil && inPkg(fn, c, "internal/urldownloader") {
			roots = append(roots, fn)
		}
	}
	sort.Slice(roots, func(i, j int) bool { return kit.FuncName(roots[i]) < kit.FuncName(roots[j]) })
	for _, fn := range roots {
		a.summary(fn, false)
	}
	// every Release / handover site of the package has been visited under some context
	for _, fn := range c.ModuleFunctions() {
		if !inPkg(fn, c, "internal/urldownloader") {
			continue
		}
		kit.Instrs(fn, func(ins ssa.Instruction) {
			if !a.isRelease(ins) {
				return
			}
			switch {
			case !a.checked[ins]:
				c.Bad("R01.11", a.k.key(fn, "release unreachable from a root"), posOf(ins), "Buffer.Release in %s is not reached by the ownership analysis (called through a value the analysis cannot resolve)", kit.FuncName(fn))
			case !a.reported[ins]:
				c.OK("R01.11", a.k.key(fn, "release of an owned buffer"), posOf(ins), "the piece buffer is owned by the downloader on every path reaching this Release (not handed over in a PieceResult, not released before)")
			}
		})
	}
	c.Floor("R01.11", "Buffer.Release sites in package urldownloader", a.nRelease, 1)
	c.Floor("R01.11", "hand-overs of a piece buffer to the torrent loop", a.nHand, 1)
}

func (a *ownAnalysis) isRelease(ins ssa.Instruction) bool {
	if _, isDefer := ins.(*ssa.Defer); isDefer {
		return false
	}
	return kit.CallsAny(ins, a.release)
}

// isHandover: store of a Buffer into the Buffer field of a PieceResult.
func (a *ownAnalysis) isHandover(ins ssa.Instruction) bool {
	st, ok := ins.(*ssa.Store)
	if !ok {
		return false
	}
	fa, ok := st.Addr.(*ssa.FieldAddr)
	if !ok {
		return false
	}
	s := derefStructT(fa.X.Type())
	return s != nil && s.Field(fa.Field) == a.fResBuf
}

// isRegain: a Buffer variable receives the result of pool.Get.
func (a *ownAnalysis) isRegain(ins ssa.Instruction) bool {
	st, ok := ins.(*ssa.Store)
	if !ok || !types.Identical(st.Val.Type(), a.tBuffer) {
		return false
	}
	call, ok := st.Val.(*ssa.Call)
	return ok && kit.CallsAny(call, a.poolGet)
}

// callee resolves a call to a function of package urldownloader with a body.
func (a *ownAnalysis) callee(call *ssa.Call) *ssa.Function {
	var g *ssa.Function
	switch v := call.Call.Value.(type) {
	case *ssa.Function:
		g = v
	case *ssa.MakeClosure:
		g, _ = v.Fn.(*ssa.Function)
	case *ssa.UnOp:
		// `f := func(){...}` captured by reference: the call loads the function
		// value from the captured variable; resolve it when the variable has a
		// single store of a closure
		if v.Op != token.MUL {
			break
		}
		var cell ssa.Value = v.X
		if fv, ok := cell.(*ssa.FreeVar); ok {
			cell = nil
			fn := fv.Parent()
			idx := -1
			for i, x := range fn.FreeVars {
				if x == fv {
					idx = i
				}
			}
			if idx >= 0 && fn.Parent() != nil {
				kit.Instrs(fn.Parent(), func(ins ssa.Instruction) {
					if mc, ok := ins.(*ssa.MakeClosure); ok && mc.Fn == fn && idx < len(mc.Bindings) {
						cell = mc.Bindings[idx]
					}
				})
			}
		}
		if al, ok := cell.(*ssa.Alloc); ok && al.Referrers() != nil {
			n := 0
			for _, r := range *al.Referrers() {
				if st, ok := r.(*ssa.Store); ok && st.Addr == ssa.Value(al) {
					n++
					if mc, ok := st.Val.(*ssa.MakeClosure); ok {
						g, _ = mc.Fn.(*ssa.Function)
					}
				}
			}
			if n != 1 {
				g = nil
			}
		}
	case *ssa.FreeVar:
		// a closure captured by another closure: find what the parent bound
		fn := v.Parent()
		idx := -1
		for i, fv := range fn.FreeVars {
			if fv == v {
				idx = i
			}
		}
		if idx >= 0 && fn.Parent() != nil {
			kit.Instrs(fn.Parent(), func(ins ssa.Instruction) {
				if mc, ok := ins.(*ssa.MakeClosure); ok && mc.Fn == fn && idx < len(mc.Bindings) {
					if inner, ok := mc.Bindings[idx].(*ssa.MakeClosure); ok {
						g, _ = inner.Fn.(*ssa.Function)
					}
				}
			})
		}
	}
	if g == nil && !call.Call.IsInvoke() {
		if sc := call.Call.StaticCallee(); sc != nil {
			g = sc
		}
	}
	if g == nil || g.Blocks == nil || !inPkg(g, a.c, "internal/urldownloader") {
		return nil
	}
	return g
}

func constBool(v ssa.Value) (val, ok bool) {
	cst, isC := v.(*ssa.Const)
	if !isC || cst.Value == nil || cst.Value.Kind() != constant.Bool {
		return false, false
	}
	return constant.BoolVal(cst.Value), true
}

// summary analyses g with the given entry state and returns the state at its
// returns, split by the returned boolean constant.
func (a *ownAnalysis) summary(g *ssa.Function, entry bool) *ownSummary {
	key := ownKey{g, entry}
	if s, ok := a.memo[key]; ok {
		return s
	}
	if a.busy[key] {
		return &ownSummary{} // recursion: pessimistic
	}
	a.busy[key] = true
	defer delete(a.busy, key)

	in := map[*ssa.BasicBlock]bool{}
	seen := map[*ssa.BasicBlock]bool{}
	// split results of bool calls: value -> (state if true, state if false)
	type split struct{ t, f bool }
	splits := map[ssa.Value]split{}
	full := map[ssa.Value]*ownSummary{}
	// reverse postorder: predecessors (other than back edges) come first
	var order []*ssa.BasicBlock
	{
		visited := map[*ssa.BasicBlock]bool{}
		var post []*ssa.BasicBlock
		var dfs func(b *ssa.BasicBlock)
		dfs = func(b *ssa.BasicBlock) {
			visited[b] = true
			for _, s := range b.Succs {
				if !visited[s] {
					dfs(s)
				}
			}
			post = append(post, b)
		}
		dfs(g.Blocks[0])
		for i := len(post) - 1; i >= 0; i-- {
			order = append(order, post[i])
		}
	}
	in[g.Blocks[0]] = entry
	seen[g.Blocks[0]] = true

	transfer := func(b *ssa.BasicBlock, st bool, report bool) bool {
		for _, ins := range b.Instrs {
			switch {
			case a.isRegain(ins):
				st = true
			case a.isHandover(ins):
				if report && !a.checked[ins] {
					a.checked[ins] = true
					a.nHand++
				}
				st = false
			case a.isRelease(ins):
				if report {
					if !a.checked[ins] {
						a.checked[ins] = true
						a.nRelease++
					}
					if !st && !a.reported[ins] {
						a.reported[ins] = true
						a.c.Bad("R01.11", a.k.key(ins.Parent(), "release of a buffer not owned"), posOf(ins), "Buffer.Release can run on a piece buffer that has already been handed to the torrent loop in a PieceResult (or released): the pool gives it to the next Get, which clears and refills it while the piece writer is hashing or writing it")
					}
				}
				st = false
			default:
				call, ok := ins.(*ssa.Call)
				if !ok {
					continue
				}
				h := a.callee(call)
				if h == nil {
					continue
				}
				s := a.summary(h, st)
				splits[call] = split{s.onTrue, s.onFalse}
				full[call] = s
				st = s.onTrue && s.onFalse && s.onOther
			}
		}
		return st
	}
	// edge refinement: the branch condition is (the negation of) a split call
	// result, or a phi of split call results with nothing in between
	var condSplit func(v ssa.Value, depth int) (split, bool)
	condSplit = func(v ssa.Value, depth int) (split, bool) {
		if depth > 4 {
			return split{}, false
		}
		switch x := v.(type) {
		case *ssa.Call:
			s, ok := splits[x]
			return s, ok
		case *ssa.UnOp:
			if x.Op == token.NOT {
				s, ok := condSplit(x.X, depth+1)
				return split{s.f, s.t}, ok
			}
		case *ssa.Phi:
			res := split{true, true}
			for _, e := range x.Edges {
				s, ok := condSplit(e, depth+1)
				if !ok {
					return split{}, false
				}
				res.t = res.t && s.t
				res.f = res.f && s.f
			}
			return res, true
		}
		return split{}, false
	}
	pure := func(b *ssa.BasicBlock) bool {
		// no ownership-relevant instruction in b
		for _, ins := range b.Instrs {
			if a.isRegain(ins) || a.isHandover(ins) || a.isRelease(ins) {
				return false
			}
			if call, ok := ins.(*ssa.Call); ok && a.callee(call) != nil {
				return false
			}
		}
		return true
	}
	pureAfter := func(b *ssa.BasicBlock, callv ssa.Value) bool {
		after := false
		for _, ins := range b.Instrs {
			if v, ok := ins.(ssa.Value); ok && v == callv {
				after = true
				continue
			}
			if !after {
				continue
			}
			if a.isRegain(ins) || a.isHandover(ins) || a.isRelease(ins) {
				return false
			}
			if c2, ok := ins.(*ssa.Call); ok && a.callee(c2) != nil {
				return false
			}
		}
		return after
	}
	edgeState := func(b, succ *ssa.BasicBlock, out bool) bool {
		if len(b.Instrs) == 0 {
			return out
		}
		iff, ok := b.Instrs[len(b.Instrs)-1].(*ssa.If)
		if !ok {
			return out
		}
		s, ok := condSplit(iff.Cond, 0)
		if !ok {
			return out
		}
		// the split is only valid if nothing changed the state since the call(s):
		// the call is the last relevant instruction of its block, and for a phi
		// the joining block itself is pure
		if _, isCall := stripNot(iff.Cond).(*ssa.Call); !isCall && !pure(b) {
			return out
		}
		if succ == b.Succs[0] {
			return s.t
		}
		return s.f
	}
	for iter := 0; iter < 50; iter++ {
		changed := false
		for _, b := range order {
			if !seen[b] {
				continue
			}
			out := transfer(b, in[b], false)
			for _, s := range b.Succs {
				v := edgeState(b, s, out)
				if !seen[s] {
					seen[s] = true
					in[s] = v
					changed = true
				} else if in[s] && !v {
					in[s] = false
					changed = true
				}
			}
		}
		if !changed {
			break
		}
	}
	sum := &ownSummary{onTrue: true, onFalse: true, onOther: true}
	for _, b := range order {
		if !seen[b] {
			continue
		}
		out := transfer(b, in[b], true)
		if len(b.Instrs) == 0 {
			continue
		}
		ret, ok := b.Instrs[len(b.Instrs)-1].(*ssa.Return)
		if !ok {
			continue
		}
		if len(ret.Results) == 1 {
			if v, isC := returnedConst(ret); isC {
				if v {
					sum.onTrue = sum.onTrue && out
					sum.canTrue = true
				} else {
					sum.onFalse = sum.onFalse && out
					sum.canFalse = true
				}
				continue
			}
			// `return helper(...)`: the result kinds and their states are the helper's
			rv := unspill(ret)
			if hs, ok := full[rv]; ok && pureAfter(b, rv) {
				if hs.canTrue {
					sum.onTrue = sum.onTrue && hs.onTrue
					sum.canTrue = true
				}
				if hs.canFalse {
					sum.onFalse = sum.onFalse && hs.onFalse
					sum.canFalse = true
				}
				if hs.canOther {
					sum.onTrue = sum.onTrue && hs.onOther
					sum.onFalse = sum.onFalse && hs.onOther
					sum.canTrue, sum.canFalse = true, true
				}
				continue
			}
			if phi, isPhi := ret.Results[0].(*ssa.Phi); isPhi && b == phi.Block() {
				// named/merged result: classify per incoming edge
				all := true
				for i, e := range phi.Edges {
					v, isC := constBool(e)
					if !isC {
						all = false
						break
					}
					pred := b.Preds[i]
					po := edgeState(pred, b, transfer(pred, in[pred], false))
					if !pure(b) {
						po = out
					}
					if v {
						sum.onTrue = sum.onTrue && po
						sum.canTrue = true
					} else {
						sum.onFalse = sum.onFalse && po
						sum.canFalse = true
					}
				}
				if all {
					continue
				}
			}
		}
		sum.onOther = sum.onOther && out
		sum.canOther = true
		if len(ret.Results) == 1 {
			// unknown boolean: may be either
			sum.onTrue = sum.onTrue && out
			sum.onFalse = sum.onFalse && out
		}
	}
	a.memo[key] = sum
	return sum
}

func stripNot(v ssa.Value) ssa.Value {
	for {
		u, ok := v.(*ssa.UnOp)
		if !ok || u.Op != token.NOT {
			return v
		}
		v = u.X
	}
}

// returnedConst classifies the single boolean result of ret when it is a
// constant, also when the function has defers and the result is spilled
// (`*r = false; rundefers; t = *r; return t`).
func returnedConst(ret *ssa.Return) (val, ok bool) {
	v := ret.Results[0]
	if b, isC := constBool(v); isC {
		return b, true
	}
	ld, isLoad := v.(*ssa.UnOp)
	if !isLoad || ld.Op != token.MUL {
		return false, false
	}
	cell, isAlloc := ld.X.(*ssa.Alloc)
	if !isAlloc {
		return false, false
	}
	instrs := ret.Block().Instrs
	for i := len(instrs) - 1; i >= 0; i-- {
		if st, isStore := instrs[i].(*ssa.Store); isStore && st.Addr == ssa.Value(cell) {
			return constBool(st.Val)
		}
	}
	return false, false
}

// unspill returns the value a return hands back, looking through the result
// cell of functions with defers (`*r = v; rundefers; t = *r; return t`).
func unspill(ret *ssa.Return) ssa.Value {
	v := ret.Results[0]
	ld, isLoad := v.(*ssa.UnOp)
	if !isLoad || ld.Op != token.MUL {
		return v
	}
	cell, isAlloc := ld.X.(*ssa.Alloc)
	if !isAlloc {
		return v
	}
	instrs := ret.Block().Instrs
	for i := len(instrs) - 1; i >= 0; i-- {
		if st, isStore := instrs[i].(*ssa.Store); isStore && st.Addr == ssa.Value(cell) {
			return st.Val
		}
	}
	return v
}

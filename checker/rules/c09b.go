package rules

import (
	"go/token"
	"go/types"
	"strconv"
	"strings"

	"golang.org/x/tools/go/ssa"

	"rainverif/checker/kit"
)

// ---- R09.1 (findGaps): the range source of pickLastPieceOfSmallestGap ------------

// ruleFindGaps checks the loop of findGaps as an invariant: G (the bool
// loop variable that is set to true somewhere, "gap open") may stay true
// across an iteration only if the current piece S was seen
// AvailableForWebseed (Done==false, Writing==false); a range is appended
// only while G is true; its Begin is the loop variable that is assigned
// S.Index only for such an S; its End is S.Index (exclusive) or
// len(p.pieces). Hence every emitted range covers only pieces that were
// available when findGaps looked at them.
func (e *c09Env) ruleFindGaps() {
	c := e.c
	fn := e.findGaps
	base := kit.FuncName(fn)
	var gs []*ssa.Phi
	kit.Instrs(fn, func(ins ssa.Instruction) {
		phi, ok := ins.(*ssa.Phi)
		if !ok {
			return
		}
		if b, ok := phi.Type().Underlying().(*types.Basic); !ok || b.Kind() != types.Bool {
			return
		}
		for _, op := range phi.Edges {
			if kit.Canon(op).IsConstBool(true) {
				gs = append(gs, phi)
				return
			}
		}
	})
	if len(gs) != 1 {
		c.Unknown("R09.1", base+"/gap loop shape", fn.Pos(), "findGaps: expected exactly one boolean loop variable that is set to true (gap open), found %d; the range source of pickLastPieceOfSmallestGap cannot be analysed", len(gs))
		return
	}
	G := gs[0]
	H := G.Block()
	// candidate subjects: the current piece of the iteration
	var cands []ssa.Value
	kit.Instrs(fn, func(ins ssa.Instruction) {
		v, ok := ins.(ssa.Value)
		if !ok {
			return
		}
		switch x := ins.(type) {
		case *ssa.Alloc:
			if types.Identical(x.Type().(*types.Pointer).Elem(), e.tMyPiece) {
				cands = append(cands, v)
			}
		case *ssa.IndexAddr, *ssa.UnOp:
			if e.isMyPiecePtr(v.Type()) {
				cands = append(cands, v)
			}
		}
	})
	availOnEdge := func(pred, to *ssa.BasicBlock) ssa.Value {
		for _, s := range cands {
			if e.flow(c09NotDone, fn, s, nil).OnEdge(pred, to) && e.flow(c09NotWriting, fn, s, nil).OnEdge(pred, to) {
				return s
			}
		}
		return nil
	}
	isG := func(x *kit.Expr) bool { return x.V == ssa.Value(G) }
	killG := func(ins ssa.Instruction) bool { return ins == ssa.Instruction(G) }
	gFalse := c.AtomFlow(fn, func(a kit.Atom) bool { return a.IsFalse(isG) }, killG)
	gTrue := c.AtomFlow(fn, func(a kit.Atom) bool { return a.IsTrue(isG) }, killG)

	// (1) the gap stays / becomes open only over an available piece
	n := 0
	for i, op := range G.Edges {
		pred := H.Preds[i]
		if kit.Canon(op).IsConstBool(false) {
			continue
		}
		n++
		key := e.k.key(fn, "gap open on loop edge")
		switch {
		case gFalse.OnEdge(pred, H):
			c.OK("R09.1", key, posOf(c09LastInstr(pred)), "edge b%d->b%d keeps %s, which is known false there", pred.Index, H.Index, G.Comment)
		case availOnEdge(pred, H) != nil:
			c.OK("R09.1", key, posOf(c09LastInstr(pred)), "edge b%d->b%d leaves the gap open only with Done==false and Writing==false established for the current piece %s", pred.Index, H.Index, kit.Canon(availOnEdge(pred, H)))
		default:
			c.Bad("R09.1", key, posOf(c09LastInstr(pred)), "findGaps can keep or open a gap on edge b%d->b%d without the current piece being AvailableForWebseed (Done==false, Writing==false): a done or writing piece ends up inside a gap and pickLastPieceOfSmallestGap / PickWebseed hand it out", pred.Index, H.Index)
		}
	}
	c.Floor("R09.1", "findGaps loop edges on which the gap may be open", n, 3)

	// (2) ranges are emitted only while the gap is open; the result is built
	// from appends only
	var appends []*ssa.Call
	kit.Instrs(fn, func(ins ssa.Instruction) {
		if name, _ := c09Builtin(ins); name == "append" {
			if call, ok := ins.(*ssa.Call); ok && types.Identical(call.Type(), fn.Signature.Results().At(0).Type()) {
				appends = append(appends, call)
			}
		}
	})
	isAppend := map[ssa.Value]bool{}
	for _, a := range appends {
		isAppend[a] = true
	}
	for _, r := range returnsOf(fn) {
		seen := map[ssa.Value]bool{}
		var walk func(v ssa.Value) string
		walk = func(v ssa.Value) string {
			if seen[v] {
				return ""
			}
			seen[v] = true
			switch x := v.(type) {
			case *ssa.Phi:
				for _, op := range x.Edges {
					if w := walk(op); w != "" {
						return w
					}
				}
				return ""
			case *ssa.MakeSlice:
				return ""
			case *ssa.Const:
				return ""
			case *ssa.Call:
				if isAppend[v] {
					return walk(x.Call.Args[0])
				}
			}
			return kit.Canon(v).String()
		}
		key := e.k.key(fn, "result built from appends")
		if w := walk(r.Results[0]); w != "" {
			c.Bad("R09.1", key, posOf(r), "findGaps returns ranges from %s, which is not an append under the open-gap invariant", w)
		} else {
			c.OK("R09.1", key, posOf(r), "returned slice is make + appends only")
		}
	}
	inLoop := func(b *ssa.BasicBlock) bool { return H.Dominates(b) }
	for _, a := range appends {
		key := e.k.key(fn, "append range")
		if !gTrue.Before(a) {
			c.Bad("R09.1", key, posOf(a), "findGaps appends a range where the gap is not known to be open: the range's pieces were not all seen available")
			continue
		}
		begin, end, why := c09AppendedRange(fn, a)
		if why != "" {
			c.Unknown("R09.1", key, posOf(a), "appended range not recognised (%s)", why)
			continue
		}
		// Begin: loop variable assigned S.Index only under availability
		bad := ""
		if bp, ok := begin.(*ssa.Phi); ok && bp.Block() == H {
			for i, op := range bp.Edges {
				pred := H.Preds[i]
				if op == ssa.Value(bp) || !inLoop(pred) {
					continue
				}
				s := availOnEdge(pred, H)
				if s == nil || !e.pieceField(kit.Canon(op).Strip(), e.fIndex, e.subj(s)) {
					bad = "Begin takes " + kit.Canon(op).String() + " on edge b" + strconv.Itoa(pred.Index) + " without that piece being available"
				}
			}
		} else {
			bad = "Begin " + kit.Canon(begin).String() + " is not the loop variable of the gap start"
		}
		// End: S.Index (exclusive) or len(p.pieces)
		ex := kit.Canon(end).Strip()
		endOK := ex.Kind == "len" && ex.Args[0].IsField(e.fPieces)
		for _, s := range cands {
			if e.pieceField(ex, e.fIndex, e.subj(s)) {
				endOK = true
			}
		}
		if bad == "" && !endOK {
			bad = "End " + ex.String() + " is neither the current piece's Index nor len(p.pieces)"
		}
		if bad != "" {
			c.Bad("R09.1", key, posOf(a), "findGaps emits a range whose bounds are not tied to available pieces: %s", bad)
		} else {
			c.OK("R09.1", key, posOf(a), "range [%s, %s) appended with the gap open; Begin is set only from an available piece's Index", kit.Canon(begin), ex)
		}
	}
	c.Floor("R09.1", "range appends in findGaps", len(appends), 3)
}

// c09AppendedRange recovers the Begin and End values of the single Range
// composite literal appended by an `append(a, r)` call.
func c09AppendedRange(fn *ssa.Function, call *ssa.Call) (begin, end ssa.Value, why string) {
	if len(call.Call.Args) != 2 {
		return nil, nil, "not append(slice, elems...)"
	}
	sl, ok := call.Call.Args[1].(*ssa.Slice)
	if !ok {
		return nil, nil, "variadic argument is not a literal element list"
	}
	arr, ok := sl.X.(*ssa.Alloc)
	if !ok {
		return nil, nil, "variadic argument is not a literal element list"
	}
	var elems []ssa.Value
	kit.Instrs(fn, func(ins ssa.Instruction) {
		if st, ok := ins.(*ssa.Store); ok {
			if ia, ok := st.Addr.(*ssa.IndexAddr); ok && ia.X == ssa.Value(arr) {
				elems = append(elems, st.Val)
			}
		}
	})
	if len(elems) != 1 {
		return nil, nil, "expected one appended element"
	}
	ld, ok := elems[0].(*ssa.UnOp)
	if !ok || ld.Op != token.MUL {
		return nil, nil, "element is not a local Range value"
	}
	lit, ok := ld.X.(*ssa.Alloc)
	if !ok {
		return nil, nil, "element is not a local Range value"
	}
	kit.Instrs(fn, func(ins ssa.Instruction) {
		st, ok := ins.(*ssa.Store)
		if !ok {
			return
		}
		fa, ok := st.Addr.(*ssa.FieldAddr)
		if !ok || fa.X != ssa.Value(lit) {
			if ok2 := st.Addr == ssa.Value(lit); ok2 {
				why = "Range local assigned as a whole"
			}
			return
		}
		st2 := c09StructOfPtr(fa.X.Type())
		switch st2.Field(fa.Field).Name() {
		case "Begin":
			if begin != nil {
				why = "Begin stored twice"
			}
			begin = st.Val
		case "End":
			if end != nil {
				why = "End stored twice"
			}
			end = st.Val
		}
	})
	if why == "" && (begin == nil || end == nil) {
		why = "Begin/End of the appended Range not found"
	}
	return
}

// ---- R09.5 ------------------------------------------------------------------

func (e *c09Env) ruleAvailable() {
	c := e.c
	add := c.Func(c09PP, "(*PiecePicker).addHavingPeer")
	rem := c.Func(c09PP, "(*PiecePicker).removeHavingPeer")
	n := 0
	for _, s := range fieldStores(c, e.fAvailable) {
		n++
		key := e.k.key(s.Fn, "store PiecePicker.available")
		var op token.Token
		var setOp *types.Func
		var want int64
		switch s.Fn {
		case add:
			op, setOp, want = token.ADD, e.ssAdd, 1
		case rem:
			op, setOp, want = token.SUB, e.ssRemove, 0
		default:
			c.Bad("R09.5", key, posOf(s.Store), "PiecePicker.available written in %s: only addHavingPeer/removeHavingPeer may change the derived counter", kit.FuncName(s.Fn))
			continue
		}
		val := kit.Canon(s.Val)
		if !(val.Kind == "binop" && val.Op == op && val.Args[0].IsField(e.fAvailable) && c09IntIs(val.Args[1], 1)) {
			c.Bad("R09.5", key, posOf(s.Store), "available = %s in %s: expected available %s 1", val, c09ShortName(s.Fn), op)
			continue
		}
		// the unique Having.Add / Having.Remove call of the function
		var setCall *ssa.Call
		calls := 0
		kit.Instrs(s.Fn, func(ins ssa.Instruction) {
			if call, ok := ins.(*ssa.Call); ok && kit.CalleeObj(&call.Call) == setOp && kit.Canon(call.Call.Args[0]).IsField(e.fHaving) {
				setCall = call
				calls++
			}
		})
		if calls != 1 {
			c.Bad("R09.5", key, posOf(s.Store), "%s: expected exactly one Having.%s call, found %d", c09ShortName(s.Fn), setOp.Name(), calls)
			continue
		}
		recv := kit.Canon(setCall.Call.Args[0]).String()
		changed := c.AtomFlow(s.Fn, func(a kit.Atom) bool {
			return a.IsTrue(func(x *kit.Expr) bool { return x.V == ssa.Value(setCall) })
		}, func(ins ssa.Instruction) bool { return ins == ssa.Instruction(setCall) })
		edge := c.AtomFlow(s.Fn, func(a kit.Atom) bool {
			if a.Op != token.EQL || !c09IntIs(a.R, want) {
				return false
			}
			l := a.L.Strip()
			if l.IsCallTo(e.ssLen) && len(l.Args) == 1 {
				return l.Args[0].IsField(e.fHaving) && l.Args[0].String() == recv
			}
			if l.Kind == "len" && l.Args[0].Kind == "field" && e.isItems(l.Args[0].Field) {
				r := l.Args[0].Base()
				return r.IsField(e.fHaving) && r.String() == recv
			}
			return false
		}, func(ins ssa.Instruction) bool { return e.kills(c09Has, ins) })
		switch {
		case !changed.Before(s.Store):
			c.Bad("R09.5", key, posOf(s.Store), "available changes in %s even when Having.%s returned false (peer already %s the set): the counter drifts from the number of pieces held by a connected peer", c09ShortName(s.Fn), setOp.Name(), map[bool]string{true: "in", false: "absent from"}[op == token.ADD])
		case !edge.Before(s.Store):
			c.Bad("R09.5", key, posOf(s.Store), "available changes in %s without Having.Len()==%d of the same set: the counter counts peers, not pieces", c09ShortName(s.Fn), want)
		default:
			c.OK("R09.5", key, posOf(s.Store), "available %s 1 only under %s.%s(...)==true and %s.Len()==%d", op, recv, setOp.Name(), recv, want)
		}
	}
	c.Floor("R09.5", "stores to PiecePicker.available", n, 2)

	// Having.Add / Having.Remove only in the two functions
	m := 0
	for _, p := range []struct {
		obj *types.Func
		fn  *ssa.Function
	}{{e.ssAdd, add}, {e.ssRemove, rem}} {
		for _, s := range sortSites(c.CallSites(p.obj)) {
			if !kit.Canon(argOf(s.Instr.Common(), 0)).IsField(e.fHaving) {
				continue
			}
			m++
			key := e.k.key(s.Fn, "call Having."+p.obj.Name())
			if s.Fn == p.fn {
				c.Present("R09.5", key, posOf(s.Instr), "Having.%s inside %s", p.obj.Name(), c09ShortName(p.fn))
			} else {
				c.Bad("R09.5", key, posOf(s.Instr), "Having.%s called in %s: the available counter is not updated with it", p.obj.Name(), kit.FuncName(s.Fn))
			}
		}
	}
	c.Floor("R09.5", "Having.Add/Remove call sites", m, 2)

	// the sets' storage is written only by package sliceset; a whole myPiece
	// only by the constructor
	w := 0
	for _, f := range e.itemsVars {
		for _, s := range fieldStores(c, f) {
			w++
			key := e.k.key(s.Fn, "store SliceSet.Items")
			if pkgOf(s.Fn) == c.Pkg("internal/sliceset").Pkg.Path() {
				c.Present("R09.5", key, posOf(s.Store), "Items written by %s", c09ShortName(s.Fn))
			} else {
				c.Bad("R09.5", key, posOf(s.Store), "SliceSet.Items written directly in %s, bypassing Add/Remove", kit.FuncName(s.Fn))
			}
		}
	}
	c.Floor("R09.5", "stores to SliceSet.Items", w, 2)
	newFn := c.Func(c09PP, "New")
	for _, fn := range c.ModuleFunctions() {
		kit.Instrs(fn, func(ins ssa.Instruction) {
			st, ok := ins.(*ssa.Store)
			if !ok {
				return
			}
			if _, local := st.Addr.(*ssa.Alloc); local {
				return
			}
			pt, ok := st.Addr.Type().Underlying().(*types.Pointer)
			if !ok || !types.Identical(pt.Elem(), e.tMyPiece) {
				return
			}
			key := e.k.key(fn, "store whole myPiece")
			if fn == newFn {
				c.Present("R09.5", key, posOf(st), "piece table filled by the constructor")
			} else {
				c.Bad("R09.5", key, posOf(st), "a whole myPiece (with its Having set) is overwritten in %s", kit.FuncName(fn))
			}
		})
	}
}

// ---- R09.6 ------------------------------------------------------------------

func (e *c09Env) ruleWebseedOwner() {
	c := e.c
	pick := c.Func(c09PP, "(*PiecePicker).PickWebseed")
	closeWS := c.Func(c09PP, "(*PiecePicker).CloseWebseedDownloader")
	stopAt := c.Func(c09PP, "(*PiecePicker).WebseedStopAt")
	// the three owners, and the helpers that exist only as a part of one of
	// them (every use is a plain call from the owner or from such a helper)
	pickOwned, closeOwned, stopOwned := c09OwnedBy(c, pick), c09OwnedBy(c, closeWS), c09OwnedBy(c, stopAt)
	set, cleared := 0, 0
	for _, s := range fieldStores(c, e.fReqWebseed) {
		val := kit.Canon(s.Val)
		if val.IsNil() {
			cleared++
			key := e.k.key(s.Fn, "clear myPiece.RequestedWebseed")
			if closeOwned[s.Fn] || stopOwned[s.Fn] || c09OwnedBy(c, closeWS, stopAt)[s.Fn] {
				c.Present("R09.6", key, posOf(s.Store), "ownership released in %s", c09ShortName(s.Fn))
			} else {
				c.Bad("R09.6", key, posOf(s.Store), "RequestedWebseed cleared in %s: a piece leaves its web-seed range outside CloseWebseedDownloader/WebseedStopAt", kit.FuncName(s.Fn))
			}
			continue
		}
		set++
		key := e.k.key(s.Fn, "set myPiece.RequestedWebseed")
		if !pickOwned[s.Fn] {
			c.Bad("R09.6", key, posOf(s.Store), "RequestedWebseed assigned in %s: only PickWebseed hands pieces to a web seed", kit.FuncName(s.Fn))
			continue
		}
		fa, _ := s.Store.Addr.(*ssa.FieldAddr)
		if fa == nil {
			c.Unknown("R09.6", key, posOf(s.Store), "store address not a field address")
			continue
		}
		sb := e.subj(fa.X)
		wasNil := &kit.Flow{P: c.Prog, Fn: s.Fn}
		wasNil.Edge = func(a kit.Atom) bool {
			return a.IsNilCmp(true, func(x *kit.Expr) bool { return x.IsField(e.fReqWebseed) && sb.is(x.Base()) })
		}
		wasNil.Instr = func(ins ssa.Instruction, in bool) bool {
			if !in || sb.roots[ins] || c.KillsField(ins, e.fReqWebseed) {
				return false
			}
			for _, f := range sb.path {
				if e.replaces(ins, f) {
					return false
				}
			}
			return true
		}
		wasNil.Solve()
		if wasNil.Before(s.Store) {
			c.OK("R09.6", key, posOf(s.Store), "%s.RequestedWebseed assigned only where it is known nil", kit.Canon(fa.X))
		} else {
			c.Bad("R09.6", key, posOf(s.Store), "PickWebseed can overwrite a non-nil %s.RequestedWebseed: the piece would belong to two web-seed ranges", kit.Canon(fa.X))
		}
	}
	c.Floor("R09.6", "non-nil stores to myPiece.RequestedWebseed", set, 1)
	c.Floor("R09.6", "nil stores to myPiece.RequestedWebseed", cleared, 1)
}

// ---- R09.7 ------------------------------------------------------------------

// mustPassAfter: from every execution of `open` in fn, every returning path
// passes a call to one of targets, or an edge on which field nilOK is nil.
func (e *c09Env) mustPassAfter(fn *ssa.Function, open func(ssa.Instruction) bool, nilOK *types.Var, targets ...*types.Func) *kit.Flow {
	fl := &kit.Flow{P: e.c.Prog, Fn: fn, Entry: true}
	if nilOK != nil {
		fl.Edge = func(a kit.Atom) bool {
			return a.IsNilCmp(true, func(x *kit.Expr) bool { return x.IsField(nilOK) })
		}
	}
	isTarget := func(ins ssa.Instruction) bool {
		_, isCall := ins.(*ssa.Call)
		return isCall && kit.CallsAny(ins, targets...)
	}
	fl.Instr = func(ins ssa.Instruction, in bool) bool {
		if isTarget(ins) {
			return true
		}
		// a helper that itself passes the target on every returning path
		if call, ok := ins.(*ssa.Call); ok {
			if callee := call.Call.StaticCallee(); callee != nil && callee != fn && callee.Blocks != nil && kit.InModule(kit.FnPkgPath(callee)) {
				if e.c.MustCallSummary(callee, isTarget, 2) {
					return true
				}
			}
		}
		if open(ins) {
			return false
		}
		return in
	}
	return fl.Solve()
}

// passedBefore: the order-free half of the pairing. On every path reaching
// site a call to one of targets (or an edge on which nilOK is nil) has
// happened since the function's entry and since the last other site of the
// same kind (one notification does not serve two updates): "tell the picker,
// then update the torrent-side map" is the same behaviour as the reverse
// order inside one handler of the single-threaded event loop.
func (e *c09Env) passedBefore(site ssa.Instruction, other func(ssa.Instruction) bool, nilOK *types.Var, targets ...*types.Func) bool {
	fn := site.Parent()
	fl := &kit.Flow{P: e.c.Prog, Fn: fn}
	if nilOK != nil {
		fl.Edge = func(a kit.Atom) bool {
			return a.IsNilCmp(true, func(x *kit.Expr) bool { return x.IsField(nilOK) })
		}
	}
	isTarget := func(ins ssa.Instruction) bool {
		_, isCall := ins.(*ssa.Call)
		return isCall && kit.CallsAny(ins, targets...)
	}
	fl.Instr = func(ins ssa.Instruction, in bool) bool {
		if isTarget(ins) {
			return true
		}
		if call, ok := ins.(*ssa.Call); ok {
			if callee := call.Call.StaticCallee(); callee != nil && callee != fn && callee.Blocks != nil && kit.InModule(kit.FnPkgPath(callee)) {
				if e.c.MustCallSummary(callee, isTarget, 2) {
					return true
				}
			}
		}
		if ins != site && other != nil && other(ins) {
			return false
		}
		if nilOK != nil && in && e.c.KillsField(ins, nilOK) {
			return false
		}
		return in
	}
	return fl.Solve().Before(site)
}

// closesPeer decides "every returning path of fn either saw Peer.Closed
// already true, or stored Peer.Closed=true (itself or in a callee that
// does)": the function is a way of closing a peer.
func (e *c09Env) closesPeer(fn *ssa.Function, fClosed *types.Var, depth int) bool {
	if fn == nil || fn.Blocks == nil || depth > 2 {
		return false
	}
	fl := &kit.Flow{P: e.c.Prog, Fn: fn}
	fl.Edge = func(a kit.Atom) bool { return a.IsTrue(func(x *kit.Expr) bool { return x.IsField(fClosed) }) }
	fl.Instr = func(ins ssa.Instruction, in bool) bool {
		if in {
			return true
		}
		if v, ok := kit.StoresField(ins, fClosed); ok && kit.Canon(v).IsConstBool(true) {
			return true
		}
		if call, ok := ins.(*ssa.Call); ok {
			if callee := call.Call.StaticCallee(); callee != nil && callee != fn && kit.InModule(kit.FnPkgPath(callee)) {
				return e.closesPeer(callee, fClosed, depth+1)
			}
		}
		return false
	}
	fl.Solve()
	return len(returnsOf(fn)) > 0 && len(fl.FailingReturns()) == 0
}

func c09Names(fs []*types.Func) string {
	var out []string
	for _, f := range fs {
		out = append(out, f.Name())
	}
	return strings.Join(out, " or ")
}

func (e *c09Env) ruleInStep() {
	c := e.c
	closePeer := c.Func("torrent", "(*torrent).closePeer")
	fPicker := c.Field("torrent", "torrent", "piecePicker")
	fMap := c.Field("torrent", "torrent", "pieceDownloaders")
	fChokedMap := c.Field("torrent", "torrent", "pieceDownloadersChoked")
	fSnubbedMap := c.Field("torrent", "torrent", "pieceDownloadersSnubbed")
	fClosed := c.Field("internal/peer", "Peer", "Closed")
	hCancel := c.FuncObj(c09PP, "(*PiecePicker).HandleCancelDownload")
	hDisc := c.FuncObj(c09PP, "(*PiecePicker).HandleDisconnect")
	hChoke := c.FuncObj(c09PP, "(*PiecePicker).HandleChoke")
	hUnchoke := c.FuncObj(c09PP, "(*PiecePicker).HandleUnchoke")
	hSnub := c.FuncObj(c09PP, "(*PiecePicker).HandleSnubbed")
	uDisc := c.FuncObj("internal/unchoker", "(*Unchoker).HandleDisconnect")

	// whoever marks a peer Closed tells the picker and the unchoker
	{
		nc := 0
		for _, s := range fieldStores(c, fClosed) {
			if !kit.Canon(s.Val).IsConstBool(true) {
				continue
			}
			nc++
			st := s.Store
			fn := s.Fn
			open := func(ins ssa.Instruction) bool { return ins == ssa.Instruction(st) }
			for _, t := range []struct {
				what  string
				nilOK *types.Var
				obj   *types.Func
				cost  string
			}{
				{"piecePicker.HandleDisconnect", fPicker, hDisc, "the closed peer stays in Having/Requested: pieces are counted available and picked for a dead peer"},
				{"unchoker.HandleDisconnect", nil, uDisc, "the closed peer stays in the unchoker's sets"},
			} {
				key := e.k.key(fn, "Closed=true passes "+t.what)
				fl := e.mustPassAfter(fn, open, t.nilOK, t.obj)
				if fr := fl.FailingReturns(); len(fr) > 0 {
					c.Bad("R09.7", key, posOf(st), "%s marks the peer Closed and can return (%s) without %s: %s", c09ShortName(fn), c.Pos(posOf(fr[0])), t.what, t.cost)
				} else {
					c.OK("R09.7", key, posOf(st), "every path after Closed=true passes %s%s", t.what, map[bool]string{true: ", or the picker is nil", false: ""}[t.nilOK != nil])
				}
			}
		}
		c.Floor("R09.7", "stores Peer.Closed=true", nc, 1)
		key := kit.FuncName(closePeer) + "/closes the peer"
		if e.closesPeer(closePeer, fClosed, 0) {
			c.OK("R09.7", key, closePeer.Pos(), "every returning path of closePeer found the peer already Closed or passes the store Closed=true (and with it the obligations above)")
		} else {
			c.Bad("R09.7", key, closePeer.Pos(), "closePeer can return without the peer being marked Closed: the disconnect is not propagated to the picker")
		}
	}
	// torrent-side choked / snubbed maps
	type rule struct {
		f       *types.Var
		kind    string
		targets []*types.Func
	}
	rules := []rule{
		{fMap, "delete", []*types.Func{hCancel}},
		{fChokedMap, "insert", []*types.Func{hChoke}},
		{fChokedMap, "delete", []*types.Func{hUnchoke, hCancel}},
		{fSnubbedMap, "insert", []*types.Func{hSnub}},
		{fSnubbedMap, "delete", []*types.Func{hChoke, hCancel}},
	}
	n := 0
	for _, fn := range c.ModuleFunctions() {
		var sites []ssa.Instruction
		kit.Instrs(fn, func(ins ssa.Instruction) {
			for _, r := range rules {
				if k, _ := c09MapWrite(ins, r.f); k == r.kind {
					sites = append(sites, ins)
				}
			}
		})
		for _, site := range sites {
			for _, r := range rules {
				if k, _ := c09MapWrite(site, r.f); k != r.kind {
					continue
				}
				n++
				key := e.k.key(fn, r.kind+" torrent."+r.f.Name()+" tells the picker")
				site := site
				fl := e.mustPassAfter(fn, func(ins ssa.Instruction) bool { return ins == site }, fPicker, r.targets...)
				r := r
				sameKind := func(ins ssa.Instruction) bool { k, _ := c09MapWrite(ins, r.f); return k == r.kind }
				if fr := fl.FailingReturns(); len(fr) > 0 && e.passedBefore(site, sameKind, fPicker, r.targets...) {
					c.OK("R09.7", key, posOf(site), "piecePicker.%s (or the picker is nil) precedes the %s on every path", c09Names(r.targets), r.kind)
				} else if len(fr) > 0 {
					c.Bad("R09.7", key, posOf(site), "%s on torrent.%s can reach a return (%s) without piecePicker.%s (picker non-nil): torrent-side and picker-side views of stalled downloads diverge", r.kind, r.f.Name(), c.Pos(posOf(fr[0])), c09Names(r.targets))
				} else {
					c.OK("R09.7", key, posOf(site), "every path after the %s passes piecePicker.%s, or the picker is nil", r.kind, c09Names(r.targets))
				}
			}
		}
	}
	c.Floor("R09.7", "deletes from torrent.pieceDownloaders and updates of torrent.pieceDownloadersChoked/Snubbed", n, 7)
}

package rules

import (
	"go/token"
	"go/types"
	"strings"

	"golang.org/x/tools/go/ssa"

	"rainverif/checker/kit"
)

func init() {
	register(&Property{
		ID: "C04",
		Explanation: "Decides structural lifecycle invariants of the torrent event loop: (R04.1) a torrent channel that can be closed more than once per lifetime is closed through the close-once select idiom (or under a flag that is re-armed together with a fresh channel); (R04.2) completed=true is stored only under bitfield.All()==true and every installation of a new bitfield is followed on all paths by completed=false unless All() holds; (R04.3) every worker the loop spawns with `go x.Run(..)` has a Close method that stop()/start()/close() reaches in the loop's own goroutine, else it is a finding; (R04.4) stop() passes every teardown step in the required order and closeData closes the files and nils files/pieces/piecePicker; (R04.5) a worker that opened files closes them when its result is not delivered (cancel arm); (R04.6) a pending manual verify is discharged: completion handlers reach the start calls only under doVerify==false (or with a resume bitfield, which a pending verify always clears first); (R04.7) status() returns Seeding only under completed, Stopped only under errC==nil, and errC is nil-ed only by handleStopped. NOT decided: absence of hangs in general, 'Stopped within the timeout', convergence after restart, the start command dropped during Stopping.",
		RuleText:    commonRuleText,
		Assumptions: commonAssumptions,
		Run:         runC04,
	})
}

var c04Extra func(c *kit.Ctx, k *keyer)

func runC04(c *kit.Ctx) {
	k := newKeyer()
	defer func() {
		if c04Extra != nil {
			c04Extra(c, k)
		}
	}()
	T := func(name string) *ssa.Function { return c.Func("torrent", "(*torrent)."+name) }
	TO := func(name string) *types.Func { return c.FuncObj("torrent", "(*torrent)."+name) }
	F := func(name string) *types.Var { return c.Field("torrent", "torrent", name) }
	fCompleted, fBitfield, fCompleteC := F("completed"), F("bitfield"), F("completeC")
	bfAll := c.FuncObj("internal/bitfield", "(*Bitfield).All")

	// ---- R04.1 close-once of channels that can be closed repeatedly
	{
		// channels of the torrent struct closed inside the loop context other
		// than at shutdown
		shutdown := map[*ssa.Function]bool{T("run"): true, T("close"): true}
		loop := c.Reach([]*ssa.Function{T("run")}, false, nil)
		n := 0
		for _, fn := range c.ModuleFunctions() {
			if !inPkg(fn, c, "torrent") || shutdown[fn] || !loop[fn] {
				continue
			}
			kit.Instrs(fn, func(ins ssa.Instruction) {
				cc := kit.CallOf(ins)
				if !isBuiltin(cc, "close") {
					return
				}
				ch := kit.Canon(cc.Args[0])
				if ch.Kind != "field" || len(ch.Fields()) == 0 {
					return
				}
				owner := structOwner(ch)
				if owner == nil || owner.Obj().Name() != "torrent" {
					return
				}
				n++
				key := k.key(fn, "close "+ch.Field.Name())
				// (a) close-once idiom
				once := c.AtomFlow(fn, func(a kit.Atom) bool {
					if a.L.Kind != "extract" || a.L.Idx != 0 {
						return false
					}
					sel, ok := a.L.Args[0].V.(*ssa.Select)
					if !ok || sel.Blocking || len(sel.States) != 1 || !kit.Canon(sel.States[0].Chan).IsField(ch.Field) {
						return false
					}
					z, ok := a.R.IntConst()
					return ok && ((a.Op == token.NEQ && z == 0) || (a.Op == token.EQL && z == -1))
				}, nil)
				if once.Before(ins) {
					c.OK("R04.1", key, posOf(ins), "closed through the close-once idiom select{case <-c: default: close(c)}")
					return
				}
				// (b) fresh channel made in the same function before the close
				fresh := (&kit.Flow{P: c.Prog, Fn: fn, Instr: func(i2 ssa.Instruction, in bool) bool {
					if v, ok := kit.StoresField(i2, ch.Field); ok {
						_, isMake := v.(*ssa.MakeChan)
						return isMake
					}
					return in
				}}).Solve()
				if fresh.Before(ins) {
					c.OK("R04.1", key, posOf(ins), "channel freshly made before it is closed")
					return
				}
				c.Bad("R04.1", key, posOf(ins), "close(t.%s) can execute more than once per torrent lifetime (no close-once guard, no fresh channel): second completion / second call panics with 'close of closed channel'", ch.Field.Name())
			})
		}
		c.Floor("R04.1", "channel closes in the loop context", n, 2)
		_ = fCompleteC
	}

	// ---- R04.2 completed == true  =>  bitfield.All()
	{
		n := 0
		for _, st := range fieldStores(c, fCompleted) {
			v := kit.Canon(st.Val)
			if v.IsConstBool(false) {
				continue
			}
			n++
			all := c.AtomFlow(st.Fn, func(a kit.Atom) bool {
				return a.IsTrue(func(e *kit.Expr) bool { return e.IsCallTo(bfAll) && e.Args[0].IsField(fBitfield) })
			}, func(ins ssa.Instruction) bool { return c.KillsField(ins, fBitfield) })
			c.Check(v.IsConstBool(true) && all.Before(st.Store), "R04.2", k.key(st.Fn, "completed=true"), posOf(st.Store),
				"completed set only under t.bitfield.All()==true", "completed set without bitfield.All()==true: Seeding could be reported with pieces missing")
		}
		c.Floor("R04.2", "stores of true to completed", n, 1)
		m := 0
		for _, st := range fieldStores(c, fBitfield) {
			v := kit.Canon(st.Val)
			if v.IsNil() || st.Fn.Name() == "newTorrent" {
				continue
			}
			m++
			fn := st.Fn
			fl := (&kit.Flow{P: c.Prog, Fn: fn, Entry: true,
				Edge: func(a kit.Atom) bool {
					if a.IsTrue(func(e *kit.Expr) bool { return e.IsCallTo(bfAll) && e.Args[0].IsField(fBitfield) }) {
						return true
					}
					return a.IsFalse(func(e *kit.Expr) bool { return e.IsField(fCompleted) })
				},
				Instr: func(ins ssa.Instruction, in bool) bool {
					if ins == ssa.Instruction(st.Store) {
						return false
					}
					if v, ok := kit.StoresField(ins, fCompleted); ok && kit.Canon(v).IsConstBool(false) {
						return true
					}
					return in
				}}).Solve()
			c.Check(len(fl.FailingReturns()) == 0, "R04.2", k.key(fn, "install bitfield"), posOf(st.Store),
				"after a new bitfield is installed every path clears completed unless All() holds", "a new bitfield is installed while completed may stay true from an earlier run: the torrent reports Seeding with pieces missing (complete, stop, delete files, start)")
		}
		c.Floor("R04.2", "bitfield installations", m, 2)
	}

	// ---- R04.3 every spawned worker is joined by stop
	{
		roots := []*ssa.Function{T("stop"), T("start"), T("close")}
		reach := c.Reach(roots, false, nil)
		seen043 := map[string]bool{}
		n := 0
		for _, fn := range c.ModuleFunctions() {
			if !inPkg(fn, c, "torrent") {
				continue
			}
			kit.Instrs(fn, func(ins ssa.Instruction) {
				g, ok := ins.(*ssa.Go)
				if !ok {
					return
				}
				callee := g.Call.StaticCallee()
				if callee == nil || callee.Name() != "Run" || callee.Signature.Recv() == nil {
					return
				}
				recvT := derefNamed(callee.Signature.Recv().Type())
				if recvT == nil || recvT.Obj().Pkg() == nil || !kit.InModule(recvT.Obj().Pkg().Path()) {
					return
				}
				if recvT.Obj().Name() == "torrent" || recvT.Obj().Name() == "Session" {
					return
				}
				n++
				// keyed by the worker type, not by the spawning function: moving the
				// spawn into a helper does not create a new finding, a second
				// unjoinable worker type does
				key := "go " + recvT.Obj().Pkg().Name() + "." + recvT.Obj().Name() + ".Run"
				if seen043[key] {
					return
				}
				seen043[key] = true
				// does T have Close and does stop/start/close reach it?
				var closeFn *ssa.Function
				for _, t := range []types.Type{recvT, types.NewPointer(recvT)} {
					if sel := c.SSA.MethodSets.MethodSet(t).Lookup(recvT.Obj().Pkg(), "Close"); sel != nil {
						closeFn = c.SSA.MethodValue(sel)
					}
				}
				if closeFn == nil {
					c.Bad("R04.3", key, posOf(ins), "worker %s.Run is spawned by the event loop but has no Close: stop() cannot wait for it, its result can arrive after stop/verify/start and is applied to state of a later run", recvT.Obj().Name())
					return
				}
				joined := reach[closeFn]
				if !joined {
					// wrapper methods (promoted / embedded)
					for f := range reach {
						if f.Name() == "Close" && f.Signature.Recv() != nil && derefNamed(f.Signature.Recv().Type()) == recvT {
							joined = true
						}
					}
				}
				c.Check(joined, "R04.3", key, posOf(ins),
					"worker has Close and stop()/start()/close() reaches it in the loop goroutine", "worker "+recvT.Obj().Name()+".Run is never Closed from stop()/start()/close()")
			})
		}
		c.Floor("R04.3", "worker types spawned with go x.Run in package torrent", n, 9)
	}

	// ---- R04.4 teardown list and order
	{
		stop := T("stop")
		status := TO("status")
		steps := []string{"stopAcceptor", "stopPeers", "stopPiecedownloaders", "stopInfoDownloaders", "stopWebseedDownloads", "stopPeriodicalAnnouncers", "closeData", "stopAllocator", "stopVerifier", "stopOutgoingHandshakers", "stopIncomingHandshakers"}
		called := func(name string) *kit.Flow {
			obj := TO(name)
			return (&kit.Flow{P: c.Prog, Fn: stop,
				Edge: func(a kit.Atom) bool { // the "already stopping/stopped" early return is exempt
					return a.Op == token.EQL && a.L.IsCallTo(status) && a.R.Kind == "const"
				},
				Instr: func(ins ssa.Instruction, in bool) bool {
					if kit.CallsAny(ins, obj) {
						return true
					}
					return in
				}}).Solve()
		}
		flows := map[string]*kit.Flow{}
		for _, s := range steps {
			flows[s] = called(s)
			c.Check(len(flows[s].FailingReturns()) == 0, "R04.4", kit.FuncName(stop)+"/passes "+s, stop.Pos(),
				"stop() passes "+s+" on every path past the already-stopping return", "stop() can finish without "+s)
		}
		wb := called("writeBitfield")
		before := func(first, then string, fl *kit.Flow) {
			obj := TO(then)
			kit.Instrs(stop, func(ins ssa.Instruction) {
				if !kit.CallsAny(ins, obj) {
					return
				}
				c.Check(fl.Before(ins), "R04.4", kit.FuncName(stop)+"/"+first+" before "+then, posOf(ins),
					first+" precedes "+then, then+" can run before "+first+" (ordering required: announcers read pieces; workers hold file handles)")
			})
		}
		before("stopPeriodicalAnnouncers", "closeData", flows["stopPeriodicalAnnouncers"])
		before("closeData", "stopAllocator", flows["closeData"])
		before("closeData", "stopVerifier", flows["closeData"])
		// writeBitfield precedes closeData whenever the bitfield exists
		wbOrNil := (&kit.Flow{P: c.Prog, Fn: stop,
			Edge: func(a kit.Atom) bool { return a.IsNilCmp(true, func(e *kit.Expr) bool { return e.IsField(fBitfield) }) },
			Instr: func(ins ssa.Instruction, in bool) bool {
				if kit.CallsAny(ins, TO("writeBitfield")) {
					return true
				}
				return in
			}}).Solve()
		before("writeBitfield (if any)", "closeData", wbOrNil)
		_ = wb
		// closeData
		cd := T("closeData")
		for _, f := range []string{"files", "pieces", "piecePicker"} {
			fl := c.FieldNil(cd, F(f), true)
			c.Check(len(fl.FailingReturns()) == 0, "R04.4", kit.FuncName(cd)+"/nil "+f, cd.Pos(), "closeData leaves "+f+" nil", "closeData can return with "+f+" still set (Stopped with open data)")
		}
		closes := false
		kit.Instrs(cd, func(ins ssa.Instruction) {
			if isCloseOf(ins, func(e *kit.Expr) bool {
				return e.Mentions(func(x *kit.Expr) bool { return x.IsField(F("files")) }) || strings.Contains(e.String(), "Storage")
			}) {
				closes = true
			}
		})
		c.Check(closes, "R04.4", kit.FuncName(cd)+"/closes files", cd.Pos(), "closeData closes the storage of every file", "closeData does not close the files")
	}

	// ---- R04.5 a cancelled worker releases what it opened
	{
		run := c.Func("internal/allocator", "(*Allocator).Run")
		fCloseC := c.Field("internal/allocator", "Allocator", "closeC")
		fStorage := c.Field("internal/allocator", "File", "Storage")
		closesFiles := func(fn *ssa.Function, depth int) func(ssa.Instruction) bool {
			var rec func(ins ssa.Instruction, d int) bool
			rec = func(ins ssa.Instruction, d int) bool {
				if isCloseOf(ins, func(e *kit.Expr) bool { return e.Mentions(func(x *kit.Expr) bool { return x.IsField(fStorage) }) }) {
					return true
				}
				if d <= 0 {
					return false
				}
				if call, ok := ins.(*ssa.Call); ok {
					if callee := call.Call.StaticCallee(); callee != nil && callee.Blocks != nil && kit.InModule(kit.FnPkgPath(callee)) {
						found := false
						kit.Instrs(callee, func(i2 ssa.Instruction) {
							if rec(i2, d-1) {
								found = true
							}
						})
						return found
					}
				}
				return false
			}
			return func(ins ssa.Instruction) bool { return rec(ins, depth) }
		}
		n := 0
		_ = run
		for _, fn := range c.ModuleFunctions() {
			if !inPkg(fn, c, "internal/allocator") {
				continue
			}
			kit.Instrs(fn, func(ins ssa.Instruction) {
				sel, ok := ins.(*ssa.Select)
				if !ok {
					return
				}
				cancelIdx := -1
				hasSend := false
				for i, st := range sel.States {
					if st.Dir == types.RecvOnly && kit.Canon(st.Chan).IsField(fCloseC) {
						cancelIdx = i
					}
					if st.Dir == types.SendOnly && strings.Contains(st.Chan.Type().String(), "Allocator") {
						hasSend = true
					}
				}
				if cancelIdx < 0 || !hasSend {
					return
				}
				n++
				// blocks dominated by the cancel arm
				isCancelEdge := func(a kit.Atom) bool {
					if a.L.Kind != "extract" || a.L.Idx != 0 || a.L.Args[0].V != ssa.Value(sel) {
						return false
					}
					z, ok := a.R.IntConst()
					return ok && a.Op == token.EQL && int(z) == cancelIdx
				}
				inArm := c.AtomFlow(fn, isCancelEdge, nil)
				found := false
				cf := closesFiles(fn, 2)
				kit.Instrs(fn, func(i2 ssa.Instruction) {
					if inArm.Before(i2) && cf(i2) {
						found = true
					}
				})
				// the last arm of a select has no test of its own: it is the
				// fall-through of the previous comparison
				if !found && cancelIdx == len(sel.States)-1 {
					notOther := c.AtomFlow(fn, func(a kit.Atom) bool {
						if a.L.Kind != "extract" || a.L.Idx != 0 || a.L.Args[0].V != ssa.Value(sel) {
							return false
						}
						z, ok := a.R.IntConst()
						return ok && a.Op == token.NEQ && int(z) == cancelIdx-1
					}, nil)
					kit.Instrs(fn, func(i2 ssa.Instruction) {
						if notOther.Before(i2) && cf(i2) {
							found = true
						}
					})
				}
				c.Check(found, "R04.5", k.key(fn, "allocator result not delivered"), posOf(ins),
					"when the allocator is cancelled instead of delivering its result it closes the files it opened", "allocator cancelled during allocation (stop while allocating) leaves the files it already opened open: the result is never delivered and closeData sees t.files == nil")
			})
		}
		c.Floor("R04.5", "allocator result selects", n, 1)
	}

	// ---- R04.6 a pending verify is discharged
	{
		fDoVerify := F("doVerify")
		startAnn, startAcc, startPD := TO("startAnnouncers"), TO("startAcceptor"), TO("startPieceDownloaders")
		// fact: no manual verify is pending, or a resume bitfield exists (a pending verify
		// always clears the bitfield before allocation: premise checked below)
		spec := &kit.Spec{P: c.Prog, Deep: kit.DefaultDeep,
			Edge: func(a kit.Atom) bool {
				if a.IsFalse(func(e *kit.Expr) bool { return e.IsField(fDoVerify) }) {
					return true
				}
				return a.IsNilCmp(false, func(e *kit.Expr) bool { return e.IsField(fBitfield) })
			},
			Instr: func(ins ssa.Instruction, in bool) bool {
				if v, ok := kit.StoresField(ins, fDoVerify); ok {
					return kit.Canon(v).IsConstBool(false)
				}
				if _, ok := kit.StoresField(ins, fBitfield); ok {
					return false
				}
				return in
			}}
		// the start sequence: every call of startAnnouncers / startAcceptor outside start()
		// (and startPieceDownloaders next to them) on the roads from the completion handlers
		completion := c.Reach([]*ssa.Function{T("handleAllocationDone"), T("handleVerificationDone")}, false, func(f *ssa.Function) bool { return !inPkg(f, c, "torrent") })
		n := 0
		for fn := range completion {
			if fn.Blocks == nil || fn == T("start") {
				continue
			}
			hasSeq := false
			kit.Instrs(fn, func(ins ssa.Instruction) {
				if kit.CallsAny(ins, startAnn, startAcc) {
					hasSeq = true
				}
			})
			if !hasSeq {
				continue
			}
			kit.Instrs(fn, func(ins ssa.Instruction) {
				if _, isCall := ins.(*ssa.Call); !isCall || !kit.CallsAny(ins, startAnn, startAcc, startPD) {
					return
				}
				n++
				c.Check(spec.Holds(ins, 3), "R04.6", k.key(fn, "start after completion"), posOf(ins),
					"transfer (re)starts only when no manual verify is pending", "a completion handler can start the transfer while a manual verify is pending (verify on a torrent whose files do not exist ends downloading instead of stopped)")
			})
		}
		c.Floor("R04.6", "start calls on the completion roads", n, 3)
		// premise of the bitfield exemption: whenever doVerify may be set, start() is preceded by bitfield=nil
		start := TO("start")
		for _, name := range []string{"handleVerifyCommand", "handleStopped"} {
			h := T(name)
			fl := (&kit.Flow{P: c.Prog, Fn: h,
				Edge: func(a kit.Atom) bool { return a.IsFalse(func(e *kit.Expr) bool { return e.IsField(fDoVerify) }) },
				Instr: func(ins ssa.Instruction, in bool) bool {
					if v, ok := kit.StoresField(ins, fBitfield); ok {
						return kit.Canon(v).IsNil()
					}
					if v, ok := kit.StoresField(ins, fDoVerify); ok && kit.Canon(v).IsConstBool(true) {
						return false
					}
					return in
				}}).Solve()
			kit.Instrs(h, func(ins ssa.Instruction) {
				if kit.CallsAny(ins, start) {
					c.Check(fl.Before(ins), "R04.6", k.key(h, "verify restart"), posOf(ins),
						"a restart for verification drops the bitfield first", "restart with a pending verify keeps the old bitfield: allocation would trust it instead of verifying")
				}
			})
		}
		for _, st := range fieldStores(c, fDoVerify) {
			if kit.Canon(st.Val).IsConstBool(true) && st.Fn != T("handleVerifyCommand") {
				c.Bad("R04.6", k.key(st.Fn, "doVerify=true"), posOf(st.Store), "doVerify set outside handleVerifyCommand")
			}
		}
	}

	// ---- R04.7 truthful Stopped / Seeding
	{
		st := T("status")
		fErrC := F("errC")
		seeding := c.Const("torrent", "Seeding").Val().ExactString()
		stopped := c.Const("torrent", "Stopped").Val().ExactString()
		isCompleted := c.FieldBool(st, fCompleted, true)
		errNil := c.FieldNil(st, fErrC, true)
		ns, np := 0, 0
		for _, r := range returnsOf(st) {
			srcs := []ssa.Value{r.Results[0]}
			var preds []*ssa.BasicBlock
			if phi, ok := r.Results[0].(*ssa.Phi); ok {
				srcs = phi.Edges
				preds = phi.Block().Preds
			}
			for i, s := range srcs {
				e := kit.Canon(s)
				if e.Kind != "const" || e.Const == nil {
					c.Bad("R04.7", k.key(st, "status source"), posOf(r), "status() returns a non-constant %s", e)
					continue
				}
				holds := func(fl *kit.Flow) bool {
					if preds != nil {
						return fl.OnEdge(preds[i], r.Block())
					}
					return fl.Before(r)
				}
				switch e.Const.ExactString() {
				case seeding:
					ns++
					c.Check(holds(isCompleted), "R04.7", k.key(st, "return Seeding"), posOf(r), "Seeding only under t.completed", "status() can report Seeding without t.completed")
				case stopped:
					np++
					c.Check(holds(errNil), "R04.7", k.key(st, "return Stopped"), posOf(r), "Stopped only under errC == nil", "status() can report Stopped while the run is still active (errC != nil)")
				}
			}
		}
		c.Floor("R04.7", "Seeding returns", ns, 1)
		c.Floor("R04.7", "Stopped returns", np, 1)
		for _, s := range fieldStores(c, fErrC) {
			if kit.Canon(s.Val).IsNil() && s.Fn != T("handleStopped") && s.Fn.Name() != "newTorrent" {
				c.Bad("R04.7", k.key(s.Fn, "errC=nil"), posOf(s.Store), "errC cleared outside handleStopped: Stopped could be reported before teardown finished")
			}
		}
		// handleStopped is reached only from the announcersStoppedC arm, whose producer is created by stop()
		hs := TO("handleStopped")
		for _, s := range c.CallSites(hs) {
			c.Check(s.Fn == T("run"), "R04.7", k.key(s.Fn, "call handleStopped"), posOf(s.Instr), "handleStopped called only from the event loop's announcersStoppedC arm", "handleStopped called outside the event loop arm")
		}
		newStop := c.FuncObj("internal/announcer", "NewStopAnnouncer")
		for _, s := range c.CallSites(newStop) {
			c.Check(s.Fn == T("stop"), "R04.7", k.key(s.Fn, "NewStopAnnouncer"), posOf(s.Instr), "the Stopped transition is produced only by stop()", "stop announcer created outside stop()")
		}
	}
}

func init() { c04Extra = runC04Extra }

// structOwner returns the named struct type that owns the field at the end
// of an access path.
func structOwner(e *kit.Expr) *types.Named {
	if e == nil || (e.Kind != "field" && e.Kind != "fieldaddr") || e.Args[0].V == nil {
		return nil
	}
	return derefNamed(e.Args[0].V.Type())
}

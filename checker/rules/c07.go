package rules

import (
	"fmt"
	"go/constant"
	"go/token"
	"go/types"
	"os"
	"sort"
	"strings"

	"golang.org/x/tools/go/ssa"

	"rainverif/checker/kit"
)

func init() {
	register(&Property{
		ID:          "C07",
		Explanation: "Decides completeness of the sanitiser chain on every data path from an untrusted name to a filesystem call. (R07.1, K6) A module-wide field-based forward taint starts at every load of a string / []string field of the struct that bencode.DecodeBytes fills in metainfo.NewInfo (infoType.Name, NameUTF8, file.Path, PathUTF8, Attr: resolved from the decode destination type) and carries the must-set of sanitisers passed: (a) the dot-dot test (must-fact strings.TrimSpace(c) != \"..\" on the value, or the universal fact of a complete validation loop over the decoded slice, or the scalar fact on the decoded field; the test may sit in a helper such as validateNames() whose success return establishes the fact for its caller, and the consumer in a helper such as constructFiles() whose parameter is judged at its call sites) and (b) cleanName (whose result is shown to pass replaceSeparator). Every store into metainfo.File.Path (what allocator -> Storage.Open consumes) and every path argument of a path-taking os / filepath / ioutil function in library packages that the taint reaches requires both. (R07.2) The same engine from loads of archive/tar.Header string fields requires, at every path-taking call, the fact strings.HasPrefix(name, dir+separator)==true with name = filepath.Join(dir, ...) and dir = filepath.Clean(_). (R07.3) The store of a File path in the multi-file loop requires 'padding, or the joined path was absent from the duplicate map and is inserted under the same key', the map being created outside the loop. (R07.4) Inventory of library functions calling path-taking functions; members outside the frozen list are accepted only when the engine shows every path argument untainted or fully sanitised. NOT decided: the string semantics of the sanitisers (filepath.Join, strings.ToValidUTF8, strings.Map are trusted library calls), over-long names, Windows separators inside one component.",
		RuleText:    commonRuleText,
		Assumptions: append([]string{
			"taint abstraction: struct fields by field object (any base), locals / slices / maps / channels by SSA value and the field or local they live in; numbers, booleans and error values do not carry names; a library function returns (and a library method with a concrete pointer receiver keeps in that receiver) data derived from any tainted argument and calls back module closures with it; data written through an interface method (io.Writer.Write, hash.Hash.Write) leaves the name domain and is not followed",
			"field abstraction is refined by allocation class only for bases locally traceable to one allocation site (local, embedded struct, phi, fresh result of a module function); whole-struct copies merge classes; every other base aliases with all classes",
			"a universal dot-dot fact over a decoded slice is established only by complete range loops over exactly that slice and killed by any store to a field on the access path",
		}, commonAssumptions...),
		Run: runC07,
	})
}

const (
	bitDot uint = 1 << iota
	bitSep
	bitPrefix
)

func bitNames(b uint) string {
	var s []string
	if b&bitDot != 0 {
		s = append(s, "dot-dot test")
	}
	if b&bitSep != 0 {
		s = append(s, "cleanName")
	}
	if b&bitPrefix != 0 {
		s = append(s, "destination-prefix test")
	}
	if len(s) == 0 {
		return "none"
	}
	return strings.Join(s, "+")
}

// variadicElems returns the element values of a `f(a, b, c...)` variadic
// slice built by go/ssa as new [N]T; stores; slice.
func variadicElems(v ssa.Value) []ssa.Value {
	sl, ok := v.(*ssa.Slice)
	if !ok {
		return nil
	}
	al, ok := sl.X.(*ssa.Alloc)
	if !ok || al.Referrers() == nil {
		return nil
	}
	m := map[int64]ssa.Value{}
	for _, r := range *al.Referrers() {
		ia, ok := r.(*ssa.IndexAddr)
		if !ok || ia.Referrers() == nil {
			continue
		}
		i, ok := kit.ConstInt(ia.Index)
		if !ok {
			return nil
		}
		for _, rr := range *ia.Referrers() {
			if st, ok := rr.(*ssa.Store); ok && st.Addr == ssa.Value(ia) {
				m[i] = st.Val
			}
		}
	}
	var out []ssa.Value
	for i := int64(0); i < int64(len(m)); i++ {
		if m[i] == nil {
			return nil
		}
		out = append(out, m[i])
	}
	return out
}

// pathFuncPure lists os / filepath functions with a string parameter that do
// not touch the filesystem with it.
var pathFuncPure = map[string]bool{
	"os.Getenv": true, "os.LookupEnv": true, "os.Setenv": true, "os.Unsetenv": true, "os.ExpandEnv": true,
	"os.Expand": true, "os.NewSyscallError": true, "os.NewFile": true, "os.IsPathSeparator": true,
	"path/filepath.Join": true, "path/filepath.Clean": true, "path/filepath.Dir": true, "path/filepath.Base": true,
	"path/filepath.Ext": true, "path/filepath.Rel": true, "path/filepath.Split": true, "path/filepath.SplitList": true,
	"path/filepath.ToSlash": true, "path/filepath.FromSlash": true, "path/filepath.IsAbs": true,
	"path/filepath.VolumeName": true, "path/filepath.Match": true, "path/filepath.IsLocal": true,
	"path/filepath.Localize": true, "path/filepath.Abs": true, "path/filepath.HasPrefix": true,
}

// pathArgs returns the indices of the string parameters of a path-taking
// library function, or nil.
func pathArgs(f *types.Func) []int {
	if f == nil || f.Pkg() == nil {
		return nil
	}
	switch f.Pkg().Path() {
	case "os", "path/filepath", "io/ioutil":
	default:
		return nil
	}
	sig := f.Type().(*types.Signature)
	if sig.Recv() != nil || pathFuncPure[f.Pkg().Path()+"."+f.Name()] {
		return nil
	}
	var out []int
	for i := 0; i < sig.Params().Len(); i++ {
		if b, ok := sig.Params().At(i).Type().Underlying().(*types.Basic); ok && b.Info()&types.IsString != 0 {
			out = append(out, i)
		}
	}
	return out
}

func runC07(c *kit.Ctx) {
	k := newKeyer()
	newInfo := c.Func("internal/metainfo", "NewInfo")
	cleanName := c.Func("internal/metainfo", "cleanName")
	cleanNameN := c.Func("internal/metainfo", "cleanNameN")
	replaceSep := c.Func("internal/metainfo", "replaceSeparator")
	cleanNameObj := c.FuncObj("internal/metainfo", "cleanName")
	cleanNameNObj := c.FuncObj("internal/metainfo", "cleanNameN")
	replaceSepObj := c.FuncObj("internal/metainfo", "replaceSeparator")
	trimSpace := c.FuncObj("strings", "TrimSpace")
	hasPrefix := c.FuncObj("strings", "HasPrefix")
	fpJoin := c.FuncObj("path/filepath", "Join")
	fpClean := c.FuncObj("path/filepath", "Clean")
	stringsMap := c.FuncObj("strings", "Map")
	fFilePath := c.Field("internal/metainfo", "File", "Path")
	fInfoName := c.Field("internal/metainfo", "Info", "Name")
	fInfoFiles := c.Field("internal/metainfo", "Info", "Files")
	fFilePadding := c.Field("internal/metainfo", "File", "Padding")
	tarHeader := c.Named("archive/tar", "Header")
	sepRune, _ := constant.Int64Val(c.Const("os", "PathSeparator").Val())
	sep := string(rune(sepRune))

	dst, _ := decodeDest(c, newInfo)
	if dst == nil {
		panic(kit.AnchorError{Msg: "bencode.DecodeBytes destination in metainfo.NewInfo"})
	}
	rootT := derefNamed(dst.Type())
	var srcFields []*types.Var
	decodedFields(rootT, func(f *types.Var) bool {
		switch u := f.Type().Underlying().(type) {
		case *types.Basic:
			return u.Info()&types.IsString != 0
		case *types.Slice:
			b, ok := u.Elem().Underlying().(*types.Basic)
			return ok && b.Info()&types.IsString != 0
		}
		return false
	}, map[types.Type]bool{}, &srcFields)
	isSrc := map[*types.Var]bool{}
	for _, f := range srcFields {
		isSrc[f] = true
	}
	c.Floor("R07.1", "decoded name / path fields (Name, NameUTF8, Path, PathUTF8, ...)", len(srcFields), 4)

	// ---- sanitiser (b): cleanName really ends in the separator replacement
	{
		chain := []struct {
			fn   *ssa.Function
			next *types.Func
		}{{cleanName, cleanNameNObj}, {cleanNameN, replaceSepObj}, {replaceSep, stringsMap}}
		for _, l := range chain {
			for _, r := range returnsOf(l.fn) {
				e := kit.Canon(r.Results[0])
				okc := e.IsCallTo(l.next) && e.Mentions(func(x *kit.Expr) bool { return x.Kind == "param" })
				if l.fn == replaceSep && isSlashReplaceAll(e) {
					okc = true // strings.ReplaceAll(s, "/", "<harmless>") is the same mapping
				}
				c.Check(okc, "R07.1", k.key(l.fn, "result passes "+l.next.Name()), posOf(r),
					l.fn.Name()+" returns "+l.next.Name()+"(...) of its argument",
					l.fn.Name()+" returns "+e.String()+": the separator replacement is no longer on the data path of cleanName")
			}
		}
		// the mapping closure replaces '/'
		okm := false
		var cl *ssa.Function
		for _, r := range returnsOf(replaceSep) {
			e := kit.Canon(r.Results[0])
			if e.IsCallTo(stringsMap) && len(e.Args) == 2 && e.Args[0].Kind == "closure" {
				cl = e.Args[0].Fn
			}
			if e.IsCallTo(stringsMap) && len(e.Args) == 2 && e.Args[0].Kind == "func" {
				cl = e.Args[0].Fn
			}
		}
		for _, r := range returnsOf(replaceSep) {
			if isSlashReplaceAll(kit.Canon(r.Results[0])) {
				okm = true
			} else {
				okm = false
				break
			}
		}
		if cl != nil && len(cl.Params) == 1 {
			prm := cl.Params[0]
			isSlash := c.AtomFlow(cl, func(a kit.Atom) bool {
				n, ok := a.R.IntConst()
				return ok && n == '/' && a.Op == token.EQL && a.L.V == ssa.Value(prm)
			}, nil)
			okm = true
			sawRepl := false
			for _, r := range returnsOf(cl) {
				if isSlash.Before(r) {
					n, isConst := kit.Canon(r.Results[0]).IntConst()
					if !isConst || n == '/' || n == '\\' || n == '.' {
						okm = false
					} else {
						sawRepl = true
					}
				}
			}
			okm = okm && sawRepl
		}
		c.Check(okm, "R07.1", k.key(replaceSep, "maps '/' away"), replaceSep.Pos(), "replaceSeparator maps '/' to a harmless rune via strings.Map",
			"replaceSeparator no longer maps '/' to another rune: a path component can contain a separator")
	}

	// ---- guard facts (a): dot-dot test
	dotSubject := func(a kit.Atom) ssa.Value {
		if a.Op != token.NEQ || a.L == nil {
			return nil
		}
		if s, ok := constString(a.R); !ok || s != ".." {
			return nil
		}
		l := a.L
		if l.IsCallTo(trimSpace) && len(l.Args) == 1 {
			l = l.Args[0]
		} else if l.Kind == "call" {
			return nil
		}
		return l.V
	}
	// the test may live in a helper called earlier on every path (validateNames)
	// and the consumer in another helper (constructFiles): facts are evaluated
	// across the function boundaries of package metainfo
	inMetainfo := func(fn *ssa.Function) bool { return fn != nil && inPkg(fn, c, "internal/metainfo") }
	dotDeep := c.NewDeepFacts(dotSubject, inMetainfo)
	isStr := func(t types.Type) bool {
		b, ok := t.Underlying().(*types.Basic)
		return ok && b.Info()&types.IsString != 0
	}
	useBitsA := func(v ssa.Value, use ssa.Instruction) uint {
		if !inMetainfo(use.Parent()) {
			return 0
		}
		if isStr(v.Type()) {
			if dotDeep.Holds(v, use) {
				return bitDot
			}
			return 0
		}
		if sl, ok := v.Type().Underlying().(*types.Slice); ok && isStr(sl.Elem()) {
			if dotDeep.HoldsForElems(v, use) {
				return bitDot
			}
		}
		return 0
	}
	sanitiser := func(cc *ssa.CallCommon) uint {
		if o := kit.CalleeObj(cc); o != nil && (o == cleanNameObj || o == cleanNameNObj) {
			return bitSep
		}
		return 0
	}
	tA := c.RunTaint(kit.TaintCfg{
		Source: func(ld ssa.Value, f *types.Var) (string, bool) {
			if isSrc[f] {
				return fieldOwner(c, f) + "." + f.Name(), true
			}
			return "", false
		},
		Sanitiser: sanitiser,
		UseBits:   useBitsA,
		StoreBits: func(f *types.Var) uint {
			if f == fFilePath {
				return bitDot | bitSep // judged at the store (sink 1)
			}
			return 0
		},
	})

	// ---- guard fact of R07.2: HasPrefix(name, dir+sep) with name = Join(dir, ...), dir = Clean(_)
	type pfx struct {
		x  ssa.Value
		fl *kit.Flow
	}
	pfxOf := map[*ssa.Function][]pfx{}
	prefixGuards := func(fn *ssa.Function) []pfx {
		if g, ok := pfxOf[fn]; ok {
			return g
		}
		var out []pfx
		seen := map[ssa.Value]bool{}
		match := func(e *kit.Expr) ssa.Value {
			if !e.IsCallTo(hasPrefix) || len(e.Args) != 2 {
				return nil
			}
			x, y := e.Args[0], e.Args[1]
			if !x.IsCallTo(fpJoin) || x.V == nil {
				return nil
			}
			el := variadicElems(x.V.(*ssa.Call).Call.Args[0])
			if len(el) < 2 || !kit.Canon(el[0]).IsCallTo(fpClean) {
				return nil
			}
			d := el[0]
			if y.Kind != "binop" || y.Op != token.ADD || y.Args[0].V != d {
				return nil
			}
			if s, ok := constString(y.Args[1]); !ok || s != sep {
				return nil
			}
			return x.V
		}
		for _, b := range fn.Blocks {
			if len(b.Instrs) == 0 {
				continue
			}
			ifi, ok := b.Instrs[len(b.Instrs)-1].(*ssa.If)
			if !ok {
				continue
			}
			for _, tr := range []bool{true, false} {
				for _, a := range kit.EdgeAtoms(ifi.Cond, tr) {
					var x ssa.Value
					if a.IsTrue(func(e *kit.Expr) bool { x = match(e); return x != nil }) && !seen[x] {
						seen[x] = true
						xx := x
						fl := c.AtomFlow(fn, func(a kit.Atom) bool {
							return a.IsTrue(func(e *kit.Expr) bool { return match(e) == xx })
						}, nil)
						out = append(out, pfx{xx, fl})
					}
				}
			}
		}
		pfxOf[fn] = out
		return out
	}
	useBitsB := func(v ssa.Value, use ssa.Instruction) uint {
		fn := use.Parent()
		if fn == nil || !inPkg(fn, c, "torrent") {
			return 0
		}
		for _, g := range prefixGuards(fn) {
			if g.x == v && g.fl.Before(use) {
				return bitPrefix
			}
		}
		return 0
	}
	isTarField := map[*types.Var]bool{}
	{
		st := tarHeader.Underlying().(*types.Struct)
		for i := 0; i < st.NumFields(); i++ {
			if isStr(st.Field(i).Type()) {
				isTarField[st.Field(i)] = true
			}
		}
	}
	tB := c.RunTaint(kit.TaintCfg{
		Source: func(ld ssa.Value, f *types.Var) (string, bool) {
			if isTarField[f] {
				return "tar.Header." + f.Name(), true
			}
			return "", false
		},
		UseBits: useBitsB,
	})
	if os.Getenv("RAINLINT_TAINT") != "" {
		for e := range tA.Escapes {
			fmt.Fprintln(os.Stderr, "taint A escape:", e)
		}
		for e := range tB.Escapes {
			fmt.Fprintln(os.Stderr, "taint B escape:", e)
		}
	}

	// ---- R07.1 sink 1: File.Path
	{
		n := 0
		for _, st := range fieldStores(c, fFilePath) {
			n++
			key := k.key(st.Fn, "store File.Path")
			s := tA.Of(st.Val)
			switch {
			case !inPkg(st.Fn, c, "internal/metainfo"):
				c.Bad("R07.1", key, posOf(st.Store), "metainfo.File.Path written outside package metainfo: the allocator opens whatever is stored there")
			case s == nil:
				c.Bad("R07.1", key, posOf(st.Store), "File.Path = %s is not derived from the decoded names: expected the sanitised join of name and path components", kit.Canon(st.Val))
			case s.Bits&(bitDot|bitSep) == bitDot|bitSep:
				c.OK("R07.1", key, posOf(st.Store), "every decoded component of File.Path passed the dot-dot test and cleanName")
			default:
				c.Bad("R07.1", key, posOf(st.Store), "File.Path (opened by the allocator under the storage root) receives %s that passed only {%s}; missing {%s}. Flow: %s",
					s.Src, bitNames(s.Bits), bitNames((bitDot|bitSep)&^s.Bits), tA.Chain(st.Val))
			}
		}
		c.Floor("R07.1", "stores into File.Path", n, 2)
	}

	// ---- R07.4 inventory + R07.1/R07.2 sink 2: path-taking library calls
	frozen := map[string]bool{
		"internal/storage/filestorage:(*FileStorage).Open": true,
		"torrent:readData":                     true,
		"torrent:writeFile":                    true,
		"torrent:(*Torrent).generateTar":       true,
		"torrent:NewSession":                   true,
		"torrent:(*Session).stopAndRemoveData": true,
		"torrent:crash":                        true,
		"internal/metainfo:NewInfoBytes":       true,
		"internal/metainfo:findTotalLength":    true,
	}
	{
		type site struct {
			fn   *ssa.Function
			ins  ssa.CallInstruction
			obj  *types.Func
			args []int
		}
		var sites []site
		for _, fn := range c.ModuleFunctions() {
			pp := strings.TrimPrefix(kit.FnPkgPath(fn), kit.ModPath)
			pp = strings.TrimPrefix(pp, "/")
			if pp == "" || strings.HasPrefix(pp, "internal/command") || strings.HasPrefix(pp, "internal/console") {
				continue
			}
			kit.Instrs(fn, func(ins ssa.Instruction) {
				ci, ok := ins.(ssa.CallInstruction)
				if !ok {
					return
				}
				o := kit.CalleeObj(ci.Common())
				if a := pathArgs(o); a != nil {
					sites = append(sites, site{fn, ci, o, a})
				}
			})
		}
		sort.SliceStable(sites, func(i, j int) bool { return sites[i].ins.Pos() < sites[j].ins.Pos() })
		members := map[string]bool{}
		for _, s := range sites {
			top := s.fn
			for top.Parent() != nil {
				top = top.Parent()
			}
			name := kit.FuncName(top)
			members[name] = true
			callee := s.obj.Pkg().Name() + "." + s.obj.Name()
			for _, ai := range s.args {
				arg := s.ins.Common().Args[ai]
				key := k.key(s.fn, "path argument of "+callee)
				sa, sb := tA.Of(arg), tB.Of(arg)
				switch {
				case sa != nil && sa.Bits&(bitDot|bitSep) != bitDot|bitSep:
					c.Bad("R07.1", key, posOf(s.ins), "%s receives a path built from %s that passed only {%s}; missing {%s}: a crafted name addresses a location outside the torrent's directory. Flow: %s",
						callee, sa.Src, bitNames(sa.Bits), bitNames((bitDot|bitSep)&^sa.Bits), tA.Chain(arg))
				case sb != nil && sb.Bits&bitPrefix == 0:
					c.Bad("R07.2", key, posOf(s.ins), "%s receives a path built from %s without the fact strings.HasPrefix(filepath.Join(dir, name), dir+separator)==true with dir cleaned: an archive entry is written outside the destination directory (sibling-prefix or dot-dot escape). Flow: %s",
						callee, sb.Src, tB.Chain(arg))
				case sa != nil:
					c.OK("R07.1", key, posOf(s.ins), "path derived from %s passed the dot-dot test and cleanName", sa.Src)
				case sb != nil:
					c.OK("R07.2", key, posOf(s.ins), "path derived from %s only under HasPrefix(Join(dir, name), dir+separator) with dir = filepath.Clean(_)", sb.Src)
				case frozen[name]:
					c.Present("R07.4", key, posOf(s.ins), "inventory member %s; path not reachable from decoded names or tar entry names", name)
				case len(tA.Escapes)+len(tB.Escapes) > 0:
					c.Unknown("R07.4", key, posOf(s.ins), "new path-taking call in %s and the taint engine met constructs it does not model; confirm the path argument by hand", name)
				default:
					c.OK("R07.4", key, posOf(s.ins), "new inventory member %s: K6 shows the path argument unreachable from decoded names and tar entry names", name)
				}
			}
		}
		c.Floor("R07.4", "library functions calling path-taking os/filepath functions", len(members), 8)
		for name := range frozen {
			if !members[name] {
				// a member that disappeared is fine for the property; keep the list honest
				c.Present("R07.4", "inventory/"+name+" (no longer a member)", token.NoPos, "listed member has no path-taking call any more")
			}
		}
	}

	// ---- R07.2 floor: the tar taint really reaches the extraction sinks
	{
		readData := c.Func("torrent", "readData")
		n := 0
		for _, fn := range []*ssa.Function{readData, c.Func("torrent", "writeFile")} {
			kit.Instrs(fn, func(ins ssa.Instruction) {
				ci, ok := ins.(ssa.CallInstruction)
				if !ok {
					return
				}
				for _, ai := range pathArgs(kit.CalleeObj(ci.Common())) {
					if tB.Of(ci.Common().Args[ai]) != nil {
						n++
					}
				}
			})
		}
		c.Floor("R07.2", "extraction calls reached by tar entry names", n, 2)
	}

	// ---- R07.3 duplicates
	{
		fileT := c.Named("internal/metainfo", "File")
		isFileSlice := func(t types.Type) bool {
			sl, ok := t.Underlying().(*types.Slice)
			return ok && derefNamed(sl.Elem()) == fileT
		}
		n := 0
		for _, st := range fieldStores(c, fFilePath) {
			// wherever the File list is built (NewInfo or a helper of it)
			fn := st.Fn
			if !inMetainfo(fn) {
				continue // reported by R07.1
			}
			// the multi-file store: the same literal's Padding is not constant false
			fa := st.Store.Addr.(*ssa.FieldAddr)
			var padVal ssa.Value
			kit.Instrs(fn, func(ins ssa.Instruction) {
				if s2, ok := ins.(*ssa.Store); ok {
					if fa2, ok := s2.Addr.(*ssa.FieldAddr); ok && fa2.X == fa.X && kit.Canon(fa2).Field == fFilePadding {
						padVal = s2.Val
					}
				}
			})
			// single-file literal: exactly one file, nothing to compare
			inLoop := false
			var files *kit.RangeLoop
			kit.Instrs(fn, func(ins ssa.Instruction) {
				s2, ok := ins.(*ssa.Store)
				if !ok || s2.Block() != st.Store.Block() {
					return
				}
				if ia, ok := s2.Addr.(*ssa.IndexAddr); ok && (kit.Canon(ia.X).IsField(fInfoFiles) || isFileSlice(ia.X.Type())) {
					if l := kit.RangeLoopOf(ia.Index); l != nil {
						inLoop, files = true, l
					}
				}
			})
			if !inLoop {
				c.Present("R07.3", k.key(fn, "single file"), posOf(st.Store), "single-file torrent: one File, no duplicate possible")
				continue
			}
			n++
			key := k.key(fn, "store non-padding File into Files[j]")
			p := st.Val
			pIns, _ := p.(ssa.Instruction)
			var theMap ssa.Value
			absent := c.AtomFlow(fn, func(a kit.Atom) bool {
				return a.IsFalse(func(e *kit.Expr) bool {
					if e.Kind == "extract" && e.Idx == 1 && e.Args[0].Kind == "lookup" && e.Args[0].Args[1].V == p {
						theMap = e.Args[0].Args[0].V
						return true
					}
					return false
				})
			}, func(ins ssa.Instruction) bool { return ins == pIns })
			fl := &kit.Flow{P: c.Prog, Fn: fn}
			fl.Edge = func(a kit.Atom) bool {
				return padVal != nil && a.IsTrue(func(e *kit.Expr) bool { return e.V == padVal })
			}
			fl.Instr = func(ins ssa.Instruction, in bool) bool {
				if ins == pIns {
					return false
				}
				if mu, ok := ins.(*ssa.MapUpdate); ok && mu.Key == p && absent.Before(ins) && theMap != nil && mu.Map == theMap {
					return true
				}
				return in
			}
			fl.Solve()
			okMap := false
			if mk, ok := theMap.(*ssa.MakeMap); ok {
				okMap = !files.Header.Dominates(mk.Block())
			}
			switch {
			case !fl.Before(st.Store):
				c.Bad("R07.3", key, posOf(st.Store), "a non-padding File is stored with path %s without 'absent from the duplicate map and inserted under the same key' on every path: two files of one torrent can resolve to the same path", kit.Canon(p))
			case theMap != nil && !okMap:
				c.Bad("R07.3", key, posOf(st.Store), "the duplicate map is created inside the loop: it is empty for every file")
			default:
				c.OK("R07.3", key, posOf(st.Store), "padding, or joinedPath absent from the map and inserted under the same key; map created before the loop")
			}
			// the compared key is canonical: storage folds 'a/./b', 'a//b' and 'a/b' together
			// (filepath.Clean in FileStorage.Open), so the duplicate test must compare cleaned paths
			canonical := func(e *kit.Expr) bool {
				return e.Kind == "call" && e.Fn != nil && kit.FnPkgPath(e.Fn) == "path/filepath" && (e.Fn.Name() == "Join" || e.Fn.Name() == "Clean")
			}
			pe := kit.Canon(p)
			okKey := canonical(pe)
			if !okKey && pe.Kind == "call" && pe.Fn != nil && kit.InModule(kit.FnPkgPath(pe.Fn)) {
				rs := returnsOf(pe.Fn)
				okKey = len(rs) > 0
				for _, r := range rs {
					if len(r.Results) == 0 || !canonical(kit.Canon(r.Results[0])) {
						okKey = false
					}
				}
			}
			c.Check(okKey, "R07.3", k.key(fn, "duplicate key is a cleaned path"), posOf(st.Store),
				"the path compared by the duplicate test is the result of filepath.Join / filepath.Clean",
				"the path stored and compared by the duplicate test ("+pe.String()+") is not produced by filepath.Join / filepath.Clean: 'd/a', 'd/./a' and 'd//a' are different strings for the test but the same file for the storage (filepath.Clean in Open), so two files of one torrent can resolve to the same path")
		}
		c.Floor("R07.3", "multi-file File stores", n, 1)
	}
	_ = fInfoName
}

// isSlashReplaceAll: strings.ReplaceAll(<param>, "/", r) with a replacement that is neither empty
// nor contains a separator or a dot.
func isSlashReplaceAll(e *kit.Expr) bool {
	if e == nil || e.Kind != "call" || e.Fn == nil || kit.FnPkgPath(e.Fn) != "strings" || e.Fn.Name() != "ReplaceAll" || len(e.Args) != 3 {
		return false
	}
	if e.Args[0].Kind != "param" {
		return false
	}
	old, ok1 := constString(e.Args[1])
	repl, ok2 := constString(e.Args[2])
	return ok1 && ok2 && old == "/" && repl != "" && !strings.ContainsAny(repl, "/\\.")
}

// Package rules holds one file per property; each rule is a kit template
// instantiated with program objects resolved from rain itself.
package rules

import (
	"sort"

	"rainverif/checker/kit"
)

// Property describes the static check of one property.
type Property struct {
	ID          string
	Explanation string // clause decided and what is not decided
	RuleText    string // how obligations are enumerated / what is non-trivial
	Assumptions []string
	Run         func(c *kit.Ctx)
	// ArchSensitive marks properties whose verdict can depend on int width
	// or on build-tagged files, so the thorough tier's extra configurations
	// are meaningful (all properties are run on all configs anyway).
	ArchSensitive bool
}

var registry = map[string]*Property{}

func register(p *Property) { registry[p.ID] = p }

var extras = map[string][]func(c *kit.Ctx){}

// registerExtra adds rules to a property defined in another file (rules that
// were added after independently seeded changes showed a gap).
func registerExtra(id string, fn func(c *kit.Ctx)) { extras[id] = append(extras[id], fn) }

// Get returns the property definition (with its extra rules appended).
func Get(id string) *Property {
	p := registry[id]
	if p == nil || len(extras[id]) == 0 {
		return p
	}
	q := *p
	base := p.Run
	q.Run = func(c *kit.Ctx) {
		base(c)
		for _, f := range extras[id] {
			f(c)
		}
	}
	return &q
}

// IDs lists registered properties.
func IDs() []string {
	var out []string
	for k := range registry {
		out = append(out, k)
	}
	sort.Strings(out)
	return out
}

const commonRuleText = "Obligations are enumerated from the resolved program (go/types objects, go/ssa instructions, VTA call graph): one per (rule, construct) where the construct key names resolved objects (function, field, callee, site ordinal), never lines. An obligation is non-trivial when discharging it needed a path argument (must-fact data-flow over the SSA CFG, must-pass-through, dominance) or a data-flow argument (value origin, table extraction); mere presence/membership tests are counted as trivial. Distinct = distinct (rule,key)."

var commonAssumptions = []string{
	"go/types and go/ssa (x/tools v0.50.0) model the program faithfully; reflection, unsafe and cgo are not used by rain on the analysed paths",
	"call graph: static callees, else VTA seeded with CHA; a dynamic call with no resolved callee is treated as possibly writing any field",
	"facts about struct fields are killed by any store to the same field object whatever the base pointer (alias-sound by type) and by calls whose transitive mod-set contains the field",
	"test files are excluded (Tests=false); build configuration(s) listed in coverage.configs",
}

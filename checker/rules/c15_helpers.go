package rules

import (
	"go/token"
	"go/types"
	"strings"

	"golang.org/x/tools/go/ssa"

	"rainverif/checker/kit"
)

// ---- uses of the memory of a field (K1 writers table) --------------------

// c15AddrUse is one use of an address that points into the memory of a struct
// field: the field address itself, or a sub-slice / element address derived
// from it.
type c15AddrUse struct {
	Ins     ssa.Instruction
	Kind    string // load, store, elemstore, writer, reader, escape
	Derived bool   // through Slice / IndexAddr
	What    string // callee or reason
}

// c15AddrUses classifies every use of the address v (transitively through
// Slice, IndexAddr and Phi).
func c15AddrUses(v ssa.Value) []c15AddrUse {
	var out []c15AddrUse
	seen := map[ssa.Value]bool{}
	var walk func(v ssa.Value, derived bool)
	walk = func(v ssa.Value, derived bool) {
		if seen[v] || v.Referrers() == nil {
			return
		}
		seen[v] = true
		for _, r := range *v.Referrers() {
			switch x := r.(type) {
			case *ssa.DebugRef:
			case *ssa.UnOp:
				if x.Op == token.MUL {
					out = append(out, c15AddrUse{x, "load", derived, ""})
				}
			case *ssa.Store:
				switch {
				case x.Addr == v && !derived:
					out = append(out, c15AddrUse{x, "store", false, ""})
				case x.Addr == v:
					out = append(out, c15AddrUse{x, "elemstore", true, "element store"})
				default:
					out = append(out, c15AddrUse{x, "escape", derived, "address stored"})
				}
			case *ssa.Slice:
				walk(x, true)
			case *ssa.IndexAddr:
				if x.X == v {
					walk(x, true)
				}
			case *ssa.FieldAddr:
				walk(x, true)
			case *ssa.Phi:
				walk(x, derived)
			case *ssa.ChangeType:
				walk(x, derived)
			case *ssa.Convert:
				// []byte -> string copies
				out = append(out, c15AddrUse{x, "load", derived, "conversion"})
			case *ssa.BinOp, *ssa.If:
				// pointer comparison
			case *ssa.Range, *ssa.Index, *ssa.Lookup:
				out = append(out, c15AddrUse{r, "load", derived, ""})
			case ssa.CallInstruction:
				cc := x.Common()
				n := len(cc.Args)
				if cc.IsInvoke() {
					n++
				}
				for i := 0; i < n; i++ {
					if argOf(cc, i) != v {
						continue
					}
					kind, what := c15ByteArgRole(cc, i)
					out = append(out, c15AddrUse{x, kind, derived, what})
				}
				if !cc.IsInvoke() && cc.Value == v {
					out = append(out, c15AddrUse{x, "escape", derived, "called"})
				}
			default:
				out = append(out, c15AddrUse{r, "escape", derived, "address escapes"})
			}
		}
	}
	walk(v, false)
	return out
}

// c15CalleeName renders the callee of a call as "pkg.Func", "pkg.T.Method"
// or the builtin name.
func c15CalleeName(cc *ssa.CallCommon) string {
	if b, ok := cc.Value.(*ssa.Builtin); ok {
		return b.Name()
	}
	o := kit.CalleeObj(cc)
	if o == nil || o.Pkg() == nil {
		return ""
	}
	name := o.Pkg().Path() + "."
	if sig, ok := o.Type().(*types.Signature); ok && sig.Recv() != nil {
		t := sig.Recv().Type()
		if p, ok := t.(*types.Pointer); ok {
			t = p.Elem()
		}
		if n, ok := t.(*types.Named); ok {
			name += n.Obj().Name() + "."
		}
	}
	return name + o.Name()
}

// c15ByteArgRole is the writers / readers table: the role of argument i
// (receiver = 0) of a call that receives a byte slice or pointer.
func c15ByteArgRole(cc *ssa.CallCommon, i int) (kind, what string) {
	name := c15CalleeName(cc)
	w := func() (string, string) { return "writer", name }
	r := func() (string, string) { return "reader", name }
	switch name {
	case "copy":
		if i == 0 {
			return w()
		}
		return r()
	case "clear":
		return w()
	case "append":
		if i == 0 {
			return w() // may write within capacity
		}
		return r()
	case "len", "cap", "print", "println", "min", "max":
		return r()
	case "io.ReadFull", "io.ReadAtLeast":
		if i == 1 {
			return w()
		}
	case "io.Reader.Read", "bufio.Reader.Read", "bytes.Buffer.Read", "bytes.Reader.Read", "net.Conn.Read", "os.File.Read":
		if i == 1 {
			return w()
		}
	case "crypto/rand.Read", "math/rand.Read", "math/rand/v2.Read":
		return w()
	case "encoding/hex.Decode", "encoding/hex.Encode":
		if i == 0 {
			return w()
		}
		return r()
	case "encoding/binary.Read", "encoding/binary.Decode":
		if i == 2 {
			return w()
		}
		return r()
	case "encoding/binary.Write", "encoding/binary.Encode", "encoding/binary.Append":
		if name != "encoding/binary.Write" && i == 0 {
			return w()
		}
		return r()
	case "encoding/hex.EncodeToString", "bytes.Equal", "bytes.Compare", "bytes.HasPrefix", "bytes.HasSuffix", "bytes.Contains",
		"io.Writer.Write", "bytes.Buffer.Write", "strings.Builder.Write", "hash.Hash.Write", "crypto/sha1.Sum", "bufio.Writer.Write", "net.Conn.Write":
		return r()
	}
	if strings.HasPrefix(name, "encoding/binary.") {
		m := name[strings.LastIndex(name, ".")+1:]
		switch {
		case strings.HasPrefix(m, "PutUint") || strings.HasPrefix(m, "AppendUint") || strings.HasPrefix(m, "PutVarint") || strings.HasPrefix(m, "PutUvarint"):
			if i == 1 || (i == 0 && !strings.Contains(name, "ndian.") && !strings.Contains(name, "ByteOrder.")) {
				return w()
			}
		case strings.HasPrefix(m, "Uint") || strings.HasPrefix(m, "Varint") || strings.HasPrefix(m, "Uvarint"):
			return r()
		}
	}
	if name == "" {
		name = "dynamic call"
	}
	return "escape", "passed to " + name
}

// ---- small SSA helpers ----------------------------------------------------

// c15AllocRoot follows FieldAddr / IndexAddr chains to the root of an
// address; returns the *ssa.Alloc if the address points into a local of the
// enclosing function.
func c15AllocRoot(addr ssa.Value) *ssa.Alloc {
	for {
		switch x := addr.(type) {
		case *ssa.FieldAddr:
			addr = x.X
		case *ssa.IndexAddr:
			addr = x.X
		case *ssa.Alloc:
			return x
		default:
			return nil
		}
	}
}

// c15StructOf returns the named struct type a FieldAddr selects from.
func c15StructOf(fa *ssa.FieldAddr) (*types.Named, *types.Var) {
	t := fa.X.Type()
	if p, ok := t.Underlying().(*types.Pointer); ok {
		t = p.Elem()
	}
	n, _ := t.(*types.Named)
	st, _ := t.Underlying().(*types.Struct)
	if st == nil {
		return n, nil
	}
	return n, st.Field(fa.Field)
}

// c15ParamIndex resolves a parameter of fn by name (receiver = index 0 for
// methods, as in ssa.Function.Params). Returns -1 when absent.
func c15ParamIndex(fn *ssa.Function, name string) int {
	for i, p := range fn.Params {
		if p.Name() == name {
			return i
		}
	}
	return -1
}

// c15IsParam reports whether v is the value of parameter idx of fn: the
// parameter itself, or a load of the local it was spilled to (go/ssa spills
// parameters that are captured or whose address is taken) provided every
// store to that local stores the parameter.
func c15IsParam(v ssa.Value, fn *ssa.Function, idx int) bool {
	if idx < 0 || idx >= len(fn.Params) {
		return false
	}
	p := fn.Params[idx]
	for {
		switch x := v.(type) {
		case *ssa.ChangeType:
			v = x.X
			continue
		case *ssa.MakeInterface:
			v = x.X
			continue
		}
		break
	}
	if v == ssa.Value(p) {
		return true
	}
	u, ok := v.(*ssa.UnOp)
	if !ok || u.Op != token.MUL {
		return false
	}
	a, ok := u.X.(*ssa.Alloc)
	if !ok || a.Parent() != fn {
		return false
	}
	if c15AllocIsParam(a, fn, idx) {
		return true
	}
	// flow-sensitive: the local still holds the parameter at this load (the
	// variable may be re-assigned later, e.g. `peerID` in the handshakers).
	if a.Referrers() != nil {
		for _, r := range *a.Referrers() {
			if _, isClosure := r.(*ssa.MakeClosure); isClosure {
				return false
			}
		}
	}
	fl := &kit.Flow{Fn: fn}
	fl.Instr = func(ins ssa.Instruction, in bool) bool {
		if st, ok := ins.(*ssa.Store); ok && st.Addr == ssa.Value(a) {
			return st.Val == ssa.Value(p)
		}
		if in && storesInto(ins, a) {
			return false
		}
		return in
	}
	return fl.Solve().Before(u)
}

// c15AllocIsParam reports whether local a is the spill slot of parameter idx
// of fn and is never modified.
func c15AllocIsParam(a *ssa.Alloc, fn *ssa.Function, idx int) bool {
	if idx < 0 || idx >= len(fn.Params) || a.Parent() != fn {
		return false
	}
	p := fn.Params[idx]
	return c15OnlyStores(a, func(val ssa.Value) bool { return val == ssa.Value(p) })
}

// c15OnlyStores reports whether local a is written only by whole-value
// stores whose value satisfies ok (and at least one such store exists); a
// field/element store, or passing its address to a call, disqualifies it.
// Closures that capture the variable must not store to it.
func c15OnlyStores(a *ssa.Alloc, ok func(ssa.Value) bool) bool {
	if a.Referrers() == nil {
		return false
	}
	n := 0
	for _, r := range *a.Referrers() {
		switch x := r.(type) {
		case *ssa.Store:
			if x.Addr != ssa.Value(a) || !ok(x.Val) {
				return false
			}
			n++
		case *ssa.UnOp, *ssa.DebugRef:
		case *ssa.FieldAddr:
			for _, u := range c15AddrUses(x) {
				if u.Kind != "load" && u.Kind != "reader" {
					return false
				}
			}
		case *ssa.MakeClosure:
			fn, _ := x.Fn.(*ssa.Function)
			if fn == nil {
				return false
			}
			for i, b := range x.Bindings {
				if b != ssa.Value(a) || i >= len(fn.FreeVars) {
					continue
				}
				for _, u := range c15AddrUses(fn.FreeVars[i]) {
					if u.Kind != "load" && u.Kind != "reader" {
						return false
					}
				}
			}
		default:
			return false
		}
	}
	return n > 0
}

// c15Loaded strips a load of a local: for `*alloc` returns the values stored
// into the alloc by whole-value stores (nil when it is not such a load).
func c15StoresOfLocal(v ssa.Value) (*ssa.Alloc, []*ssa.Store) {
	u, ok := v.(*ssa.UnOp)
	if !ok || u.Op != token.MUL {
		return nil, nil
	}
	a, ok := u.X.(*ssa.Alloc)
	if !ok || a.Referrers() == nil {
		return nil, nil
	}
	var out []*ssa.Store
	for _, r := range *a.Referrers() {
		if st, ok := r.(*ssa.Store); ok && st.Addr == ssa.Value(a) {
			out = append(out, st)
		}
	}
	return a, out
}

// c15FieldStoresIn lists the stores into field f of the local a (composite
// literal or assignments).
func c15FieldStoresIn(a *ssa.Alloc, f *types.Var) []*ssa.Store {
	var out []*ssa.Store
	if a.Referrers() == nil {
		return nil
	}
	for _, r := range *a.Referrers() {
		fa, ok := r.(*ssa.FieldAddr)
		if !ok {
			continue
		}
		if _, g := c15StructOf(fa); g != f || fa.Referrers() == nil {
			continue
		}
		for _, r2 := range *fa.Referrers() {
			if st, ok := r2.(*ssa.Store); ok && st.Addr == ssa.Value(fa) {
				out = append(out, st)
			}
		}
	}
	return out
}

// c15BoundMethod returns the method a bound-method closure (`x.M` used as a
// value) or a plain function value refers to.
func c15BoundMethod(v ssa.Value) *types.Func {
	for {
		switch x := v.(type) {
		case *ssa.ChangeType:
			v = x.X
			continue
		case *ssa.MakeClosure:
			fn, _ := x.Fn.(*ssa.Function)
			if fn == nil {
				return nil
			}
			if fn.Synthetic == "" {
				o, _ := fn.Object().(*types.Func)
				return o
			}
			var res *types.Func
			kit.Instrs(fn, func(ins ssa.Instruction) {
				if cc := kit.CallOf(ins); cc != nil {
					if o := kit.CalleeObj(cc); o != nil {
						res = o
					}
				}
			})
			return res
		case *ssa.Function:
			o, _ := x.Object().(*types.Func)
			return o
		}
		return nil
	}
}

// c15SelectArm describes the arm `case <-x.f` of a select.
type c15SelectArm struct {
	Sel *ssa.Select
	Idx int
}

// c15RecvArms finds the receive states on channel field f in the selects of
// fn.
func c15RecvArms(fn *ssa.Function, f *types.Var) []c15SelectArm {
	var out []c15SelectArm
	kit.Instrs(fn, func(ins ssa.Instruction) {
		sel, ok := ins.(*ssa.Select)
		if !ok {
			return
		}
		for i, st := range sel.States {
			if st.Dir == types.RecvOnly && kit.Canon(st.Chan).IsField(f) {
				out = append(out, c15SelectArm{sel, i})
			}
		}
	})
	return out
}

// c15ArmFlow is the must-fact "control is inside the given select arm":
// generated on the edge `index == k` of that select, cleared when any select
// executes again.
func c15ArmFlow(c *kit.Ctx, fn *ssa.Function, arms []c15SelectArm) *kit.Flow {
	isIdx := func(e *kit.Expr, want int64, r *kit.Expr) bool {
		if e.Kind != "extract" || e.Idx != 0 {
			return false
		}
		n, ok := r.IntConst()
		if !ok || n != want {
			return false
		}
		for _, a := range arms {
			if e.Args[0].V == ssa.Value(a.Sel) && int64(a.Idx) == want {
				return true
			}
		}
		return false
	}
	fl := &kit.Flow{P: c.Prog, Fn: fn}
	fl.Edge = func(a kit.Atom) bool {
		if a.Op != token.EQL {
			return false
		}
		n, ok := a.R.IntConst()
		return ok && isIdx(a.L, n, a.R)
	}
	fl.Instr = func(ins ssa.Instruction, in bool) bool {
		if _, ok := ins.(*ssa.Select); ok {
			return false
		}
		return in
	}
	return fl.Solve()
}

// c15Positive reports whether atom a says "L > 0" (or ">= k", k>0) for L
// matched by pred.
func c15Positive(a kit.Atom, pred func(*kit.Expr) bool) bool {
	n, ok := a.R.IntConst()
	if !ok || !pred(a.L.Strip()) {
		return false
	}
	switch a.Op {
	case token.GTR:
		return n >= 0
	case token.GEQ:
		return n >= 1
	}
	return false
}

package rules

import (
	"fmt"
	"go/token"
	"go/types"
	"sort"
	"strings"

	"golang.org/x/tools/go/ssa"

	"rainverif/checker/kit"
)

func init() {
	register(&Property{
		ID:          "C08",
		Explanation: "Decides the structure that keeps untrusted peer input inside bounds: (R08.1) every allocation / discard in the peer reader whose size comes from the wire length prefix is dominated by an upper bound against PeerReader.maxMsgSize (or the block-size constant, established after the uint32 `length -= 8`), maxMsgSize is wired from Config.MaxMetadataSize through every constructor, and the metadata assembly buffer is allocated only by infodownloader.New whose every call site is under ExtensionHandshake != nil and 0 != MetadataSize <= MaxMetadataSize; (R08.2) every dynamic type the reader / writer can put on the message channel (incl. extension payloads and the messages queued before metadata) has an arm in handlePeerMessage or is routed to the piece channel, so the crashing default arm is unreachable; (R08.3) every peer-chosen integer (message index/begin/length/piece fields) that reaches a slice index, slice bound, panicking range check or a callee that indexes with it is preceded by an upper-bound fact against a length / piece count (or a membership test in a trusted table), the sizes those bounds refer to agree by construction (pieces, picker table, peer bitfield = NumPieces; bitfield bytes = NumBytes(length)); (R08.4) no operation that adds a peer to shared state (picker sets, downloader maps, write-cache request, unchoker, PEX) is reachable on a peer that a preceding call may have closed without a re-check of pe.Closed; (R08.5) request/reply rendezvous cannot drop the reply. NOT decided: absence of panics for all streams (third-party bencode decoder, picker consistency panics reachable through state: C09), arithmetic wrap after a leaf bound, fairness between peers.",
		RuleText:    commonRuleText,
		Assumptions: append(append([]string{}, commonAssumptions...), "a peer obtained from ranging over torrent.peers, from a constructor or received from a channel is open at that point (closePeer removes the peer from torrent.peers and joins its goroutine)", "a call that may reach closePeer is assumed to close every peer value in scope (alias-sound); the fact is re-established only by a branch on pe.Closed or a fresh definition of the value"),
		Run:         runC08,
	})
}

func runC08(c *kit.Ctx) {
	k := newKeyer()
	runC08Alloc(c, k)
	runC08Dispatch(c, k)
	runC08Bounds(c, k)
	runC08Closed(c, k)
	runRendezvous(c, k, "R08.5")
}

// ---- R08.1 wire lengths bound allocations ---------------------------------

type c08AllocSite struct {
	fn   *ssa.Function
	ins  ssa.Instruction
	size ssa.Value
	what string
}

func c08AllocSites(c *kit.Ctx, pkg string) []c08AllocSite {
	var out []c08AllocSite
	for _, fn := range c.ModuleFunctions() {
		if !inPkg(fn, c, pkg) {
			continue
		}
		kit.Instrs(fn, func(ins ssa.Instruction) {
			switch x := ins.(type) {
			case *ssa.MakeSlice:
				out = append(out, c08AllocSite{fn, ins, x.Len, "make"})
				if x.Cap != x.Len {
					out = append(out, c08AllocSite{fn, ins, x.Cap, "make(cap)"})
				}
			case ssa.CallInstruction:
				cc := x.Common()
				f := cc.StaticCallee()
				if f == nil {
					return
				}
				switch {
				case f.Name() == "Get" && strings.HasSuffix(kit.FnPkgPath(f), "internal/bufferpool"):
					out = append(out, c08AllocSite{fn, ins, argOf(cc, 1), "bufferpool.Get"})
				case f.Name() == "CopyN" && kit.FnPkgPath(f) == "io":
					out = append(out, c08AllocSite{fn, ins, cc.Args[2], "io.CopyN"})
				}
			}
		})
	}
	return out
}

func runC08Alloc(c *kit.Ctx, k *keyer) {
	const rpkg = "internal/peerconn/peerreader"
	c.Func(rpkg, "(*PeerReader).Run") // anchor
	fMax := c.Field(rpkg, "PeerReader", "maxMsgSize")
	fCfgMax := c.Field("torrent", "Config", "MaxMetadataSize")
	blockSize := constIntOf(c, "internal/piece", "BlockSize")

	isCap := func(e *kit.Expr) (string, bool) {
		e = e.Strip()
		if e.IsField(fMax) {
			return "PeerReader.maxMsgSize", true
		}
		if n, ok := e.IntConst(); ok && n <= blockSize {
			return fmt.Sprintf("%d", n), true
		}
		return "", false
	}
	var sizeOK func(fn *ssa.Function, at ssa.Instruction, size ssa.Value, depth int) (string, bool)
	sizeOK = func(fn *ssa.Function, at ssa.Instruction, size ssa.Value, depth int) (string, bool) {
		e := kit.Canon(size).Strip()
		if n, ok := e.IntConst(); ok {
			return fmt.Sprintf("constant %d", n), true
		}
		subj := e.String()
		root := exprRoot(e)
		for _, wantField := range []bool{true, false} {
			bound := ""
			fl := c.AtomFlow(fn, func(a kit.Atom) bool {
				ok, _ := a.UpperBound(func(x *kit.Expr) bool { return x.Strip().String() == subj }, func(y *kit.Expr) bool {
					b, ok := isCap(y)
					if ok && (b == "PeerReader.maxMsgSize") == wantField {
						bound = b
						return true
					}
					return false
				})
				return ok
			}, func(ins ssa.Instruction) bool { return storesInto(ins, root) })
			if fl.Before(at) {
				return subj + " <= " + bound + " on every path, no later store to it", true
			}
		}
		if p, ok := root.(*ssa.Parameter); ok && e.Kind == "param" && depth < 3 {
			obj, _ := fn.Object().(*types.Func)
			idx := paramIndex(p)
			if obj == nil || idx < 0 || len(c.FuncRefs(obj)) > 0 {
				return "size is a parameter of a function whose callers cannot be enumerated", false
			}
			sites := c.CallSites(obj)
			if len(sites) == 0 {
				return "size is a parameter of a function without callers", false
			}
			var whys []string
			for _, s := range sites {
				w, ok := sizeOK(s.Fn, s.Instr, argOf(s.Instr.Common(), idx), depth+1)
				if !ok {
					return fmt.Sprintf("caller %s: %s", kit.FuncName(s.Fn), w), false
				}
				whys = append(whys, kit.FuncName(s.Fn)+": "+w)
			}
			return "parameter bounded at every call site (" + strings.Join(whys, "; ") + ")", true
		}
		return fmt.Sprintf("size %s derives from the wire and has no upper bound against maxMsgSize (or a constant <= %d) on every path before the allocation", subj, blockSize), false
	}

	n := 0
	for _, s := range c08AllocSites(c, rpkg) {
		if _, isConst := kit.Canon(s.size).Strip().IntConst(); isConst {
			continue
		}
		n++
		key := k.key(s.fn, s.what)
		why, ok := sizeOK(s.fn, s.ins, s.size, 0)
		if ok {
			c.OK("R08.1", key, posOf(s.ins), "%s", why)
		} else {
			c.Bad("R08.1", key, posOf(s.ins), "%s: an untrusted peer chooses how much memory / input one message consumes", why)
		}
	}
	c.Floor("R08.1", "wire-sized allocation sites in the peer reader", n, 4)

	// maxMsgSize is set once, from Config.MaxMetadataSize through every constructor
	{
		rnew := c.Func(rpkg, "New")
		sts := fieldStores(c, fMax)
		for _, st := range sts {
			key := k.key(st.Fn, "store PeerReader.maxMsgSize")
			if st.Fn != rnew {
				c.Bad("R08.1", key, posOf(st.Store), "maxMsgSize re-assigned outside the constructor")
				continue
			}
			leaves, ok := originLeaves(c, st.Val, 0)
			if !ok || len(leaves) == 0 {
				c.Bad("R08.1", key, posOf(st.Store), "origin of maxMsgSize cannot be followed to the configuration through all constructors")
				continue
			}
			bad := ""
			for _, l := range leaves {
				if !l.IsField(fCfgMax) {
					bad = l.String()
				}
			}
			if bad != "" {
				c.Bad("R08.1", key, posOf(st.Store), "maxMsgSize is wired from %s, not from Config.MaxMetadataSize", bad)
			} else {
				c.OK("R08.1", key, posOf(st.Store), "maxMsgSize originates from Config.MaxMetadataSize at every constructor chain (%d leaf sites)", len(leaves))
			}
		}
		c.Floor("R08.1", "stores to PeerReader.maxMsgSize", len(sts), 1)
	}

	// metadata assembly buffer
	{
		const ipkg = "internal/infodownloader"
		idNew := c.Func(ipkg, "New")
		idNewObj := c.FuncObj(ipkg, "New")
		fEH := c.Field("internal/peer", "Peer", "ExtensionHandshake")
		fMS := c.Field("internal/peerprotocol", "ExtensionHandshakeMessage", "MetadataSize")
		msFn := c.Func("internal/peer", "(*Peer).MetadataSize")
		// the size the downloader allocates is the handshake field
		okMS := true
		for _, r := range returnsOf(msFn) {
			if len(r.Results) != 1 || !kit.Canon(r.Results[0]).Strip().IsField(fMS) {
				okMS = false
			}
		}
		c.Check(okMS, "R08.1", "peer.MetadataSize/is-handshake-field", msFn.Pos(),
			"(*Peer).MetadataSize returns ExtensionHandshake.MetadataSize (the value the cap is tested on)", "(*Peer).MetadataSize no longer returns the handshake field the cap is tested on")
		na := 0
		for _, s := range c08AllocSites(c, ipkg) {
			if _, isConst := kit.Canon(s.size).Strip().IntConst(); isConst {
				continue
			}
			na++
			key := k.key(s.fn, s.what)
			inNew := s.fn == idNew
			if !inNew {
				if obj, _ := s.fn.Object().(*types.Func); obj != nil && len(c.FuncRefs(obj)) == 0 {
					sites := c.CallSites(obj)
					inNew = len(sites) > 0
					for _, cs := range sites {
						if cs.Fn != idNew {
							inNew = false
						}
					}
				}
			}
			if !inNew {
				c.Bad("R08.1", key, posOf(s.ins), "metadata-sized allocation outside infodownloader.New (the only entry guarded by the MaxMetadataSize cap)")
				continue
			}
			se := kit.Canon(s.size)
			if !se.Mentions(func(x *kit.Expr) bool { return x.Kind == "call" && x.Name == "MetadataSize" }) && !se.Mentions(func(x *kit.Expr) bool { return x.Kind == "phi" || x.Kind == "binop" }) {
				c.Bad("R08.1", key, posOf(s.ins), "allocation size %s is not derived from Peer.MetadataSize()", se)
				continue
			}
			c.Present("R08.1", key, posOf(s.ins), "size derives from Peer.MetadataSize(), reachable only through infodownloader.New")
		}
		c.Floor("R08.1", "metadata-sized allocations", na, 1)
		ns := 0
		if len(c.FuncRefs(idNewObj)) > 0 {
			c.Bad("R08.1", "infodownloader.New/func-value", idNew.Pos(), "infodownloader.New escapes as a function value: callers cannot be enumerated")
		}
		for _, s := range sortSites(c.CallSites(idNewObj)) {
			ns++
			key := k.key(s.Fn, "infodownloader.New")
			next := s.Fn
			// function-agnostic facts (keyed on fields), evaluated at the call site
			// including the context of its static callers: the construction may sit
			// in a helper that is called under the guards
			killMS := func(ins ssa.Instruction, in bool) bool {
				if in && (c.KillsField(ins, fMS) || c.KillsField(ins, fEH)) {
					return false
				}
				return in
			}
			hasEH := c.FieldNilSpec(fEH, false, kit.DefaultDeep)
			capOK := &kit.Spec{P: c.Prog, Deep: kit.DefaultDeep, Instr: killMS, Edge: func(a kit.Atom) bool {
				ok, _ := a.UpperBound(func(e *kit.Expr) bool { return e.Strip().IsField(fMS) }, func(e *kit.Expr) bool { return e.Strip().IsField(fCfgMax) })
				return ok
			}}
			nonZero := &kit.Spec{P: c.Prog, Deep: kit.DefaultDeep, Instr: killMS, Edge: func(a kit.Atom) bool {
				z, ok := a.R.IntConst()
				return ok && z == 0 && a.L.Strip().IsField(fMS) && (a.Op == token.NEQ || a.Op == token.GTR)
			}}
			// the peer handed to New is the peer whose handshake was tested
			argV := argOf(s.Instr.Common(), 0)
			arg := kit.Canon(argV).Strip()
			// ... in the function itself, or (the argument being a parameter of a
			// helper) in every static caller about the value passed for it
			var testedIn func(fn *ssa.Function, v ssa.Value, up int) bool
			testedIn = func(fn *ssa.Function, v ssa.Value, up int) bool {
				want := kit.Canon(v).Strip().String()
				found := false
				kit.Instrs(fn, func(ins ssa.Instruction) {
					if v, ok := ins.(ssa.Value); ok {
						e := kit.Canon(v)
						if e.IsField(fMS) && e.Base() != nil && e.Base().IsField(fEH) && e.Base().Base() != nil && e.Base().Base().String() == want {
							found = true
						}
					}
				})
				if found || up <= 0 {
					return found
				}
				p := paramOfRoot(exprRoot(kit.Canon(v).Strip()))
				if p == nil || p.Parent() != fn || kit.Canon(v).Strip().Kind != "param" {
					return false
				}
				sites := c.StaticCallSites(fn)
				if len(sites) == 0 {
					return false
				}
				for _, cs := range sites {
					if cs == nil {
						return false
					}
					a := argOf(kit.CallOf(cs), paramIndex(p))
					if a == nil || !testedIn(cs.Parent(), a, up-1) {
						return false
					}
				}
				return true
			}
			samePeer := testedIn(next, argV, 2)
			switch {
			case !hasEH.Holds(s.Instr, 2):
				c.Bad("R08.1", key, posOf(s.Instr), "peer may have no extension handshake (nil dereference in MetadataSize)")
			case !capOK.Holds(s.Instr, 2):
				c.Bad("R08.1", key, posOf(s.Instr), "infodownloader.New reachable without MetadataSize <= config.MaxMetadataSize: a peer announcing a huge metadata_size makes the client allocate it")
			case !nonZero.Holds(s.Instr, 2):
				c.Bad("R08.1", key, posOf(s.Instr), "infodownloader.New reachable with MetadataSize == 0")
			case !samePeer:
				c.Bad("R08.1", key, posOf(s.Instr), "the peer given to infodownloader.New (%s) is not the peer whose MetadataSize was tested", arg)
			default:
				c.OK("R08.1", key, posOf(s.Instr), "New(%s) under ExtensionHandshake != nil and 0 != MetadataSize <= config.MaxMetadataSize", arg)
			}
		}
		c.Floor("R08.1", "infodownloader.New call sites", ns, 1)
	}
}

// ---- R08.2 dispatch exhaustiveness ----------------------------------------

func runC08Dispatch(c *kit.Ctx, k *keyer) {
	h := c.Func("torrent", "(*torrent).handlePeerMessage")
	fMsg := c.Field("internal/peer", "Message", "Message")
	fQueued := c.Field("internal/peer", "Peer", "Messages")
	// anchors of the chain (resolved so that a rename breaks the check loudly)
	c.Field("internal/peerconn/peerreader", "PeerReader", "messages")
	c.Field("internal/peerconn/peerwriter", "PeerWriter", "messages")

	// T2: arms of the type switch on pm.Message
	arms := map[string]bool{}
	var lastTA *ssa.TypeAssert
	kit.Instrs(h, func(ins ssa.Instruction) {
		if ta, ok := ins.(*ssa.TypeAssert); ok && ta.CommaOk && kit.Canon(ta.X).IsField(fMsg) {
			arms[typeKey(ta.AssertedType)] = true
			lastTA = ta
		}
	})
	c.Floor("R08.2", "arms of the type switch in handlePeerMessage", len(arms), 17)
	// does the default arm crash?
	defaultCrashes := false
	if lastTA != nil {
		for _, ref := range *lastTA.Referrers() {
			ex, ok := ref.(*ssa.Extract)
			if !ok || ex.Index != 1 {
				continue
			}
			for _, r2 := range *ex.Referrers() {
				if ifi, ok := r2.(*ssa.If); ok {
					def := ifi.Block().Succs[1]
					seen := map[*ssa.BasicBlock]bool{}
					var walk func(b *ssa.BasicBlock)
					walk = func(b *ssa.BasicBlock) {
						if seen[b] || len(seen) > 8 {
							return
						}
						seen[b] = true
						for _, i2 := range b.Instrs {
							if _, ok := i2.(*ssa.Panic); ok {
								defaultCrashes = true
							}
							if cl, ok := i2.(*ssa.Call); ok && c.IsNoReturn(&cl.Call) {
								defaultCrashes = true
							}
						}
						if len(b.Succs) == 1 {
							walk(b.Succs[0])
						}
					}
					walk(def)
				}
			}
		}
	}

	// T1: dynamic types stored into peer.Message.Message anywhere
	type delivered struct {
		t    types.Type
		pos  token.Pos
		from string
	}
	all := map[string]delivered{}
	var unknown []string
	var unkPos token.Pos
	routed := map[string]string{}
	stores := fieldStores(c, fMsg)
	for _, st := range stores {
		d := newDynTypes(c)
		d.walk(st.Val, 0)
		// types excluded on this path by a failed comma-ok assertion of the same value
		excl := map[string]bool{}
		kit.Instrs(st.Fn, func(ins ssa.Instruction) {
			ta, ok := ins.(*ssa.TypeAssert)
			if !ok || !ta.CommaOk || ta.X != st.Val {
				return
			}
			fl := c.AtomFlow(st.Fn, func(a kit.Atom) bool {
				return a.IsFalse(func(e *kit.Expr) bool {
					return e.Kind == "extract" && e.Idx == 1 && e.Args[0].V == ssa.Value(ta)
				})
			}, nil)
			if fl.Before(st.Store) {
				tk := typeKey(ta.AssertedType)
				excl[tk] = true
				// where does the asserted value go?
				dest := "handled separately"
				kit.Instrs(st.Fn, func(i2 ssa.Instruction) {
					if s2, ok := i2.(*ssa.Store); ok {
						if ex, ok := s2.Val.(*ssa.Extract); ok && ex.Tuple == ssa.Value(ta) && ex.Index == 0 {
							if fa, ok := s2.Addr.(*ssa.FieldAddr); ok {
								if stt := structOfPtr(fa.X.Type()); stt != nil {
									dest = "stored into " + typeKey(derefT(fa.X.Type())) + "." + stt.Field(fa.Field).Name()
								}
							}
						}
					}
				})
				routed[tk] = dest + " in " + kit.FuncName(st.Fn)
			}
		})
		for _, tk := range d.keys() {
			if excl[tk] {
				continue
			}
			if _, ok := all[tk]; !ok {
				all[tk] = delivered{d.Types[tk], d.Where[tk], kit.FuncName(st.Fn)}
			}
		}
		for i, u := range d.Unknown {
			unknown = append(unknown, u)
			if !unkPos.IsValid() {
				unkPos = d.UnkPos[i]
			}
		}
	}
	c.Floor("R08.2", "stores of a received message into peer.Message", len(stores), 2)
	var keys []string
	for tk := range all {
		keys = append(keys, tk)
	}
	sort.Strings(keys)
	for _, tk := range keys {
		dl := all[tk]
		switch {
		case arms[tk]:
			c.OK("R08.2", "dispatch/"+tk, dl.pos, "delivered to the torrent loop (via %s) and handled by an arm of handlePeerMessage", dl.from)
		case !defaultCrashes:
			c.Present("R08.2", "dispatch/"+tk, dl.pos, "no arm, but the default arm of handlePeerMessage does not crash")
		default:
			c.Bad("R08.2", "dispatch/"+tk, dl.pos, "a peer can make the connection deliver a value of type %s to the torrent loop, handlePeerMessage has no arm for it and its default arm crashes the process", tk)
		}
	}
	c.Floor("R08.2", "dynamic message types delivered to handlePeerMessage", len(keys), 17)
	for tk, dest := range routed {
		c.Present("R08.2", "routed/"+tk, h.Pos(), "%s: not delivered to handlePeerMessage (%s)", tk, dest)
	}
	if len(unknown) > 0 {
		c.Bad("R08.2", "dispatch/unenumerable", unkPos, "the dynamic types of a delivered message cannot be enumerated (%s): an unhandled type would reach the crashing default arm", strings.Join(unknown, "; "))
	}

	// queued types are replayed through handlePeerMessage and have arms
	{
		dq := newDynTypes(c)
		n := 0
		for _, st := range fieldStores(c, fQueued) {
			if kit.Canon(st.Val).IsNil() {
				continue
			}
			n++
			// element types of this append
			d1 := newDynTypes(c)
			call, ok := st.Val.(*ssa.Call)
			if !ok || !isBuiltin(&call.Call, "append") {
				c.Bad("R08.2", k.key(st.Fn, "queue"), posOf(st.Store), "pe.Messages assigned from something else than append")
				continue
			}
			if sl, ok := call.Call.Args[1].(*ssa.Slice); ok {
				if arr, ok := sl.X.(*ssa.Alloc); ok {
					kit.Instrs(st.Fn, func(ins ssa.Instruction) {
						if s2, ok := ins.(*ssa.Store); ok {
							if ia, ok := s2.Addr.(*ssa.IndexAddr); ok && ia.X == ssa.Value(arr) {
								d1.walk(s2.Val, 0)
							}
						}
					})
				}
			}
			for _, tk := range d1.keys() {
				dq.Types[tk] = d1.Types[tk]
				c.Check(arms[tk], "R08.2", "queued/"+tk, posOf(st.Store), "queued before metadata and handled when replayed", "type "+tk+" is queued in pe.Messages but handlePeerMessage has no arm for it when replayed")
			}
			if len(d1.Types) == 0 || len(d1.Unknown) > 0 {
				c.Bad("R08.2", k.key(st.Fn, "queue"), posOf(st.Store), "cannot enumerate the types queued in pe.Messages here")
			}
		}
		c.Floor("R08.2", "queue sites of early messages", n, 4)
		// the replay goes through handlePeerMessage
		pq := c.Func("torrent", "(*torrent).processQueuedMessages")
		replays := false
		c.InstrsDeep(pq, 2, false, func(ins ssa.Instruction) {
			if cl, ok := ins.(*ssa.Call); ok && cl.Call.StaticCallee() == h {
				replays = true
			}
		})
		c.Check(replays, "R08.2", "queued/replayed-by-handlePeerMessage", pq.Pos(), "processQueuedMessages replays through handlePeerMessage", "processQueuedMessages no longer replays through handlePeerMessage")
	}
}

func derefT(t types.Type) types.Type {
	if p, ok := t.Underlying().(*types.Pointer); ok {
		return p.Elem()
	}
	return t
}

// ---- R08.4 no use of a peer after it was closed ---------------------------

type c08Closed struct {
	c        *kit.Ctx
	peerT    *types.Named
	fClosed  *types.Var
	mayClose map[*ssa.Function]bool
	reqMemo  map[*ssa.Function]map[int]bool
	reqBusy  map[*ssa.Function]bool
	tableFns map[*types.Func]bool
	torrentT *types.Named
}

type c08Subject struct {
	str  string
	root ssa.Value
}

func (z *c08Closed) isPeerPtr(t types.Type) bool {
	p, ok := t.(*types.Pointer)
	if !ok {
		return false
	}
	n, ok := p.Elem().(*types.Named)
	return ok && n.Obj() == z.peerT.Obj()
}

// peerFieldOf returns the index of the (single) *peer.Peer field of a struct
// type, or -1.
func (z *c08Closed) peerFieldOf(t types.Type) int {
	st, ok := t.Underlying().(*types.Struct)
	if !ok {
		return -1
	}
	for i := 0; i < st.NumFields(); i++ {
		if z.isPeerPtr(st.Field(i).Type()) {
			return i
		}
	}
	return -1
}

// subjectOf maps a call operand to the peer it denotes.
func (z *c08Closed) subjectOf(fn *ssa.Function, a ssa.Value) (c08Subject, bool) {
	for {
		switch x := a.(type) {
		case *ssa.MakeInterface:
			a = x.X
			continue
		case *ssa.ChangeInterface:
			a = x.X
			continue
		}
		break
	}
	if z.isPeerPtr(a.Type()) {
		e := kit.Canon(a).Strip()
		return c08Subject{e.String(), exprRoot(e)}, true
	}
	if i := z.peerFieldOf(a.Type()); i >= 0 {
		st := a.Type().Underlying().(*types.Struct)
		if u, ok := a.(*ssa.UnOp); ok && u.Op == token.MUL {
			if al, ok := u.X.(*ssa.Alloc); ok {
				var val ssa.Value
				kit.Instrs(fn, func(ins ssa.Instruction) {
					if s, ok := ins.(*ssa.Store); ok {
						if fa, ok := s.Addr.(*ssa.FieldAddr); ok && fa.X == ssa.Value(al) && fa.Field == i {
							val = s.Val
						}
					}
				})
				if val != nil {
					return z.subjectOf(fn, val)
				}
				e := kit.Canon(al)
				return c08Subject{e.String() + "." + st.Field(i).Name(), al}, true
			}
		}
		e := kit.Canon(a).Strip()
		return c08Subject{e.String() + "." + st.Field(i).Name(), exprRoot(e)}, true
	}
	return c08Subject{}, false
}

// closing reports whether a call instruction may reach closePeer.
func (z *c08Closed) closing(ins ssa.Instruction) bool {
	switch ins.(type) {
	case *ssa.Call, *ssa.Defer:
	default:
		return false
	}
	for _, f := range z.c.Callees(ins.(ssa.CallInstruction)) {
		if z.mayClose[f] {
			return true
		}
	}
	return false
}

func (z *c08Closed) flow(fn *ssa.Function, s c08Subject, entry bool) *kit.Flow {
	fl := &kit.Flow{P: z.c.Prog, Fn: fn, Entry: entry}
	fl.Edge = func(a kit.Atom) bool {
		return a.IsFalse(func(e *kit.Expr) bool {
			return e.IsField(z.fClosed) && e.Base() != nil && e.Base().Strip().String() == s.str
		})
	}
	fl.Instr = func(ins ssa.Instruction, in bool) bool {
		// fresh definition of the subject
		if v, ok := ins.(ssa.Value); ok && v == s.root {
			switch x := ins.(type) {
			case *ssa.Next, *ssa.Lookup, *ssa.Call:
				return true
			case *ssa.UnOp:
				if x.Op == token.ARROW {
					return true
				}
			case *ssa.Select:
				return true
			}
		}
		if st, ok := ins.(*ssa.Store); ok {
			if st.Addr == s.root {
				if _, isParam := st.Val.(*ssa.Parameter); !isParam {
					return true
				}
			}
			if v, ok := kit.StoresField(ins, z.fClosed); ok && !kit.Canon(v).IsConstBool(false) {
				return false
			}
		}
		if z.closing(ins) {
			return false
		}
		return in
	}
	return fl.Solve()
}

type c08ReqSite struct {
	ins  ssa.Instruction
	subj c08Subject
	what string
}

// reqSites lists the requires-open operations of fn with their peer operand.
func (z *c08Closed) reqSites(fn *ssa.Function) []c08ReqSite {
	var out []c08ReqSite
	kit.Instrs(fn, func(ins ssa.Instruction) {
		switch x := ins.(type) {
		case *ssa.MapUpdate:
			if !z.isPeerPtr(x.Key.Type()) {
				return
			}
			me := kit.Canon(x.Map)
			if me.Kind != "field" {
				return
			}
			if n := derefNamed(me.Base().V.Type()); n == nil || n.Obj() != z.torrentT.Obj() {
				return
			}
			if s, ok := z.subjectOf(fn, x.Key); ok {
				out = append(out, c08ReqSite{ins, s, "insert into torrent." + me.Field.Name()})
			}
		case *ssa.Call:
			cc := &x.Call
			obj := kit.CalleeObj(cc)
			if obj != nil && z.tableFns[obj] {
				n := len(cc.Args)
				if cc.IsInvoke() {
					n++
				}
				for i := 0; i < n; i++ {
					if s, ok := z.subjectOf(fn, argOf(cc, i)); ok {
						out = append(out, c08ReqSite{ins, s, recvTypeNameOf(obj) + obj.Name()})
					}
				}
				return
			}
			callee := cc.StaticCallee()
			if callee == nil || callee == fn {
				return
			}
			for i := range z.requiresOpen(callee) {
				if a := argOf(cc, i); a != nil {
					if s, ok := z.subjectOf(fn, a); ok {
						out = append(out, c08ReqSite{ins, s, kit.FuncName(callee) + " (uses the peer without re-checking Closed)"})
					}
				}
			}
		}
	})
	return out
}

func recvTypeNameOf(f *types.Func) string {
	if sig, ok := f.Type().(*types.Signature); ok && sig.Recv() != nil {
		t := sig.Recv().Type()
		if p, ok := t.(*types.Pointer); ok {
			t = p.Elem()
		}
		if n, ok := t.(*types.Named); ok {
			return n.Obj().Name() + "."
		}
	}
	if f.Pkg() != nil {
		return f.Pkg().Name() + "."
	}
	return ""
}

// requiresOpen: parameter indexes of fn whose peer must be open at entry
// (a requires-open operation on it is reachable without a Closed re-check).
func (z *c08Closed) requiresOpen(fn *ssa.Function) map[int]bool {
	if m, ok := z.reqMemo[fn]; ok {
		return m
	}
	if z.reqBusy[fn] || fn.Blocks == nil || !strings.HasSuffix(kit.FnPkgPath(fn), "/torrent") {
		return nil
	}
	z.reqBusy[fn] = true
	res := map[int]bool{}
	for _, s := range z.reqSites(fn) {
		p := paramOfRoot(s.subj.root)
		if p == nil || p.Parent() != fn {
			continue
		}
		if !z.flow(fn, s.subj, false).Before(s.ins) {
			res[paramIndex(p)] = true
		}
	}
	z.reqBusy[fn] = false
	z.reqMemo[fn] = res
	return res
}

func runC08Closed(c *kit.Ctx, k *keyer) {
	closePeer := c.Func("torrent", "(*torrent).closePeer")
	z := &c08Closed{c: c, peerT: c.Named("internal/peer", "Peer"), fClosed: c.Field("internal/peer", "Peer", "Closed"),
		mayClose: map[*ssa.Function]bool{}, reqMemo: map[*ssa.Function]map[int]bool{}, reqBusy: map[*ssa.Function]bool{},
		tableFns: map[*types.Func]bool{}, torrentT: c.Named("torrent", "torrent")}
	// the closers: every function that marks a peer closed (today closePeer /
	// removePeer). Slots are taken from the program: a new closer is summarised
	// like the existing ones instead of being reported.
	closers := map[*ssa.Function]bool{}
	for _, st := range fieldStores(c, z.fClosed) {
		if kit.Canon(st.Val).IsConstBool(true) {
			closers[st.Fn] = true
		} else if !inPkg(st.Fn, c, "internal/peer") {
			c.Bad("R08.4", k.key(st.Fn, "store Peer.Closed"), posOf(st.Store), "Peer.Closed re-opened (stored %s): the closed state is no longer monotone", kit.Canon(st.Val))
		}
	}
	if !closers[closePeer] {
		// closePeer must still (transitively) close
		closers[closePeer] = true
	}
	c.Floor("R08.4", "functions that mark a peer closed", len(closers), 1)
	// may-close: everything that reaches a closer on the same goroutine
	{
		var work []*ssa.Function
		for f := range closers {
			work = append(work, f)
			z.mayClose[f] = true
		}
		for len(work) > 0 {
			f := work[len(work)-1]
			work = work[:len(work)-1]
			for _, e := range c.CallersOf(f) {
				if _, isGo := e.Site.(*ssa.Go); isGo {
					continue
				}
				if g := e.Caller.Func; !z.mayClose[g] {
					z.mayClose[g] = true
					work = append(work, g)
				}
			}
		}
	}
	// requires-open table: operations that add the peer to shared state
	for _, m := range []string{"HandleHave", "HandleAllowedFast", "HandleChoke", "HandleUnchoke", "HandleSnubbed", "PickFor"} {
		z.tableFns[c.FuncObj("internal/piecepicker", "(*PiecePicker)."+m)] = true
	}
	z.tableFns[c.FuncObj("internal/unchoker", "(*Unchoker).FastUnchoke")] = true
	z.tableFns[c.FuncObj("internal/peer", "(*Peer).StartPEX")] = true
	z.tableFns[c.FuncObj("internal/resourcemanager", "(*ResourceManager).Request")] = true

	n := 0
	for _, fn := range c.ModuleFunctions() {
		if !inPkg(fn, c, "torrent") {
			continue
		}
		for _, s := range z.reqSites(fn) {
			n++
			key := k.key(fn, "peer-open before "+s.what)
			if z.flow(fn, s.subj, true).Before(s.ins) {
				c.OK("R08.4", key, posOf(s.ins), "no call that may close a peer lies between the definition / Closed re-check of %s and this use", s.subj.str)
			} else {
				c.Bad("R08.4", key, posOf(s.ins), "peer %s may already have been closed by an earlier call on this path (a callee reaches closePeer) and is used here without re-checking Closed: a closed peer is re-inserted into shared state (picker having-sets, downloader maps, write-cache request with an already-closed cancel channel)", s.subj.str)
			}
		}
	}
	c.Floor("R08.4", "requires-open operations on a peer in package torrent", n, 15)
}

package rules

import (
	"go/token"
	"go/types"
	"sort"

	"golang.org/x/tools/go/ssa"

	"rainverif/checker/kit"
)

// R04.10 a worker that the event loop queries synchronously stays responsive.
//
// The torrent loop calls methods of its workers that hand a request to the
// worker's own goroutine over an unbuffered channel Q and wait (for example
// PeriodicalAnnouncer.Stats, used by the Trackers command). While the loop
// waits there it serves none of its own channels. If the goroutine that
// serves Q can itself be blocked in a channel operation whose counterpart is
// the event loop (a send on a channel the loop receives from) and that
// operation has no arm for Q, the two wait for each other for ever: every later
// command, Stop and Close hang.
//
// Rule: for every query channel Q (channel field of a worker type W, always
// made unbuffered, on which a method reachable from the event loop does a
// blocking send), every blocking channel operation executed by the goroutine
// that serves Q (the function whose select receives Q, plus its non-`go`
// callees in W's package) that involves a loop-served channel must also have
// an arm receiving Q. A loop-served channel is a channel field of W
// that is only assigned from a constructor parameter whose argument, at the
// construction sites in package torrent, is a field of `torrent` that the
// event loop's select receives from.

func init() { registerExtra("C04", runR04_10) }

func runR04_10(c *kit.Ctx) {
	k := newKeyer()
	run := c.Func("torrent", "(*torrent).run")
	tT := c.Named("torrent", "torrent")
	sT := c.Named("torrent", "Session")
	loopCtx := c.Reach([]*ssa.Function{run}, false, nil)

	// channels the event loop's own selects receive from (fields of torrent)
	loopRecv := map[*types.Var]bool{}
	for f := range loopCtx {
		if f.Blocks == nil || !inPkg(f, c, "torrent") {
			continue
		}
		kit.Instrs(f, func(ins ssa.Instruction) {
			sel, ok := ins.(*ssa.Select)
			if !ok {
				return
			}
			for _, st := range sel.States {
				if st.Dir != types.RecvOnly {
					continue
				}
				// suspendable channels: t.x.ReceiveC() style accessors and plain fields
				e := kit.Canon(st.Chan)
				for x := e; x != nil; {
					if x.Kind == "field" && x.Field != nil && fieldOwnerT(c, x.Field) == tT {
						loopRecv[x.Field] = true
					}
					if len(x.Args) == 0 {
						break
					}
					x = x.Args[0]
				}
			}
		})
	}

	type query struct {
		w      *types.Named
		q      *types.Var
		via    *ssa.Function
		viaIns ssa.Instruction
	}
	var queries []query
	seenQ := map[*types.Var]bool{}
	var loopFns []*ssa.Function
	for f := range loopCtx {
		loopFns = append(loopFns, f)
	}
	sort.Slice(loopFns, func(i, j int) bool { return kit.FuncName(loopFns[i]) < kit.FuncName(loopFns[j]) })
	for _, f := range loopFns {
		if f.Blocks == nil || !kit.InModule(kit.FnPkgPath(f)) || f.Signature.Recv() == nil {
			continue
		}
		w := derefNamed(f.Signature.Recv().Type())
		if w == nil || w == tT || w == sT || w.Obj().Pkg() == nil || !kit.InModule(w.Obj().Pkg().Path()) {
			continue
		}
		consider := func(ch ssa.Value, ins ssa.Instruction) {
			e := kit.Canon(ch)
			if e.Kind != "field" || e.Field == nil || fieldOwnerT(c, e.Field) != w || seenQ[e.Field] {
				return
			}
			if alwaysBuffered(c, e.Field) {
				return
			}
			seenQ[e.Field] = true
			queries = append(queries, query{w, e.Field, f, ins})
		}
		kit.Instrs(f, func(ins ssa.Instruction) {
			switch x := ins.(type) {
			case *ssa.Send:
				consider(x.Chan, ins)
			case *ssa.Select:
				if !x.Blocking {
					return
				}
				for _, st := range x.States {
					if st.Dir == types.SendOnly {
						consider(st.Chan, ins)
					}
				}
			}
		})
	}

	// loop-served channel fields of W
	servedMemo := map[*types.Var]int{}
	loopServed := func(f *types.Var) bool {
		if v, ok := servedMemo[f]; ok {
			return v == 1
		}
		res := 2
		stores := fieldStores(c, f)
		okAll := len(stores) > 0
		for _, st := range stores {
			p, isParam := st.Val.(*ssa.Parameter)
			if !isParam {
				if cst, isConst := st.Val.(*ssa.Const); isConst && cst.IsNil() {
					continue // a.completedC = nil style disarm
				}
				okAll = false
				break
			}
			ctor := p.Parent()
			idx := -1
			for i, q := range ctor.Params {
				if q == p {
					idx = i
				}
			}
			sites := c.StaticCallSites(ctor)
			if idx < 0 || len(sites) == 0 {
				okAll = false
				break
			}
			for _, site := range sites {
				if site == nil {
					okAll = false
					break
				}
				call := site.(*ssa.Call)
				if idx >= len(call.Call.Args) {
					okAll = false
					break
				}
				e := kit.Canon(call.Call.Args[idx]).Strip()
				if !(e.Kind == "field" && e.Field != nil && loopRecv[e.Field]) {
					okAll = false
					break
				}
			}
			if !okAll {
				break
			}
		}
		if okAll {
			res = 1
		}
		servedMemo[f] = res
		return res == 1
	}

	nOps := 0
	for _, q := range queries {
		pkgPath := q.w.Obj().Pkg().Path()
		// servers of Q
		var servers []*ssa.Function
		for _, f := range c.ModuleFunctions() {
			if kit.FnPkgPath(f) != pkgPath {
				continue
			}
			kit.Instrs(f, func(ins ssa.Instruction) {
				sel, ok := ins.(*ssa.Select)
				if !ok {
					return
				}
				for _, st := range sel.States {
					if st.Dir == types.RecvOnly && kit.Canon(st.Chan).IsField(q.q) {
						servers = append(servers, f)
						return
					}
				}
			})
		}
		qname := q.w.Obj().Name() + "." + q.q.Name()
		if len(servers) == 0 {
			c.Bad("R04.10", "query "+qname+" has no server", posOf(q.viaIns), "%s (reachable from the event loop) blocks sending on %s, but no select in package %s receives from it", kit.FuncName(q.via), qname, q.w.Obj().Pkg().Name())
			continue
		}
		ctx := c.Reach(servers, false, func(f *ssa.Function) bool { return kit.FnPkgPath(f) != pkgPath })
		var fns []*ssa.Function
		for f := range ctx {
			if f.Blocks != nil && kit.FnPkgPath(f) == pkgPath {
				fns = append(fns, f)
			}
		}
		sort.Slice(fns, func(i, j int) bool { return kit.FuncName(fns[i]) < kit.FuncName(fns[j]) })
		bad := false
		for _, f := range fns {
			kit.Instrs(f, func(ins ssa.Instruction) {
				var chans []ssa.Value
				hasQ := false
				switch x := ins.(type) {
				case *ssa.Send:
					chans = append(chans, x.Chan)
				case *ssa.UnOp:
					if x.Op != token.ARROW {
						return
					}
					chans = append(chans, x.X)
				case *ssa.Select:
					if !x.Blocking {
						return
					}
					for _, st := range x.States {
						if st.Dir == types.RecvOnly && kit.Canon(st.Chan).IsField(q.q) {
							hasQ = true
						}
						chans = append(chans, st.Chan)
					}
				default:
					return
				}
				nOps++
				if hasQ {
					return
				}
				for _, ch := range chans {
					e := kit.Canon(ch)
					if e.Kind == "field" && e.Field != nil && fieldOwnerT(c, e.Field) == q.w && loopServed(e.Field) {
						bad = true
						c.Bad("R04.10", k.key(f, "blocks on the event loop while serving "+qname), posOf(ins), "the goroutine that answers %s (%s, called from the event loop through %s) can block here on %s.%s, a channel only the event loop receives from, without an arm for %s: when the loop is inside %s both wait for each other for ever (every later command, Stop and Close hang)", qname, kit.FuncName(servers[0]), kit.FuncName(q.via), q.w.Obj().Name(), e.Field.Name(), qname, kit.FuncName(q.via))
						return
					}
				}
			})
		}
		if !bad {
			c.OK("R04.10", "query "+qname, posOf(q.viaIns), "the goroutine serving %s (%s) never blocks on a channel of the event loop without also listening on %s", qname, kit.FuncName(servers[0]), qname)
		}
	}
	c.Floor("R04.10", "synchronous query channels from the event loop into workers", len(queries), 1)
	c.Floor("R04.10", "blocking channel operations in serving goroutines", nOps, 1)
}

package rules

import (
	"go/token"
	"go/types"
	"strings"

	"golang.org/x/tools/go/ssa"

	"rainverif/checker/kit"
)

func init() {
	register(&Property{
		ID: "C17",
		Explanation: "Decides pairing / cap structure of the resource limits: (R17.1) a socket whose handshake fails is closed by at least one link of the chain (incoming: handler error branch; outgoing: Dial's deferred close), every early-reject branch of handleNewConnection and the duplicate-id branch of startPeer close the connection; (R17.2) the piece-buffer reservation is released or registered exactly once on every path of startSinglePieceDownloader, every removal from pieceDownloaders passes ram.Release, request and release use the same amount expression, every path of handlePieceMessage releases the block buffer; (R17.3) request/reply rendezvous with a reply-channel field cannot drop the reply: the requester listens on every channel the responder may escape on; (R17.4) clamps use the limit they test; (R17.5) caps dominate admissions (dial, accept, request pipeline, web-seed downloads); (R17.6) a non-nil rate bucket is taken before every limited transfer. NOT decided: numeric invariants 'at every moment' and balance over all histories (runtime counters).",
		RuleText:    commonRuleText,
		Assumptions: commonAssumptions,
		Run:         runC17,
	})
}

func isMapUpdateOf(ins ssa.Instruction, f *types.Var) bool {
	mu, ok := ins.(*ssa.MapUpdate)
	return ok && kit.Canon(mu.Map).IsField(f)
}

func isDeleteOf(ins ssa.Instruction, f *types.Var) bool {
	cc := kit.CallOf(ins)
	return isBuiltin(cc, "delete") && kit.Canon(cc.Args[0]).IsField(f)
}

// isCloseOf reports a call x.Close() where x matches pred.
func isCloseOf(ins ssa.Instruction, pred func(*kit.Expr) bool) bool {
	cc := kit.CallOf(ins)
	if cc == nil {
		return false
	}
	if _, isGo := ins.(*ssa.Go); isGo {
		return false
	}
	name := ""
	if cc.IsInvoke() {
		name = cc.Method.Name()
	} else if f := cc.StaticCallee(); f != nil {
		name = f.Name()
	}
	return name == "Close" && pred(kit.Canon(argOf(cc, 0)).Strip())
}

func runC17(c *kit.Ctx) {
	k := newKeyer()

	// ---- R17.1 failed handshake socket is closed
	{
		h := c.Func("torrent", "(*torrent).handleIncomingHandshakeDone")
		fErr := c.Field("internal/handshaker/incominghandshaker", "IncomingHandshaker", "Error")
		fConn := c.Field("internal/handshaker/incominghandshaker", "IncomingHandshaker", "Conn")
		closesConn := func(ins ssa.Instruction) bool {
			return isCloseOf(ins, func(e *kit.Expr) bool { return e.IsField(fConn) })
		}
		handler := (&kit.Flow{P: c.Prog, Fn: h, Entry: true,
			EdgeKill: func(a kit.Atom) bool { return a.IsNilCmp(false, func(e *kit.Expr) bool { return e.IsField(fErr) }) },
			Instr: func(ins ssa.Instruction, in bool) bool {
				if closesConn(ins) {
					return true
				}
				return in
			}}).Solve()
		hasErrEdge := false
		for _, s := range kit.DumpAtoms(h) {
			if strings.Contains(s, ".Error != nil") {
				hasErrEdge = true
			}
		}
		handlerCloses := hasErrEdge && len(handler.FailingReturns()) == 0
		// upstream links: IncomingHandshaker.Run error branch / btconn.Accept error returns
		ihRun := c.Func("internal/handshaker/incominghandshaker", "(*IncomingHandshaker).Run")
		runCloses := false
		{
			fl := (&kit.Flow{P: c.Prog, Fn: ihRun, Entry: true,
				Instr: func(ins ssa.Instruction, in bool) bool {
					if v, ok := kit.StoresField(ins, fErr); ok && !kit.Canon(v).IsNil() {
						return false
					}
					if closesConn(ins) {
						return true
					}
					return in
				}}).Solve()
			stores := 0
			kit.Instrs(ihRun, func(ins ssa.Instruction) {
				if _, ok := kit.StoresField(ins, fErr); ok {
					stores++
				}
			})
			runCloses = stores > 0 && len(fl.FailingReturns()) == 0
		}
		c.Check(handlerCloses || runCloses, "R17.1", "incoming-handshake-failure/socket-closed", h.Pos(),
			"a failed incoming handshake's socket is closed on every error path (handler or handshaker)", "no link of the chain Accept error -> IncomingHandshaker.Run -> handleIncomingHandshakeDone closes the socket of a failed incoming handshake: it stays open until the remote goes away and escapes the accept limit")
		// outgoing: Dial closes on error (deferred closure containing a Close of conn under err != nil)
		dial := c.Func("internal/btconn", "Dial")
		dialCloses := false
		for _, an := range dial.AnonFuncs {
			isDeferred := false
			kit.Instrs(dial, func(ins ssa.Instruction) {
				if d, ok := ins.(*ssa.Defer); ok {
					if mc, ok := d.Call.Value.(*ssa.MakeClosure); ok && mc.Fn == ssa.Value(an) {
						isDeferred = true
					}
				}
			})
			if !isDeferred {
				continue
			}
			kit.Instrs(an, func(ins ssa.Instruction) {
				if isCloseOf(ins, func(e *kit.Expr) bool { return true }) {
					dialCloses = true
				}
			})
		}
		c.Check(dialCloses, "R17.1", "outgoing-handshake-failure/socket-closed", dial.Pos(),
			"btconn.Dial closes the connection in a deferred function on error", "btconn.Dial has no deferred close: a failed outgoing handshake leaks its socket")
		// handleNewConnection: conn is closed or handed to a handshaker on every path
		hnc := c.Func("torrent", "(*torrent).handleNewConnection")
		ihNew := c.FuncObj("internal/handshaker/incominghandshaker", "New")
		conn := hnc.Params[1]
		owned := (&kit.Flow{P: c.Prog, Fn: hnc, Instr: func(ins ssa.Instruction, in bool) bool {
			if isCloseOf(ins, func(e *kit.Expr) bool { return e.V == ssa.Value(conn) }) {
				return true
			}
			if kit.CallsAny(ins, ihNew) && kit.CallOf(ins).Args[0] == ssa.Value(conn) {
				return true
			}
			return in
		}}).Solve()
		c.Check(len(owned.FailingReturns()) == 0, "R17.1", kit.FuncName(hnc)+"/conn-owned", hnc.Pos(),
			"every path of handleNewConnection closes the connection or hands it to an incoming handshaker", "handleNewConnection can return with the accepted connection neither closed nor handed over")
		// startPeer: conn closed or wrapped into a peer
		sp := c.Func("torrent", "(*torrent).startPeer")
		peerNew := c.FuncObj("internal/peer", "New")
		spConn := sp.Params[1]
		spOwned := (&kit.Flow{P: c.Prog, Fn: sp, Instr: func(ins ssa.Instruction, in bool) bool {
			if isCloseOf(ins, func(e *kit.Expr) bool { return e.V == ssa.Value(spConn) }) {
				return true
			}
			if kit.CallsAny(ins, peerNew) && kit.CallOf(ins).Args[0] == ssa.Value(spConn) {
				return true
			}
			return in
		}}).Solve()
		c.Check(len(spOwned.FailingReturns()) == 0, "R17.1", kit.FuncName(sp)+"/conn-owned", sp.Pos(),
			"every path of startPeer closes the connection or wraps it into a peer", "startPeer can return with the connection neither closed nor owned by a peer")
	}

	// ---- R17.2 piece-buffer budget
	{
		fPD := c.Field("torrent", "torrent", "pieceDownloaders")
		fRam := c.Field("torrent", "Session", "ram")
		ssd := c.Func("torrent", "(*torrent).startSinglePieceDownloader")
		cpd := c.Func("torrent", "(*torrent).closePieceDownloader")
		isRelease := func(ins ssa.Instruction) bool {
			cc := kit.CallOf(ins)
			if cc == nil || cc.StaticCallee() == nil {
				return false
			}
			f := cc.StaticCallee()
			return f.Name() == "Release" && strings.HasSuffix(fnPkgPath(f), "internal/resourcemanager")
		}
		isRequest := func(ins ssa.Instruction) bool {
			cc := kit.CallOf(ins)
			if cc == nil || cc.StaticCallee() == nil {
				return false
			}
			f := cc.StaticCallee()
			return f.Name() == "Request" && strings.HasSuffix(fnPkgPath(f), "internal/resourcemanager")
		}
		// a release helper: a function of package torrent that releases (or finds
		// ram == nil) on every path and does not touch pieceDownloaders itself
		isDirectRelease := isRelease
		helperMemo := map[*ssa.Function]bool{}
		releaseHelper := func(f *ssa.Function) bool {
			if f == nil || f.Blocks == nil || !inPkg(f, c, "torrent") {
				return false
			}
			if v, ok := helperMemo[f]; ok {
				return v
			}
			touches := false
			kit.Instrs(f, func(ins ssa.Instruction) {
				if isMapUpdateOf(ins, fPD) || isDeleteOf(ins, fPD) {
					touches = true
				}
			})
			fl := (&kit.Flow{P: c.Prog, Fn: f,
				Edge: func(a kit.Atom) bool { return a.IsNilCmp(true, func(e *kit.Expr) bool { return e.IsField(fRam) }) },
				Instr: func(ins ssa.Instruction, in bool) bool {
					if isDirectRelease(ins) {
						return true
					}
					return in
				}}).Solve()
			res := !touches && len(returnsOf(f)) > 0 && len(fl.FailingReturns()) == 0
			helperMemo[f] = res
			return res
		}
		isRelease = func(ins ssa.Instruction) bool {
			if isDirectRelease(ins) {
				return true
			}
			if call, ok := ins.(*ssa.Call); ok {
				return releaseHelper(call.Call.StaticCallee())
			}
			return false
		}
		// an insert helper: a function of package torrent that registers the downloader on
		// every path and is only called (statically) from startSinglePieceDownloader
		insertHelper := func(f *ssa.Function) bool {
			if f == nil || f.Blocks == nil || f == ssd || !inPkg(f, c, "torrent") {
				return false
			}
			sites := c.StaticCallSites(f)
			if len(sites) == 0 {
				return false
			}
			for _, site := range sites {
				if site == nil || site.Parent() != ssd {
					return false
				}
			}
			fl := (&kit.Flow{P: c.Prog, Fn: f, Instr: func(ins ssa.Instruction, in bool) bool {
				if isMapUpdateOf(ins, fPD) {
					return true
				}
				return in
			}}).Solve()
			return len(returnsOf(f)) > 0 && len(fl.FailingReturns()) == 0
		}
		isInsert := func(ins ssa.Instruction) bool {
			if isMapUpdateOf(ins, fPD) {
				return true
			}
			if call, ok := ins.(*ssa.Call); ok {
				return insertHelper(call.Call.StaticCallee())
			}
			return false
		}
		// the `started` flag: local bool captured by the deferred closure
		var started *ssa.Alloc
		var deferred *ssa.Function
		kit.Instrs(ssd, func(ins ssa.Instruction) {
			if d, ok := ins.(*ssa.Defer); ok {
				if mc, ok := d.Call.Value.(*ssa.MakeClosure); ok {
					fn := mc.Fn.(*ssa.Function)
					hasRel := false
					kit.Instrs(fn, func(i2 ssa.Instruction) {
						if isRelease(i2) {
							hasRel = true
						}
					})
					if hasRel {
						deferred = fn
						for _, b := range mc.Bindings {
							if a, ok := b.(*ssa.Alloc); ok {
								if bt, ok := a.Type().Underlying().(*types.Pointer).Elem().Underlying().(*types.Basic); ok && bt.Kind() == types.Bool {
									started = a
								}
							}
						}
					}
				}
			}
		})
		if deferred == nil || started == nil {
			// no deferred-release idiom: require direct pairing
			rel := (&kit.Flow{P: c.Prog, Fn: ssd, Instr: func(ins ssa.Instruction, in bool) bool {
				if isRelease(ins) || isInsert(ins) {
					return true
				}
				return in
			}}).Solve()
			c.Check(len(rel.FailingReturns()) == 0, "R17.2", kit.FuncName(ssd)+"/reserve-discharged", ssd.Pos(),
				"every path registers the downloader or releases the reservation", "a path of startSinglePieceDownloader neither registers a downloader nor releases the reserved piece buffer (budget leak)")
		} else {
			storeStarted := func(ins ssa.Instruction) bool {
				st, ok := ins.(*ssa.Store)
				return ok && st.Addr == ssa.Value(started) && kit.Canon(st.Val).IsConstBool(true)
			}
			mk := func(entry bool, gen, kill func(ssa.Instruction) bool) *kit.Flow {
				return (&kit.Flow{P: c.Prog, Fn: ssd, Entry: entry, Instr: func(ins ssa.Instruction, in bool) bool {
					if gen != nil && gen(ins) {
						return true
					}
					if kill != nil && kill(ins) {
						return false
					}
					return in
				}}).Solve()
			}
			ins1 := func(i ssa.Instruction) bool { return isInsert(i) }
			mustIns, mustNotIns := mk(false, ins1, nil), mk(true, nil, ins1)
			mustSt, mustNotSt := mk(false, storeStarted, nil), mk(true, nil, storeStarted)
			ok := true
			for _, r := range returnsOf(ssd) {
				a := mustIns.Before(r) && mustSt.Before(r)
				b := mustNotIns.Before(r) && mustNotSt.Before(r)
				if !a && !b {
					ok = false
				}
			}
			c.Check(ok, "R17.2", kit.FuncName(ssd)+"/reserve-discharged", ssd.Pos(),
				"on every return: downloader registered <=> started==true (the deferred closure releases exactly when nothing was registered)", "startSinglePieceDownloader can return with the 'started' flag and the pieceDownloaders insert out of step: the reservation is leaked or released twice")
			// closure releases only under !started
			notStarted := c.AtomFlow(deferred, func(a kit.Atom) bool {
				return a.IsFalse(func(e *kit.Expr) bool { return e.Kind == "deref" && e.Args[0].Kind == "freevar" })
			}, nil)
			n := 0
			kit.Instrs(deferred, func(ins ssa.Instruction) {
				if isRelease(ins) {
					n++
					c.Check(notStarted.Before(ins), "R17.2", k.key(deferred, "deferred release"), posOf(ins),
						"deferred Release only when started==false", "deferred Release is not conditional on started==false")
				}
			})
			c.Floor("R17.2", "deferred release sites", n, 1)
		}
		// removal passes Release
		nd := 0
		for _, fn := range c.ModuleFunctions() {
			if !inPkg(fn, c, "torrent") {
				continue
			}
			kit.Instrs(fn, func(ins ssa.Instruction) {
				if !isDeleteOf(ins, fPD) {
					return
				}
				nd++
				key := k.key(fn, "delete pieceDownloaders")
				if fn != cpd {
					c.Bad("R17.2", key, posOf(ins), "piece downloader removed outside closePieceDownloader: its reservation is not released")
					return
				}
			})
		}
		pend := (&kit.Flow{P: c.Prog, Fn: cpd, Entry: true,
			Edge: func(a kit.Atom) bool { return a.IsNilCmp(true, func(e *kit.Expr) bool { return e.IsField(fRam) }) },
			Instr: func(ins ssa.Instruction, in bool) bool {
				if isRelease(ins) {
					return true
				}
				if isDeleteOf(ins, fPD) {
					return false
				}
				return in
			}}).Solve()
		c.Check(len(pend.FailingReturns()) == 0, "R17.2", kit.FuncName(cpd)+"/release-on-remove", cpd.Pos(),
			"every removal from pieceDownloaders is followed by ram.Release (or ram==nil)", "closePieceDownloader can remove a downloader without releasing its piece-buffer reservation")
		c.Floor("R17.2", "removals from pieceDownloaders", nd, 1)
		// inserts only in startSinglePieceDownloader
		for _, fn := range c.ModuleFunctions() {
			kit.Instrs(fn, func(ins ssa.Instruction) {
				if isMapUpdateOf(ins, fPD) && fn != ssd && !insertHelper(fn) {
					c.Bad("R17.2", k.key(fn, "insert pieceDownloaders"), posOf(ins), "piece downloader registered outside startSinglePieceDownloader (no reservation)")
				}
			})
		}
		// acquire roads lead only to startSinglePieceDownloader; amounts agree
		ssdObj := c.FuncObj("torrent", "(*torrent).startSinglePieceDownloader")
		amounts := map[string]bool{}
		na := 0
		for _, fn := range c.ModuleFunctions() {
			if !inPkg(fn, c, "torrent") {
				continue
			}
			kit.Instrs(fn, func(ins ssa.Instruction) {
				cc := kit.CallOf(ins)
				switch {
				case isRequest(ins):
					na++
					amounts[kit.Canon(cc.Args[3]).String()] = true
					// acquired => startSinglePieceDownloader on every path
					res := ins.(ssa.Value)
					fl := (&kit.Flow{P: c.Prog, Fn: fn, Entry: true,
						EdgeKill: func(a kit.Atom) bool { return a.IsTrue(func(e *kit.Expr) bool { return e.V == res }) },
						Instr: func(i2 ssa.Instruction, in bool) bool {
							if kit.CallsAny(i2, ssdObj) || isRelease(i2) {
								return true
							}
							return in
						}}).Solve()
					c.Check(len(fl.FailingReturns()) == 0, "R17.2", k.key(fn, "ram.Request"), posOf(ins),
						"a granted reservation always reaches startSinglePieceDownloader (which registers or releases)", "a granted piece-buffer reservation can be dropped without release")
				case isDirectRelease(ins):
					amounts[kit.Canon(cc.Args[1]).String()] = true
				}
			})
		}
		c.Floor("R17.2", "ram.Request sites", na, 1)
		var am []string
		for a := range amounts {
			am = append(am, strings.ReplaceAll(strings.ReplaceAll(a, "*t0", "t"), "(*t0)", "t"))
		}
		uniq := map[string]bool{}
		for _, a := range am {
			// normalise receiver spelling: compare by the trailing access path
			if i := strings.Index(a, ".info"); i >= 0 {
				a = a[i:]
			}
			uniq[a] = true
		}
		c.Check(len(uniq) == 1, "R17.2", "ram/amount-agreement", ssd.Pos(),
			"reserve and release use the same amount expression "+strings.Join(setKeys(uniq), ","), "reserve and release amounts differ: "+strings.Join(setKeys(uniq), " vs "))
		// ramNotifyC receive leads to startSinglePieceDownloader
		run := c.Func("torrent", "(*torrent).run")
		fNotify := c.Field("torrent", "torrent", "ramNotifyC")
		nn := 0
		kit.Instrs(run, func(ins ssa.Instruction) {
			sel, ok := ins.(*ssa.Select)
			if !ok {
				return
			}
			for _, st := range sel.States {
				if st.Dir == types.RecvOnly && kit.Canon(st.Chan).IsField(fNotify) {
					nn++
				}
			}
		})
		callsSSD := false
		kit.Instrs(run, func(ins ssa.Instruction) {
			if kit.CallsAny(ins, ssdObj) {
				callsSSD = true
			}
		})
		c.Check(nn >= 1 && callsSSD, "R17.2", kit.FuncName(run)+"/ram-notify-consumed", run.Pos(),
			"the event loop receives ramNotifyC and starts the single piece downloader", "ramNotifyC grant is not turned into startSinglePieceDownloader")
		// block buffers released on every path of handlePieceMessage
		hpm := c.Func("torrent", "(*torrent).handlePieceMessage")
		fBuf := c.Field("internal/peerconn/peerreader", "Piece", "Buffer")
		rel := (&kit.Flow{P: c.Prog, Fn: hpm, Instr: func(ins ssa.Instruction, in bool) bool {
			cc := kit.CallOf(ins)
			if cc != nil && cc.StaticCallee() != nil && cc.StaticCallee().Name() == "Release" && kit.Canon(cc.Args[0]).Mentions(func(e *kit.Expr) bool { return e.IsField(fBuf) }) {
				return true
			}
			return in
		}}).Solve()
		c.Check(len(rel.FailingReturns()) == 0, "R17.2", kit.FuncName(hpm)+"/block-buffer-released", hpm.Pos(),
			"every path of handlePieceMessage releases the received block buffer", "a path of handlePieceMessage returns without releasing the block buffer to the pool")
		c.Floor("R17.2", "returns of handlePieceMessage", len(returnsOf(hpm)), 5)
	}

	runRendezvous(c, k, "R17.3")
	runC17Caps(c, k)
}

// runRendezvous is K11 over the whole module (shared by C08/C17/C20).
func runRendezvous(c *kit.Ctx, k *keyer, rule string) {
	resp, reqs := c.FindRendezvous()
	n := 0
	for _, r := range resp {
		if len(r.Escapes) == 0 || r.Buffered {
			continue // unconditional / buffered reply cannot be dropped
		}
		// requesters of the same (T, F)
		var mine []kit.ReplySite
		for _, q := range reqs {
			if q.T.Obj() == r.T.Obj() && q.F.Origin().Name() == r.F.Origin().Name() {
				mine = append(mine, q)
			}
		}
		if len(mine) == 0 {
			continue
		}
		for _, q := range mine {
			n++
			key := k.key(q.Fn, "wait "+r.T.Obj().Name()+"."+r.F.Name()+" vs "+kit.FuncName(r.Fn))
			miss := kit.MissingEscapes(r, q)
			// escapes on channels of the responder's own object are matched by field name
			var m2 []string
			for _, m := range miss {
				m2 = append(m2, m.Desc)
			}
			if len(miss) == 0 {
				c.OK(rule, key, posOf(q.Instr), "requester listens on every escape of the responder (%d escapes)", len(r.Escapes))
			} else {
				c.Bad(rule, key, posOf(q.Instr), "responder %s may take %s instead of replying on %s, and this requester is not listening on it: it blocks for ever", kit.FuncName(r.Fn), strings.Join(m2, ","), r.F.Name())
			}
		}
	}
	c.Floor(rule, "request/reply rendezvous pairs", n, 1)
}

func runC17Caps(c *kit.Ctx, k *keyer) {
	// ---- R17.4 clamp agreement (generic pattern over the module)
	{
		n := 0
		for _, fn := range c.ModuleFunctions() {
			for _, b := range fn.Blocks {
				if len(b.Instrs) == 0 {
					continue
				}
				ifi, ok := b.Instrs[len(b.Instrs)-1].(*ssa.If)
				if !ok {
					continue
				}
				a, ok := kit.AtomOf(kit.Canon(ifi.Cond), true)
				if !ok || (a.Op != token.GTR && a.Op != token.LSS) {
					continue
				}
				big, lim := a.L, a.R
				if a.Op == token.LSS {
					big, lim = a.R, a.L
				}
				then := b.Succs[0]
				if len(then.Preds) != 1 {
					continue
				}
				bs := big.Strip()
				if bs.Kind == "len" {
					// pattern 1: if len(x) > L { x = x[:K] }
					base := bs.Args[0].String()
					for _, ins := range then.Instrs {
						sl, ok := ins.(*ssa.Slice)
						if !ok || sl.High == nil || sl.Low != nil {
							continue
						}
						if kit.Canon(sl.X).String() != base && strings.TrimPrefix(kit.Canon(sl.X).String(), "&") != base {
							continue
						}
						K := kit.Canon(sl.High)
						if K.Mentions(func(x *kit.Expr) bool { return x.Kind == "len" }) {
							continue // "drop last n" idiom, not a clamp to a limit
						}
						n++
						key := k.key(fn, "clamp len")
						kc, kok := K.Strip().IntConst()
						lc, lok := lim.Strip().IntConst()
						if K.String() == lim.String() || K.Strip().String() == lim.Strip().String() {
							c.OK("R17.4", key, posOf(ins), "clamp to %s guarded by the same limit", K)
						} else if kok && lok && kc <= lc {
							c.OK("R17.4", key, posOf(ins), "constant clamp %d within the tested constant limit %d", kc, lc)
						} else {
							c.Bad("R17.4", key, posOf(ins), "slice capped at %s but the guard tests %s: the configured limit is not the one applied (and a shorter slice panics)", K, lim)
						}
					}
					continue
				}
				// pattern 2: if v > L { v = K }  (then-block only jumps to a join with a phi)
				if len(then.Instrs) == 1 && len(then.Succs) == 1 {
					join := then.Succs[0]
					for _, ins := range join.Instrs {
						phi, ok := ins.(*ssa.Phi)
						if !ok {
							break
						}
						var fromThen, other ssa.Value
						for i, p := range join.Preds {
							if p == then {
								fromThen = phi.Edges[i]
							} else if p == b {
								other = phi.Edges[i]
							}
						}
						if fromThen == nil || other == nil || other != big.V {
							continue
						}
						n++
						K := kit.Canon(fromThen)
						key := k.key(fn, "clamp value")
						if K.String() == lim.String() {
							c.OK("R17.4", key, posOf(phi), "value clamped to the limit it was tested against (%s)", K)
						} else {
							c.Bad("R17.4", key, posOf(phi), "value capped at %s but the guard tests %s", K, lim)
						}
					}
				}
			}
		}
		c.Floor("R17.4", "clamp instances", n, 2)
	}

	// ---- R17.5 caps dominate admissions
	{
		// dial cap
		da := c.Func("torrent", "(*torrent).dialAddresses")
		ohNew := c.FuncObj("internal/handshaker/outgoinghandshaker", "New")
		fMaxDial := c.Field("torrent", "Config", "MaxPeerDial")
		fOutPeers := c.Field("torrent", "torrent", "outgoingPeers")
		fOutHS := c.Field("torrent", "torrent", "outgoingHandshakers")
		countsBoth := func(e *kit.Expr) bool {
			sum := e
			if e.Kind == "call" && e.Fn != nil && e.Fn.Blocks != nil {
				rs := returnsOf(e.Fn)
				if len(rs) != 1 {
					return false
				}
				sum = kit.Canon(rs[0].Results[0])
			}
			if sum.Kind != "binop" || sum.Op != token.ADD {
				return false
			}
			has := func(f *types.Var) bool {
				return sum.Mentions(func(x *kit.Expr) bool { return x.Kind == "len" && x.Args[0].Fields() != nil && x.Args[0].Fields()[len(x.Args[0].Fields())-1] == f })
			}
			return has(fOutPeers) && has(fOutHS)
		}
		dialCap := c.AtomFlow(da, func(a kit.Atom) bool {
			ok, strict := a.UpperBound(countsBoth, func(e *kit.Expr) bool { return e.IsField(fMaxDial) })
			return ok && strict
		}, nil)
		n := 0
		kit.Instrs(da, func(ins ssa.Instruction) {
			if kit.CallsAny(ins, ohNew) {
				n++
				c.Check(dialCap.Before(ins), "R17.5", k.key(da, "dial under cap"), posOf(ins),
					"outgoing handshake only under len(outgoingPeers)+len(outgoingHandshakers) < MaxPeerDial", "outgoing handshake can start above the MaxPeerDial cap")
			}
		})
		c.Floor("R17.5", "dial sites", n, 1)
		// accept cap
		hnc := c.Func("torrent", "(*torrent).handleNewConnection")
		ihNew := c.FuncObj("internal/handshaker/incominghandshaker", "New")
		fMaxAccept := c.Field("torrent", "Config", "MaxPeerAccept")
		fInPeers := c.Field("torrent", "torrent", "incomingPeers")
		fInHS := c.Field("torrent", "torrent", "incomingHandshakers")
		acceptCap := c.AtomFlow(hnc, func(a kit.Atom) bool {
			ok, strict := a.UpperBound(func(e *kit.Expr) bool {
				if e.Kind != "binop" || e.Op != token.ADD {
					return false
				}
				has := func(f *types.Var) bool {
					return e.Mentions(func(x *kit.Expr) bool { return x.Kind == "len" && x.Args[0].IsField(f) })
				}
				return has(fInPeers) && has(fInHS)
			}, func(e *kit.Expr) bool { return e.IsField(fMaxAccept) })
			return ok && strict
		}, nil)
		kit.Instrs(hnc, func(ins ssa.Instruction) {
			if kit.CallsAny(ins, ihNew) {
				c.Check(acceptCap.Before(ins), "R17.5", k.key(hnc, "accept under cap"), posOf(ins),
					"incoming handshake only under len(incomingHandshakers)+len(incomingPeers) < MaxPeerAccept", "incoming handshake can start above the MaxPeerAccept cap")
			}
		})
		// request pipeline depth
		rb := c.Func("internal/piecedownloader", "(*PieceDownloader).RequestBlocks")
		fPending := c.Field("internal/piecedownloader", "PieceDownloader", "pending")
		ql := rb.Params[1]
		depth := c.AtomFlow(rb, func(a kit.Atom) bool {
			ok, strict := a.UpperBound(func(e *kit.Expr) bool { return e.Kind == "len" && e.Args[0].IsField(fPending) }, func(e *kit.Expr) bool { return e.V == ssa.Value(ql) })
			return ok && strict
		}, func(ins ssa.Instruction) bool { return isMapUpdateOf(ins, fPending) })
		nr := 0
		kit.Instrs(rb, func(ins ssa.Instruction) {
			cc := kit.CallOf(ins)
			if cc != nil && cc.IsInvoke() && cc.Method.Name() == "RequestPiece" {
				nr++
				c.Check(depth.Before(ins), "R17.5", k.key(rb, "request under depth"), posOf(ins),
					"block requested only under len(pending) < queueLength", "block request can exceed the pipeline depth")
			}
		})
		c.Floor("R17.5", "RequestPiece sites", nr, 1)
		mar := c.FuncObj("torrent", "(*torrent).maxAllowedRequests")
		nq := 0
		for _, name := range []string{"internal/piecedownloader:(*PieceDownloader).RequestBlocks", "internal/infodownloader:(*InfoDownloader).RequestBlocks"} {
			pk, fnn, _ := strings.Cut(name, ":")
			for _, s := range sortSites(c.CallSites(c.FuncObj(pk, fnn))) {
				nq++
				a := kit.Canon(argOf(s.Instr.Common(), 1))
				c.Check(a.IsCallTo(mar), "R17.5", k.key(s.Fn, "queue length"), posOf(s.Instr),
					"queue length is maxAllowedRequests(peer)", "queue length "+a.String()+" is not the result of maxAllowedRequests")
			}
		}
		c.Floor("R17.5", "RequestBlocks call sites", nq, 4)
		// maxAllowedRequests returns <= MaxRequestsOut
		marFn := c.Func("torrent", "(*torrent).maxAllowedRequests")
		fMaxOut := c.Field("torrent", "Config", "MaxRequestsOut")
		for _, r := range returnsOf(marFn) {
			okAll := true
			le := func(v ssa.Value) *kit.Flow {
				return c.AtomFlow(marFn, func(a kit.Atom) bool {
					ok, _ := a.UpperBound(func(x *kit.Expr) bool { return x.V == v }, func(x *kit.Expr) bool { return x.IsField(fMaxOut) })
					return ok
				}, nil)
			}
			res := r.Results[0]
			if ph, isPhi := res.(*ssa.Phi); isPhi {
				for i, ed := range ph.Edges {
					if kit.Canon(ed).IsField(fMaxOut) {
						continue
					}
					if !le(ed).OnEdge(ph.Block().Preds[i], ph.Block()) {
						okAll = false
					}
				}
			} else if !kit.Canon(res).IsField(fMaxOut) && !le(res).Before(r) {
				okAll = false
			}
			c.Check(okAll, "R17.5", k.key(marFn, "return"), posOf(r),
				"maxAllowedRequests returns MaxRequestsOut or a value tested <= MaxRequestsOut", "maxAllowedRequests can return more than Config.MaxRequestsOut")
		}
		// web-seed concurrent downloads
		fActive := c.Field("torrent", "torrent", "webseedActiveDownloads")
		fMaxWS := c.Field("torrent", "Config", "WebseedMaxDownloads")
		ni := 0
		for _, st := range fieldStores(c, fActive) {
			v := kit.Canon(st.Val)
			if v.Kind != "binop" || v.Op != token.ADD {
				continue
			}
			ni++
			under := c.AtomFlow(st.Fn, func(a kit.Atom) bool {
				ok, strict := a.UpperBound(func(e *kit.Expr) bool { return e.IsField(fActive) }, func(e *kit.Expr) bool { return e.IsField(fMaxWS) })
				return ok && strict
			}, func(ins ssa.Instruction) bool { _, s := kit.StoresField(ins, fActive); return s })
			c.Check(under.Before(st.Store), "R17.5", k.key(st.Fn, "webseed start"), posOf(st.Store),
				"web-seed download counted only under webseedActiveDownloads < WebseedMaxDownloads", "web-seed download started above WebseedMaxDownloads")
		}
		c.Floor("R17.5", "webseedActiveDownloads increments", ni, 1)
	}

	// ---- R17.5b queued-upload counter moves only together with the queue
	{
		fCur := c.Field("internal/peerconn/peerwriter", "PeerWriter", "currentQueuedRequests")
		fQueue := c.Field("internal/peerconn/peerwriter", "PeerWriter", "writeQueue")
		nd := 0
		for _, st := range fieldStores(c, fCur) {
			v := kit.Canon(st.Val)
			if v.Kind != "binop" || v.Op != token.SUB {
				continue
			}
			nd++
			fn := st.Fn
			// one removal from the write queue licenses one decrement
			removed := (&kit.Flow{P: c.Prog, Fn: fn, Instr: func(ins ssa.Instruction, in bool) bool {
				if cc := kit.CallOf(ins); cc != nil && cc.StaticCallee() != nil && cc.StaticCallee().Name() == "Remove" && len(cc.Args) > 0 && kit.Canon(cc.Args[0]).IsField(fQueue) {
					return true
				}
				if v2, ok := kit.StoresField(ins, fCur); ok && ins != ssa.Instruction(st.Store) {
					_ = v2
					return false
				}
				return in
			}}).Solve()
			c.Check(removed.Before(st.Store), "R17.5", k.key(fn, "dequeue accounting"), posOf(st.Store),
				"queued-upload counter decremented only after a removal from the write queue on the same path", "currentQueuedRequests is decremented on a path that removed nothing from the write queue: the per-peer upload queue cap (MaxRequestsIn) no longer holds / the counter goes negative")
		}
		c.Floor("R17.5", "decrements of currentQueuedRequests", nd, 3)
	}

	// ---- R17.2b the budget is booked only when the grant has been communicated
	{
		fAvail := c.Field("internal/resourcemanager", "ResourceManager", "available")
		nb := 0
		// fact: we are inside the select arm that delivered the grant (evaluated in the
		// booking function or, when the booking is a helper, at each of its call sites)
		delivered := &kit.Spec{P: c.Prog, Edge: func(a kit.Atom) bool {
			if a.L.Kind != "extract" || a.L.Idx != 0 || a.Op != token.EQL {
				return false
			}
			sel, ok := a.L.Args[0].V.(*ssa.Select)
			if !ok {
				return false
			}
			z, ok := a.R.IntConst()
			return ok && z >= 0 && int(z) < len(sel.States) && sel.States[z].Dir == types.SendOnly
		}}
		for _, fn := range c.ModuleFunctions() {
			if !strings.HasSuffix(kit.FnPkgPath(fn), "internal/resourcemanager") {
				continue
			}
				kit.Instrs(fn, func(ins ssa.Instruction) {
				st, ok := ins.(*ssa.Store)
				if !ok {
					return
				}
				fa, ok := st.Addr.(*ssa.FieldAddr)
				if !ok || derefStructT(fa.X.Type()) == nil || derefStructT(fa.X.Type()).Field(fa.Field).Origin() != fAvail.Origin() {
					return
				}
				v := kit.Canon(st.Val)
				if v.Kind != "binop" || v.Op != token.SUB {
					return
				}
				nb++
				c.Check(delivered.Holds(st, 2), "R17.2", k.key(fn, "book reservation"), posOf(st),
					"budget booked only in the select arm that delivered the grant to the requester", "the budget is decremented before / without the grant having been delivered: if the requester cancels instead, the reservation is booked for nobody and never released")
			})
		}
		c.Floor("R17.2", "budget bookings in resourcemanager", nb, 2)
	}

	// ---- R17.6b bucket wiring: reads use the download bucket, writes the upload bucket
	{
		fDL := c.Field("torrent", "Session", "bucketDownload")
		fUL := c.Field("torrent", "Session", "bucketUpload")
		wire := func(owner *types.Var, want *types.Var, what string) {
			n := 0
			for _, st := range fieldStores(c, owner) {
				n++
				ok := true
				var got []string
				for _, o := range origins(c, st.Val, false, 5, nil) {
					got = append(got, o.String())
					if !(o.Kind == "field" && o.Field == want) {
						ok = false
					}
				}
				c.Check(ok && len(got) > 0, "R17.6", k.key(st.Fn, "wire "+what), posOf(st.Store),
					what+" is Session."+want.Name(), what+" does not originate from Session."+want.Name()+" (origins: "+strings.Join(got, ", ")+"): the configured rate limit applies to the wrong direction")
			}
			c.Floor("R17.6", what+" stores", n, 1)
		}
		wire(c.Field("internal/peerconn/peerreader", "PeerReader", "bucket"), fDL, "PeerReader.bucket")
		wire(c.Field("internal/peerconn/peerwriter", "PeerWriter", "bucket"), fUL, "PeerWriter.bucket")
		wire(c.Field("internal/urldownloader", "URLDownloader", "bucket"), fDL, "URLDownloader.bucket")
	}

	// ---- R17.6 rate buckets
	{
		type site struct {
			pkg    string
			bucket *types.Var
			isXfer func(ssa.Instruction) bool
			what   string
		}
		tPiece := c.Named("internal/peerconn/peerwriter", "Piece")
		fPoolData := c.Field("internal/bufferpool", "Buffer", "Data")
		sites := []site{
			{"internal/peerconn/peerwriter", c.Field("internal/peerconn/peerwriter", "PeerWriter", "bucket"), func(ins ssa.Instruction) bool {
				cc := kit.CallOf(ins)
				if cc == nil || !cc.IsInvoke() || cc.Method.Name() != "Write" {
					return false
				}
				a := kit.Canon(cc.Args[0])
				return a.Kind == "call" && a.Name == "Bytes"
			}, "piece frame write"},
			{"internal/peerconn/peerreader", c.Field("internal/peerconn/peerreader", "PeerReader", "bucket"), func(ins ssa.Instruction) bool {
				cc := kit.CallOf(ins)
				// a read into a pooled block buffer
				return cc != nil && cc.StaticCallee() != nil && cc.StaticCallee().Name() == "ReadFull" && len(cc.Args) == 2 &&
					kit.Canon(cc.Args[1]).Mentions(func(e *kit.Expr) bool { return e.IsField(fPoolData) })
			}, "piece payload read"},
		}
		for _, s := range sites {
			taken := &kit.Spec{P: c.Prog,
				Edge: func(a kit.Atom) bool {
					if a.IsNilCmp(true, func(e *kit.Expr) bool { return e.IsField(s.bucket) }) {
						return true
					}
					// message is not a Piece
					return a.IsFalse(func(e *kit.Expr) bool {
						if e.Kind != "extract" || e.Idx != 1 || e.Args[0].Kind != "typeassert" {
							return false
						}
						ta := e.Args[0].V.(*ssa.TypeAssert)
						return derefNamed(ta.AssertedType) == tPiece
					})
				},
				Instr: func(ins ssa.Instruction, in bool) bool {
					cc := kit.CallOf(ins)
					if cc != nil && cc.StaticCallee() != nil && cc.StaticCallee().Name() == "Take" && kit.Canon(cc.Args[0]).IsField(s.bucket) {
						return true
					}
					if s.isXfer(ins) {
						return false // one Take per transfer
					}
					if sel, ok := ins.(*ssa.Select); ok && len(sel.States) >= 3 {
						return false // next message of the writer loop
					}
					return in
				}}
			n := 0
			for _, fn := range c.ModuleFunctions() {
				if !inPkg(fn, c, s.pkg) {
					continue
				}
				kit.Instrs(fn, func(ins ssa.Instruction) {
					if s.isXfer(ins) {
						n++
						c.Check(taken.Holds(ins, 2), "R17.6", k.key(fn, s.what), posOf(ins),
							"bucket.Take precedes the "+s.what+" whenever the bucket is non-nil", "rate limit can be bypassed: "+s.what+" without bucket.Take on some path")
					}
				})
			}
			c.Floor("R17.6", s.what+" sites", n, 1)
		}
	}
}

func fnPkgPath(fn *ssa.Function) string { return kit.FnPkgPath(fn) }

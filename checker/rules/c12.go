package rules

import (
	"go/token"
	"go/types"

	"golang.org/x/tools/go/ssa"

	"rainverif/checker/kit"
)

func init() {
	register(&Property{
		ID: "C12",
		Explanation: "Decides the policy clause 'when encryption is forced no connection (incoming, outgoing, plaintext retry) is used unencrypted' as guard structure on the boolean parameters, plus 'selected cipher is one of the offered ones' and 'the cipher reported for a peer is the negotiated one'. " +
			"(R12.1) in btconn.Dial, with F=forceEncryption, E=enableEncryption: every write on a connection that is not the MSE wrapper requires F==false or E==false; every dial that can follow an MSE attempt requires F==false; the crypto_provide argument of HandshakeOutgoing contains mse.PlainText only under F==false; a return with a possibly-nil error returns the MSE connection unless F==false or E==false, and the MSE wrapper is used as the connection only after its HandshakeOutgoing returned nil (so a failed MSE handshake under F ends in a non-nil error). " +
			"(R12.2) HandshakeOutgoing / HandshakeIncoming return nil only under selected!=0, isPowerOfTwo(selected), selected&offered!=0 about the value that is passed to updateCipher; the pass-through cipher is installed only in updateCipher under selected==PlainText. " +
			"(R12.3) in btconn.Accept a possibly-nil-error return and every write on the connection (in Accept or in a helper only Accept calls) require forceEncryption==false or evidence that the crypto_select callback ran and returned mse.RC4, established by whatever means the code uses: a test of a bool that is set non-false only where RC4 is the value the callback returns (stored in the callback, returned through helper results), or a test `s == mse.RC4` of a value that is zero or exactly the callback's return value; a test such as `cipher != 0` is no evidence; the callback (or the helper that computes its result) selects PlainText only under forceEncryption==false; the MSE responder handshake runs only inside Accept or such a helper. " +
			"(R12.4) Dial's forceEncryption originates from Config.ForceOutgoingEncryption, enableEncryption from !Config.DisableOutgoingEncryption, Accept's forceEncryption from Config.ForceIncomingEncryption, through the two Run signatures (argument positions). " +
			"(R12.5) Peer.EncryptionCipher is written only by peer.New from the Cipher field of the handshaker whose connection is used, that field only from the cipher result of Dial/Accept, which is the result of HandshakeOutgoing / of the crypto-select callback. " +
			"NOT decided: handshake agreement for all keys, pad lengths 0..511 on each of the four pads, payload sizes and chunkings, the bounded sync scan (value-level arithmetic on runtime lengths); the combination force && disable for one direction is excluded by the property's quantifier and not checked.",
		RuleText: commonRuleText,
		Assumptions: append([]string{
			"a connection wrapped by mse.WrapConn whose handshake succeeded with a selected method other than PlainText is encrypted (crypto/rc4 and crypto/cipher.Stream{Reader,Writer} are trusted)",
			"'used unencrypted' is decided on writes and on the connection handed to the caller; bytes read before the policy decision (the first 48 handshake bytes on an incoming connection) are not a use",
			"consistent settings only: 'disable' and 'force' are not both set for one direction",
		}, commonAssumptions...),
		Run: runC12,
	})
}

// c12 carries the slots shared by the C12 rules.
type c12 struct {
	c *kit.Ctx
	k *keyer

	dial, accept *ssa.Function
	hsOut, hsIn  *types.Func
	tMSEConn     *types.Named
	iNetConn     *types.Interface
	iWriter      *types.Interface
	wrappers     map[*types.Func]bool
	plainBit     int64
	rc4Bit       int64
	tMethod      *types.Named
	in           *c12In
}

func runC12(c *kit.Ctx) {
	x := &c12{c: c, k: newKeyer()}
	x.dial = c.Func("internal/btconn", "Dial")
	x.accept = c.Func("internal/btconn", "Accept")
	x.hsOut = c.FuncObj("internal/mse", "(*Stream).HandshakeOutgoing")
	x.hsIn = c.FuncObj("internal/mse", "(*Stream).HandshakeIncoming")
	x.tMSEConn = c.Named("internal/mse", "Conn")
	x.iNetConn = ifaceOf(c, "net", "Conn")
	x.iWriter = ifaceOf(c, "io", "Writer")
	x.wrappers = map[*types.Func]bool{
		c.FuncObj("internal/mse", "WrapConn"):  true,
		c.FuncObj("internal/mse", "NewStream"): true,
	}
	x.tMethod = c.Named("internal/mse", "CryptoMethod")
	x.plainBit = constIntOf(c, "internal/mse", "PlainText")
	x.rc4Bit = constIntOf(c, "internal/mse", "RC4")
	c.Check(x.plainBit != 0 && x.rc4Bit != 0 && x.plainBit&x.rc4Bit == 0 && x.plainBit&(x.plainBit-1) == 0 && x.rc4Bit&(x.rc4Bit-1) == 0,
		"R12.2", "const/PlainText,RC4 distinct single bits", c.Const("internal/mse", "RC4").Pos(),
		"mse.PlainText and mse.RC4 are distinct single bits", "mse.PlainText / mse.RC4 are not distinct single-bit values: 'contains PlainText' is not decidable by a mask")

	x.outgoing()
	x.selection()
	x.incoming()
	x.wiring()
	x.cipherRecorded()
}

// ---- connection safety (shared by Dial and Accept) -----------------------------

// connSafety decides, for an interface value used as a writer / handed out
// as the connection, "either the policy guard G holds here or the value is
// the MSE wrapper": D = G or M, solved as one must-flow per local cell so
// that a join of a guarded plaintext path and an unguarded MSE path is
// still discharged.
type connSafety struct {
	x     *c12
	fn    *ssa.Function
	G     *kit.Flow
	gGen  func(kit.Atom) bool
	gKill func(ssa.Instruction) bool
	d     map[*ssa.Alloc]*kit.Flow
	busy  map[*ssa.Alloc]bool
	// helperOK (optional): the callee is a helper whose own writes on the
	// connection are all discharged inside it (the obligation is checked where
	// the write is, not at the call).
	helperOK func(*ssa.Function) bool
}

func (s *connSafety) guard(at ssa.Instruction) bool {
	return at != nil && at.Parent() == s.fn && s.G.Before(at)
}

// notConn: the value is certainly not a network connection (a
// *bytes.Buffer boxed as io.Writer, ...).
func (s *connSafety) notConn(v ssa.Value) bool {
	switch t := v.(type) {
	case *ssa.ChangeInterface:
		return s.notConn(t.X)
	case *ssa.MakeInterface:
		return !types.Implements(t.X.Type(), s.x.iNetConn)
	case *ssa.Const:
		return t.IsNil()
	}
	return false
}

func (s *connSafety) safe(v ssa.Value, at ssa.Instruction, seen map[ssa.Value]bool) bool {
	if s.guard(at) {
		return true
	}
	switch t := v.(type) {
	case *ssa.Const:
		return t.IsNil()
	case *ssa.MakeInterface:
		if ptrToNamed(t.X.Type(), s.x.tMSEConn) {
			return true
		}
		return !types.Implements(t.X.Type(), s.x.iNetConn)
	case *ssa.ChangeInterface:
		return s.safe(t.X, at, seen)
	case *ssa.ChangeType:
		return s.safe(t.X, at, seen)
	case *ssa.Phi:
		if seen == nil {
			seen = map[ssa.Value]bool{}
		}
		if seen[v] {
			return true
		}
		seen[v] = true
		for i, e := range t.Edges {
			pred := t.Block().Preds[i]
			if t.Parent() == s.fn && s.G.OnEdge(pred, t.Block()) {
				continue // the guard is established on this very edge
			}
			if !s.safe(e, termOf(pred), seen) {
				return false
			}
		}
		return true
	case *ssa.UnOp:
		if a, ok := t.X.(*ssa.Alloc); ok && t.Op == token.MUL && a.Parent() == s.fn {
			return s.dflow(a).Before(t)
		}
	}
	return false
}

func (s *connSafety) dflow(a *ssa.Alloc) *kit.Flow {
	if fl, ok := s.d[a]; ok {
		return fl
	}
	if s.busy[a] {
		return (&kit.Flow{P: s.x.c.Prog, Fn: s.fn, Instr: func(ssa.Instruction, bool) bool { return false }}).Solve()
	}
	s.busy[a] = true
	escapes := cellEscapes(s.fn, a)
	captured := false
	kit.Instrs(s.fn, func(ins ssa.Instruction) {
		if mc, ok := ins.(*ssa.MakeClosure); ok {
			for _, b := range mc.Bindings {
				if b == ssa.Value(a) {
					captured = true
				}
			}
		}
	})
	fl := &kit.Flow{P: s.x.c.Prog, Fn: s.fn, Edge: s.gGen}
	fl.Instr = func(ins ssa.Instruction, in bool) bool {
		if st, ok := ins.(*ssa.Store); ok && st.Addr == ssa.Value(a) {
			return s.safe(st.Val, ins, nil)
		}
		if storesInto(ins, a) {
			return s.guard(ins)
		}
		if captured || escapes {
			switch ins.(type) {
			case *ssa.Call, *ssa.RunDefers:
				return s.guard(ins)
			}
		}
		if in && s.gKill != nil && s.gKill(ins) {
			return false
		}
		return in
	}
	fl.Solve()
	s.d[a] = fl
	delete(s.busy, a)
	return fl
}

// describe renders where a connection value comes from (for reports).
func (s *connSafety) describe(v ssa.Value) string {
	switch t := v.(type) {
	case *ssa.ChangeInterface:
		return s.describe(t.X)
	case *ssa.MakeInterface:
		return "a " + types.TypeString(t.X.Type(), func(p *types.Package) string { return p.Name() })
	case *ssa.Phi:
		if t.Comment != "" {
			return "variable " + t.Comment
		}
	case *ssa.UnOp:
		if a, ok := t.X.(*ssa.Alloc); ok && a.Comment != "" {
			return "variable " + a.Comment
		}
	case *ssa.Parameter:
		return "parameter " + t.Name()
	}
	return kit.Canon(v).String()
}

var writeMethods = map[string]bool{"Write": true, "WriteString": true, "ReadFrom": true, "WriteTo": false}

type wsink struct {
	Ins  ssa.Instruction
	Val  ssa.Value
	What string
}

// paramWrites: may callee fn write on (or leak) its parameter idx?
func (x *c12) paramWrites(fn *ssa.Function, idx, depth int) bool {
	if fn == nil || fn.Blocks == nil || idx >= len(fn.Params) {
		return true
	}
	return x.valueWrites(fn.Params[idx], depth, map[ssa.Value]bool{})
}

func (x *c12) valueWrites(v ssa.Value, depth int, seen map[ssa.Value]bool) bool {
	if seen[v] {
		return false
	}
	seen[v] = true
	refs := v.Referrers()
	if refs == nil {
		return true
	}
	for _, r := range *refs {
		switch t := r.(type) {
		case *ssa.DebugRef:
		case *ssa.ChangeInterface, *ssa.ChangeType, *ssa.MakeInterface, *ssa.Phi:
			if x.valueWrites(r.(ssa.Value), depth, seen) {
				return true
			}
		case *ssa.BinOp, *ssa.If:
		case ssa.CallInstruction:
			cc := t.Common()
			if cc.IsInvoke() && cc.Value == v {
				if writeMethods[cc.Method.Name()] {
					return true
				}
				// other methods of the connection (Close, SetDeadline, Read, RemoteAddr) do not send
				passed := false
				for _, a := range cc.Args {
					if a == v {
						passed = true
					}
				}
				if !passed {
					continue
				}
			}
			if x.wrappers[kit.CalleeObj(cc)] {
				continue
			}
			callee := cc.StaticCallee()
			if mc, ok := cc.Value.(*ssa.MakeClosure); ok {
				callee, _ = mc.Fn.(*ssa.Function)
			}
			if callee == nil || callee.Blocks == nil || depth <= 0 {
				return true
			}
			for i, a := range cc.Args {
				if a == v && x.paramWrites(callee, i, depth-1) {
					return true
				}
			}
		default:
			return true // stored, returned, type-asserted, ...: leaves our sight
		}
	}
	return false
}

// writeSinks enumerates the instructions of fn that send bytes on a value
// that may be a network connection: Write-family invokes on an interface
// and calls that hand a writer-capable interface value to a callee that may
// write on it (the MSE wrapper constructors excepted).
func (s *connSafety) writeSinks() []wsink {
	x := s.x
	var out []wsink
	kit.Instrs(s.fn, func(ins ssa.Instruction) {
		ci, ok := ins.(ssa.CallInstruction)
		if !ok {
			return
		}
		cc := ci.Common()
		if cc.IsInvoke() && writeMethods[cc.Method.Name()] {
			if !s.notConn(cc.Value) {
				out = append(out, wsink{ins, cc.Value, "call " + cc.Method.Name()})
			}
			return
		}
		if x.wrappers[kit.CalleeObj(cc)] {
			return
		}
		callee := cc.StaticCallee()
		if mc, ok := cc.Value.(*ssa.MakeClosure); ok {
			callee, _ = mc.Fn.(*ssa.Function)
		}
		for i, a := range cc.Args {
			if _, isIface := a.Type().Underlying().(*types.Interface); !isIface {
				continue
			}
			if !types.Implements(a.Type(), x.iWriter) || s.notConn(a) {
				continue
			}
			pi := i
			if cc.IsInvoke() {
				pi = -1
			}
			if pi >= 0 && callee != nil && callee.Blocks != nil && !x.paramWrites(callee, pi, 3) {
				continue // callee only closes / reads / sets deadlines
			}
			if pi >= 0 && callee != nil && callee.Blocks != nil && s.helperOK != nil && s.helperOK(callee) {
				continue // every write inside the helper is discharged there
			}
			name := "<dynamic>"
			if o := kit.CalleeObj(cc); o != nil {
				name = o.Name()
			} else if callee != nil {
				name = callee.Name()
			}
			out = append(out, wsink{ins, a, "pass to " + name})
		}
	})
	return out
}

// closureConnWrites flags Write-family invokes inside closures of fn on a
// captured connection variable: guards of fn do not reach into closures.
func (s *connSafety) closureConnWrites(rule string) {
	for _, f := range kit.WithAnon(s.fn)[1:] {
		kit.Instrs(f, func(ins ssa.Instruction) {
			ci, ok := ins.(ssa.CallInstruction)
			if !ok || !ci.Common().IsInvoke() || !writeMethods[ci.Common().Method.Name()] {
				return
			}
			v := ci.Common().Value
			for {
				if ch, ok := v.(*ssa.ChangeInterface); ok {
					v = ch.X
					continue
				}
				break
			}
			if u, ok := v.(*ssa.UnOp); ok && u.Op == token.MUL {
				if _, ok := u.X.(*ssa.FreeVar); ok && types.Implements(u.Type(), s.x.iNetConn) {
					s.x.c.Bad(rule, s.x.k.key(f, "write on captured connection"), posOf(ins),
						"closure writes on a connection variable captured from %s: the encryption-policy guard cannot be shown there", kit.FuncName(s.fn))
				}
			}
		})
	}
}

// mseWrapperUse: every conversion of an *mse.Conn to an interface in fn
// (the point where the wrapper starts to be used as "the connection")
// requires that the MSE handshake on that wrapper has returned nil.
func (x *c12) mseWrapperUse(rule string, fn *ssa.Function, hs *types.Func, errIdx int) int {
	n := 0
	kit.Instrs(fn, func(ins ssa.Instruction) {
		mi, ok := ins.(*ssa.MakeInterface)
		if !ok || !ptrToNamed(mi.X.Type(), x.tMSEConn) {
			return
		}
		n++
		key := x.k.key(fn, "use *mse.Conn as connection")
		var calls []*ssa.Call
		kit.Instrs(fn, func(j ssa.Instruction) {
			call, ok := j.(*ssa.Call)
			if !ok || kit.CalleeObj(&call.Call) != hs {
				return
			}
			recv := kit.Canon(argOf(&call.Call, 0))
			if recv.V == mi.X || ((recv.Kind == "field" || recv.Kind == "fieldaddr") && recv.Base() != nil && recv.Base().V == mi.X) {
				calls = append(calls, call)
			}
		})
		if len(calls) == 0 {
			// the wrapper may be the result of a helper that made the handshake
			if hc, ei, ok := x.wrapperFromHelper(mi.X, hs, errIdx, 2); ok {
				if callSucceeded(x.c, hc, ei).Before(mi) {
					x.c.OK(rule, key, posOf(ins), "MSE wrapper (result of %s, which returns it together with the error of %s) becomes the connection only after that error was nil", hc.Call.StaticCallee().Name(), hs.Name())
				} else {
					x.c.Bad(rule, key, posOf(ins), "the MSE wrapper becomes the connection on a path where the error returned by %s (the error of %s) has not been tested nil: after a failed MSE handshake the half-negotiated stream would be used", hc.Call.StaticCallee().Name(), hs.Name())
				}
				return
			}
			x.c.Bad(rule, key, posOf(ins), "the MSE wrapper is used as the connection but no %s call on it is found in %s", hs.Name(), kit.FuncName(fn))
			return
		}
		for _, call := range calls {
			if callSucceeded(x.c, call, errIdx).Before(mi) {
				x.c.OK(rule, key, posOf(ins), "MSE wrapper becomes the connection only after %s on it returned a nil error", hs.Name())
				return
			}
		}
		x.c.Bad(rule, key, posOf(ins), "the MSE wrapper becomes the connection on a path where %s has not returned nil: after a failed MSE handshake the half-negotiated stream would be used", hs.Name())
	})
	return n
}

// wrapperFromHelper: v is result i of a static call to a module function h
// each of whose returns either returns a certainly non-nil error, or returns
// as result i the value on which hs was called in h together with that
// call's error (or after that call's error was tested nil). Returns the call
// of h and the index of h's error result.
func (x *c12) wrapperFromHelper(v ssa.Value, hs *types.Func, errIdx, depth int) (*ssa.Call, int, bool) {
	ex, ok := v.(*ssa.Extract)
	if !ok || depth <= 0 {
		return nil, 0, false
	}
	hc, ok := ex.Tuple.(*ssa.Call)
	if !ok {
		return nil, 0, false
	}
	h := hc.Call.StaticCallee()
	if h == nil || h.Blocks == nil || h.Pkg == nil || !kit.InModule(h.Pkg.Pkg.Path()) {
		return nil, 0, false
	}
	res := h.Signature.Results()
	ei := res.Len() - 1
	if ei < 0 || !types.Identical(res.At(ei).Type(), types.Universe.Lookup("error").Type()) {
		return nil, 0, false
	}
	ef := newErrFacts(x.c, h)
	nOK := 0
	for _, r := range returnsOf(h) {
		if r.Block() == h.Recover {
			continue
		}
		if ef.nonNil(r.Results[ei], r, nil) {
			continue
		}
		w := r.Results[ex.Index]
		good := false
		kit.Instrs(h, func(j ssa.Instruction) {
			call, ok := j.(*ssa.Call)
			if !ok || kit.CalleeObj(&call.Call) != hs {
				return
			}
			recv := kit.Canon(argOf(&call.Call, 0))
			if !(recv.V == w || ((recv.Kind == "field" || recv.Kind == "fieldaddr") && recv.Base() != nil && recv.Base().V == w)) {
				return
			}
			if resultOf(call, errIdx)[r.Results[ei]] || callSucceeded(x.c, call, errIdx).Before(r) {
				good = true
			}
		})
		if !good {
			if c2, e2, ok := x.wrapperFromHelper(w, hs, errIdx, depth-1); ok && callSucceeded(x.c, c2, e2).Before(r) {
				good = true
			}
		}
		if !good {
			return nil, 0, false
		}
		nOK++
	}
	return hc, ei, nOK > 0
}

// ---- R12.1 outgoing ---------------------------------------------------------------

func (x *c12) outgoing() {
	c, k, fn := x.c, x.k, x.dial
	F := newBoolParam(fn, "forceEncryption")
	E := newBoolParam(fn, "enableEncryption")
	for _, p := range []*boolParam{F, E} {
		c.Check(!p.reassigned(), "R12.1", kit.FuncName(fn)+"/param "+p.P.Name()+" not re-assigned", p.P.Pos(),
			p.P.Name()+" is never written inside Dial", p.P.Name()+" is written inside Dial: the configured policy can be overridden")
	}
	c.Present("R12.1", kit.FuncName(fn)+"/contract forceEncryption&&!enableEncryption", fn.Pos(),
		"combination force && disable is excluded by the property's quantifier: unreachable by contract, not checked")

	notF := func(a kit.Atom) bool { return a.IsFalse(F.is) }
	gGen := func(a kit.Atom) bool { return a.IsFalse(F.is) || a.IsFalse(E.is) }
	fFlow := c.AtomFlow(fn, notF, nil)
	cs := &connSafety{x: x, fn: fn, G: c.AtomFlow(fn, gGen, nil), gGen: gGen, d: map[*ssa.Alloc]*kit.Flow{}, busy: map[*ssa.Alloc]bool{}}

	// (a) writes on a non-MSE connection
	sinks := cs.writeSinks()
	for _, s := range sinks {
		key := k.key(fn, "conn write: "+s.What)
		if cs.safe(s.Val, s.Ins, nil) {
			c.OK("R12.1", key, posOf(s.Ins), "write on %s: forceEncryption==false or enableEncryption==false holds, or it is the MSE wrapper", cs.describe(s.Val))
		} else {
			c.Bad("R12.1", key, posOf(s.Ins), "write on %s may hit the raw connection while forceEncryption && enableEncryption: plaintext is sent although encryption is forced", cs.describe(s.Val))
		}
	}
	c.Floor("R12.1", "writes on the connection in Dial (plaintext handshake sends)", len(sinks), 2)
	cs.closureConnWrites("R12.1")

	// (b) plaintext re-dial
	var hsCalls []*ssa.Call
	var dials []ssa.CallInstruction
	kit.Instrs(fn, func(ins ssa.Instruction) {
		ci, ok := ins.(ssa.CallInstruction)
		if !ok {
			return
		}
		if call, ok := ins.(*ssa.Call); ok && kit.CalleeObj(&call.Call) == x.hsOut {
			hsCalls = append(hsCalls, call)
		}
		if o := kit.CalleeObj(ci.Common()); o != nil && o.Pkg() != nil && o.Pkg().Path() == "net" && len(o.Name()) >= 4 && o.Name()[:4] == "Dial" {
			dials = append(dials, ci)
		}
	})
	redials := 0
	for _, d := range dials {
		after := false
		for _, h := range hsCalls {
			if reaches(h, d) {
				after = true
			}
		}
		if !after {
			continue
		}
		redials++
		key := k.key(fn, "re-dial after MSE attempt")
		c.Check(fFlow.Before(d), "R12.1", key, posOf(d),
			"dial that can follow an MSE attempt is dominated by forceEncryption==false",
			"a dial that can follow a (failed) MSE attempt is not dominated by forceEncryption==false: the plaintext retry happens although encryption is forced")
	}
	c.Floor("R12.1", "dials reachable from the MSE handshake (plaintext retry)", redials, 1)

	// (c) crypto_provide
	nOut := 0
	for _, s := range sortSites(c.CallSites(x.hsOut)) {
		key := k.key(s.Fn, "HandshakeOutgoing crypto_provide")
		if s.Fn != fn {
			c.Bad("R12.1", key, posOf(s.Instr), "MSE initiator handshake outside btconn.Dial: its crypto_provide is not tied to forceEncryption")
			continue
		}
		nOut++
		prov := argOf(s.Instr.Common(), 2)
		if bitOnlyUnder(fn, prov, x.plainBit, s.Instr, fFlow, nil) {
			c.OK("R12.1", key, posOf(s.Instr), "crypto_provide %s contains mse.PlainText only where forceEncryption==false", kit.Canon(prov))
		} else {
			c.Bad("R12.1", key, posOf(s.Instr), "crypto_provide %s may contain mse.PlainText while forceEncryption is true: the peer may select plaintext", kit.Canon(prov))
		}
	}
	for _, r := range c.FuncRefs(x.hsOut) {
		c.Bad("R12.1", k.key(r.Fn, "ref HandshakeOutgoing"), r.Fn.Pos(), "HandshakeOutgoing taken as a value: call sites cannot be enumerated")
	}
	c.Floor("R12.1", "HandshakeOutgoing call sites in Dial", nOut, 1)

	// (d) success return hands out the MSE connection unless the policy
	// permits plaintext; the wrapper is used only after a nil handshake error
	ef := newErrFacts(c, fn)
	errIdx := fn.Signature.Results().Len() - 1
	succ := ef.successReturns(errIdx)
	for _, r := range succ {
		key := k.key(fn, "return with possibly-nil error")
		if cs.safe(r.Results[0], r, nil) {
			c.OK("R12.1", key, posOf(r), "returned connection (%s) is the MSE wrapper, or forceEncryption==false / enableEncryption==false holds on the path", cs.describe(r.Results[0]))
		} else {
			c.Bad("R12.1", key, posOf(r), "Dial may return a nil error with a raw connection (%s) while forceEncryption && enableEncryption: a failed or skipped MSE handshake does not end in an error", cs.describe(r.Results[0]))
		}
	}
	c.Floor("R12.1", "returns of Dial whose error may be nil", len(succ), 1)
	n := x.mseWrapperUse("R12.1", fn, x.hsOut, 1)
	c.Floor("R12.1", "uses of the MSE wrapper as the connection in Dial", n, 1)
}

// selSubject returns the matcher for reads of "the selected method" denoted
// by v (an SSA value, or a load of a local cell) and the kill predicate of
// facts about it.
func selSubject(v ssa.Value) (isSel func(*kit.Expr) bool, kill func(ssa.Instruction) bool) {
	var cell *ssa.Alloc
	if u, ok := v.(*ssa.UnOp); ok && u.Op == token.MUL {
		cell, _ = u.X.(*ssa.Alloc)
	}
	if cell != nil {
		return func(e *kit.Expr) bool {
				e = e.Strip()
				return e != nil && e.V != nil && loadOfCell(e.V, cell)
			}, func(ins ssa.Instruction) bool {
				return storesInto(ins, cell)
			}
	}
	return func(e *kit.Expr) bool { e = e.Strip(); return e != nil && e.V == v }, nil
}

// helperResult: v (evaluated at `at` in fn) is result idx of a static call to
// a module function with a body whose last result is an error that has been
// tested nil on every path to `at`.
func (x *c12) helperResult(fn *ssa.Function, v ssa.Value, at ssa.Instruction) (call *ssa.Call, idx int, ok bool) {
	resolve := func(w ssa.Value) (*ssa.Call, int, bool) {
		switch t := w.(type) {
		case *ssa.Extract:
			if c2, isCall := t.Tuple.(*ssa.Call); isCall {
				return c2, t.Index, true
			}
		case *ssa.Call:
			if t.Call.Signature().Results().Len() == 1 {
				return t, 0, true
			}
		}
		return nil, 0, false
	}
	call, idx, ok = resolve(v)
	if !ok {
		// a local cell that currently holds such a result
		if u, isLd := v.(*ssa.UnOp); isLd && u.Op == token.MUL {
			if cell, isA := u.X.(*ssa.Alloc); isA {
				for _, s := range cellStores(fn, cell) {
					if c2, i2, ok2 := resolve(s.St.Val); ok2 && s.Fn == fn && cellHolds(x.c, cell, s.St.Val).Before(at) {
						call, idx, ok = c2, i2, true
					}
				}
			}
		}
	}
	if !ok || call.Parent() != fn {
		return nil, 0, false
	}
	h := call.Call.StaticCallee()
	if h == nil || h.Blocks == nil || h.Pkg == nil || !kit.InModule(h.Pkg.Pkg.Path()) {
		return nil, 0, false
	}
	res := h.Signature.Results()
	ei := res.Len() - 1
	if ei < 0 || ei == idx || !types.Identical(res.At(ei).Type(), types.Universe.Lookup("error").Type()) {
		return nil, 0, false
	}
	if !callSucceeded(x.c, call, ei).Before(at) {
		return nil, 0, false
	}
	return call, idx, true
}

// selFactsDeep decides the three facts about the selected method sel at `at`
// in fn: established in fn itself, or - sel being the result of a helper whose
// error was tested nil - at every nil-error return of that helper about the
// value it returns (the offered set is followed into the helper's parameter).
func (x *c12) selFactsDeep(fn *ssa.Function, sel ssa.Value, isOffer func(*kit.Expr) bool, at ssa.Instruction, depth int) string {
	isSel, kill := selSubject(sel)
	miss := x.selFacts(fn, isSel, isOffer, kill, at)
	if miss == "" || depth <= 0 {
		return miss
	}
	call, idx, ok := x.helperResult(fn, sel, at)
	if !ok {
		return miss
	}
	h := call.Call.StaticCallee()
	var offerP ssa.Value
	for j, a := range call.Call.Args {
		if j < len(h.Params) && isOffer(kit.Canon(a)) {
			offerP = h.Params[j]
		}
	}
	isOfferH := func(e *kit.Expr) bool { e = e.Strip(); return offerP != nil && e != nil && e.V == offerP }
	rets := newErrFacts(x.c, h).successReturns(h.Signature.Results().Len() - 1)
	if len(rets) == 0 {
		return miss
	}
	for _, r := range rets {
		if m := x.selFactsDeep(h, r.Results[idx], isOfferH, r, depth-1); m != "" {
			return m
		}
	}
	return ""
}

// cbCallsIn lists the calls of the function-typed parameter cb in fn.
func cbCallsIn(fn *ssa.Function, cb *ssa.Parameter) []*ssa.Call {
	var out []*ssa.Call
	kit.Instrs(fn, func(ins ssa.Instruction) {
		if call, ok := ins.(*ssa.Call); ok && call.Call.Value == ssa.Value(cb) {
			out = append(out, call)
		}
	})
	return out
}

// cbHandOvers lists the static calls in fn that pass cb on to a module
// function with a body, with the receiving parameter.
func cbHandOvers(fn *ssa.Function, cb *ssa.Parameter) (calls []*ssa.Call, params []*ssa.Parameter) {
	kit.Instrs(fn, func(ins ssa.Instruction) {
		call, ok := ins.(*ssa.Call)
		if !ok {
			return
		}
		h := call.Call.StaticCallee()
		if h == nil || h.Blocks == nil || h.Pkg == nil || !kit.InModule(h.Pkg.Pkg.Path()) {
			return
		}
		for j, a := range call.Call.Args {
			if a == ssa.Value(cb) && j < len(h.Params) {
				calls = append(calls, call)
				params = append(params, h.Params[j])
			}
		}
	})
	return
}

func (x *c12) countCBCalls(fn *ssa.Function, cb *ssa.Parameter, depth int) int {
	n := len(cbCallsIn(fn, cb))
	if depth > 0 {
		calls, params := cbHandOvers(fn, cb)
		for i, call := range calls {
			n += x.countCBCalls(call.Call.StaticCallee(), params[i], depth-1)
		}
	}
	return n
}

// cbFacts decides, for the nil-error return `at` of fn, that the crypto_select
// callback cb was called exactly once on the way and that its result is
// non-zero, a single bit and one of the methods it was offered. The call and
// the checks may sit in fn or in one helper that receives cb, returns the
// callback's result and whose error was tested nil. Returns the SSA values
// of fn that denote the callback's result.
func (x *c12) cbFacts(fn *ssa.Function, cb *ssa.Parameter, at ssa.Instruction, depth int) (map[ssa.Value]bool, string) {
	c := x.c
	cbCalls := cbCallsIn(fn, cb)
	hcalls, hparams := cbHandOvers(fn, cb)
	switch {
	case len(cbCalls) == 1 && len(hcalls) == 0:
		call := cbCalls[0]
		if !kit.Dominates(call, at) {
			return nil, "can return a nil error without having called the crypto_select callback"
		}
		isSel := func(e *kit.Expr) bool { e = e.Strip(); return e != nil && e.V == ssa.Value(call) }
		offered := call.Call.Args[0]
		var ocell *ssa.Alloc
		if u, ok := offered.(*ssa.UnOp); ok && u.Op == token.MUL {
			ocell, _ = u.X.(*ssa.Alloc)
		}
		// "offer cell unchanged since the callback saw it"
		var unchanged *kit.Flow
		if ocell != nil {
			unchanged = &kit.Flow{P: c.Prog, Fn: fn}
			unchanged.Instr = func(ins ssa.Instruction, in bool) bool {
				if ins == ssa.Instruction(call) {
					return true
				}
				if in && storesInto(ins, ocell) {
					return false
				}
				return in
			}
			unchanged.Solve()
		}
		isOffer := func(e *kit.Expr) bool {
			e = e.Strip()
			if e == nil || e.V == nil {
				return false
			}
			if ocell != nil {
				u, ok := e.V.(*ssa.UnOp)
				return ok && loadOfCell(u, ocell) && unchanged.Before(u)
			}
			return e.V == offered
		}
		if miss := x.selFacts(fn, isSel, isOffer, nil, at); miss != "" {
			return nil, "can return a nil error without the check " + miss + " on the callback's result"
		}
		return map[ssa.Value]bool{call: true}, ""
	case len(cbCalls) == 0 && len(hcalls) == 1 && depth > 0:
		hc := hcalls[0]
		h := hc.Call.StaticCallee()
		res := h.Signature.Results()
		ei := res.Len() - 1
		if ei < 1 || !types.Identical(res.At(ei).Type(), types.Universe.Lookup("error").Type()) {
			return nil, "hands the crypto_select callback to " + h.Name() + ", which does not return (selected, error)"
		}
		if !kit.Dominates(hc, at) || !callSucceeded(c, hc, ei).Before(at) {
			return nil, "can return a nil error without " + h.Name() + " (which calls the crypto_select callback) having returned a nil error"
		}
		rets := newErrFacts(c, h).successReturns(ei)
		if len(rets) == 0 {
			return nil, "hands the crypto_select callback to " + h.Name() + ", which has no nil-error return"
		}
		idx := -1
		for _, r := range rets {
			sels, miss := x.cbFacts(h, hparams[0], r, depth-1)
			if miss != "" {
				return nil, "relies on " + h.Name() + ", which " + miss
			}
			found := -1
			for i, v := range r.Results {
				if sels[v] {
					found = i
				}
			}
			if found < 0 || (idx >= 0 && idx != found) {
				return nil, "relies on " + h.Name() + ", which does not return the callback's result"
			}
			idx = found
		}
		return resultOf(hc, idx), ""
	}
	return nil, "calls the crypto_select callback " + itoa(len(cbCalls)) + " times (and hands it to " + itoa(len(hcalls)) + " helpers): which result is in force cannot be shown"
}

// updatesCipherWith: call is updateCipher(sel) with sel matched by isSel, or a
// call of a module helper that receives such a value as argument j and on
// every returning path calls updateCipher with its parameter j.
func (x *c12) updatesCipherWith(call *ssa.Call, updateCipher *types.Func, isSel func(*kit.Expr) bool) bool {
	if kit.CalleeObj(&call.Call) == updateCipher {
		return isSel(kit.Canon(argOf(&call.Call, 1)))
	}
	h := call.Call.StaticCallee()
	if h == nil || h.Blocks == nil || h.Pkg == nil || !kit.InModule(h.Pkg.Pkg.Path()) {
		return false
	}
	for j, a := range call.Call.Args {
		if j >= len(h.Params) || !isSel(kit.Canon(a)) {
			continue
		}
		p := h.Params[j]
		if x.c.MustCallSummary(h, func(ins ssa.Instruction) bool {
			uc, ok := ins.(*ssa.Call)
			return ok && kit.CalleeObj(&uc.Call) == updateCipher && kit.Canon(argOf(&uc.Call, 1)).Strip().V == ssa.Value(p)
		}, 1) {
			return true
		}
	}
	return false
}

// ---- R12.2 selected is one of the offered methods ---------------------------------

// selFacts checks the three facts about the selected method at `at`.
// isSel / isOffer match the subject expressions; kill invalidates them.
func (x *c12) selFacts(fn *ssa.Function, isSel, isOffer func(*kit.Expr) bool, kill func(ssa.Instruction) bool, at ssa.Instruction) (missing string) {
	c := x.c
	isPow := c.FuncObj("internal/mse", "isPowerOfTwo")
	nonZero := c.AtomFlow(fn, func(a kit.Atom) bool {
		z, ok := a.R.IntConst()
		return a.Op == token.NEQ && ok && z == 0 && isSel(a.L)
	}, kill)
	pow := c.AtomFlow(fn, func(a kit.Atom) bool {
		return a.IsTrue(func(e *kit.Expr) bool { return e.IsCallTo(isPow) && len(e.Args) == 1 && isSel(e.Args[0]) })
	}, kill)
	offered := c.AtomFlow(fn, func(a kit.Atom) bool {
		z, ok := a.R.IntConst()
		if a.Op != token.NEQ || !ok || z != 0 || a.L.Kind != "binop" || a.L.Op != token.AND {
			return false
		}
		l, r := a.L.Args[0], a.L.Args[1]
		return (isSel(l) && isOffer(r)) || (isSel(r) && isOffer(l))
	}, kill)
	switch {
	case !nonZero.Before(at):
		return "selected != 0"
	case !pow.Before(at):
		return "isPowerOfTwo(selected)"
	case !offered.Before(at):
		return "selected & offered != 0"
	}
	return ""
}

func (x *c12) selection() {
	c, k := x.c, x.k
	updateCipher := c.FuncObj("internal/mse", "(*Stream).updateCipher")
	tMethod := c.Named("internal/mse", "CryptoMethod")
	isMethod := func(t types.Type) bool { n, ok := t.(*types.Named); return ok && n.Origin() == tMethod }
	stripE := func(e *kit.Expr) *kit.Expr { return e.Strip() }

	// --- HandshakeOutgoing
	{
		fn := c.Func("internal/mse", "(*Stream).HandshakeOutgoing")
		var offer *ssa.Parameter
		for _, p := range fn.Params {
			if isMethod(p.Type()) {
				if offer != nil {
					panic(kit.AnchorError{Msg: "HandshakeOutgoing has two CryptoMethod parameters"})
				}
				offer = p
			}
		}
		if offer == nil {
			panic(kit.AnchorError{Msg: "HandshakeOutgoing: no CryptoMethod parameter (crypto_provide)"})
		}
		isOffer := func(e *kit.Expr) bool { return stripE(e).V == ssa.Value(offer) }
		ef := newErrFacts(c, fn)
		succ := ef.successReturns(1)
		for _, r := range succ {
			key := k.key(fn, "return selected, nil")
			sel := r.Results[0]
			isSel, _ := selSubject(sel)
			// the checks may sit in the function itself or in the helper that read
			// and validated the peer's answer (its nil-error returns)
			if miss := x.selFactsDeep(fn, sel, isOffer, r, 2); miss != "" {
				c.Bad("R12.2", key, posOf(r), "HandshakeOutgoing can return a nil error without the check %s on the method selected by the peer", miss)
				continue
			}
			// the stream is switched according to the same value
			okUpd := false
			kit.Instrs(fn, func(ins ssa.Instruction) {
				if call, ok := ins.(*ssa.Call); ok && x.updatesCipherWith(call, updateCipher, isSel) && kit.Dominates(call, r) {
					okUpd = true
				}
			})
			c.Check(okUpd, "R12.2", key, posOf(r),
				"nil error only under selected!=0, isPowerOfTwo(selected), selected&cryptoProvide!=0; updateCipher(selected) dominates the return",
				"the checked selected method is not the one passed to updateCipher before the successful return")
		}
		c.Floor("R12.2", "returns of HandshakeOutgoing whose error may be nil", len(succ), 1)
	}

	// --- HandshakeIncoming
	{
		fn := c.Func("internal/mse", "(*Stream).HandshakeIncoming")
		var cb *ssa.Parameter
		for _, p := range fn.Params {
			if sig, ok := p.Type().Underlying().(*types.Signature); ok && sig.Params().Len() == 1 && sig.Results().Len() == 1 &&
				isMethod(sig.Params().At(0).Type()) && isMethod(sig.Results().At(0).Type()) {
				cb = p
			}
		}
		if cb == nil {
			panic(kit.AnchorError{Msg: "HandshakeIncoming: no func(CryptoMethod) CryptoMethod parameter (crypto_select callback)"})
		}
		c.Floor("R12.2", "calls of the crypto_select callback in HandshakeIncoming (helpers that receive it included)", x.countCBCalls(fn, cb, 2), 1)
		ef := newErrFacts(c, fn)
		succ := ef.successReturns(0)
		for _, r := range succ {
			key := k.key(fn, "return nil")
			sels, miss := x.cbFacts(fn, cb, r, 2)
			if miss != "" {
				c.Bad("R12.2", key, posOf(r), "HandshakeIncoming %s", miss)
				continue
			}
			isSel := func(e *kit.Expr) bool { e = stripE(e); return e.V != nil && sels[e.V] }
			okUpd := false
			kit.Instrs(fn, func(ins ssa.Instruction) {
				if uc, ok := ins.(*ssa.Call); ok && x.updatesCipherWith(uc, updateCipher, isSel) && kit.Dominates(uc, r) {
					okUpd = true
				}
			})
			c.Check(okUpd, "R12.2", key, posOf(r),
				"nil error only under selected!=0, isPowerOfTwo(selected), selected&cryptoProvide!=0 about the callback's result; updateCipher(selected) dominates the return",
				"the callback's checked result is not the value passed to updateCipher before the successful return")
		}
		c.Floor("R12.2", "returns of HandshakeIncoming whose error may be nil", len(succ), 1)
		for _, s := range sortSites(c.CallSites(x.hsIn)) {
			if !x.inc().isHelper(topFn(s.Fn)) {
				c.Bad("R12.2", k.key(s.Fn, "HandshakeIncoming"), posOf(s.Instr), "MSE responder handshake outside btconn.Accept (and the helpers only Accept calls): its crypto_select callback is not tied to forceEncryption")
			}
		}
	}

	// --- isPowerOfTwo really is "exactly one bit"
	{
		fn := c.Func("internal/mse", "isPowerOfTwo")
		p := fn.Params[0]
		isP := func(e *kit.Expr) bool { return e.Strip().V == ssa.Value(p) }
		nz := c.AtomFlow(fn, func(a kit.Atom) bool {
			z, ok := a.R.IntConst()
			return a.Op == token.NEQ && ok && z == 0 && isP(a.L)
		}, nil)
		n := 0
		for _, r := range returnsOf(fn) {
			for _, src := range boolSources(r.Results[0]) {
				e := kit.Canon(src.V)
				if e.IsConstBool(false) {
					continue
				}
				n++
				key := k.key(fn, "return-may-be-true")
				at := src.At
				if at == nil {
					at = r
				}
				shape := false
				if e.Kind == "binop" && e.Op == token.EQL {
					l, rr := e.Args[0], e.Args[1]
					if z, ok := l.IntConst(); ok && z == 0 {
						l, rr = rr, l
					}
					if z, ok := rr.IntConst(); ok && z == 0 && l.Kind == "binop" && l.Op == token.AND {
						a, b := l.Args[0], l.Args[1]
						if !isP(a) {
							a, b = b, a
						}
						if isP(a) && b.Kind == "binop" && b.Op == token.SUB && isP(b.Args[0]) {
							if one, ok := b.Args[1].IntConst(); ok && one == 1 {
								shape = true
							}
						}
					}
				}
				switch {
				case !shape:
					c.Bad("R12.2", key, posOf(r), "isPowerOfTwo may return true from %s, which is not x&(x-1)==0", e)
				case !nz.Before(at):
					c.Bad("R12.2", key, posOf(r), "isPowerOfTwo may return true for 0")
				default:
					c.OK("R12.2", key, posOf(r), "true only as x&(x-1)==0 under x!=0")
				}
			}
		}
		c.Floor("R12.2", "true-capable returns of isPowerOfTwo", n, 1)
	}

	// --- the pass-through cipher is installed only for PlainText
	{
		tPlain := c.Named("internal/mse", "plainTextCipher")
		uc := c.Func("internal/mse", "(*Stream).updateCipher")
		var selP *ssa.Parameter
		for _, p := range uc.Params {
			if isMethod(p.Type()) {
				selP = p
			}
		}
		if selP == nil {
			panic(kit.AnchorError{Msg: "updateCipher: no CryptoMethod parameter"})
		}
		isPlain := c.AtomFlow(uc, func(a kit.Atom) bool {
			z, ok := a.R.IntConst()
			return a.Op == token.EQL && ok && z == x.plainBit && a.L.Strip().V == ssa.Value(selP)
		}, nil)
		n := 0
		for _, f := range c.ModuleFunctions() {
			kit.Instrs(f, func(ins ssa.Instruction) {
				mi, ok := ins.(*ssa.MakeInterface)
				if !ok {
					return
				}
				if nm, ok := mi.X.Type().(*types.Named); !ok || nm.Origin() != tPlain {
					return
				}
				n++
				key := k.key(f, "install plainTextCipher")
				switch {
				case f != uc:
					c.Bad("R12.2", key, posOf(ins), "the pass-through cipher is instantiated outside (*Stream).updateCipher")
				case !isPlain.Before(ins):
					c.Bad("R12.2", key, posOf(ins), "the pass-through cipher is installed on a path where selected == mse.PlainText does not hold: a stream negotiated as RC4 would run unencrypted")
				default:
					c.OK("R12.2", key, posOf(ins), "pass-through cipher installed only under selected == mse.PlainText")
				}
			})
		}
		c.Floor("R12.2", "instantiations of plainTextCipher", n, 2)
		initRC4 := c.Func("internal/mse", "(*Stream).initRC4")
		for _, fld := range []string{"r", "w"} {
			f := c.Field("internal/mse", "Stream", fld)
			for _, st := range fieldStores(c, f) {
				key := k.key(st.Fn, "store Stream."+fld)
				if st.Fn == uc || st.Fn == initRC4 {
					c.Present("R12.2", key, posOf(st.Store), "cipher stream of mse.Stream set in initRC4 / updateCipher")
				} else {
					c.Bad("R12.2", key, posOf(st.Store), "mse.Stream.%s (the cipher stream) is replaced outside initRC4 / updateCipher", fld)
				}
			}
		}
		hsOutFn := c.Func("internal/mse", "(*Stream).HandshakeOutgoing")
		hsInFn := c.Func("internal/mse", "(*Stream).HandshakeIncoming")
		// ... or from helpers that only the handshake functions call
		var hsHelper func(fn *ssa.Function, depth int) bool
		hsHelper = func(fn *ssa.Function, depth int) bool {
			if fn == hsOutFn || fn == hsInFn {
				return true
			}
			sites := c.StaticCallSites(fn)
			if depth <= 0 || len(sites) == 0 || fn.Parent() != nil {
				return false
			}
			for _, site := range sites {
				if site == nil || !hsHelper(site.Parent(), depth-1) {
					return false
				}
			}
			return true
		}
		for _, s := range sortSites(c.CallSites(updateCipher)) {
			if !hsHelper(s.Fn, 2) {
				c.Bad("R12.2", k.key(s.Fn, "call updateCipher"), posOf(s.Instr), "updateCipher called outside the two handshake functions (and the helpers only they call): the cipher can change after negotiation")
			}
		}
	}
}

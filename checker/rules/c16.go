package rules

import (
	"go/token"
	"go/types"
	"strings"

	"golang.org/x/tools/go/ssa"

	"rainverif/checker/kit"
)

func init() {
	register(&Property{
		ID: "C16",
		Explanation: "Decides the structural conditions of self-healing tracker contact: (R16.1) every CompareAndSwap on a sync/atomic value uses as 'old' the direct result of Load() on the same atomic, and the new tier index stays inside the index domain; (R16.2) in announcer.announce every path from the return of Tracker.Announce to the exit delivers the outcome (select send on errC / responseC) unless this announcer's own context is done - a test on the error value alone is not that fact; (R16.3) the errC and responseC arms of PeriodicalAnnouncer.Run re-arm the timer on every path and the error interval is a positive RetryIn or the back-off; (R16.4) HTTP tracker bodies are read through io.LimitReader(maxResponseLength) wired from Config.TrackerHTTPMaxResponseSize, the blocklist download buffer is allocated only under a known content length within BlocklistMaxResponseSize; (R16.5) a UDP reply is accepted only for a transaction found by its id (and that id is then deleted), announce / connect replies only with the matching action, compact peer lists only with a length multiple of 6. NOT decided: 'within one cycle' as a count, back-off durations, robustness of the bencode decoder.",
		RuleText:    commonRuleText,
		Assumptions: commonAssumptions,
		Run:         runC16,
	})
}

// boundedIndex reports whether v is certainly inside [0, len(field)) or 0:
// a constant 0, or the result of a module function all of whose returns are
// constants 0 or values proven < len(..field..) at the return.
func boundedIndex(c *kit.Ctx, v ssa.Value, f *types.Var, depth int) bool {
	e := kit.Canon(v)
	if z, ok := e.IntConst(); ok && z == 0 {
		return true
	}
	call, ok := v.(*ssa.Call)
	if !ok || depth > 2 {
		return false
	}
	fn := call.Call.StaticCallee()
	if fn == nil || fn.Blocks == nil || !kit.InModule(kit.FnPkgPath(fn)) {
		return false
	}
	for _, r := range returnsOf(fn) {
		if len(r.Results) != 1 {
			return false
		}
		srcs := []ssa.Value{r.Results[0]}
		if phi, ok := r.Results[0].(*ssa.Phi); ok {
			srcs = phi.Edges
		}
		for i, s := range srcs {
			if z, ok := kit.Canon(s).IntConst(); ok && z == 0 {
				continue
			}
			if _, isCall := s.(*ssa.Call); isCall && boundedIndex(c, s, f, depth+1) {
				continue
			}
			lt := c.AtomFlow(fn, func(a kit.Atom) bool {
				ok, strict := a.UpperBound(func(x *kit.Expr) bool { return x.V == s }, func(x *kit.Expr) bool {
					x = x.Strip()
					return x.Kind == "len" && x.Args[0].IsField(f)
				})
				return ok && strict
			}, nil)
			good := lt.Before(r)
			if phi, ok := r.Results[0].(*ssa.Phi); ok && !good {
				good = lt.OnEdge(phi.Block().Preds[i], phi.Block())
			}
			if !good {
				return false
			}
		}
	}
	return true
}

func runC16(c *kit.Ctx) {
	k := newKeyer()

	// ---- R16.1 CAS on the loaded value
	{
		fTrackers := c.Field("internal/tracker", "Tier", "Trackers")
		fIndex := c.Field("internal/tracker", "Tier", "index")
		n := 0
		for _, fn := range c.ModuleFunctions() {
			kit.Instrs(fn, func(ins ssa.Instruction) {
				cc := kit.CallOf(ins)
				if cc == nil || cc.StaticCallee() == nil || cc.StaticCallee().Name() != "CompareAndSwap" || kit.FnPkgPath(cc.StaticCallee()) != "sync/atomic" {
					return
				}
				n++
				key := k.key(fn, "CompareAndSwap")
				recv := kit.Canon(cc.Args[0])
				old := kit.Canon(cc.Args[1])
				isLoad := old.Kind == "call" && old.Name == "Load" && old.Fn != nil && kit.FnPkgPath(old.Fn) == "sync/atomic" && old.Args[0].String() == recv.String()
				if !isLoad {
					c.Bad("R16.1", key, posOf(ins), "CompareAndSwap 'old' operand is %s, not the direct result of Load() on %s: once the stored value differs from the transformed one the swap can never succeed again", old, recv)
					return
				}
				if recv.IsField(fIndex) {
					if !boundedIndex(c, cc.Args[2], fTrackers, 0) {
						c.Bad("R16.1", key, posOf(ins), "new tier index %s is not shown to stay below len(Trackers)", kit.Canon(cc.Args[2]))
						return
					}
				}
				c.OK("R16.1", key, posOf(ins), "CAS(old=Load(), new=%s): old is the raw loaded value, new stays in the index domain", kit.Canon(cc.Args[2]))
			})
		}
		c.Floor("R16.1", "CompareAndSwap sites", n, 1)
		// every use of the tier index as a slice index is bounded
		tier := []*ssa.Function{c.Func("internal/tracker", "(*Tier).Announce"), c.Func("internal/tracker", "(*Tier).URL")}
		ni := 0
		for _, fn := range tier {
			kit.Instrs(fn, func(ins ssa.Instruction) {
				ia, ok := ins.(*ssa.IndexAddr)
				if !ok || !kit.Canon(ia.X).IsField(fTrackers) {
					return
				}
				ni++
				c.Check(boundedIndex(c, ia.Index, fTrackers, 0), "R16.1", k.key(fn, "index Trackers"), posOf(ins),
					"tier member selected with a wrapped index", "Trackers indexed with a value not shown < len(Trackers)")
			})
		}
		c.Floor("R16.1", "tier index uses", ni, 2)
		// error => advance: the CAS is on the err != nil edge only
		ann := tier[0]
		errNonNil := c.AtomFlow(ann, func(a kit.Atom) bool {
			return a.IsNilCmp(false, func(e *kit.Expr) bool { return e.Kind == "extract" && e.Idx == 1 })
		}, nil)
		adv := (&kit.Flow{P: c.Prog, Fn: ann, Entry: true,
			EdgeKill: func(a kit.Atom) bool {
				return a.IsNilCmp(false, func(e *kit.Expr) bool { return e.Kind == "extract" && e.Idx == 1 })
			},
			Instr: func(ins ssa.Instruction, in bool) bool {
				cc := kit.CallOf(ins)
				if cc != nil && cc.StaticCallee() != nil && cc.StaticCallee().Name() == "CompareAndSwap" {
					return true
				}
				return in
			}}).Solve()
		c.Check(len(adv.FailingReturns()) == 0, "R16.1", kit.FuncName(ann)+"/advance-on-error", ann.Pos(),
			"every failing announce passes the index advance", "a failing tier announce can return without advancing to the next tracker")
		kit.Instrs(ann, func(ins ssa.Instruction) {
			cc := kit.CallOf(ins)
			if cc != nil && cc.StaticCallee() != nil && cc.StaticCallee().Name() == "CompareAndSwap" {
				c.Check(errNonNil.Before(ins), "R16.1", kit.FuncName(ann)+"/advance-only-on-error", posOf(ins),
					"index advanced only when the announce failed (a working tracker keeps being used)", "tier index advanced although the announce may have succeeded")
			}
		})
	}

	// ---- R16.2 every outcome is delivered
	{
		an := c.Func("internal/announcer", "announce")
		ctxP := an.Params[0]
		var respC, errC ssa.Value
		for _, p := range an.Params {
			switch p.Name() {
			case "responseC":
				respC = p
			case "errC":
				errC = p
			}
		}
		if respC == nil || errC == nil {
			c.Unknown("R16.2", kit.FuncName(an)+"/params", an.Pos(), "announce() no longer has responseC/errC parameters")
		} else {
			isDeliver := func(ins ssa.Instruction) bool {
				switch x := ins.(type) {
				case *ssa.Send:
					return x.Chan == respC || x.Chan == errC
				case *ssa.Select:
					hasSend := false
					for _, st := range x.States {
						if st.Dir == types.SendOnly && (st.Chan == respC || st.Chan == errC) {
							hasSend = true
						} else if st.Dir == types.RecvOnly {
							e := kit.Canon(st.Chan)
							if !(e.Kind == "call" && e.Name == "Done" && e.Args[0].V == ssa.Value(ctxP)) {
								return false // escapes on something other than the own context
							}
						}
					}
					return hasSend && x.Blocking
				}
				return false
			}
			isAnnounceCall := func(ins ssa.Instruction) bool {
				cc := kit.CallOf(ins)
				return cc != nil && cc.IsInvoke() && cc.Method.Name() == "Announce"
			}
			fl := (&kit.Flow{P: c.Prog, Fn: an, Entry: true,
				Edge: func(a kit.Atom) bool {
					// own context is done
					return a.IsNilCmp(false, func(e *kit.Expr) bool {
						return e.Kind == "call" && e.Name == "Err" && len(e.Args) == 1 && e.Args[0].V == ssa.Value(ctxP)
					})
				},
				Instr: func(ins ssa.Instruction, in bool) bool {
					if isDeliver(ins) {
						return true
					}
					if isAnnounceCall(ins) {
						return false
					}
					return in
				}}).Solve()
			n := 0
			kit.Instrs(an, func(ins ssa.Instruction) {
				if isAnnounceCall(ins) {
					n++
				}
			})
			c.Floor("R16.2", "Tracker.Announce calls in announce()", n, 1)
			bad := fl.FailingReturns()
			if len(bad) == 0 {
				c.OK("R16.2", kit.FuncName(an)+"/outcome-delivered", an.Pos(), "every path after Tracker.Announce delivers on errC/responseC (escaping only on the own ctx.Done()) or holds ctx.Err()!=nil")
			} else {
				c.Bad("R16.2", kit.FuncName(an)+"/outcome-delivered", posOf(bad[0]), "announce() can return without delivering the outcome although its own context is not done (e.g. err is a cancellation caused by another torrent sharing the UDP connect): the announcer stays in Contacting for ever")
			}
		}
	}

	// ---- R16.3 retry is armed
	{
		run := c.Func("internal/announcer", "(*PeriodicalAnnouncer).Run")
		fErrC := c.Field("internal/announcer", "PeriodicalAnnouncer", "errC")
		fRespC := c.Field("internal/announcer", "PeriodicalAnnouncer", "responseC")
		// the closure that resets the timer
		var resetFn *ssa.Function
		for _, an := range run.AnonFuncs {
			kit.Instrs(an, func(ins ssa.Instruction) {
				cc := kit.CallOf(ins)
				if cc != nil && cc.StaticCallee() != nil && cc.StaticCallee().Name() == "Reset" && kit.FnPkgPath(cc.StaticCallee()) == "time" {
					resetFn = an
				}
			})
		}
		var sel *ssa.Select
		arms := map[int64]string{}
		kit.Instrs(run, func(ins ssa.Instruction) {
			s, ok := ins.(*ssa.Select)
			if !ok || len(s.States) < 4 {
				return
			}
			sel = s
			for i, st := range s.States {
				e := kit.Canon(st.Chan)
				if e.IsField(fErrC) {
					arms[int64(i)] = "errC"
				}
				if e.IsField(fRespC) {
					arms[int64(i)] = "responseC"
				}
			}
		})
		if resetFn == nil || sel == nil || len(arms) != 2 {
			c.Bad("R16.3", kit.FuncName(run)+"/structure", run.Pos(), "PeriodicalAnnouncer.Run has no select with errC and responseC arms and a timer-reset closure")
		} else {
			fl := (&kit.Flow{P: c.Prog, Fn: run, Entry: true,
				EdgeKill: func(a kit.Atom) bool {
					if a.Op != token.EQL || a.L.Kind != "extract" || a.L.Idx != 0 || a.L.Args[0].V != ssa.Value(sel) {
						return false
					}
					z, ok := a.R.IntConst()
					return ok && arms[z] != ""
				},
				Instr: func(ins ssa.Instruction, in bool) bool {
					cc := kit.CallOf(ins)
					if cc != nil {
						if mc, ok := cc.Value.(*ssa.MakeClosure); ok && mc.Fn == ssa.Value(resetFn) {
							return true
						}
						if kit.Canon(cc.Value).Fn == resetFn {
							return true
						}
					}
					return in
				}}).Solve()
			ok := fl.Before(sel) && len(fl.FailingReturns()) == 0
			c.Check(ok, "R16.3", kit.FuncName(run)+"/timer-rearmed", posOf(sel),
				"after an announce error or response the timer is re-armed before the loop waits again", "an announce error/response arm can go back to waiting without re-arming the timer: the tracker is never contacted again")
		}
		gn := c.Func("internal/announcer", "(*PeriodicalAnnouncer).getNextIntervalFromError")
		fRetry := c.Field("internal/tracker", "Error", "RetryIn")
		pos := c.AtomFlow(gn, func(a kit.Atom) bool {
			z, ok := a.R.IntConst()
			return ok && z == 0 && a.Op == token.GTR && a.L.IsField(fRetry)
		}, nil)
		for _, r := range returnsOf(gn) {
			e := kit.Canon(r.Results[0])
			okr := (e.Kind == "call" && e.Name == "NextBackOff") || (e.IsField(fRetry) && pos.Before(r))
			c.Check(okr, "R16.3", k.key(gn, "return"), posOf(r), "error interval is a positive RetryIn or the back-off", "error retry interval "+e.String()+" is neither a positive RetryIn nor backoff.NextBackOff()")
		}
	}

	// ---- R16.4 reply size
	{
		readAll := c.FuncObj("io", "ReadAll")
		limitReader := c.FuncObj("io", "LimitReader")
		fMaxLen := c.Field("internal/tracker/httptracker", "HTTPTracker", "maxResponseLength")
		n := 0
		for _, s := range sortSites(c.CallSites(readAll)) {
			if !inPkg(s.Fn, c, "internal/tracker/httptracker") {
				continue
			}
			n++
			a := kit.Canon(s.Instr.Common().Args[0]).Strip()
			ok := a.IsCallTo(limitReader) && a.Args[1].IsField(fMaxLen)
			c.Check(ok, "R16.4", k.key(s.Fn, "read tracker body"), posOf(s.Instr),
				"tracker body read through io.LimitReader(_, maxResponseLength)", "tracker reply body read without the configured response limit ("+a.String()+")")
		}
		c.Floor("R16.4", "HTTP tracker body reads", n, 1)
		get := c.FuncObj("internal/trackermanager", "(*TrackerManager).Get")
		fCfgMax := c.Field("torrent", "Config", "TrackerHTTPMaxResponseSize")
		ng := 0
		for _, s := range sortSites(c.CallSites(get)) {
			ng++
			args := s.Instr.Common().Args
			a := kit.Canon(args[len(args)-1])
			c.Check(a.Strip().IsField(fCfgMax), "R16.4", k.key(s.Fn, "wire max response size"), posOf(s.Instr),
				"response limit wired from Config.TrackerHTTPMaxResponseSize", "tracker response limit "+a.String()+" is not Config.TrackerHTTPMaxResponseSize")
		}
		c.Floor("R16.4", "trackerManager.Get sites", ng, 2)
		// blocklist download
		rb := c.Func("torrent", "(*Session).reloadBlocklist")
		fCL := c.Field("net/http", "Response", "ContentLength")
		fBLMax := c.Field("torrent", "Config", "BlocklistMaxResponseSize")
		known := c.AtomFlow(rb, func(a kit.Atom) bool {
			z, ok := a.R.IntConst()
			return ok && z == -1 && a.Op == token.NEQ && a.L.IsField(fCL)
		}, nil)
		within := c.AtomFlow(rb, func(a kit.Atom) bool {
			ok, _ := a.UpperBound(func(e *kit.Expr) bool { return e.IsField(fCL) }, func(e *kit.Expr) bool { return e.IsField(fBLMax) })
			return ok
		}, nil)
		nm := 0
		kit.Instrs(rb, func(ins ssa.Instruction) {
			ms, ok := ins.(*ssa.MakeSlice)
			if !ok || !kit.Canon(ms.Len).Mentions(func(e *kit.Expr) bool { return e.IsField(fCL) }) {
				return
			}
			nm++
			c.Check(known.Before(ins) && within.Before(ins), "R16.4", k.key(rb, "blocklist buffer"), posOf(ins),
				"blocklist buffer allocated only for a known content length within BlocklistMaxResponseSize", "blocklist download buffer sized from an unchecked Content-Length")
		})
		c.Floor("R16.4", "blocklist buffer allocations", nm, 1)
	}

	// ---- R16.5 reply matched to its transaction and action
	{
		run := c.Func("internal/tracker/udptracker", "(*Transport).Run")
		fTrxID := c.Field("internal/tracker/udptracker", "udpMessageHeader", "TransactionID")
		found := c.AtomFlow(run, func(a kit.Atom) bool {
			return a.IsTrue(func(e *kit.Expr) bool {
				return e.Kind == "extract" && e.Idx == 1 && e.Args[0].Kind == "lookup" && e.Args[0].Args[1].IsField(fTrxID)
			})
		}, func(ins ssa.Instruction) bool { _, ok := ins.(*ssa.Select); return ok })
		n := 0
		kit.Instrs(run, func(ins ssa.Instruction) {
			cc := kit.CallOf(ins)
			if cc == nil || !cc.IsInvoke() || cc.Method.Name() != "SetResponse" {
				return
			}
			// only the read arm passes the received buffer
			if kit.Canon(cc.Args[0]).IsNil() {
				return
			}
			n++
			recv := kit.Canon(cc.Value)
			fromLookup := recv.Mentions(func(e *kit.Expr) bool {
				return e.Kind == "lookup" && e.Args[1].IsField(fTrxID)
			})
			c.Check(found.Before(ins) && fromLookup, "R16.5", k.key(run, "accept udp reply"), posOf(ins),
				"UDP reply handed only to the transaction found by the reply's transaction id", "UDP reply accepted without a successful lookup of its transaction id (reply could be taken for a different transaction)")
		})
		c.Floor("R16.5", "UDP reply acceptances", n, 1)
		// the matched transaction is removed (a duplicate datagram finds nothing)
		delAfter := 0
		kit.Instrs(run, func(ins ssa.Instruction) {
			cc := kit.CallOf(ins)
			if isBuiltin(cc, "delete") && kit.Canon(cc.Args[1]).IsField(fTrxID) {
				delAfter++
			}
		})
		c.Check(delAfter >= 1, "R16.5", kit.FuncName(run)+"/transaction-deleted", run.Pos(), "the matched transaction id is deleted", "matched UDP transaction is not deleted: a duplicate reply is accepted twice")
		// action checks
		type ac struct {
			fn    *ssa.Function
			konst string
		}
		for _, a := range []ac{{c.Func("internal/tracker/udptracker", "(*UDPTracker).parseAnnounceResponse"), "actionAnnounce"}, {c.Func("internal/tracker/udptracker", "sendAndReceiveConnect"), "actionConnect"}} {
			want := c.Const("internal/tracker/udptracker", a.konst).Val().ExactString()
			fl := c.AtomFlow(a.fn, func(at kit.Atom) bool {
				return at.Op == token.EQL && at.R.Kind == "const" && at.R.Const != nil && at.R.Const.ExactString() == want && at.L.Kind == "field" && at.L.Field.Name() == "Action"
			}, nil)
			ns := 0
			for _, r := range returnsOf(a.fn) {
				last := kit.Canon(r.Results[len(r.Results)-1])
				if !last.IsNil() {
					continue
				}
				ns++
				c.Check(fl.Before(r), "R16.5", k.key(a.fn, "success return"), posOf(r), "success only under Action == "+a.konst, a.fn.Name()+" can succeed for a reply whose action is not "+a.konst)
			}
			c.Floor("R16.5", a.fn.Name()+" success returns", ns, 1)
		}
		dp := c.Func("internal/tracker", "DecodePeersCompact")
		mult := c.AtomFlow(dp, func(a kit.Atom) bool {
			z, ok := a.R.IntConst()
			if !ok || z != 0 || a.Op != token.EQL {
				return false
			}
			l := a.L
			return l.Kind == "binop" && l.Op == token.REM && strings.HasPrefix(l.Args[0].String(), "len(")
		}, nil)
		ns := 0
		for _, r := range returnsOf(dp) {
			if !kit.Canon(r.Results[1]).IsNil() {
				continue
			}
			ns++
			c.Check(mult.Before(r), "R16.5", k.key(dp, "success return"), posOf(r), "compact peers decoded only for len%6==0", "DecodePeersCompact can succeed for a length that is not a multiple of 6")
		}
		c.Floor("R16.5", "DecodePeersCompact success returns", ns, 1)
	}
}

package rules

import (
	"go/token"
	"go/types"
	"strings"

	"golang.org/x/tools/go/ssa"

	"rainverif/checker/kit"
)

// R17.8 a connection variable is not overwritten by a second dial while it
// still holds an open socket (second seeding round: btconn.Dial lost the
// Close of the first socket before the plain-text re-dial; the deferred
// cleanup only closes on error and the watcher only on stop, so every
// successful fallback kept a second socket open until the finalizer ran:
// up to twice MaxPeerDial outgoing sockets).
//
// Typestate per connection cell (a net.Conn variable that receives results of
// net dial calls): "holds no open socket" — true at entry, false after a dial
// result is stored, true again after Close() was invoked on the cell's value.
// Every store of a dial result requires the fact.

func init() { registerExtra("C17", runR17_8) }

func runR17_8(c *kit.Ctx) {
	k := newKeyer()
	isDialResult := func(v ssa.Value) bool {
		ex, ok := v.(*ssa.Extract)
		if !ok || ex.Index != 0 {
			return false
		}
		call, ok := ex.Tuple.(*ssa.Call)
		if !ok {
			return false
		}
		f := call.Call.StaticCallee()
		if f == nil || f.Pkg == nil || f.Pkg.Pkg.Path() != "net" {
			return false
		}
		return strings.HasPrefix(f.Name(), "Dial")
	}
	n := 0
	for _, fn := range c.ModuleFunctions() {
		if !inPkg(fn, c, "internal/btconn") {
			continue
		}
		// cells that receive dial results
		cells := map[ssa.Value]int{}
		kit.Instrs(fn, func(ins ssa.Instruction) {
			if st, ok := ins.(*ssa.Store); ok && isDialResult(st.Val) {
				cells[st.Addr]++
			}
		})
		for cell, cnt := range cells {
			if cnt < 2 {
				n += cnt
				continue
			}
			closed := (&kit.Flow{P: c.Prog, Fn: fn, Entry: true, Instr: func(ins ssa.Instruction, in bool) bool {
				if st, ok := ins.(*ssa.Store); ok && st.Addr == cell && isDialResult(st.Val) {
					return false
				}
				if _, isDefer := ins.(*ssa.Defer); isDefer {
					return in
				}
				if cc := kit.CallOf(ins); cc != nil && cc.IsInvoke() && cc.Method.Name() == "Close" {
					if ld, ok := cc.Value.(*ssa.UnOp); ok && ld.Op == token.MUL && ld.X == cell {
						return true
					}
				}
				return in
			}}).Solve()
			kit.Instrs(fn, func(ins ssa.Instruction) {
				st, ok := ins.(*ssa.Store)
				if !ok || st.Addr != cell || !isDialResult(st.Val) {
					return
				}
				n++
				c.Check(closed.Before(ins), "R17.8", k.key(fn, "dial result stored"), posOf(ins),
					"the connection variable holds no open socket when a dial result is stored into it (first dial, or the previous socket was closed on every path)",
					"a second dial overwrites a connection variable that can still hold an open socket: the first socket is not closed when the fallback succeeds (it stays open until the garbage collector finalises it; the client can hold twice the configured number of outgoing sockets)")
			})
		}
	}
	c.Floor("R17.8", "dial results stored into connection variables in package btconn", n, 2)
	_ = types.Typ
}

// R17.9 every dialled socket has a cleanup for the error exits (third seeding
// round: the deferred close-on-error closure of the second, plain-text socket
// of btconn.Dial was removed; when the plain handshake fails too, nobody closes
// that socket).
//
// Per connection cell of package btconn: after a dial result is stored, on
// every path to a return the socket was closed explicitly or a deferred call
// was registered that closes the value loaded from the cell at that point
// (`defer func(conn net.Conn){ if err != nil { conn.Close() } }(conn)`).

func init() { registerExtra("C17", runR17_9) }

func runR17_9(c *kit.Ctx) {
	k := newKeyer()
	isDialResult := func(v ssa.Value) bool {
		ex, ok := v.(*ssa.Extract)
		if !ok || ex.Index != 0 {
			return false
		}
		call, ok := ex.Tuple.(*ssa.Call)
		if !ok {
			return false
		}
		f := call.Call.StaticCallee()
		return f != nil && f.Pkg != nil && f.Pkg.Pkg.Path() == "net" && strings.HasPrefix(f.Name(), "Dial")
	}
	closesParam := func(g *ssa.Function, idx int) bool {
		if g == nil || idx >= len(g.Params) {
			return false
		}
		hit := false
		kit.Instrs(g, func(ins ssa.Instruction) {
			if cc := kit.CallOf(ins); cc != nil && cc.IsInvoke() && cc.Method.Name() == "Close" && cc.Value == ssa.Value(g.Params[idx]) {
				hit = true
			}
		})
		return hit
	}
	n := 0
	for _, fn := range c.ModuleFunctions() {
		if !inPkg(fn, c, "internal/btconn") || fn.Blocks == nil {
			continue
		}
		cells := map[ssa.Value]bool{}
		kit.Instrs(fn, func(ins ssa.Instruction) {
			if st, ok := ins.(*ssa.Store); ok && isDialResult(st.Val) {
				cells[st.Addr] = true
			}
		})
		for cell := range cells {
			cell := cell
			fromCell := func(v ssa.Value) bool {
				ld, ok := v.(*ssa.UnOp)
				return ok && ld.Op == token.MUL && ld.X == cell
			}
			covered := (&kit.Flow{P: c.Prog, Fn: fn, Entry: true, Instr: func(ins ssa.Instruction, in bool) bool {
				if st, ok := ins.(*ssa.Store); ok && st.Addr == cell && isDialResult(st.Val) {
					return false
				}
				if d, isDefer := ins.(*ssa.Defer); isDefer {
					cc := d.Common()
					var g *ssa.Function
					if mc, ok := cc.Value.(*ssa.MakeClosure); ok {
						g, _ = mc.Fn.(*ssa.Function)
					} else if f, ok := cc.Value.(*ssa.Function); ok {
						g = f
					}
					for i, a := range cc.Args {
						if fromCell(a) && closesParam(g, i) {
							return true
						}
					}
					return in
				}
				if cc := kit.CallOf(ins); cc != nil && cc.IsInvoke() && cc.Method.Name() == "Close" && fromCell(cc.Value) {
					return true
				}
				return in
			}}).Solve()
			// a dial that failed stores a nil connection: the return under err != nil right after
			// the dial needs no cleanup; it is the first return after the store in the same block
			// region, recognised by the store being the last relevant instruction before it
			nbad := 0
			for _, r := range covered.FailingReturns() {
				direct := false
				// the failing return is reached straight from the dial's own error test
				for _, p := range r.Block().Preds {
					for _, ins := range p.Instrs {
						if st, ok := ins.(*ssa.Store); ok && st.Addr == cell && isDialResult(st.Val) {
							direct = true
						}
					}
				}
				if direct {
					continue
				}
				n++
				nbad++
				c.Bad("R17.9", k.key(fn, "socket without cleanup"), posOf(r), "a return is reachable after a dial with neither a Close of the dialled socket nor a deferred close registered for it: when the handshake on that socket fails it stays open and is counted by no limit")
			}
			n++
			if nbad == 0 {
				c.OK("R17.9", k.key(fn, "cleanup registered for dialled sockets"), fn.Pos(), "every dialled socket is closed or has a deferred close on all paths to a return")
			}
		}
	}
	c.Floor("R17.9", "connection cells with dial results in package btconn", n, 1)
}

package rules

import (
	"go/token"
	"go/types"
	"strings"

	"golang.org/x/tools/go/ssa"

	"rainverif/checker/kit"
)

// R17.8 a connection variable is not overwritten by a second dial while it
// still holds an open socket (second seeding round: btconn.Dial lost the
// Close of the first socket before the plain-text re-dial; the deferred
// cleanup only closes on error and the watcher only on stop, so every
// successful fallback kept a second socket open until the finalizer ran:
// up to twice MaxPeerDial outgoing sockets).
//
// Typestate per connection cell (a net.Conn variable that receives results of
// net dial calls): "holds no open socket" — true at entry, false after a dial
// result is stored, true again after Close() was invoked on the cell's value.
// Every store of a dial result requires the fact.

func init() { registerExtra("C17", runR17_8) }

func runR17_8(c *kit.Ctx) {
	k := newKeyer()
	isDialResult := func(v ssa.Value) bool {
		ex, ok := v.(*ssa.Extract)
		if !ok || ex.Index != 0 {
			return false
		}
		call, ok := ex.Tuple.(*ssa.Call)
		if !ok {
			return false
		}
		f := call.Call.StaticCallee()
		if f == nil || f.Pkg == nil || f.Pkg.Pkg.Path() != "net" {
			return false
		}
		return strings.HasPrefix(f.Name(), "Dial")
	}
	n := 0
	for _, fn := range c.ModuleFunctions() {
		if !inPkg(fn, c, "internal/btconn") {
			continue
		}
		// cells that receive dial results
		cells := map[ssa.Value]int{}
		kit.Instrs(fn, func(ins ssa.Instruction) {
			if st, ok := ins.(*ssa.Store); ok && isDialResult(st.Val) {
				cells[st.Addr]++
			}
		})
		for cell, cnt := range cells {
			if cnt < 2 {
				n += cnt
				continue
			}
			closed := (&kit.Flow{P: c.Prog, Fn: fn, Entry: true, Instr: func(ins ssa.Instruction, in bool) bool {
				if st, ok := ins.(*ssa.Store); ok && st.Addr == cell && isDialResult(st.Val) {
					return false
				}
				if _, isDefer := ins.(*ssa.Defer); isDefer {
					return in
				}
				if cc := kit.CallOf(ins); cc != nil && cc.IsInvoke() && cc.Method.Name() == "Close" {
					if ld, ok := cc.Value.(*ssa.UnOp); ok && ld.Op == token.MUL && ld.X == cell {
						return true
					}
				}
				return in
			}}).Solve()
			kit.Instrs(fn, func(ins ssa.Instruction) {
				st, ok := ins.(*ssa.Store)
				if !ok || st.Addr != cell || !isDialResult(st.Val) {
					return
				}
				n++
				c.Check(closed.Before(ins), "R17.8", k.key(fn, "dial result stored"), posOf(ins),
					"the connection variable holds no open socket when a dial result is stored into it (first dial, or the previous socket was closed on every path)",
					"a second dial overwrites a connection variable that can still hold an open socket: the first socket is not closed when the fallback succeeds (it stays open until the garbage collector finalises it; the client can hold twice the configured number of outgoing sockets)")
			})
		}
	}
	c.Floor("R17.8", "dial results stored into connection variables in package btconn", n, 2)
	_ = types.Typ
}

package rules

import (
	"go/token"
	"go/types"
	"strings"

	"golang.org/x/tools/go/ssa"

	"rainverif/checker/kit"
)

func init() {
	register(&Property{
		ID:          "C10",
		Explanation: "Decides only the last sentence of the property in its necessary-condition form: every operation that frees a peer or a piece is followed, on every path to the handler's exit, by a picker re-run for the peers that could use it. Anchored on the state-changing operations, not on message arms: (R10.1) piecePicker.HandleHave => re-run for that peer; store PeerChoking=false => re-run for that peer, RequestBlocks on its existing downloader, or the downloader is allowed-fast; HandleChoke/HandleSnubbed => re-run for all; closePieceDownloader while the peer stays connected (piece completed, duplicate download cancelled) => re-run for that peer; hash failure of the write result => re-run for all; receive on ramNotifyC => startSinglePieceDownloader; piecePicker.HandleDisconnect (peer closed, its piece is unrequested again) => re-run for all in the same function or at every live call site (teardown callers stop/close/checkCompletion and metadata-only call sites exempt); plus the chain startPieceDownloaders -> startPieceDownloaderFor -> startSinglePieceDownloader -> PickFor -> RequestBlocks; (R10.2) store PeerInterested=true => unchoker.FastUnchoke(pe); (R10.3) web-seed error => disableSource(retry=true) => go notifyWebseedRetry => send on webseedRetryC => the event loop's arm re-runs the web-seed picker, and the freed range is re-offered to the peers; (R10.4) the allocation/verification completion handlers run processQueuedMessages before startPieceDownloaders. NOT decided: completion itself (layouts x modes x sources x schedules is liveness over runtime state), what the picker chooses, timers (snub, retry delay), the remote side.",
		RuleText:    commonRuleText,
		Assumptions: append([]string{"a call of (*torrent).stop discharges a pending re-run (the torrent is being torn down); startPieceDownloaderFor / startPieceDownloaders / startSinglePieceDownloader are the re-run primitives, their own status()/RAM guards are part of the primitive"}, commonAssumptions...),
		Run:         runC10,
	})
}

func runC10(c *kit.Ctx) {
	e := &c10Env{c: c, k: newKeyer()}
	T := func(name string) *ssa.Function { return c.Func("torrent", "(*torrent)."+name) }
	TO := func(name string) *types.Func { return c.FuncObj("torrent", "(*torrent)."+name) }
	PP := func(name string) *types.Func { return c.FuncObj("internal/piecepicker", "(*PiecePicker)."+name) }
	e.run = T("run")
	e.oStartAll, e.oStartFor, e.oStartSingle, e.oStartWebseed = TO("startPieceDownloaders"), TO("startPieceDownloaderFor"), TO("startSinglePieceDownloader"), TO("startPieceDownloaderForWebseed")
	e.oReqBlocks = c.FuncObj("internal/piecedownloader", "(*PieceDownloader).RequestBlocks")
	e.oStop = []*types.Func{TO("stop"), TO("stopAndSetStoppedOnComplete"), TO("stopAndSetStoppedOnMetadata")}
	e.fPD = c.Field("torrent", "torrent", "pieceDownloaders")
	e.fInfoDL = c.Field("torrent", "torrent", "infoDownloaders")
	e.fInfo = c.Field("torrent", "torrent", "info")
	e.c10IndexSites()
	e.c10Teardown(T("stop"), T("close"), T("checkCompletion"))

	c10R101(e, T, TO, PP)
	c10R102(e)
	c10R103(e, T, TO)
	c10R104(e, T, TO)
}

// ---- R10.1 gain/free => re-run ----------------------------------------

func c10R101(e *c10Env, T func(string) *ssa.Function, TO, PP func(string) *types.Func) {
	c, k := e.c, e.k
	const R = "R10.1"
	kinds := 0

	// (1) HandleHave(pe, _) => re-run for pe
	{
		n := 0
		for _, s := range e.sites[PP("HandleHave")] {
			s := s
			n++
			pe := c10Str(argOf(s.Instr.Common(), 1))
			r := e.c10Discharge(s.Fn, c10Flow{
				open:     func(i ssa.Instruction) bool { return i == ssa.Instruction(s.Instr) },
				closeIns: func(i ssa.Instruction) bool { return e.c10Rerun(i, &pe, 2) },
			}, c10Any(), 1)
			e.c10Report(R, k.key(s.Fn, "HandleHave=>rerun(peer)"), posOf(s.Instr), r,
				"the peer that announced a piece is asked again on every path",
				"a peer gains a piece (HandleHave) but is not asked again: a peer that announces by have/bitfield only stays idle although it holds a needed, unrequested piece")
		}
		c.Floor(R, "HandleHave call sites in package torrent", n, 3)
		if n > 0 {
			kinds++
		}
	}

	// (2) pe.PeerChoking = false => pe is (re)asked
	{
		fChoking := c.Field("internal/peer", "Peer", "PeerChoking")
		fAllowedFast := c.Field("internal/piecedownloader", "PieceDownloader", "AllowedFast")
		n := 0
		for _, st := range fieldStores(c, fChoking) {
			st := st
			if !inPkg(st.Fn, c, "torrent") || !kit.Canon(st.Val).IsConstBool(false) {
				continue
			}
			n++
			pe := ""
			if fa, ok := st.Store.Addr.(*ssa.FieldAddr); ok {
				pe = c10Str(fa.X)
			}
			r := e.c10Discharge(st.Fn, c10Flow{
				open: func(i ssa.Instruction) bool { return i == ssa.Instruction(st.Store) },
				closeIns: func(i ssa.Instruction) bool {
					if e.c10Rerun(i, &pe, 2) {
						return true
					}
					// the peer's existing downloader resumes its requests
					if call, ok := i.(*ssa.Call); ok && kit.CalleeObj(&call.Call) == e.oReqBlocks {
						return e.c10PeerOfDownloader(argOf(&call.Call, 0)) == pe
					}
					return false
				},
				// an allowed-fast download is not interrupted by choke: nothing to resume
				edgeClose: func(a kit.Atom) bool {
					return a.IsTrue(func(x *kit.Expr) bool {
						return x.IsField(fAllowedFast) && e.c10PeerOfDownloader(x.Base().V) == pe
					})
				},
			}, c10Any(), 1)
			e.c10Report(R, k.key(st.Fn, "PeerChoking=false=>request"), posOf(st.Store), r,
				"after the remote unchokes, the peer gets a new piece, or its existing downloader requests blocks again, or that downloader is allowed-fast",
				"the remote unchokes us but the peer is neither given a piece nor are the blocks of its interrupted download requested again: an unchoked peer is left without a request")
		}
		c.Floor(R, "stores PeerChoking=false in package torrent", n, 1)
		if n > 0 {
			kinds++
		}
	}

	// (3) HandleChoke / HandleSnubbed (a piece lost its runner) => re-run for all
	{
		n := 0
		for _, name := range []string{"HandleChoke", "HandleSnubbed"} {
			for _, s := range e.sites[PP(name)] {
				s := s
				n++
				r := e.c10Discharge(s.Fn, c10Flow{
					open:     func(i ssa.Instruction) bool { return i == ssa.Instruction(s.Instr) },
					closeIns: func(i ssa.Instruction) bool { return e.c10Rerun(i, nil, 2) },
				}, nil, 1)
				e.c10Report(R, k.key(s.Fn, name+"=>rerun(all)"), posOf(s.Instr), r,
					"a stalled download is re-offered to the idle peers on every path",
					"a download stalls ("+name+") but the idle peers are not asked: the stalled piece is never re-requested although an idle unchoked peer holds it")
			}
		}
		c.Floor(R, "HandleChoke/HandleSnubbed call sites in package torrent", n, 2)
		if n > 0 {
			kinds++
		}
	}

	// (4,5b) closePieceDownloader while the peer stays connected => re-run for that peer
	oDisc := PP("HandleDisconnect")
	hasDisconnect := func(fn *ssa.Function) bool {
		for _, s := range e.sites[oDisc] {
			if s.Fn == fn {
				return true
			}
		}
		return false
	}
	{
		n := 0
		for _, s := range e.sites[TO("closePieceDownloader")] {
			s := s
			if e.teardown[c10Outer(s.Fn)] || hasDisconnect(s.Fn) {
				continue // teardown, or the peer is closed as well: covered by (7)
			}
			n++
			pe := e.c10PeerOfDownloader(argOf(s.Instr.Common(), 1))
			r := e.c10Discharge(s.Fn, c10Flow{
				open:     func(i ssa.Instruction) bool { return i == ssa.Instruction(s.Instr) },
				closeIns: func(i ssa.Instruction) bool { return e.c10Rerun(i, &pe, 2) },
			}, c10Any(), 1)
			e.c10Report(R, k.key(s.Fn, "closePieceDownloader=>rerun(peer)"), posOf(s.Instr), r,
				"a peer whose download ended (piece completed / duplicate cancelled) is given the next piece on every path",
				"a peer's download is closed while the peer stays connected, but the peer is not asked again: it idles although it may hold needed, unrequested pieces")
		}
		c.Floor(R, "closePieceDownloader sites with the peer still connected", n, 2)
		if n > 0 {
			kinds++
		}
	}

	// (5a) write result with a failed hash => re-run for all
	{
		fHashOK := c.Field("internal/piecewriter", "PieceWriter", "HashOK")
		isBad := func(a kit.Atom) bool { return a.IsFalse(func(x *kit.Expr) bool { return x.IsField(fHashOK) }) }
		n := 0
		for _, fn := range c.ModuleFunctions() {
			if !inPkg(fn, c, "torrent") {
				continue
			}
			has, pos := c10HasEdge(fn, isBad)
			if !has {
				continue
			}
			n++
			r := e.c10Discharge(fn, c10Flow{
				edgeOpen: isBad,
				closeIns: func(i ssa.Instruction) bool { return e.c10Rerun(i, nil, 2) },
			}, nil, 0)
			e.c10Report(R, k.key(fn, "HashOK==false=>rerun(all)"), pos, r,
				"a piece that failed its hash check is re-offered to the idle sources on every path",
				"a piece fails its hash check (its source is dropped, the piece is unrequested again) but nobody is asked for it")
		}
		c.Floor(R, "branches on PieceWriter.HashOK in package torrent", n, 1)
		if n > 0 {
			kinds++
		}
	}

	// (6) receive on ramNotifyC => the waiting peer is started
	{
		fRam := c.Field("torrent", "torrent", "ramNotifyC")
		sel, idx := e.c10SelectArm(fRam)
		n := 0
		if sel != nil {
			n++
			pend := e.c10After(e.run, c10Flow{
				edgeOpen: c10ArmEdge(sel, idx),
				closeIns: func(i ssa.Instruction) bool { return e.c10Rerun(i, c10Any(), 2) },
			})
			c.Check(len(pend) == 0, R, kit.FuncName(e.run)+"/recv ramNotifyC=>start", posOf(sel),
				"the event loop starts the piece downloader of the peer whose piece-buffer reservation was granted later",
				"the event loop receives a granted piece-buffer reservation on ramNotifyC without starting that peer's downloader: the peer stays idle and the reservation leaks")
		}
		// the queued reservation reports to that channel
		m := 0
		c.InstrsDeep(T("startPieceDownloaderFor"), 2, false, func(ins ssa.Instruction) {
			cc := kit.CallOf(ins)
			if cc == nil || cc.StaticCallee() == nil || cc.StaticCallee().Name() != "Request" || !strings.HasSuffix(fnPkgPath(cc.StaticCallee()), "internal/resourcemanager") {
				return
			}
			m++
			ok := false
			for _, a := range cc.Args {
				if kit.Canon(a).IsField(fRam) {
					ok = true
				}
			}
			c.Check(ok, R, k.key(T("startPieceDownloaderFor"), "ram.Request notifies ramNotifyC"), posOf(ins),
				"a queued reservation is announced on t.ramNotifyC, the channel the event loop serves",
				"a queued piece-buffer reservation is not announced on t.ramNotifyC: the peer is never started when memory becomes free")
		})
		c.Floor(R, "ramNotifyC arm of the event loop", n, 1)
		c.Floor(R, "ram.Request sites in startPieceDownloaderFor (and its helpers)", m, 1)
		if n > 0 {
			kinds++
		}
	}

	// (7) HandleDisconnect (peer closed: its piece is unrequested again) => re-run for all
	{
		n := 0
		for _, s := range e.sites[oDisc] {
			s := s
			n++
			r := e.c10Discharge(s.Fn, c10Flow{
				open:     func(i ssa.Instruction) bool { return i == ssa.Instruction(s.Instr) },
				closeIns: func(i ssa.Instruction) bool { return e.c10Rerun(i, nil, 2) },
			}, nil, 3)
			e.c10Report(R, k.key(s.Fn, "HandleDisconnect=>rerun(all)"), posOf(s.Instr), r,
				"when a peer is closed while the torrent is live, the piece it was downloading is re-offered to the remaining idle peers",
				"a peer is closed from a live handler: the piece it was downloading returns to the unrequested set (closePieceDownloader/HandleDisconnect -> HandleCancelDownload) but no remaining idle peer is asked (only dialAddresses runs). History: pieces 5 and 6 missing; A and B hold only 5; A is given 5, B finds nothing and idles; A disconnects; 5 is unrequested, B is idle, unchoked and holds it, and no event ever asks B")
		}
		c.Floor(R, "piecePicker.HandleDisconnect call sites in package torrent", n, 1)
		if n > 0 {
			kinds++
		}
		// premises of the metadata-only exemption
		fInfo, fInfoDL := e.fInfo, e.fInfoDL
		m := 0
		var infoNilSpec *kit.Spec
		for _, fn := range c.ModuleFunctions() {
			if !inPkg(fn, c, "torrent") {
				continue
			}
			kit.Instrs(fn, func(ins ssa.Instruction) {
				if isMapUpdateOf(ins, fInfoDL) {
					m++
					if infoNilSpec == nil {
						infoNilSpec = c.FieldNilSpec(fInfo, true, kit.DefaultDeep)
					}
					// in the function itself, or at every static caller of a helper
					c.Check(infoNilSpec.Holds(ins, 2), R, k.key(fn, "premise: infoDownloaders insert under info==nil"), posOf(ins),
						"a peer gets an info downloader only while t.info == nil (so a peer with an info downloader cannot hold a piece download)",
						"a peer can get an info downloader while t.info is set: the metadata-only exemption of the closePeer rule is unsound")
				}
			})
		}
		c.Floor(R, "inserts into infoDownloaders", m, 1)
		stopInfo := TO("stopInfoDownloaders")
		// the store may sit in a helper (parse + set info) that the handler
		// calls after stopInfoDownloaders(): the fact is evaluated at the store
		// including the context of every static caller (two levels).
		stopped := c.CalledSpec(kit.DefaultDeep, stopInfo)
		for _, st := range fieldStores(c, fInfo) {
			if kit.Canon(st.Val).IsNil() || !inPkg(st.Fn, c, "torrent") {
				continue
			}
			if fa, ok := st.Store.Addr.(*ssa.FieldAddr); ok {
				if _, fresh := fa.X.(*ssa.Alloc); fresh {
					continue // composite literal of a new torrent: its maps are empty
				}
			}
			c.Check(stopped.Holds(st.Store, 2), R, k.key(st.Fn, "premise: info set after stopInfoDownloaders"), posOf(st.Store),
				"t.info is set only after every info downloader was closed",
				"t.info can be set while info downloaders exist: the metadata-only exemption of the closePeer rule is unsound")
		}
	}

	// chain of the re-run primitives
	{
		fPeers := c.Field("torrent", "torrent", "peers")
		all := T("startPieceDownloaders")
		ranges, calls := false, false
		c.InstrsDeep(all, 2, false, func(ins ssa.Instruction) {
			if r, ok := ins.(*ssa.Range); ok && kit.Canon(r.X).IsField(fPeers) {
				ranges = true
			}
			if kit.CallsAny(ins, e.oStartFor, e.oStartSingle) {
				calls = true
			}
		})
		c.Check(ranges && calls, R, kit.FuncName(all)+"/asks every peer", all.Pos(),
			"startPieceDownloaders ranges over t.peers and calls startPieceDownloaderFor", "startPieceDownloaders no longer asks every connected peer")

		one := T("startPieceDownloaderFor")
		status := TO("status")
		isReq := func(v ssa.Value) bool {
			call, ok := v.(*ssa.Call)
			return ok && call.Call.StaticCallee() != nil && call.Call.StaticCallee().Name() == "Request" && strings.HasSuffix(fnPkgPath(call.Call.StaticCallee()), "internal/resourcemanager")
		}
		fl := (&kit.Flow{P: c.Prog, Fn: one,
			Edge: func(a kit.Atom) bool {
				if a.Op == token.NEQ && a.L.IsCallTo(status) && a.R.Kind == "const" {
					return true // not downloading: nothing to ask for
				}
				// reservation queued: the event loop's ramNotifyC arm starts the peer (6);
				// the reservation may be wrapped in a helper that returns true or
				// the result of ram.Request
				return a.IsFalse(func(x *kit.Expr) bool {
					if x.V == nil {
						return false
					}
					if isReq(x.V) {
						return true
					}
					if x.Kind != "call" || x.Fn == nil || x.Fn.Blocks == nil || !inPkg(x.Fn, c, "torrent") {
						return false
					}
					rets := returnsOf(x.Fn)
					for _, r := range rets {
						if len(r.Results) != 1 || !(kit.Canon(r.Results[0]).IsConstBool(true) || isReq(r.Results[0])) {
							return false
						}
					}
					return len(rets) > 0
				})
			},
			Instr: func(ins ssa.Instruction, in bool) bool {
				if kit.CallsAny(ins, e.oStartSingle) {
					return true
				}
				return in
			}}).Solve()
		c.Check(len(fl.FailingReturns()) == 0, R, kit.FuncName(one)+"/reaches startSinglePieceDownloader", one.Pos(),
			"startPieceDownloaderFor reaches startSinglePieceDownloader unless the torrent is not downloading or the piece-buffer reservation was queued",
			"startPieceDownloaderFor can return without starting the peer although the torrent is downloading and memory was granted")

		single := T("startSinglePieceDownloader")
		pick := c.FuncObj("internal/piecepicker", "(*PiecePicker).PickFor")
		picked := func(a kit.Atom) bool {
			return a.IsNilCmp(false, func(x *kit.Expr) bool { return x.Kind == "extract" && x.Idx == 0 && x.Args[0].IsCallTo(pick) })
		}
		has, _ := c10HasEdge(single, picked)
		pend := e.c10After(single, c10Flow{edgeOpen: picked, closeIns: func(i ssa.Instruction) bool {
			call, ok := i.(*ssa.Call)
			return ok && kit.CalleeObj(&call.Call) == e.oReqBlocks
		}})
		c.Check(has && len(pend) == 0, R, kit.FuncName(single)+"/picked piece is requested", single.Pos(),
			"a piece returned by PickFor is requested (RequestBlocks) on every path",
			"startSinglePieceDownloader can return with a picked piece (marked Requested in the picker) without requesting its blocks")
	}
	c.Floor(R, "operation kinds", kinds, 7)
}

// ---- R10.2 interested => fast unchoke -----------------------------------

func c10R102(e *c10Env) {
	c, k := e.c, e.k
	const R = "R10.2"
	fInterested := c.Field("internal/peer", "Peer", "PeerInterested")
	fast := c.FuncObj("internal/unchoker", "(*Unchoker).FastUnchoke")
	n := 0
	for _, st := range fieldStores(c, fInterested) {
		st := st
		if !inPkg(st.Fn, c, "torrent") || !kit.Canon(st.Val).IsConstBool(true) {
			continue
		}
		n++
		pe := ""
		if fa, ok := st.Store.Addr.(*ssa.FieldAddr); ok {
			pe = c10Str(fa.X)
		}
		var isFast func(i ssa.Instruction, want string, depth int) bool
		isFast = func(i ssa.Instruction, want string, depth int) bool {
			call, ok := i.(*ssa.Call)
			if !ok {
				return false
			}
			if kit.CalleeObj(&call.Call) == fast {
				return want == "" || c10Str(argOf(&call.Call, 1)) == want
			}
			callee := call.Call.StaticCallee()
			if depth <= 0 || callee == nil || callee.Blocks == nil || !inPkg(callee, c, "torrent") {
				return false
			}
			sub := "\x00none"
			for j, a := range call.Call.Args {
				if j < len(callee.Params) && c10Str(a) == want {
					sub = c10Str(callee.Params[j])
				}
			}
			return c.MustCallSummary(callee, func(i2 ssa.Instruction) bool { return isFast(i2, sub, depth-1) }, 0)
		}
		r := e.c10Discharge(st.Fn, c10Flow{
			open:     func(i ssa.Instruction) bool { return i == ssa.Instruction(st.Store) },
			closeIns: func(i ssa.Instruction) bool { return isFast(i, pe, 2) },
		}, nil, 0)
		e.c10Report(R, k.key(st.Fn, "PeerInterested=true=>FastUnchoke"), posOf(st.Store), r,
			"a peer that becomes interested is offered a free unchoke slot at once",
			"a peer becomes interested but unchoker.FastUnchoke is not called for it: it waits for the next unchoke round (seeder side of the completion property)")
	}
	c.Floor(R, "stores PeerInterested=true in package torrent", n, 1)
	// FastUnchoke can unchoke
	fu := c.Func("internal/unchoker", "(*Unchoker).FastUnchoke")
	un := false
	c.InstrsDeep(fu, 2, false, func(ins ssa.Instruction) {
		if cc := kit.CallOf(ins); cc != nil && cc.StaticCallee() != nil && (cc.StaticCallee().Name() == "unchokePeer" || cc.StaticCallee().Name() == "optimisticUnchokePeer") {
			un = true
		}
	})
	c.Check(un, R, kit.FuncName(fu)+"/unchokes", fu.Pos(), "FastUnchoke reaches unchokePeer", "FastUnchoke never unchokes")
}

// ---- R10.3 web-seed error => retry scheduled ------------------------------

func c10R103(e *c10Env, T func(string) *ssa.Function, TO func(string) *types.Func) {
	c, k := e.c, e.k
	const R = "R10.3"
	fErr := c.Field("internal/urldownloader", "PieceResult", "Error")
	fRetryC := c.Field("torrent", "torrent", "webseedRetryC")
	disable := T("disableSource")
	oDisable := TO("disableSource")
	oNotify := TO("notifyWebseedRetry")
	isErr := func(a kit.Atom) bool { return a.IsNilCmp(false, func(x *kit.Expr) bool { return x.IsField(fErr) }) }

	// which parameter of disableSource is the retry flag: the bool one
	retryIdx := -1
	for i, p := range disable.Params {
		if b, ok := p.Type().Underlying().(*types.Basic); ok && b.Kind() == types.Bool {
			retryIdx = i
		}
	}
	if retryIdx < 0 {
		c.Unknown(R, kit.FuncName(disable)+"/retry parameter", disable.Pos(), "disableSource has no bool parameter")
		return
	}
	var schedules func(i ssa.Instruction, depth int) bool
	schedules = func(i ssa.Instruction, depth int) bool {
		call, ok := i.(*ssa.Call)
		if !ok {
			return false
		}
		if kit.CalleeObj(&call.Call) == oDisable {
			return retryIdx < len(call.Call.Args) && kit.Canon(call.Call.Args[retryIdx]).IsConstBool(true)
		}
		callee := call.Call.StaticCallee()
		if depth <= 0 || callee == nil || callee.Blocks == nil || !inPkg(callee, c, "torrent") {
			return false
		}
		return c.MustCallSummary(callee, func(i2 ssa.Instruction) bool { return schedules(i2, depth-1) }, 0)
	}
	n := 0
	for _, fn := range c.ModuleFunctions() {
		if !inPkg(fn, c, "torrent") {
			continue
		}
		has, pos := c10HasEdge(fn, isErr)
		if !has {
			continue
		}
		n++
		pend := e.c10After(fn, c10Flow{edgeOpen: isErr, closeIns: func(i ssa.Instruction) bool { return schedules(i, 2) }})
		c.Check(len(pend) == 0, R, k.key(fn, "webseed error=>disableSource(retry=true)"), pos,
			"a failed web-seed download disables the source with retry=true on every path",
			"a web-seed download error does not schedule a retry (disableSource(.., retry=true) is not passed): after one transient HTTP error the web seed is never used again")
		r := e.c10Discharge(fn, c10Flow{edgeOpen: isErr, closeIns: func(i ssa.Instruction) bool { return e.c10Rerun(i, nil, 2) }}, nil, 0)
		e.c10Report(R, k.key(fn, "webseed error=>rerun(all)"), pos, r,
			"the range the failed web seed had reserved is re-offered to the other sources",
			"a web-seed download fails and its reserved pieces are unrequested again, but no other source is asked")
	}
	c.Floor(R, "branches on PieceResult.Error in package torrent", n, 1)

	// disableSource: retry => go notifyWebseedRetry
	retry := disable.Params[retryIdx]
	isRetry := func(a kit.Atom) bool { return a.IsTrue(func(x *kit.Expr) bool { return x.V == ssa.Value(retry) }) }
	has, _ := c10HasEdge(disable, isRetry)
	pend := e.c10After(disable, c10Flow{edgeOpen: isRetry, closeIns: func(i ssa.Instruction) bool {
		g, ok := i.(*ssa.Go)
		return ok && kit.CalleeObj(&g.Call) == oNotify
	}})
	c.Check(has && len(pend) == 0, R, kit.FuncName(disable)+"/retry=>go notifyWebseedRetry", disable.Pos(),
		"disableSource with retry set starts notifyWebseedRetry for the disabled source",
		"disableSource ignores its retry flag: no retry goroutine is started")

	// notifyWebseedRetry sends on webseedRetryC
	notify := T("notifyWebseedRetry")
	sends := false
	c.InstrsDeep(notify, 2, false, func(ins ssa.Instruction) {
		switch x := ins.(type) {
		case *ssa.Send:
			if kit.Canon(x.Chan).IsField(fRetryC) {
				sends = true
			}
		case *ssa.Select:
			for _, st := range x.States {
				if st.Dir == types.SendOnly && kit.Canon(st.Chan).IsField(fRetryC) {
					sends = true
				}
			}
		}
	})
	c.Check(sends, R, kit.FuncName(notify)+"/sends webseedRetryC", notify.Pos(),
		"the retry goroutine sends the source on t.webseedRetryC", "notifyWebseedRetry never sends on t.webseedRetryC")

	// the event loop consumes it and re-runs the web-seed picker
	sel, idx := e.c10SelectArm(fRetryC)
	m := 0
	if sel != nil {
		m++
		pend := e.c10After(e.run, c10Flow{edgeOpen: c10ArmEdge(sel, idx), closeIns: func(i ssa.Instruction) bool {
			return kit.CallsAny(i, e.oStartWebseed) || e.c10Rerun(i, nil, 2)
		}})
		c.Check(len(pend) == 0, R, kit.FuncName(e.run)+"/recv webseedRetryC=>startPieceDownloaderForWebseed", posOf(sel),
			"the event loop restarts the web seed when its retry is due", "the event loop receives the web-seed retry but does not restart the source")
	}
	c.Floor(R, "webseedRetryC arm of the event loop", m, 1)
}

// ---- R10.4 queued messages are replayed before the first picker run -------

func c10R104(e *c10Env, T func(string) *ssa.Function, TO func(string) *types.Func) {
	c, k := e.c, e.k
	const R = "R10.4"
	pq := TO("processQueuedMessages")
	// The start sequence may live in the completion handlers themselves or in
	// helpers extracted from them. "Owned" functions are the two handlers and
	// every function of package torrent all of whose uses are plain calls from
	// owned functions: they run only as part of a completion handler. Every
	// call chain from a handler through owned functions to a
	// startPieceDownloaders call is one instance; the fact "processQueuedMessages
	// was called" is carried along the chain (caller's value at the call = entry
	// value of the callee; callee summaries inside each function).
	handlers := []*ssa.Function{T("handleAllocationDone"), T("handleVerificationDone")}
	owned := map[*ssa.Function]bool{}
	for _, h := range handlers {
		owned[h] = true
	}
	for changed := true; changed; {
		changed = false
		for _, fn := range c.ModuleFunctions() {
			if owned[fn] || fn.Parent() != nil || fn.Blocks == nil || !inPkg(fn, c, "torrent") {
				continue
			}
			if o, _ := fn.Object().(*types.Func); o == nil || o == e.oStartAll || o == pq {
				continue
			}
			sites := c.StaticCallSites(fn)
			all := len(sites) > 0
			for _, s := range sites {
				if s == nil || !owned[s.Parent()] {
					all = false
					break
				}
			}
			if all {
				owned[fn] = true
				changed = true
			}
		}
	}
	replayed := c.CalledSpec(kit.DefaultDeep, pq)
	n := 0
	var walk func(h, fn *ssa.Function, entry bool, depth int, busy map[*ssa.Function]bool)
	walk = func(h, fn *ssa.Function, entry bool, depth int, busy map[*ssa.Function]bool) {
		if busy[fn] {
			return
		}
		busy[fn] = true
		defer delete(busy, fn)
		fl := replayed.On(fn, entry)
		kit.Instrs(fn, func(ins ssa.Instruction) {
			if kit.CallsAny(ins, e.oStartAll) {
				n++
				c.Check(fl.Before(ins), R, k.key(h, "processQueuedMessages before startPieceDownloaders"), posOf(ins),
					"the have/bitfield/allowed-fast messages queued while there was no info are replayed before the picker first runs",
					"the picker runs before the queued have/bitfield/allowed-fast messages are replayed (or they are not replayed at all): a choked peer's queued allowed-fast pieces are never requested, peers that announced early are not asked")
				return
			}
			call, ok := ins.(*ssa.Call)
			if !ok || depth <= 0 {
				return
			}
			if g := call.Call.StaticCallee(); g != nil && owned[g] && g != fn {
				walk(h, g, fl.Before(ins), depth-1, busy)
			}
		})
	}
	for _, h := range handlers {
		walk(h, h, false, 4, map[*ssa.Function]bool{})
	}
	c.Floor(R, "call chains from the completion handlers to startPieceDownloaders", n, 3)
	p := T("processQueuedMessages")
	hpm := TO("handlePeerMessage")
	replays := false
	c.InstrsDeep(p, 2, false, func(ins ssa.Instruction) {
		if kit.CallsAny(ins, hpm) {
			replays = true
		}
	})
	c.Check(replays, R, kit.FuncName(p)+"/replays through handlePeerMessage", p.Pos(),
		"queued messages are replayed through handlePeerMessage (whose arms carry the R10.1 obligations)", "processQueuedMessages no longer replays through handlePeerMessage")
}

package rules

import (
	"fmt"
	"go/token"
	"go/types"
	"sort"
	"strings"

	"golang.org/x/tools/go/ssa"

	"rainverif/checker/kit"
)

// Additional C20 rules that came out of independently seeded changes:
//
//	R20.5 lock order: mutex fields and the bbolt write transaction form a
//	      partial order (no cycle in the "acquired while held" graph)
//	R20.6 the byte storage of the loop-owned bitfield never reaches another
//	      goroutine by reference
//	R20.7 a plain reply send of the event loop cannot be abandoned by its
//	      requester (buffered reply channel or unconditional receive)

const boltLock = "bbolt write transaction"

// isBoltUpdate recognises (*bbolt.DB).Update / Batch (one writer at a time).
func isBoltUpdate(cc *ssa.CallCommon) bool {
	if cc == nil {
		return false
	}
	f := cc.StaticCallee()
	if f == nil || f.Signature.Recv() == nil {
		return false
	}
	if f.Name() != "Update" && f.Name() != "Batch" {
		return false
	}
	n := derefNamed(f.Signature.Recv().Type())
	return n != nil && n.Obj().Name() == "DB" && n.Obj().Pkg() != nil && strings.HasSuffix(n.Obj().Pkg().Path(), "bbolt")
}

// closureArg returns the function passed as the callback of a bbolt call.
func closureArg(cc *ssa.CallCommon) *ssa.Function {
	for _, a := range cc.Args {
		switch x := a.(type) {
		case *ssa.MakeClosure:
			if f, ok := x.Fn.(*ssa.Function); ok {
				return f
			}
		case *ssa.Function:
			return x
		}
	}
	return nil
}

// mutexOp: Lock/RLock/Unlock/RUnlock of package sync on a struct field.
func mutexOp(ins ssa.Instruction) (field *types.Var, op string) {
	if _, isDefer := ins.(*ssa.Defer); isDefer {
		return nil, ""
	}
	cc := kit.CallOf(ins)
	if cc == nil || len(cc.Args) == 0 {
		return nil, ""
	}
	f := cc.StaticCallee()
	if f == nil || f.Pkg == nil || f.Pkg.Pkg.Path() != "sync" {
		return nil, ""
	}
	switch f.Name() {
	case "Lock", "RLock", "Unlock", "RUnlock":
	default:
		return nil, ""
	}
	e := kit.Canon(cc.Args[0])
	if e.Kind != "field" && e.Kind != "fieldaddr" || e.Field == nil {
		return nil, ""
	}
	return e.Field, f.Name()
}

func lockName(f *types.Var, owner map[*types.Var]string) string {
	if n, ok := owner[f]; ok {
		return n
	}
	return f.Name()
}

type lockEdge struct {
	from, to string
	pos      token.Pos
	via      string
}

func runC20Locks(c *kit.Ctx, k *keyer) {
	// owner names of mutex fields
	owner := map[*types.Var]string{}
	for _, pkg := range c.Pkgs {
		if pkg.Types == nil {
			continue
		}
		sc := pkg.Types.Scope()
		for _, name := range sc.Names() {
			tn, ok := sc.Lookup(name).(*types.TypeName)
			if !ok {
				continue
			}
			st, ok := tn.Type().Underlying().(*types.Struct)
			if !ok {
				continue
			}
			for i := 0; i < st.NumFields(); i++ {
				owner[st.Field(i)] = tn.Name() + "." + st.Field(i).Name()
			}
		}
	}
	// direct acquisitions per function
	type acq struct {
		ins  ssa.Instruction
		lock string
		f    *types.Var
		cb   *ssa.Function // bbolt callback
	}
	direct := map[*ssa.Function][]acq{}
	locks := map[string]bool{}
	for _, fn := range c.ModuleFunctions() {
		kit.Instrs(fn, func(ins ssa.Instruction) {
			if f, op := mutexOp(ins); f != nil && (op == "Lock" || op == "RLock") {
				n := lockName(f, owner)
				locks[n] = true
				direct[fn] = append(direct[fn], acq{ins: ins, lock: n, f: f})
				return
			}
			if _, isGo := ins.(*ssa.Go); isGo {
				return
			}
			if cc := kit.CallOf(ins); isBoltUpdate(cc) {
				locks[boltLock] = true
				direct[fn] = append(direct[fn], acq{ins: ins, lock: boltLock, cb: closureArg(cc)})
			}
		})
	}
	// module callees of a call instruction (no go statements)
	calleesOf := func(ins ssa.Instruction) []*ssa.Function {
		ci, ok := ins.(ssa.CallInstruction)
		if !ok {
			return nil
		}
		if _, isGo := ins.(*ssa.Go); isGo {
			return nil
		}
		var out []*ssa.Function
		for _, g := range c.Callees(ci) {
			if g.Blocks != nil && kit.InModule(kit.FnPkgPath(g)) {
				out = append(out, g)
			}
		}
		if cc := ci.Common(); isBoltUpdate(cc) {
			if cb := closureArg(cc); cb != nil {
				out = append(out, cb)
			}
		}
		return out
	}
	// transitive acquisitions
	type acqSite struct {
		lock string
		fn   *ssa.Function
	}
	memo := map[*ssa.Function][]acqSite{}
	var trans func(g *ssa.Function) []acqSite
	trans = func(g *ssa.Function) []acqSite {
		if v, ok := memo[g]; ok {
			return v
		}
		seen := map[*ssa.Function]bool{}
		set := map[string]*ssa.Function{}
		var walk func(f *ssa.Function)
		walk = func(f *ssa.Function) {
			if seen[f] {
				return
			}
			seen[f] = true
			for _, a := range direct[f] {
				if _, ok := set[a.lock]; !ok {
					set[a.lock] = f
				}
			}
			kit.Instrs(f, func(ins ssa.Instruction) {
				for _, h := range calleesOf(ins) {
					walk(h)
				}
			})
		}
		walk(g)
		var out []acqSite
		for l, f := range set {
			out = append(out, acqSite{l, f})
		}
		sort.Slice(out, func(i, j int) bool { return out[i].lock < out[j].lock })
		memo[g] = out
		return out
	}
	// edges
	edges := map[[2]string]lockEdge{}
	addEdge := func(from, to string, pos token.Pos, via string) {
		key := [2]string{from, to}
		if _, ok := edges[key]; !ok {
			edges[key] = lockEdge{from, to, pos, via}
		}
	}
	for _, fn := range c.ModuleFunctions() {
		as := direct[fn]
		if len(as) == 0 {
			continue
		}
		heldFields := map[*types.Var]bool{}
		for _, a := range as {
			if a.f != nil {
				heldFields[a.f] = true
			}
			if a.lock == boltLock && a.cb != nil {
				for _, x := range trans(a.cb) {
					addEdge(boltLock, x.lock, a.ins.Pos(), "callback "+kit.FuncName(a.cb)+" -> "+kit.FuncName(x.fn))
				}
			}
		}
		for f := range heldFields {
			held := mutexFlow(c, fn, f)
			from := lockName(f, owner)
			kit.Instrs(fn, func(ins ssa.Instruction) {
				if _, isGo := ins.(*ssa.Go); isGo {
					return
				}
				if _, isDefer := ins.(*ssa.Defer); isDefer {
					return
				}
				if !held.Before(ins) {
					return
				}
				if f2, op := mutexOp(ins); f2 != nil {
					if (op == "Lock" || op == "RLock") && f2 != f {
						addEdge(from, lockName(f2, owner), ins.Pos(), "in "+kit.FuncName(fn))
					}
					return
				}
				if cc := kit.CallOf(ins); isBoltUpdate(cc) {
					addEdge(from, boltLock, ins.Pos(), "in "+kit.FuncName(fn))
				}
				for _, g := range calleesOf(ins) {
					for _, x := range trans(g) {
						if x.lock == from {
							continue
						}
						addEdge(from, x.lock, ins.Pos(), kit.FuncName(fn)+" calls "+kit.FuncName(g)+" -> "+kit.FuncName(x.fn))
					}
				}
			})
		}
	}
	// cycles: Tarjan over lock names
	adj := map[string][]string{}
	for key := range edges {
		adj[key[0]] = append(adj[key[0]], key[1])
	}
	for n := range adj {
		sort.Strings(adj[n])
	}
	var names []string
	for n := range locks {
		names = append(names, n)
	}
	sort.Strings(names)
	index, low := map[string]int{}, map[string]int{}
	onStack := map[string]bool{}
	var stack []string
	idx := 0
	var sccs [][]string
	var strong func(v string)
	strong = func(v string) {
		idx++
		index[v], low[v] = idx, idx
		stack = append(stack, v)
		onStack[v] = true
		for _, w := range adj[v] {
			if index[w] == 0 {
				strong(w)
				if low[w] < low[v] {
					low[v] = low[w]
				}
			} else if onStack[w] && index[w] < low[v] {
				low[v] = index[w]
			}
		}
		if low[v] == index[v] {
			var comp []string
			for {
				w := stack[len(stack)-1]
				stack = stack[:len(stack)-1]
				onStack[w] = false
				comp = append(comp, w)
				if w == v {
					break
				}
			}
			sort.Strings(comp)
			sccs = append(sccs, comp)
		}
	}
	for _, n := range names {
		if index[n] == 0 {
			strong(n)
		}
	}
	inCycle := map[string]bool{}
	for _, comp := range sccs {
		self := len(comp) == 1 && func() bool { _, ok := edges[[2]string{comp[0], comp[0]}]; return ok }()
		if len(comp) < 2 && !self {
			continue
		}
		var desc []string
		var pos token.Pos
		for _, a := range comp {
			inCycle[a] = true
			for _, b := range comp {
				if e, ok := edges[[2]string{a, b}]; ok {
					desc = append(desc, fmt.Sprintf("%s -> %s (%s @%s)", a, b, e.via, c.Pos(e.pos)))
					// the report points at the edge that leaves a mutex towards the database
					// (the loop-side half of the cycle) when there is one
					if pos == token.NoPos || b == boltLock {
						pos = e.pos
					}
				}
			}
		}
		sort.Strings(desc)
		c.Bad("R20.5", "lock-order cycle "+strings.Join(comp, " <-> "), pos, "locks are taken in both orders, two goroutines can wait for each other for ever: %s", strings.Join(desc, "; "))
	}
	var ekeys [][2]string
	for key := range edges {
		ekeys = append(ekeys, key)
	}
	sort.Slice(ekeys, func(i, j int) bool { return ekeys[i][0]+ekeys[i][1] < ekeys[j][0]+ekeys[j][1] })
	for _, key := range ekeys {
		if inCycle[key[0]] && inCycle[key[1]] {
			continue
		}
		e := edges[key]
		c.OK("R20.5", "lock order "+key[0]+" -> "+key[1], e.pos, "%s is acquired while %s is held (%s); no path acquires them in the opposite order", key[1], key[0], e.via)
	}
	c.Floor("R20.5", "lock classes (mutex fields + bbolt write transaction)", len(locks), 8)
	c.Floor("R20.5", "acquired-while-held edges", len(edges), 2)
}

// ---------------------------------------------------------------- R20.6 --

type escWalker struct {
	c     *kit.Ctx
	tT    *types.Named // torrent struct: stores into its own fields stay with the loop
	memo  map[escKey]*escRes
	depth int
}

type escKey struct {
	fn  *ssa.Function
	idx int // parameter index; -1-i for free variable i
}

type escRes struct {
	escape string // non-empty: how the value reaches another goroutine
	result bool   // flows to a result of the function
}

// follow traces value v (a reference into the protected storage) forward
// inside its function. It returns a description of the first escape found.
func (w *escWalker) follow(v ssa.Value, depth int, seen map[ssa.Value]bool) (string, bool) {
	if seen[v] {
		return "", false
	}
	seen[v] = true
	toResult := false
	refs := v.Referrers()
	if refs == nil {
		return "", false
	}
	for _, r := range *refs {
		switch x := r.(type) {
		case *ssa.Send:
			if x.X == v {
				return fmt.Sprintf("sent on channel %s @%s", kit.Canon(x.Chan), w.c.Pos(x.Pos())), false
			}
		case *ssa.Select:
			for _, st := range x.States {
				if st.Dir == types.SendOnly && st.Send == v {
					return fmt.Sprintf("sent on channel %s @%s", kit.Canon(st.Chan), w.c.Pos(x.Pos())), false
				}
			}
		case *ssa.Go:
			return fmt.Sprintf("passed to a new goroutine @%s", w.c.Pos(x.Pos())), false
		case *ssa.Return:
			toResult = true
		case *ssa.Store:
			if x.Val != v {
				continue // v is the address: a write into the storage, not an alias
			}
			root := x.Addr
			for {
				switch a := root.(type) {
				case *ssa.FieldAddr:
					root = a.X
					continue
				case *ssa.IndexAddr:
					root = a.X
					continue
				}
				break
			}
			switch a := root.(type) {
			case *ssa.Alloc:
				if e, res := w.follow(a, depth, seen); e != "" {
					return e, false
				} else if res {
					toResult = true
				}
			default:
				// a field of the torrent itself stays loop-owned
				if fa, ok := x.Addr.(*ssa.FieldAddr); ok && derefNamed(fa.X.Type()) == w.tT {
					continue
				}
				if p, ok := root.(*ssa.Parameter); ok {
					// stored into an object of the caller: the caller's view of that
					// object now aliases the storage
					_ = p
					toResult = true
					continue
				}
				return fmt.Sprintf("stored into heap object %s @%s", kit.Canon(x.Addr), w.c.Pos(x.Pos())), false
			}
		case *ssa.MapUpdate:
			if x.Value == v {
				return fmt.Sprintf("stored into map %s @%s", kit.Canon(x.Map), w.c.Pos(x.Pos())), false
			}
		case *ssa.MakeClosure:
			fn, _ := x.Fn.(*ssa.Function)
			if fn != nil {
				for i, b := range x.Bindings {
					if b == v && i < len(fn.FreeVars) {
						if e, _ := w.follow(fn.FreeVars[i], depth, seen); e != "" {
							return e + " (in closure " + kit.FuncName(fn) + ")", false
						}
					}
				}
			}
			// the closure value carries the reference
			if e, res := w.follow(x, depth, seen); e != "" {
				return e, false
			} else if res {
				toResult = true
			}
		case ssa.CallInstruction:
			cc := x.Common()
			if _, isDefer := x.(*ssa.Defer); isDefer && cc.StaticCallee() == nil {
				continue
			}
			if b, ok := cc.Value.(*ssa.Builtin); ok {
				switch b.Name() {
				case "append":
					if len(cc.Args) > 0 && cc.Args[0] == v {
						if val, ok := x.(ssa.Value); ok {
							if e, res := w.follow(val, depth, seen); e != "" {
								return e, false
							} else if res {
								toResult = true
							}
						}
					}
				}
				continue // len, cap, copy: no alias created
			}
			var callees []*ssa.Function
			for _, g := range w.c.Callees(x) {
				if g.Blocks != nil && kit.InModule(kit.FnPkgPath(g)) {
					callees = append(callees, g)
				}
			}
			// callees outside the module (bbolt Put, io.Writer of a file, ...) are
			// assumed to use the bytes synchronously
			for _, g := range callees {
				for i, a := range cc.Args {
					if a != v {
						continue
					}
					pi := i
					if cc.IsInvoke() {
						pi = i + 1
					}
					res := w.param(g, pi, depth-1)
					if res.escape != "" {
						return fmt.Sprintf("%s -> %s", kit.FuncName(g), res.escape), false
					}
					if res.result {
						if val, ok := x.(ssa.Value); ok {
							if e, r2 := w.follow(val, depth, seen); e != "" {
								return e, false
							} else if r2 {
								toResult = true
							}
						}
					}
				}
				if cc.IsInvoke() && cc.Value == v {
					res := w.param(g, 0, depth-1)
					if res.escape != "" {
						return fmt.Sprintf("%s -> %s", kit.FuncName(g), res.escape), false
					}
				}
			}
		case *ssa.Convert:
			// []byte -> string copies
			if _, isStr := x.Type().Underlying().(*types.Basic); isStr {
				continue
			}
			if e, res := w.follow(x, depth, seen); e != "" {
				return e, false
			} else if res {
				toResult = true
			}
		case *ssa.UnOp:
			if x.Op == token.MUL {
				// load through a tainted local: the loaded value (struct or pointer) carries it
				if _, isAlloc := v.(*ssa.Alloc); isAlloc && carriesRef(x.Type()) {
					if e, res := w.follow(x, depth, seen); e != "" {
						return e, false
					} else if res {
						toResult = true
					}
				}
			}
		case *ssa.FieldAddr:
			if _, isAlloc := v.(*ssa.Alloc); isAlloc || isPtr(v.Type()) {
				if e, res := w.follow(x, depth, seen); e != "" {
					return e, false
				} else if res {
					toResult = true
				}
			}
		case *ssa.Field:
			if carriesRef(x.Type()) {
				if e, res := w.follow(x, depth, seen); e != "" {
					return e, false
				} else if res {
					toResult = true
				}
			}
		case *ssa.Phi, *ssa.MakeInterface, *ssa.ChangeType, *ssa.ChangeInterface, *ssa.Slice, *ssa.TypeAssert, *ssa.Extract:
			if val, ok := r.(ssa.Value); ok && carriesRef(val.Type()) {
				if e, res := w.follow(val, depth, seen); e != "" {
					return e, false
				} else if res {
					toResult = true
				}
			}
		}
	}
	return "", toResult
}

func isPtr(t types.Type) bool {
	_, ok := t.Underlying().(*types.Pointer)
	return ok
}

// carriesRef: a value of type t can hold a reference to a byte slice's storage.
func carriesRef(t types.Type) bool {
	switch u := t.Underlying().(type) {
	case *types.Basic:
		return false
	case *types.Tuple:
		for i := 0; i < u.Len(); i++ {
			if carriesRef(u.At(i).Type()) {
				return true
			}
		}
		return false
	}
	return true
}

func (w *escWalker) param(g *ssa.Function, idx int, depth int) *escRes {
	key := escKey{g, idx}
	if r, ok := w.memo[key]; ok {
		return r
	}
	res := &escRes{}
	w.memo[key] = res // recursion: optimistic
	if depth <= 0 || idx >= len(g.Params) {
		return res
	}
	e, toRes := w.follow(g.Params[idx], depth, map[ssa.Value]bool{})
	res.escape, res.result = e, toRes
	return res
}

func runC20Alias(c *kit.Ctx, k *keyer) {
	tT := c.Named("torrent", "torrent")
	fBitfield := c.Field("torrent", "torrent", "bitfield")
	bytesFn := c.FuncObj("internal/bitfield", "(*Bitfield).Bytes")
	w := &escWalker{c: c, tT: tT, memo: map[escKey]*escRes{}}
	n := 0
	type src struct {
		val  ssa.Value
		fn   *ssa.Function
		what string
	}
	var work []src
	for _, s := range sortSites(c.CallSites(bytesFn)) {
		cc := s.Instr.Common()
		if len(cc.Args) == 0 || !kit.Canon(cc.Args[0]).IsField(fBitfield) {
			continue
		}
		if v, ok := s.Instr.(ssa.Value); ok {
			work = append(work, src{v, s.Fn, "torrent.bitfield.Bytes()"})
		}
	}
	seenFn := map[*ssa.Function]bool{}
	for i := 0; i < len(work); i++ {
		s := work[i]
		n++
		e, toRes := w.follow(s.val, 5, map[ssa.Value]bool{})
		key := k.key(s.fn, "alias of bitfield bytes")
		if e != "" {
			c.Bad("R20.6", key, s.val.Pos(), "%s in %s hands the live storage of the loop-owned bitfield to another goroutine (%s): the loop keeps setting bits in it while the other goroutine reads it (data race; peers can be told about pieces that are not verified yet)", s.what, kit.FuncName(s.fn), e)
			continue
		}
		c.OK("R20.6", key, s.val.Pos(), "%s is only measured, copied or handed to synchronous callees", s.what)
		if toRes && !seenFn[s.fn] {
			seenFn[s.fn] = true
			for _, site := range c.StaticCallSites(s.fn) {
				if site == nil {
					c.Bad("R20.6", k.key(s.fn, "bitfield bytes returned"), s.fn.Pos(), "%s returns the live bitfield storage and is used as a value / go / defer target: its consumers cannot be enumerated", kit.FuncName(s.fn))
					continue
				}
				if v, ok := site.(ssa.Value); ok {
					work = append(work, src{v, site.Parent(), "result of " + kit.FuncName(s.fn) + " (the bitfield's storage)"})
				}
			}
		}
	}
	c.Floor("R20.6", "uses of the loop-owned bitfield's byte storage", n, 3)
}

// ---------------------------------------------------------------- R20.7 --

func runC20Reply(c *kit.Ctx, k *keyer) {
	run := c.Func("torrent", "(*torrent).run")
	tT := c.Named("torrent", "torrent")
	sT := c.Named("torrent", "Session")
	loop := c.Reach([]*ssa.Function{run}, false, func(f *ssa.Function) bool { return !inPkg(f, c, "torrent") })
	var fns []*ssa.Function
	for f := range loop {
		if f.Blocks != nil && inPkg(f, c, "torrent") {
			fns = append(fns, f)
		}
	}
	sort.Slice(fns, func(i, j int) bool { return kit.FuncName(fns[i]) < kit.FuncName(fns[j]) })
	n := 0
	seen := map[*types.Var]bool{}
	for _, fn := range fns {
		kit.Instrs(fn, func(ins ssa.Instruction) {
			snd, ok := ins.(*ssa.Send)
			if !ok {
				return
			}
			e := kit.Canon(snd.Chan)
			if e.Kind != "field" || e.Field == nil {
				return
			}
			f := e.Field
			// reply channels live in request structs, not in the torrent or the session
			ownerT := fieldOwnerT(c, f)
			if ownerT == nil || ownerT == tT || ownerT == sT || seen[f] {
				return
			}
			seen[f] = true
			n++
			key := "reply " + ownerT.Obj().Name() + "." + f.Name()
			if alwaysBuffered(c, f) {
				c.OK("R20.7", key, posOf(ins), "the loop replies on %s.%s, which is always made with capacity >= 1: the send cannot block", ownerT.Obj().Name(), f.Name())
				return
			}
			// unbuffered somewhere: every requester must wait unconditionally
			bad := ""
			var visit func(v ssa.Value, seenV map[ssa.Value]bool)
			visit = func(v ssa.Value, seenV map[ssa.Value]bool) {
				if seenV[v] {
					return
				}
				seenV[v] = true
				refs := v.Referrers()
				if refs == nil {
					return
				}
				for _, r := range *refs {
					switch x := r.(type) {
					case *ssa.UnOp:
						if x.Op == token.ARROW {
							continue // plain receive
						}
					case *ssa.Send:
						if x.Chan == v {
							continue
						}
					case *ssa.DebugRef:
						continue
					case *ssa.ChangeType:
						visit(x, seenV) // conversion to a directional channel type
						continue
					case *ssa.Phi:
						visit(x, seenV)
						continue
					case *ssa.Store:
						if x.Val == v {
							if _, isFA := x.Addr.(*ssa.FieldAddr); isFA {
								continue // construction of the request
							}
						}
					}
					bad = fmt.Sprintf("%s uses the reply channel in `%s` @%s", kit.FuncName(v.Parent()), r.String(), c.Pos(r.Pos()))
				}
			}
			for _, ld := range c.FieldLoads(f) {
				if ld.Parent() == nil || !kit.InModule(kit.FnPkgPath(ld.Parent())) {
					continue
				}
				visit(ld, map[ssa.Value]bool{})
			}
			c.Check(bad == "", "R20.7", key, posOf(ins),
				"every requester of "+ownerT.Obj().Name()+"."+f.Name()+" receives the reply unconditionally (the loop's plain send always finds its receiver)",
				"the event loop replies with a plain send on "+ownerT.Obj().Name()+"."+f.Name()+" (unbuffered), but the requester can give up waiting ("+bad+"): the loop then blocks in that send for ever and every later API call, Stop and Close hang")
		})
	}
	c.Floor("R20.7", "reply channels the event loop sends on", n, 4)
}

// fieldOwnerT returns the named struct type of the module that declares f.
func fieldOwnerT(c *kit.Ctx, f *types.Var) *types.Named {
	if f.Pkg() == nil {
		return nil
	}
	sc := f.Pkg().Scope()
	for _, name := range sc.Names() {
		tn, ok := sc.Lookup(name).(*types.TypeName)
		if !ok {
			continue
		}
		st, ok := tn.Type().Underlying().(*types.Struct)
		if !ok {
			continue
		}
		for i := 0; i < st.NumFields(); i++ {
			if st.Field(i) == f {
				n, _ := tn.Type().(*types.Named)
				return n
			}
		}
	}
	return nil
}

// ---------------------------------------------------------------- R20.8 --

// runC20Retain: a loop-owned container (map / slice / pointer field of the
// torrent that the event loop mutates) handed to a callee must not be
// retained in a field that another goroutine reads. Handing it to a
// synchronous helper is fine (the loop is the only goroutine running then);
// keeping a reference in an object whose fields are read from a goroutine
// root other than the event loop makes that goroutine iterate / index the
// container while the loop inserts and deletes.
func runC20Retain(c *kit.Ctx, k *keyer, loop, outside map[*ssa.Function]bool, loopWrites map[tpath]bool, tStruct *types.Named) {
	refType := func(t types.Type) bool {
		switch u := t.Underlying().(type) {
		case *types.Map, *types.Slice:
			return true
		case *types.Pointer:
			_, isStruct := u.Elem().Underlying().(*types.Struct)
			return isStruct && !syncType(u.Elem())
		}
		return false
	}
	// fields read in another goroutine's context
	readOutside := map[*types.Var]*ssa.Function{}
	var outs []*ssa.Function
	for f := range outside {
		if f.Blocks != nil && kit.InModule(kit.FnPkgPath(f)) && !loop[f] {
			outs = append(outs, f)
		}
	}
	sort.Slice(outs, func(i, j int) bool { return kit.FuncName(outs[i]) < kit.FuncName(outs[j]) })
	for _, f := range outs {
		kit.Instrs(f, func(ins ssa.Instruction) {
			var fld *types.Var
			switch x := ins.(type) {
			case *ssa.FieldAddr:
				if st := derefStructT(x.X.Type()); st != nil {
					fld = st.Field(x.Field)
				}
			case *ssa.Field:
				if st, ok := x.X.Type().Underlying().(*types.Struct); ok {
					fld = st.Field(x.Field)
				}
			}
			if fld != nil {
				if _, ok := readOutside[fld]; !ok {
					readOutside[fld] = f
				}
			}
		})
	}
	// fields a value is retained in (transitively through callees)
	type pkey struct {
		fn  *ssa.Function
		idx int
	}
	memo := map[pkey][]*types.Var{}
	var retained func(v ssa.Value, depth int, seen map[ssa.Value]bool) []*types.Var
	var ofParam func(g *ssa.Function, idx, depth int) []*types.Var
	ofParam = func(g *ssa.Function, idx, depth int) []*types.Var {
		key := pkey{g, idx}
		if r, ok := memo[key]; ok {
			return r
		}
		memo[key] = nil
		if depth <= 0 || idx >= len(g.Params) {
			return nil
		}
		r := retained(g.Params[idx], depth, map[ssa.Value]bool{})
		memo[key] = r
		return r
	}
	retained = func(v ssa.Value, depth int, seen map[ssa.Value]bool) []*types.Var {
		if seen[v] || v.Referrers() == nil {
			return nil
		}
		seen[v] = true
		var out []*types.Var
		for _, r := range *v.Referrers() {
			switch x := r.(type) {
			case *ssa.Store:
				if x.Val != v {
					continue
				}
				if fa, ok := x.Addr.(*ssa.FieldAddr); ok {
					if st := derefStructT(fa.X.Type()); st != nil && derefNamed(fa.X.Type()) != tStruct {
						out = append(out, st.Field(fa.Field))
					}
				}
			case *ssa.Call:
				cc := x.Common()
				if _, isB := cc.Value.(*ssa.Builtin); isB {
					continue
				}
				for _, g := range c.Callees(x) {
					if g.Blocks == nil || !kit.InModule(kit.FnPkgPath(g)) {
						continue
					}
					for i, a := range cc.Args {
						if a != v {
							continue
						}
						pi := i
						if cc.IsInvoke() {
							pi = i + 1
						}
						out = append(out, ofParam(g, pi, depth-1)...)
					}
				}
			case *ssa.Phi, *ssa.MakeInterface, *ssa.ChangeType, *ssa.Slice:
				out = append(out, retained(r.(ssa.Value), depth, seen)...)
			}
		}
		return out
	}
	var fns []*ssa.Function
	for f := range loop {
		if f.Blocks != nil && inPkg(f, c, "torrent") {
			fns = append(fns, f)
		}
	}
	sort.Slice(fns, func(i, j int) bool { return kit.FuncName(fns[i]) < kit.FuncName(fns[j]) })
	n := 0
	for _, f := range fns {
		kit.Instrs(f, func(ins ssa.Instruction) {
			call, ok := ins.(*ssa.Call)
			if !ok {
				return
			}
			cc := call.Common()
			if _, isB := cc.Value.(*ssa.Builtin); isB {
				return
			}
			for i, a := range cc.Args {
				if !refType(a.Type()) {
					continue
				}
				if i == 0 && !cc.IsInvoke() && cc.StaticCallee() != nil && cc.StaticCallee().Signature.Recv() != nil {
					continue // method call on a loop-owned object: the receiver is not handed over
				}
				e := kit.Canon(a)
				if (e.Kind != "field" && e.Kind != "fieldaddr") || e.Field == nil || !ownerIs(e, tStruct) {
					continue
				}
				if !loopWrites[tpath{f1: e.Field}] {
					continue
				}
				n++
				var bad []string
				for _, g := range c.Callees(call) {
					if g.Blocks == nil || !kit.InModule(kit.FnPkgPath(g)) {
						continue
					}
					pi := i
					if cc.IsInvoke() {
						pi = i + 1
					}
					for _, fld := range ofParam(g, pi, 4) {
						if rf, ok := readOutside[fld]; ok {
							bad = append(bad, fmt.Sprintf("%s keeps it in field %s, which %s reads on another goroutine", kit.FuncName(g), fld.Name(), kit.FuncName(rf)))
						}
					}
				}
				key := k.key(f, "hands torrent."+e.Field.Name()+" to a callee")
				if len(bad) > 0 {
					sort.Strings(bad)
					c.Bad("R20.8", key, posOf(ins), "the event loop passes its own torrent.%s (a live %s it keeps mutating) by reference and the callee retains it where another goroutine reads it: %s", e.Field.Name(), a.Type().Underlying().String(), bad[0])
				} else {
					c.OK("R20.8", key, posOf(ins), "torrent.%s is used synchronously by the callee (not retained in a field that another goroutine reads)", e.Field.Name())
				}
			}
		})
	}
	c.Floor("R20.8", "loop-owned containers passed by reference from the event loop", n, 3)
}

// ---------------------------------------------------------------- R16.6 --

// runReusedReadBuffer: a buffer that is allocated once and refilled by a read
// call on every iteration of a receive loop must not be handed to another
// goroutine by reference (channel send, go statement, retained in a heap
// object): the next read overwrites it while the receiver is still parsing
// it, so a reply can be mixed with, or replaced by, the following datagram.
func runReusedReadBuffer(c *kit.Ctx, rule string, pkgs ...string) {
	k := newKeyer()
	w := &escWalker{c: c, memo: map[escKey]*escRes{}}
	inLoop := func(b *ssa.BasicBlock) bool {
		// b is on a cycle
		seen := map[*ssa.BasicBlock]bool{}
		var stack []*ssa.BasicBlock
		stack = append(stack, b.Succs...)
		for len(stack) > 0 {
			x := stack[len(stack)-1]
			stack = stack[:len(stack)-1]
			if x == b {
				return true
			}
			if seen[x] {
				continue
			}
			seen[x] = true
			stack = append(stack, x.Succs...)
		}
		return false
	}
	n := 0
	for _, fn := range c.ModuleFunctions() {
		ok := false
		for _, p := range pkgs {
			if inPkg(fn, c, p) {
				ok = true
			}
		}
		if !ok {
			continue
		}
		kit.Instrs(fn, func(ins ssa.Instruction) {
			call, isCall := ins.(*ssa.Call)
			if !isCall || !inLoop(call.Block()) {
				return
			}
			cc := call.Common()
			name := ""
			if cc.IsInvoke() {
				name = cc.Method.Name()
			} else if sc := cc.StaticCallee(); sc != nil {
				name = sc.Name()
			}
			switch name {
			case "Read", "ReadFrom", "ReadFromUDP", "ReadMsgUDP", "ReadFull", "ReadAtLeast":
			default:
				return
			}
			for _, a := range cc.Args {
				sl, isSlice := a.Type().Underlying().(*types.Slice)
				if !isSlice || !isByte(sl.Elem()) {
					continue
				}
				// root allocation of the buffer
				root := a
				for {
					if s, ok := root.(*ssa.Slice); ok {
						root = s.X
						continue
					}
					break
				}
				var alloc ssa.Value
				switch x := root.(type) {
				case *ssa.MakeSlice:
					alloc = x
				case *ssa.Alloc:
					alloc = x
				}
				if alloc == nil {
					continue
				}
				ai := alloc.(ssa.Instruction)
				if inLoop(ai.Block()) {
					continue // a fresh buffer per iteration
				}
				n++
				key := k.key(fn, "receive buffer reused by "+name)
				if e, _ := w.follow(alloc, 4, map[ssa.Value]bool{}); e != "" {
					c.Bad(rule, key, posOf(call), "%s refills one buffer on every iteration of its receive loop and hands (a slice of) that same buffer to another goroutine (%s): the next %s overwrites the datagram while the receiver is still parsing it, a reply can be replaced by or mixed with the next packet", kit.FuncName(fn), e, name)
				} else {
					c.OK(rule, key, posOf(call), "the reused receive buffer of %s is copied before anything is handed to another goroutine", kit.FuncName(fn))
				}
			}
		})
	}
	c.Floor(rule, "receive loops with a reused buffer", n, 1)
}

func isByte(t types.Type) bool {
	b, ok := t.Underlying().(*types.Basic)
	return ok && b.Kind() == types.Uint8
}

func init() {
	registerExtra("C16", func(c *kit.Ctx) {
		runReusedReadBuffer(c, "R16.6", "internal/tracker/udptracker", "internal/tracker/httptracker", "internal/tracker")
	})
}
